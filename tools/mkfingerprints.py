#!/usr/bin/env python3
"""Write /verif/fingerprints.json: sha256 of the anchored source files of /repo as they are now (run after a repo fix)."""
import json
import pathlib
import subprocess
import sys

VERIF = pathlib.Path(__file__).resolve().parent.parent
sys.path.insert(0, str(VERIF / 'harness'))
import core  # noqa: E402

fp = core.fingerprint_now()
head = subprocess.run(['git', '-C', str(core.REPO), 'rev-parse', '--short', 'HEAD'], capture_output=True, text=True).stdout.strip()
(VERIF / 'fingerprints.json').write_text(json.dumps({'_repo_head': head, **fp}, indent=1) + '\n')
print(len(fp), 'files at', head)

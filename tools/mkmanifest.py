#!/usr/bin/env python3
"""Regenerate /verif/MANIFEST.json from the per-property modules in harness/props (run after adding a check)."""
import importlib
import json
import pathlib
import sys

VERIF = pathlib.Path(__file__).resolve().parent.parent
sys.path.insert(0, str(VERIF / 'harness'))

props = [json.loads(l) for l in (VERIF / 'properties.jsonl').read_text().splitlines() if l.strip()]
checks, na = [], []
for p in props:
    pid = p['id']
    try:
        mod = importlib.import_module(f'props.{pid.lower()}')
        claim = mod.CLAIM
    except (ImportError, AttributeError) as e:
        na.append({'property_id': pid, 'reason': 'check not built yet in this framework (planned, see DESIGN.md section 6); '
                                                 'not a statement that the technique cannot apply'})
        continue
    checks.append({
        'property_id': pid,
        'quick_cmd': f'./check {pid} --tier quick',
        'thorough_cmd': f'./check {pid} --tier thorough',
        'evidence_file': f'evidence/{pid}.json',
        'replay_cmd_template': f'./check {pid} --replay {{path}}',
        'engine': 'lean4-proof+correspondence',
        'level_claimed': {'category': 'proof', 'text': claim['text'], 'design_ref': claim.get('design_ref', f'DESIGN.md section 6 ({pid}: plan) and section 11.2 (as built)')},
        'level_note': claim['note'],
        'technique': claim['technique'],
    })
m = {
    'version': 1,
    'setup_cmd': 'cd lean && lake build',
    'hooks': {
        'guard': 'FEMTO_VERIF',
        'enable': 'export FEMTO_VERIF=1 (set by ./check; the checks observe the library through its public API and need no source hooks)',
        'baseline_off_cmd': 'cd /repo && env -u FEMTO_VERIF /venv/bin/python -m pytest -ra -q -p no:cacheprovider --timeout=900 --continue-on-collection-errors',
        'source_commits': [],
        'add_only': True,
    },
    'engines': [{
        'name': 'lean4-proof+correspondence',
        'path': 'lean/ (theorems, executable models, driver), harness/ (correspondence, spec-on-implementation), tools/ (translator, extractor)',
        'serves_properties': [c['property_id'] for c in checks],
        'kind_free_text': 'Lean 4 theorems about an executable model; the model is tied to /repo on every run by regenerating '
                          'Gen/*.lean from the source and by a differential correspondence check through a JSON-lines driver',
    }],
    'checks': checks,
    'notes': 'Exit 0 = held, 1 = VIOLATION line printed, 2 = infrastructure failure/time-out. VERIF_SEED selects the PRNG '
             'stream; FEMTO_REPO overrides /repo. Open findings are listed in known_findings.json.',
    'not_applicable': na,
}
(VERIF / 'MANIFEST.json').write_text(json.dumps(m, indent=1) + '\n')
print(f'{len(checks)} checks, {len(na)} not yet claimed')

#!/usr/bin/env python3
"""Turn a confirmed seeded change into /verif/seeded/<ID>-<v>/ and record which checks catch it.

usage: tools/mkseeded.py <staging dir> <ID><v> [--also C02,C09] [--origin TEXT]

The staging directory holds patch.diff, demo.py, notes.md (written by a sub-agent that saw only the property text and its own
scratch worktree, possibly rebased / adapted by me — say so with --origin) and must have been validated by
tools/validate_seed.sh against the current /repo HEAD (result in /tmp/vs/results/<ID><v>.json).  The change is applied to
/repo's working tree, the quick checks are run, and the tree is restored with `git checkout -- .`; nothing is committed there.
"""
import argparse
import json
import pathlib
import re
import shutil
import subprocess
import sys

VERIF = pathlib.Path(__file__).resolve().parent.parent
REPO = pathlib.Path('/repo')


def sh(cmd, cwd=None, timeout=3600):
    p = subprocess.run(cmd, cwd=cwd, shell=isinstance(cmd, str), capture_output=True, text=True, timeout=timeout)
    return p.returncode, p.stdout + p.stderr


def main():
    ap = argparse.ArgumentParser()
    ap.add_argument('stage')
    ap.add_argument('name')
    ap.add_argument('--also', default='')
    ap.add_argument('--origin', default='')
    ap.add_argument('--strengthening', default='')
    a = ap.parse_args()
    stage = pathlib.Path(a.stage)
    pid, v = a.name[:3], a.name[3:]
    res_file = pathlib.Path(f'/tmp/vs/results/{a.name}.json')
    val = json.loads(res_file.read_text()) if res_file.exists() else None
    head = sh(['git', '-C', str(REPO), 'rev-parse', '--short', 'HEAD'])[1].strip()
    if not val or not val.get('applies') or val.get('demo_clean_rc') != 0 or val.get('demo_mut_rc') in (0, -1) \
            or 'passed' not in (val.get('tests') or '') or 'failed' in (val.get('tests') or '') or val.get('head') != head:
        print(f'{a.name}: NOT CONFIRMED at {head}: {val}')
        return 1
    rc, out = sh(['git', '-C', str(REPO), 'status', '--porcelain'])
    if out.strip():
        print('repo not clean')
        return 2
    checks = [pid] + [c for c in a.also.split(',') if c]
    caught = {}
    rc, out = sh(['git', '-C', str(REPO), 'apply', str(stage / 'patch.diff')])
    if rc != 0:
        print('patch does not apply to /repo:', out)
        return 2
    try:
        for c in checks:
            rc, out = sh(['./check', c, '--tier', 'quick'], cwd=VERIF)
            m = re.search(r'VIOLATION property=(\S+) replay=(\S+)(.*)', out)
            entry = {'rc': rc, 'violation': bool(m), 'no_failing_input_found': bool(m and 'no-failing-input-found' in m.group(3))}
            if m:
                try:
                    rp = json.loads(pathlib.Path(m.group(2)).read_text())
                    entry['kind'] = rp.get('kind')
                    entry['signature'] = rp.get('signature')
                    entry['detail'] = (rp.get('detail') or '')[:300]
                    if rp.get('no_longer_checks'):
                        entry['no_longer_checks'] = json.dumps(rp['no_longer_checks'])[:300]
                except Exception as e:  # noqa
                    entry['replay_unreadable'] = str(e)
            s = re.search(r'^\[' + c + r'\].*$', out, re.M)
            entry['summary'] = s.group(0) if s else out[-300:]
            caught[c] = entry
    finally:
        sh(['git', '-C', str(REPO), 'checkout', '--', '.'])
        # the generated Lean files are a function of the repository: bring them back to the restored tree
        sh(['/venv/bin/python', '-c', "import sys; sys.path.insert(0, '.'); import gen; gen.regen_all()"], cwd=VERIF / 'harness')
    dst = VERIF / 'seeded' / f'{pid}-{v}'
    dst.mkdir(parents=True, exist_ok=True)
    for f in ('patch.diff', 'demo.py', 'notes.md'):
        if (stage / f).exists():
            shutil.copy(stage / f, dst / f)
    notes = (stage / 'notes.md').read_text() if (stage / 'notes.md').exists() else ''
    title = notes.splitlines()[0].lstrip('# ').strip() if notes else ''
    need = re.search(r'\*\*Needed to manifest\*?\*?:?\*?\*?:?\s*(.+?)(?:\n\s*\n|\n\*\*|\n\* \*\*)', notes, re.S | re.I)
    why = re.search(r'\*\*Why it breaks the property\*?\*?\.?:?\*?\*?:?\s*(.+?)(?:\n\s*\n|\n\*\*|\n\* \*\*)', notes, re.S | re.I)
    meta = {
        'property': pid,
        'variant': v,
        'title': title,
        'breaks': ' '.join((why.group(1) if why else title).split()),
        'needs_to_manifest': ' '.join((need.group(1) if need else 'see notes.md').split()),
        'origin': a.origin or 'fresh sub-agent given only the property text and a scratch worktree',
        'confirmed_by_me': {
            'repo_head': head,
            'what_i_ran': [
                f'tools/validate_seed.sh {pid} {v} <dir>  (scratch worktree of /repo HEAD under /tmp/vs, removed afterwards): '
                'demo.py on the clean worktree, git apply patch.diff, demo.py again, full unedited test-suite',
                f'git -C /repo apply patch.diff; ./check {" / ".join(checks)} --tier quick; git -C /repo checkout -- .',
            ],
            'applies': val['applies'], 'demo_exit_clean': val['demo_clean_rc'], 'demo_exit_with_change': val['demo_mut_rc'],
            'test_suite_with_change': val['tests'],
        },
        'checks': caught,
        'caught': any(e['violation'] for e in caught.values()),
    }
    if a.strengthening:
        meta['strengthening'] = a.strengthening
    (dst / 'meta.json').write_text(json.dumps(meta, indent=1) + '\n')
    print(f'{a.name}: caught={meta["caught"]} ' + ' '.join(f'{c}:rc={e["rc"]}:{e.get("signature")}' for c, e in caught.items()))
    return 0


if __name__ == '__main__':
    sys.exit(main())

#!/bin/sh
# usage: tools/allquick.sh [seed] [ids...] — run quick checks for all (or the given) properties in parallel, print one line each
SEED="${1:-1}"; shift
IDS="$*"; [ -n "$IDS" ] || IDS="C01 C02 C03 C04 C05 C06 C07 C08 C09 C10 C11 C12 C13 C14 C15 C16 C17 C18 C19"
cd /verif || exit 2
mkdir -p /tmp/aq
for id in $IDS; do
  ( VERIF_SEED=$SEED ./check $id --tier quick > /tmp/aq/${id}_$SEED.log 2>&1; echo "$id seed=$SEED rc=$? $(grep -c VIOLATION /tmp/aq/${id}_$SEED.log) viol $(grep -c KNOWN-FINDING /tmp/aq/${id}_$SEED.log) kf" ) &
done
wait

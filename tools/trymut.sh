#!/bin/sh
# usage: tools/trymut.sh <patch.diff> <ID> [<ID> ...]   — apply a seeded change to /repo, run the checks, undo it
P="$1"; shift
cd /repo || exit 2
git diff --quiet || { echo "repo not clean"; exit 2; }
git apply "$P" || { echo "patch does not apply"; exit 2; }
cd /verif
for id in "$@"; do
  ./check "$id" --tier quick 2>&1 | grep -E "VIOLATION|KNOWN-FINDING|^\[$id\]|infrastructure" | cut -c1-400
done
git -C /repo checkout -- . ; git -C /repo status --short | head -3
# the generated Lean files are a function of the repository: bring them back to the restored tree
cd /verif/harness && /venv/bin/python -c "import sys; sys.path.insert(0, '.'); import gen; gen.regen_all()" >/dev/null 2>&1

#!/bin/sh
# usage: tools/trymut.sh <patch.diff> <ID> [<ID> ...]   — apply a seeded change to /repo, run the checks, undo it
P="$1"; shift
cd /repo || exit 2
git diff --quiet || { echo "repo not clean"; exit 2; }
git apply "$P" || { echo "patch does not apply"; exit 2; }
cd /verif
for id in "$@"; do
  ./check "$id" --tier quick 2>&1 | grep -E "VIOLATION|KNOWN-FINDING|^\[$id\]|infrastructure" | cut -c1-400
done
git -C /repo checkout -- . ; git -C /repo status --short | head -3

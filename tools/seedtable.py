#!/usr/bin/env python3
"""Print the markdown table of DESIGN.md 11.6 from seeded/*/meta.json."""
import json
import pathlib
V = pathlib.Path(__file__).resolve().parent.parent
print('| seed | breaks (short) | needs | caught by | how |')
print('|---|---|---|---|---|')
for d in sorted((V / 'seeded').glob('*/meta.json')):
    m = json.loads(d.read_text())
    by = []
    how = []
    for c, e in m['checks'].items():
        if e['violation']:
            by.append(c)
            how.append((e.get('signature') or ('no-failing-input-found' if e.get('no_failing_input_found') else e.get('kind') or '?')))
    print(f"| {m['property']}-{m['variant']} | {m['title'][:90]} | {m['needs_to_manifest'][:110]} | {', '.join(by) or '**missed**'} | {'; '.join(how)[:80]} |")

#!/bin/sh
# usage: tools/validate_seed.sh <ID> <variant> <dir with patch.diff, demo.py>
# Confirms, in a scratch worktree of /repo's HEAD, that the change applies, the demo passes without / fails with it,
# and the unedited test-suite still passes with it. Result: /tmp/vs/results/<ID><variant>.json
ID="$1"; V="$2"; D="$3"
WT=/tmp/vs/wt-$ID$V
mkdir -p /tmp/vs/results
rm -rf "$WT"; git -C /repo worktree prune
git -C /repo worktree add --detach "$WT" HEAD >/dev/null 2>&1 || { echo "{\"id\":\"$ID$V\",\"error\":\"worktree\"}" > /tmp/vs/results/$ID$V.json; exit 2; }
cd "$WT"
export PYTHONPATH="$WT/src"
timeout 900 /venv/bin/python "$D/demo.py" >/tmp/vs/results/$ID$V.demo_clean.log 2>&1; RC_CLEAN=$?
if git apply "$D/patch.diff" 2>/tmp/vs/results/$ID$V.apply.log; then APPLIES=true; else APPLIES=false; fi
RC_MUT=-1; TESTS="skipped"
if [ "$APPLIES" = true ]; then
  timeout 900 /venv/bin/python "$D/demo.py" >/tmp/vs/results/$ID$V.demo_mut.log 2>&1; RC_MUT=$?
  TESTS=$(timeout 1800 /venv/bin/python -m pytest -q -p no:cacheprovider --timeout=900 -x 2>&1 | tail -1)
fi
cd /; git -C /repo worktree remove --force "$WT"
echo "{\"id\":\"$ID$V\",\"applies\":$APPLIES,\"demo_clean_rc\":$RC_CLEAN,\"demo_mut_rc\":$RC_MUT,\"tests\":\"$TESTS\",\"head\":\"$(git -C /repo rev-parse --short HEAD)\"}" > /tmp/vs/results/$ID$V.json
cat /tmp/vs/results/$ID$V.json

#!/usr/bin/env python3
"""Regression sweep: run the owning quick check against every confirmed seeded change, each in a private copy of the repository
(FEMTO_REPO; /repo itself is not touched), several at a time.  Development tool, not a registered command.

  tools/seedsweep.py [jobs] [ID-prefix ...]      -> /tmp/sweep/report.json, one line per seed on stdout

A seed counts as caught when the check exits 1 with a VIOLATION line.  Evidence / replay files written by these runs are scratch:
re-run the checks on /repo before committing evidence."""
import concurrent.futures as cf
import json
import os
import pathlib
import shutil
import subprocess
import sys

V = pathlib.Path(__file__).resolve().parent.parent
SW = pathlib.Path('/tmp/sweep')


def one(d):
    meta = json.loads((d / 'meta.json').read_text())
    pid = meta['property']
    ids = [c for c, e in meta['checks'].items() if e.get('violation')] or [pid]
    work = SW / d.name
    shutil.rmtree(work, ignore_errors=True)
    work.mkdir(parents=True)
    try:
        shutil.copytree('/repo/src', work / 'src')
        subprocess.run(['git', 'init', '-q'], cwd=work, check=True)
        r = subprocess.run(['git', 'apply', str(d / 'patch.diff')], cwd=work, capture_output=True, text=True)
        if r.returncode != 0:
            return d.name, 'patch-does-not-apply', ''
        out = []
        caught = False
        for c in ids:
            p = subprocess.run(['./check', c, '--tier', 'quick'], cwd=V, capture_output=True, text=True,
                               env={**os.environ, 'FEMTO_REPO': str(work), 'VERIF_SEED': '0'}, timeout=3000)
            v = 'VIOLATION' in p.stdout
            caught = caught or (p.returncode == 1 and v)
            out.append(f'{c}:rc={p.returncode}')
        return d.name, 'caught' if caught else 'MISSED', ' '.join(out)
    except Exception as e:  # noqa
        return d.name, 'error', repr(e)[:200]
    finally:
        shutil.rmtree(work, ignore_errors=True)


def main():
    jobs = int(sys.argv[1]) if len(sys.argv) > 1 else 6
    pre = sys.argv[2:]
    dirs = [d for d in sorted((V / 'seeded').iterdir()) if (d / 'meta.json').exists() and (not pre or any(d.name.startswith(p) for p in pre))]
    SW.mkdir(exist_ok=True)
    rep = {}
    with cf.ThreadPoolExecutor(jobs) as ex:
        for name, verdict, detail in ex.map(one, dirs):
            rep[name] = [verdict, detail]
            print(name, verdict, detail, flush=True)
    (SW / 'report.json').write_text(json.dumps(rep, indent=1))
    print('missed:', [k for k, v in rep.items() if v[0] != 'caught'])


if __name__ == '__main__':
    main()

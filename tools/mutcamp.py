#!/usr/bin/env python3
"""Mutation campaign against the checks (development tool, not a registered command).

  tools/mutcamp.py gen   <n> <seed>   # random single-line mutants of the library (scratch clone /tmp/mutrepo) -> /tmp/mw/m*.diff
  tools/mutcamp.py tests <jobs>       # keep the mutants under which the unedited test-suite still passes (scratch copies, removed)
  tools/mutcamp.py check [jobs]       # run the mapped quick checks against a private copy of the repository per survivor
                                      # (FEMTO_REPO; /repo itself is not touched); -> /tmp/mw/report.json

Scratch lives under /tmp/mw (outside /repo and /verif) and is removed per mutant; /repo is never modified.
"""
import concurrent.futures as cf
import json
import os
import pathlib
import random
import re
import shutil
import subprocess
import sys

MW = pathlib.Path('/tmp/mw')
CLONE = pathlib.Path('/tmp/mutrepo')
FILES = {
    'pgmcompiler.py': ['C01', 'C02', 'C03', 'C12', 'C17', 'C09', 'C10'],
    'laserpath.py': ['C11', 'C12', 'C13', 'C04', 'C10', 'C19'],
    'waveguide.py': ['C04', 'C13', 'C08', 'C10'],
    'marker.py': ['C14', 'C10'],
    'helpers.py': ['C11', 'C15', 'C16', 'C19', 'C05', 'C13'],
    'device.py': ['C16', 'C09'],
    'trench.py': ['C05', 'C07', 'C06'],
    'writer.py': ['C08', 'C06', 'C16', 'C09', 'C02'],
    'rasterimage.py': ['C15', 'C10'],
    'spreadsheet.py': ['C18'],
}
OPS = [
    (r' \+ ', ' - '), (r' - ', ' + '), (r' < ', ' <= '), (r' <= ', ' < '), (r' > ', ' >= '), (r' >= ', ' > '), (r' == ', ' != '),
    (r'\[1:\]', '[:-1]'), (r'\[:-1\]', '[1:]'), (r'\[0\]', '[-1]'), (r'\[-1\]', '[0]'), (r' and ', ' or '), (r' or ', ' and '),
    (r'\bnot ', ''), (r'\bceil\b', 'floor'), (r'\bfloor\b', 'ceil'), (r'\bTrue\b', 'False'), (r'\bFalse\b', 'True'),
    (r'np\.fabs\(', '('), (r'np\.abs\(', '('), (r'\babs\(', '('), (r' // 2\b', ' // 2 + 1'), (r'\* 2\b', '* 3'), (r'/ 2\b', '/ 3'),
    (r'\b1\b', '2'), (r'\b0\b', '1'), (r'\.extend\(', '.append('), (r'\bmin\(', 'max('), (r'\bmax\(', 'min('),
    (r'reverse=True', 'reverse=False'), (r'\.lower\(\)', ''), (r'\bis not None\b', 'is None'), (r'\bis None\b', 'is not None'),
]
SKIP_FUNC = re.compile(r'plot|_repr_|__repr__|standard_2d|standard_3d|show|main|sample_warp|warp_generation|tic|toc|export_plot|save')


def code_lines(path):
    """(line number, text, enclosing function) for lines that are code: outside docstrings, comments, plot helpers."""
    out, func, in_doc = [], '', False
    for i, ln in enumerate(path.read_text().splitlines()):
        st = ln.strip()
        if st.count('"""') % 2 == 1:
            in_doc = not in_doc
            continue
        if in_doc or not st or st.startswith('#') or st.startswith('"""') or st.startswith(('import ', 'from ', '@', 'raise ', 'print(')):
            continue
        m = re.match(r'\s*def (\w+)', ln)
        if m:
            func = m.group(1)
            continue
        if SKIP_FUNC.search(func) or st.startswith(('f\'', "'", '"', 'f"')) or 'Error(' in st or 'warn' in st:
            continue
        out.append((i, ln, func))
    return out


def gen(n, seed):
    rng = random.Random(seed)
    MW.mkdir(exist_ok=True)
    for f in MW.glob('m*.diff'):
        f.unlink()
    sites = []
    for fn in FILES:
        p = CLONE / 'src' / 'femto' / fn
        for (i, ln, func) in code_lines(p):
            code = ln.split('#')[0]
            for k, (pat, rep) in enumerate(OPS):
                for mt in re.finditer(pat, code):
                    # not inside a string literal (rough: even number of quotes before the match)
                    pre = code[:mt.start()]
                    if pre.count("'") % 2 or pre.count('"') % 2:
                        continue
                    sites.append((fn, i, func, k, mt.start(), mt.end()))
    rng.shuffle(sites)
    meta, per_file = [], {}
    for (fn, i, func, k, a, b) in sites:
        if len(meta) >= n:
            break
        if per_file.get(fn, 0) >= max(4, n // 6):
            continue
        p = CLONE / 'src' / 'femto' / fn
        lines = p.read_text().split('\n')
        old = lines[i]
        new = old[:a] + re.sub(OPS[k][0], OPS[k][1], old[a:b], count=1) + old[b:]
        if new == old:
            continue
        lines[i] = new
        p.write_text('\n'.join(lines))
        d = subprocess.run(['git', 'diff'], cwd=CLONE, capture_output=True, text=True).stdout
        subprocess.run(['git', 'checkout', '--', '.'], cwd=CLONE)
        # must still compile
        name = f'm{len(meta):03d}'
        (MW / f'{name}.diff').write_text(d)
        meta.append({'name': name, 'file': fn, 'line': i + 1, 'func': func, 'op': f'{OPS[k][0]} -> {OPS[k][1]}', 'old': old.strip(), 'new': new.strip()})
        per_file[fn] = per_file.get(fn, 0) + 1
    (MW / 'meta.json').write_text(json.dumps(meta, indent=1))
    print(len(meta), 'mutants', per_file)


def run_tests(m):
    wd = MW / ('w_' + m['name'])
    shutil.rmtree(wd, ignore_errors=True)
    shutil.copytree(CLONE, wd, ignore=shutil.ignore_patterns('.git'))
    try:
        r = subprocess.run(['git', 'apply', '--unsafe-paths', '--directory', str(wd), str(MW / f'{m["name"]}.diff')], capture_output=True, text=True, cwd='/')
        if r.returncode != 0:
            r = subprocess.run(['patch', '-p1', '-s', '-i', str(MW / f'{m["name"]}.diff')], cwd=wd, capture_output=True, text=True)
            if r.returncode != 0:
                return m['name'], 'noapply'
        env = dict(os.environ, PYTHONPATH=str(wd / 'src'))
        r = subprocess.run(['/venv/bin/python', '-c', 'import femto, femto.device, femto.spreadsheet'], cwd=wd, env=env, capture_output=True, text=True)
        if r.returncode != 0:
            return m['name'], 'import-error'
        try:
            r = subprocess.run(['/venv/bin/python', '-m', 'pytest', '-q', '-x', '-p', 'no:cacheprovider', '--timeout=300', '--no-cov'], cwd=wd, env=env,
                               capture_output=True, text=True, timeout=1500)
        except subprocess.TimeoutExpired:
            return m['name'], 'timeout'
        tail = (r.stdout.strip().splitlines() or [''])[-1]
        return m['name'], 'pass' if (r.returncode == 0 and 'passed' in tail and 'failed' not in tail) else 'killed-by-tests'
    finally:
        shutil.rmtree(wd, ignore_errors=True)


def tests(jobs):
    meta = json.loads((MW / 'meta.json').read_text())
    with cf.ThreadPoolExecutor(jobs) as ex:
        res = dict(ex.map(run_tests, meta))
    for m in meta:
        m['tests'] = res[m['name']]
    (MW / 'meta.json').write_text(json.dumps(meta, indent=1))
    import collections
    print(collections.Counter(m['tests'] for m in meta))


def check_one(m):
    """Run the mapped quick checks against a private copy of the repository with the mutant applied (FEMTO_REPO)."""
    verif = pathlib.Path(__file__).resolve().parent.parent
    wd = MW / ('r_' + m['name'])
    shutil.rmtree(wd, ignore_errors=True)
    shutil.copytree(CLONE, wd, ignore=shutil.ignore_patterns('.git'))
    res = {}
    try:
        r = subprocess.run(['patch', '-p1', '-s', '-i', str(MW / f'{m["name"]}.diff')], cwd=wd, capture_output=True, text=True)
        if r.returncode != 0:
            return m['name'], 'noapply'
        env = dict(os.environ, FEMTO_REPO=str(wd))
        for c in FILES[m['file']]:
            try:
                r = subprocess.run(['./check', c, '--tier', 'quick'], cwd=verif, capture_output=True, text=True, env=env, timeout=2400)
                rc, out = r.returncode, r.stdout
            except subprocess.TimeoutExpired:
                rc, out = -9, ''
            v = re.search(r'VIOLATION property=\S+ replay=(\S+)(.*)', out)
            sig = None
            if v:
                try:
                    sig = json.loads(pathlib.Path(v.group(1)).read_text()).get('signature') or ('nfif' if 'no-failing' in v.group(2) else '?')
                except Exception:
                    sig = '?'
            res[c] = {'rc': rc, 'sig': sig}
            if rc == 1:
                break       # one catching check is enough
    finally:
        shutil.rmtree(wd, ignore_errors=True)
    return m['name'], res


def check(jobs=5):
    meta = json.loads((MW / 'meta.json').read_text())
    todo = [m for m in meta if m.get('tests') == 'pass' and 'checks' not in m]
    byname = {m['name']: m for m in meta}
    with cf.ThreadPoolExecutor(jobs) as ex:
        for name, res in ex.map(check_one, todo):
            m = byname[name]
            m['checks'] = res
            if isinstance(res, dict):
                m['caught'] = any(v['rc'] == 1 for v in res.values())
                m['infra'] = any(v['rc'] not in (0, 1) for v in res.values())
            print(name, m['file'], m['func'], m['op'], 'CAUGHT' if m.get('caught') else ('INFRA' if m.get('infra') else 'missed'), res, flush=True)
            (MW / 'meta.json').write_text(json.dumps(meta, indent=1))
    (MW / 'report.json').write_text(json.dumps(meta, indent=1))


if __name__ == '__main__':
    if sys.argv[1] == 'gen':
        gen(int(sys.argv[2]), int(sys.argv[3]))
    elif sys.argv[1] == 'tests':
        tests(int(sys.argv[2]))
    elif sys.argv[1] == 'check':
        check(int(sys.argv[2]) if len(sys.argv) > 2 else 5)

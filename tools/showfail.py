#!/usr/bin/env python3
"""Summarise a replay file: signatures and first detail of each."""
import collections, json, sys
d = json.load(open(sys.argv[1]))
fs = [d] + d.get('others', [])
c = collections.Counter((f.get('kind'), f.get('signature')) for f in fs)
print('count', d.get('count'), c)
seen = set()
for f in fs:
    if f.get('signature') not in seen:
        seen.add(f.get('signature'))
        print('-', f.get('kind'), f.get('signature'), '|', (f.get('detail') or '')[:400])
        if len(sys.argv) > 2:
            print(json.dumps(f.get('case'))[:1500])

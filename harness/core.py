"""Shared machinery of the femto verification checks (see /verif/DESIGN.md, section 4).

* drives the Lean side: incremental `lake build` of the property's theorems, axiom audit, source grep;
* drives the model driver (native `lean_exe`, JSON lines) for the correspondence / spec-on-implementation step;
* decides the verdict, writes replay files, the evidence file, and prints VIOLATION / KNOWN-FINDING lines.

Exit codes: 0 property held on everything explored, 1 violation (a `VIOLATION property=<id> replay=<path>` line is
printed), 2 infrastructure failure or time-out (never a verdict).
"""
from __future__ import annotations

import contextlib
import fcntl
import fractions
import hashlib
import io
import json
import os
import pathlib
import random
import re
import subprocess
import sys
import time
import traceback

VERIF = pathlib.Path(__file__).resolve().parent.parent
LEAN = VERIF / 'lean'
REPO = pathlib.Path(os.environ.get('FEMTO_REPO', '/repo')).resolve()
GUARD = 'FEMTO_VERIF'
ALLOWED_AXIOMS = {'propext', 'Classical.choice', 'Quot.sound'}
FORBIDDEN = re.compile(r'\b(sorry|admit|native_decide|bv_decide|implemented_by|unsafe)\b|^\s*axiom\s|maxHeartbeats\s+0\b', re.M)

TRUSTED_BASE = [
    'Lean 4.33.0 kernel (thorough tier re-checks the compiled proofs with leanchecker)',
    'Mathlib v4.33.0 as a library of kernel-checked lemmas',
    'axioms allowed per theorem: propext, Classical.choice, Quot.sound (audited with #print axioms on every run)',
    'statements in lean/FemtoVerif/Props/*.lean and the executable models / reference controller they mention',
    'the correspondence harness (generators, canonicalisation, tolerances) in /verif/harness and the Lean driver',
    'regenerated files lean/FemtoVerif/Gen/*.lean produced on every run by /verif/harness/gen.py (laser headers, PSO labels) and '
    '/verif/harness/py2lean.py (Python AST -> Lean for eleven arithmetic kernels, with generated tie theorems)',
]


def use_repo_sources() -> None:
    """Make `import femto` resolve to the working tree of the repository under check."""
    src = str(REPO / 'src')
    if src in sys.path:
        sys.path.remove(src)
    sys.path.insert(0, src)
    os.environ[GUARD] = '1'
    for name in list(sys.modules):
        if name == 'femto' or name.startswith('femto.'):
            del sys.modules[name]


# ----------------------------------------------------------------------------------------------------------------
# exact numbers
# ----------------------------------------------------------------------------------------------------------------
def q(x) -> list[int] | None:
    """Exact rational [num, den] of a Python/numpy number (None stays None)."""
    if x is None:
        return None
    if isinstance(x, fractions.Fraction):
        return [x.numerator, x.denominator]
    if isinstance(x, bool):
        return [int(x), 1]
    if isinstance(x, int):
        return [x, 1]
    fx = float(x)
    if fx != fx or fx in (float('inf'), float('-inf')):
        raise ValueError(f'non-finite value {x!r} cannot be shipped as a rational')
    n, d = fx.as_integer_ratio()
    return [n, d]


def unq(p) -> fractions.Fraction | None:
    if p is None:
        return None
    if isinstance(p, list):
        return fractions.Fraction(p[0], p[1])
    return fractions.Fraction(p)


def qdec(s: str) -> list[int]:
    """Exact rational of a decimal / scientific literal as printed in a PGM file."""
    f = fractions.Fraction(s)
    return [f.numerator, f.denominator]


# ----------------------------------------------------------------------------------------------------------------
# Lean side
# ----------------------------------------------------------------------------------------------------------------
class InfraError(RuntimeError):
    pass


@contextlib.contextmanager
def lean_lock():
    LEAN.mkdir(exist_ok=True)
    with open(LEAN / '.build.lock', 'w') as fh:
        fcntl.flock(fh, fcntl.LOCK_EX)
        try:
            yield
        finally:
            fcntl.flock(fh, fcntl.LOCK_UN)


def run_cmd(cmd: list[str], cwd: pathlib.Path, timeout: float, env: dict | None = None) -> tuple[int, str]:
    try:
        p = subprocess.run(cmd, cwd=cwd, stdout=subprocess.PIPE, stderr=subprocess.STDOUT, timeout=timeout,
                           env=env, text=True)
    except subprocess.TimeoutExpired as e:
        raise InfraError(f'time-out after {timeout}s: {" ".join(cmd)}') from e
    return p.returncode, p.stdout


def strip_comments(src: str) -> str:
    """Remove Lean comments (block, nested; and line) so that the forbidden-token grep ignores prose."""
    out, i, depth, n = [], 0, 0, len(src)
    while i < n:
        if src.startswith('/-', i):
            depth += 1
            i += 2
        elif depth and src.startswith('-/', i):
            depth -= 1
            i += 2
        elif depth:
            i += 1
        elif src.startswith('--', i):
            j = src.find('\n', i)
            i = n if j < 0 else j
        else:
            out.append(src[i])
            i += 1
    return ''.join(out)


def lean_sources() -> list[pathlib.Path]:
    return sorted([p for p in (LEAN / 'FemtoVerif').rglob('*.lean')] + [LEAN / 'Main.lean', LEAN / 'FemtoVerif.lean'])


def grep_forbidden() -> list[str]:
    hits = []
    for p in lean_sources():
        body = strip_comments(p.read_text())
        for m in FORBIDDEN.finditer(body):
            hits.append(f'{p.relative_to(VERIF)}: {m.group(0).strip()}')
    return hits


def theorem_names(prop_file: pathlib.Path) -> list[tuple[str, bool]]:
    """(fully qualified name, is_private) of every theorem declared in a Props file."""
    src = strip_comments(prop_file.read_text())
    ns = re.search(r'^namespace\s+(\S+)', src, re.M)
    prefix = (ns.group(1) + '.') if ns else ''
    out = []
    for m in re.finditer(r'^(private\s+)?(?:protected\s+)?theorem\s+([^\s:({\[]+)', src, re.M):
        out.append((prefix + m.group(2), bool(m.group(1))))
    return out


def prove(pid: str, required: list[str], tier: str, extra_modules: list[str] | None = None, regen=None) -> dict:
    """Build the property's theorems and audit their axioms.  Returns a report dict; never raises on a failed proof
    (that is a broken proof obligation, handled by the caller), raises InfraError on tool failure."""
    t0 = time.time()
    mods = [f'FemtoVerif.Props.{pid}'] + list(extra_modules or [])
    report: dict = {'modules': mods, 'build_ok': False, 'missing': [], 'bad_axioms': {}, 'forbidden': [], 'log_tail': ''}
    with lean_lock():
        if regen is not None:
            # the generated files (Gen/*.lean) are a function of the repository under check: regenerate them under the same lock
            # as the build, so that concurrent checks of different trees (FEMTO_REPO) never build each other's files
            report['regen'] = regen()
        if tier == 'thorough':
            # re-elaborate the property's own modules from scratch (dependencies stay cached)
            for m in mods:
                rel = pathlib.Path(*m.split('.'))
                for ext in ('.olean', '.ilean', '.trace', '.olean.hash', '.ilean.hash', '.c', '.c.hash', '.log.json',
                            '.olean.private', '.olean.server', '.ir', '.ir.hash'):
                    f = LEAN / '.lake' / 'build' / 'lib' / 'lean' / (str(rel) + ext)
                    if f.exists():
                        f.unlink()
        rc, out = run_cmd(['lake', 'build', 'driver'] + mods, LEAN, 3000)
        report['log_tail'] = out[-4000:]
        report['build_ok'] = rc == 0
        prop_file = LEAN / 'FemtoVerif' / 'Props' / f'{pid}.lean'
        declared = [n for (n, priv) in theorem_names(prop_file) if not priv]
        # generated tie theorems (translator, DESIGN 3.1) are obligations of the property as well
        for m in mods[1:]:
            if '.Gen.' in m:
                gf = LEAN / pathlib.Path(*m.split('.')).with_suffix('.lean')
                if gf.exists():
                    declared += [n for (n, priv) in theorem_names(gf) if not priv]
        report['declared'] = declared
        short = {n.split('.')[-1]: n for n in declared}
        report['missing'] = [r for r in required if r not in short]
        report['forbidden'] = grep_forbidden()
        audited: dict[str, list[str]] = {}
        if rc == 0 and declared:
            audit = LEAN / '.lake' / f'Audit_{pid}.lean'
            audit.write_text('\n'.join([f'import {m}' for m in mods] + [f'#print axioms {n}' for n in declared]) + '\n')
            rc2, out2 = run_cmd(['lake', 'env', 'lean', str(audit)], LEAN, 1200)
            if rc2 != 0:
                report['log_tail'] += '\n[audit]\n' + out2[-2000:]
            for m in re.finditer(r"'([^']+)' (does not depend on any axioms|depends on axioms: \[([^\]]*)\])", out2):
                axs = [a.strip() for a in (m.group(3) or '').replace('\n', ' ').split(',') if a.strip()]
                audited[m.group(1)] = axs
            for n in declared:
                if n not in audited:
                    report['bad_axioms'][n] = ['<not audited>']
                elif not set(audited[n]) <= ALLOWED_AXIOMS:
                    report['bad_axioms'][n] = audited[n]
        report['audited'] = audited
        if tier == 'thorough' and rc == 0:
            rc3, out3 = run_cmd(['lake', 'env', 'leanchecker'] + mods, LEAN, 3000)
            report['leanchecker_ok'] = rc3 == 0
            if rc3 != 0:
                report['log_tail'] += '\n[leanchecker]\n' + out3[-2000:]
    obligations = sorted(set(declared) | {f'<required:{r}>' for r in report['missing']}) if report.get('declared') is not None else []
    discharged = [n for n in report.get('declared', []) if report['build_ok'] and n not in report['bad_axioms']]
    report['obligations'] = len(obligations)
    report['discharged'] = len(discharged)
    report['ok'] = (report['build_ok'] and not report['missing'] and not report['bad_axioms'] and not report['forbidden']
                    and report.get('leanchecker_ok', True) and len(discharged) == len(obligations) and len(obligations) > 0)
    report['wall_s'] = round(time.time() - t0, 2)
    return report


class Driver:
    """Batch interface to the native Lean model driver (one JSON object per line each way)."""

    def __init__(self) -> None:
        self.exe = LEAN / '.lake' / 'build' / 'bin' / 'driver'

    def ask(self, cases: list[dict], timeout: float = 1800) -> list[dict]:
        if not cases:
            return []
        if not self.exe.exists():
            raise InfraError('model driver not built')
        data = '\n'.join(json.dumps(c, separators=(',', ':')) for c in cases) + '\n'
        try:
            p = subprocess.run([str(self.exe)], input=data, stdout=subprocess.PIPE, stderr=subprocess.PIPE, text=True,
                               timeout=timeout)
        except subprocess.TimeoutExpired as e:
            raise InfraError('model driver time-out') from e
        lines = [ln for ln in p.stdout.split('\n') if ln.strip()]
        if p.returncode != 0 or len(lines) != len(cases):
            raise InfraError(f'model driver failed rc={p.returncode} lines={len(lines)}/{len(cases)} {p.stderr[-500:]}')
        out = [json.loads(ln) for ln in lines]
        return out


# ----------------------------------------------------------------------------------------------------------------
# check context, verdict, evidence
# ----------------------------------------------------------------------------------------------------------------
class Failure:
    """One failing case.  kind = 'spec' (the property predicate is false on what the implementation produced: a concrete
    counterexample) or 'corr' (model and implementation disagree; the property itself was not observed to fail)."""

    def __init__(self, kind: str, stream: str, case: dict, detail: str, signature: str = '') -> None:
        self.kind, self.stream, self.case, self.detail, self.signature = kind, stream, case, detail, signature

    def to_json(self) -> dict:
        return {'kind': self.kind, 'stream': self.stream, 'signature': self.signature, 'detail': self.detail,
                'case': self.case}


class Ctx:
    def __init__(self, pid: str, tier: str, seed: int) -> None:
        self.pid, self.tier, self.seed = pid, tier, seed
        self.rng = random.Random(f'{pid}/{seed}')
        self.driver = Driver()
        self.failures: list[Failure] = []
        self.evaluations = 0
        self.nontrivial: set[str] = set()
        self.samples: list = []
        self.dist: dict[str, dict[str, int]] = {}
        self.traces_validated = 0
        self.notes: list[str] = []
        self.known_seen: dict[str, str] = {}
        self.t0 = time.time()
        self.escalated = False
        self.boost = 1          # > 1 when the anchored sources differ from the fingerprint the checks were tuned on
        self.last_case = None   # the case being worked on (for the report when the library raises where no stream expects it)

    # budget helpers -------------------------------------------------------------------------------------------
    def n(self, quick: int, thorough: int) -> int:
        if self.tier == 'thorough' or self.escalated:
            return thorough
        return min(thorough, quick * self.boost)

    def count(self, table: str, key: str, k: int = 1) -> None:
        self.dist.setdefault(table, {})
        self.dist[table][key] = self.dist[table].get(key, 0) + k

    def seen(self, case, nontrivial: bool = True) -> None:
        self.evaluations += 1
        self.last_case = case
        if nontrivial:
            self.nontrivial.add(hashlib.sha1(json.dumps(case, sort_keys=True, default=str).encode()).hexdigest())
        if len(self.samples) < 3 or (len(self.samples) < 6 and self.rng.random() < 0.02):
            self.samples.append(case)

    def fail(self, kind: str, stream: str, case: dict, detail: str, signature: str = '') -> None:
        self.failures.append(Failure(kind, stream, case, detail, signature))


def fingerprint_now() -> dict:
    """sha256 of every source file the properties are anchored in (library modules and laser headers)."""
    out = {}
    root = REPO / 'src' / 'femto'
    for f in sorted(list(root.glob('*.py')) + list((root / 'utils').glob('header_*.txt'))):
        out[str(f.relative_to(REPO))] = hashlib.sha256(f.read_bytes()).hexdigest()
    return out


def changed_sources(pid: str) -> list[str]:
    """Library files whose content differs from fingerprints.json (committed; written by
    tools/mkfingerprints.py on the tree the checks were developed against).  A difference is not a verdict: it only makes
    the quick tier look harder (DESIGN.md 3.4)."""
    fp = VERIF / 'fingerprints.json'
    if not fp.exists():
        return []
    ref = json.loads(fp.read_text())
    now = fingerprint_now()
    # any library file may sit under any property (builders, helpers, compiler): a difference anywhere counts
    return sorted(f for f in set(ref) | set(now) if not f.startswith('_') and ref.get(f) != now.get(f))


class CallTimeout(Exception):
    """Raised inside `time_limit` when the wrapped call does not return in time."""


@contextlib.contextmanager
def time_limit(seconds: float):
    """Per-call wall-clock limit (main thread, SIGALRM): a library call that no longer terminates must not hang the check."""
    import signal

    def _raise(signum, frame):
        raise CallTimeout(f'no result after {seconds} s')
    old = signal.signal(signal.SIGALRM, _raise)
    signal.setitimer(signal.ITIMER_REAL, seconds)
    try:
        yield
    finally:
        signal.setitimer(signal.ITIMER_REAL, 0)
        signal.signal(signal.SIGALRM, old)


def load_known() -> dict:
    p = VERIF / 'known_findings.json'
    if p.exists():
        return json.loads(p.read_text())
    return {'open': [], 'fixed': []}


def match_known(pid: str, f: Failure, known: dict) -> dict | None:
    for k in known.get('open', []):
        if k['property'] == pid and k.get('signature') and k['signature'] == f.signature:
            return k
    return None


def write_replay(ctx: Ctx, payload: dict) -> pathlib.Path:
    d = VERIF / 'replays'
    d.mkdir(exist_ok=True)
    h = hashlib.sha1(json.dumps(payload, sort_keys=True, default=str).encode()).hexdigest()[:10]
    p = d / f'{ctx.pid}-{ctx.seed}-{h}.json'
    p.write_text(json.dumps(payload, indent=1, default=str))
    return p


def write_evidence(ctx: Ctx, proof: dict, rule: str, assumptions: list[str], violations: int, extra: dict | None = None) -> None:
    cov = {
        'obligations': max(proof.get('obligations', 0), 0),
        'discharged': proof.get('discharged', 0),
        'checker_cmd': f'cd lean && lake build {" ".join(proof.get("modules", []))} && lake env lean .lake/Audit_{ctx.pid}.lean'
                       + (' && lake env leanchecker ' + ' '.join(proof.get('modules', [])) if ctx.tier == 'thorough' else ''),
        'trusted_base': TRUSTED_BASE,
        'theorems': proof.get('declared', []),
        'axioms_per_theorem': proof.get('audited', {}),
        'proof_ok': proof.get('ok', False),
        'proof_wall_s': proof.get('wall_s'),
        'evaluations': ctx.evaluations,
        'distinct_nontrivial': len(ctx.nontrivial),
        'rule': rule,
        'samples': ctx.samples[:6] if ctx.samples else ['<none>'],
        'traces_validated_against_impl': ctx.traces_validated,
        'distribution': ctx.dist,
        'notes': ctx.notes,
        'escalated_to_thorough_budget': ctx.escalated,
        'repo': str(REPO),
    }
    if extra:
        cov.update(extra)
    ev = {
        'property_id': ctx.pid, 'tier': ctx.tier, 'seed': ctx.seed, 'level': 'proof', 'coverage': cov,
        'assumptions': assumptions, 'wall_s': round(time.time() - ctx.t0, 2), 'violations': violations,
    }
    (VERIF / 'evidence').mkdir(exist_ok=True)
    (VERIF / 'evidence' / f'{ctx.pid}.json').write_text(json.dumps(ev, indent=1, default=str))


def repo_head() -> str:
    try:
        return subprocess.run(['git', '-C', str(REPO), 'rev-parse', '--short', 'HEAD'], capture_output=True, text=True,
                              timeout=20).stdout.strip()
    except Exception:
        return '?'


QUIET_LIMIT_S = 300.0


@contextlib.contextmanager
def quiet():
    """Silence the library's chatty prints — and bound the wall-clock time of the library call inside: every call into the
    library goes through here, and a (changed) library that no longer returns must not hang the check.  The limit is far
    above anything the unchanged library needs; a block that sets its own alarm (C10, `time_limit`) keeps it."""
    import signal
    import threading
    old = sys.stdout
    sys.stdout = io.StringIO()
    armed = False
    old_handler = None
    if threading.current_thread() is threading.main_thread() and signal.getitimer(signal.ITIMER_REAL)[0] == 0:
        def _raise(signum, frame):
            raise CallTimeout(f'the library call did not return within {QUIET_LIMIT_S} s')
        old_handler = signal.signal(signal.SIGALRM, _raise)
        signal.setitimer(signal.ITIMER_REAL, QUIET_LIMIT_S)
        armed = True
    try:
        yield
    finally:
        if armed:
            signal.setitimer(signal.ITIMER_REAL, 0)
            signal.signal(signal.SIGALRM, old_handler)
        sys.stdout = old


def conclude(ctx: Ctx, mod, proof: dict) -> int:
    """Verdict per DESIGN section 4 step 5."""
    known = load_known()
    spec = [f for f in ctx.failures if f.kind == 'spec']
    corr = [f for f in ctx.failures if f.kind == 'corr']
    new_spec, known_hits = [], {}
    for f in spec:
        k = match_known(ctx.pid, f, known)
        if k is None:
            new_spec.append(f)
        else:
            known_hits.setdefault(k['id'], (k, f))
    lines, rc = [], 0
    if new_spec:
        f = new_spec[0]
        rp = write_replay(ctx, {'property': ctx.pid, 'kind': 'failing-input', 'seed': ctx.seed, 'repo_head': repo_head(),
                                'stream': f.stream, 'detail': f.detail, 'signature': f.signature, 'case': f.case,
                                'others': [g.to_json() for g in new_spec[1:6]], 'count': len(new_spec)})
        lines.append(f'VIOLATION property={ctx.pid} replay={rp}')
        rc = 1
    elif corr or not proof.get('ok', False):
        what = []
        if not proof.get('ok', False):
            what.append({'broken_proof_obligations': {'build_ok': proof.get('build_ok'), 'missing': proof.get('missing'),
                                                      'bad_axioms': proof.get('bad_axioms'), 'forbidden': proof.get('forbidden'),
                                                      'leanchecker_ok': proof.get('leanchecker_ok', True),
                                                      'log_tail': proof.get('log_tail', '')[-1500:]}})
        if corr:
            what.append({'broken_correspondence': [g.to_json() for g in corr[:6]], 'count': len(corr)})
        rp = write_replay(ctx, {'property': ctx.pid, 'kind': 'no-failing-input-found', 'seed': ctx.seed,
                                'repo_head': repo_head(), 'no_longer_checks': what,
                                'searched': {'evaluations': ctx.evaluations, 'escalated': ctx.escalated}})
        lines.append(f'VIOLATION property={ctx.pid} replay={rp} no-failing-input-found')
        rc = 1
    for kid, (k, f) in sorted(known_hits.items()):
        lines.append(f'KNOWN-FINDING: property={ctx.pid} {kid} {k["what"]}')
    for ln in lines:
        print(ln)
    return rc

"""C15 — raster paths expose exactly the black pixels."""
from __future__ import annotations

import fractions
import itertools
import warnings

import core
import gcommon
from core import q

warnings.simplefilter('ignore')

REQUIRED = ['trueRuns_eq_pieces', 'trueRuns_append_false', 'raster_strokes', 'stroke_ends_black', 'first_closed']
RULE = ('stream raster: random black-and-white images (1x1 .. 40x40; all white, all black, single-pixel runs, runs touching both '
        'borders, random) in modes 1, L, RGB, RGBA and P (palettes white/black, black/white, red/black/white; pure black / white pixels) through the real RasterImage.image_to_path, for several '
        'scales, depths and speeds, including a second conversion of a differently sized image on the same object; the '
        'open-shutter strokes of RasterImage.points (maximal runs of shutter-open rows) must equal, stroke for stroke, the '
        'specification evaluated in Lean (expectedStrokes) — exactly when the grid is dyadic, else within 2^-20 relative — and '
        'the recorded trajectory must equal the model path.  thorough adds every image of at most 3x4 pixels.  '
        'non-trivial = the image has both colours.')
ASSUMPTIONS = [
    'PIL.Image.convert("1") maps pure 0/255 pixels to themselves (contract, sampled by the L/RGB cases)',
    'np.linspace is a + i*step with the exact end point (contract, sampled)',
]
CLAIM = {
    'text': 'Lean 4 theorem raster_strokes: for every image (any size, any pattern), scale, depth and speeds the open-shutter strokes '
            'of the model path are exactly — rows in image order — one stroke per maximal run of black pixels from the first to the '
            'last pixel of the run at the row height (single-pixel runs give one-point strokes); stroke positions are grid positions '
            'of black pixels; the path starts shutter-closed. Proved by induction over rows and runs using the split_mask '
            'characterisation of C11. Tied to the code by comparing strokes and recorded trajectory of real image_to_path calls.',
    'note': 'Trusted: Lean kernel/Mathlib; Model/Raster.lean tied differentially; PIL mode conversion and np.linspace are contracts.',
    'technique': 'Lean 4 proof by induction over rows and runs + differential correspondence',
}


def strokes_of(points):
    import numpy as np
    pts = np.asarray(points, dtype=np.float64)
    if pts.ndim != 2:
        return []
    out, cur = [], None
    for x, y, z, f, s in pts.T:
        if s != 0:
            if cur is None:
                cur = []
            if not cur or cur[-1] != (x, y, z):
                cur.append((x, y, z))
        else:
            if cur is not None:
                out.append(cur)
            cur = None
    if cur is not None:
        out.append(cur)
    return out


def gen_img(rng, w, h, mode):
    if mode == 'white':
        return [[False] * w for _ in range(h)]
    if mode == 'black':
        return [[True] * w for _ in range(h)]
    if mode == 'border':
        return [[(i in (0, w - 1)) or rng.random() < 0.3 for i in range(w)] for _ in range(h)]
    if mode == 'singles':
        return [[(i % 2 == rng.randrange(2)) for i in range(w)] for _ in range(h)]
    p = rng.choice([0.2, 0.5, 0.8])
    return [[rng.random() < p for _ in range(w)] for _ in range(h)]


def to_pil(img, pmode):
    from PIL import Image
    h, w = len(img), len(img[0])
    if pmode == '1':
        im = Image.new('1', (w, h), 1)
        for j in range(h):
            for i in range(w):
                im.putpixel((i, j), 0 if img[j][i] else 1)
    elif pmode == 'L':
        im = Image.new('L', (w, h), 255)
        for j in range(h):
            for i in range(w):
                im.putpixel((i, j), 0 if img[j][i] else 255)
    elif pmode.startswith('P'):
        # palette images: a pixel is what its palette entry says, not its index
        pal = {'P_wb': [(255, 255, 255), (0, 0, 0)], 'P_bw': [(0, 0, 0), (255, 255, 255)],
               'P_rbw': [(255, 0, 0), (0, 0, 0), (255, 255, 255)]}[pmode]
        black, white = pal.index((0, 0, 0)), pal.index((255, 255, 255))
        im = Image.new('P', (w, h), white)
        im.putpalette([c for rgb in pal for c in rgb] + [0] * (768 - 3 * len(pal)))
        for j in range(h):
            for i in range(w):
                im.putpixel((i, j), black if img[j][i] else white)
    elif pmode == 'RGBA':
        im = Image.new('RGBA', (w, h), (255, 255, 255, 255))
        for j in range(h):
            for i in range(w):
                im.putpixel((i, j), (0, 0, 0, 255) if img[j][i] else (255, 255, 255, 255))
    else:
        im = Image.new('RGB', (w, h), (255, 255, 255))
        for j in range(h):
            for i in range(w):
                im.putpixel((i, j), (0, 0, 0) if img[j][i] else (255, 255, 255))
    return im


def observe(img, pmode, px, z, sp, sc, prior=None):
    from femto.rasterimage import RasterImage
    with core.quiet():
        ri = RasterImage(px_to_mm=px, speed=sp, speed_closed=sc, z_init=z)
        n0 = 0
        if prior is not None:
            ri.image_to_path(to_pil(prior, '1'))
            n0 = ri._x.size
        ri.image_to_path(to_pil(img, pmode))
        import numpy as np
        raw = [[float(v) for v in r] for r in zip(ri._x[n0:], ri._y[n0:], ri._z[n0:], ri._f[n0:], ri._s[n0:])]
        # strokes of the part of the reported matrix that belongs to this image
        from femto.laserpath import LaserPath
        lp = LaserPath()
        if raw:
            lp.add_path(*[np.array(c, dtype=np.float32) for c in zip(*raw)])
        return raw, strokes_of(lp.points) if raw else []


def run(ctx):
    rng = ctx.rng
    cases = []
    for i in range(ctx.n(400, 5000)):
        w = rng.choice([1, 2, 3, 5, 9, 17, rng.randint(1, 40)])
        h = rng.choice([1, 2, 3, 5, rng.randint(1, 40 if ctx.tier == 'thorough' else 16)])
        mode = rng.choice(['rand', 'rand', 'white', 'black', 'border', 'singles'])
        if i % 130 == 7:
            # a tall, narrow image (more rows than any strip / tile size an implementation might process at a time)
            w, h, mode = rng.choice([1, 2, 3]), rng.choice([1025, 1100, 2049]), rng.choice(['rand', 'border'])
        elif i % 130 == 71:
            w, h, mode = rng.choice([1025, 1300]), rng.choice([1, 2]), rng.choice(['rand', 'border'])
        img = gen_img(rng, w, h, mode)
        pmode = rng.choice(['1', '1', 'L', 'RGB', 'P_wb', 'P_bw', 'P_rbw', 'RGBA'])
        prior = gen_img(rng, rng.randint(1, 6), rng.randint(1, 6), 'rand') if rng.random() < 0.15 else None
        cases.append((img, pmode, rng.choice([0.5, 0.01, 0.25, 0.04]), rng.choice([0.0, 0.5, -0.125]), rng.choice([1.0, 2.0]),
                      rng.choice([5.0, 20.0]), prior, mode))
    if ctx.tier == 'thorough' or ctx.escalated:
        for w, h in [(1, 1), (2, 1), (3, 1), (4, 1), (1, 2), (2, 2), (3, 2), (4, 2), (1, 3), (2, 3), (3, 3), (4, 3)]:
            for bits in itertools.product([False, True], repeat=w * h):
                img = [list(bits[r * w:(r + 1) * w]) for r in range(h)]
                cases.append((img, '1', 0.5, 0.0, 1.0, 5.0, None, 'exhaustive'))
        ctx.notes.append('raster: exhaustive over all images of at most 4x3 pixels')
    reqs = [{'op': 'c15.raster', 'img': img, 'px': q(px), 'z': q(z), 'speed': q(sp), 'speed_closed': q(sc)}
            for (img, pmode, px, z, sp, sc, prior, mode) in cases]
    res = ctx.driver.ask(reqs)
    for (img, pmode, px, z, sp, sc, prior, mode), m in zip(cases, res):
        if 'driver_error' in m:
            raise core.InfraError(m['driver_error'])
        flat = [v for r in img for v in r]
        case = {'img': img, 'mode': pmode, 'px': px, 'z': z, 'speed': sp, 'speed_closed': sc, 'prior': prior}
        try:
            raw, got = observe(img, pmode, px, z, sp, sc, prior)
        except Exception as e:  # a valid image must be converted
            ctx.seen({'stream': 'raster', **case}, True)
            ctx.fail('spec', 'raster', case, f'image_to_path raised {type(e).__name__}: {e}', 'raised')
            continue
        ctx.seen({'stream': 'raster', **case}, any(flat) and not all(flat))
        ctx.count('raster.pattern', mode)
        ctx.count('raster.pil_mode', pmode)
        ctx.count('raster.size', f'{min(len(img[0]) // 8 * 8, 32)}+x{min(len(img) // 8 * 8, 32)}+')
        exp = [[tuple(gcommon.fr(v) for v in p) for p in s] for s in m['expected']]
        scale = max(1.0, len(img[0]) * px, len(img) * px)
        tol = fractions.Fraction(scale) / 2 ** 20
        bad = None
        if len(got) != len(exp):
            bad = f'{len(got)} open-shutter strokes, the image has {len(exp)} maximal runs of black pixels'
        else:
            for k, (g, e) in enumerate(zip(got, exp)):
                if len(g) != len(e) or any(abs(fractions.Fraction(a) - b) > tol for gp, ep in zip(g, e) for a, b in zip(gp, ep)):
                    bad = f'stroke {k}: {g} but the run of black pixels gives {[tuple(float(v) for v in p) for p in e]}'
                    break
        if bad:
            ctx.fail('spec', 'raster', case, bad, 'strokes')
            continue
        mp = [[gcommon.fr(v) for v in r] for r in m['path']]
        if len(mp) != len(raw) or any(abs(fractions.Fraction(a) - b) > tol for rr, mr in zip(raw, mp) for a, b in zip(rr, mr)):
            ctx.fail('corr', 'raster', case, 'recorded trajectory differs from the model path')


def replay(ctx, payload):
    c = payload['case']
    m = ctx.driver.ask([{'op': 'c15.raster', 'img': c['img'], 'px': q(c['px']), 'z': q(c['z']), 'speed': q(c['speed']),
                         'speed_closed': q(c['speed_closed'])}])[0]
    raw, got = observe(c['img'], c['mode'], c['px'], c['z'], c['speed'], c['speed_closed'], c.get('prior'))
    ctx.seen(c)
    exp = [[tuple(gcommon.fr(v) for v in p) for p in s] for s in m['expected']]
    if len(got) != len(exp):
        ctx.fail('spec', 'raster', c, f'{len(got)} strokes vs {len(exp)} runs', 'strokes')

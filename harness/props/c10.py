"""C10 — no NaN or infinity ever reaches a path or a program."""
from __future__ import annotations

import math
import re
import warnings

import core
import gcommon
from core import q

warnings.simplefilter('ignore')

REQUIRED = ['guard_sound', 'guard_complete', 'guard_rejects_nonfinite', 'path_invariant', 'cast32_overflow', 'format_guard',
            'format_guard_rejects', 'arc_bend_zero',
            'sin_flat', 'circ_zero_sweep', 'circ_zero_sweep_samples', 'arc_coupler_zero', 'arc_mzi_zero']
RULE = ('stream guard: random arrays (finite, NaN, +-inf, beyond the single-precision range, zero / negative feeds, at any row) '
        'through the real LaserPath.add_path; accept / reject and the stored rows must equal the Lean guard model.  stream grid: '
        'every numeric argument of every builder (start, linear ABS/INC, circ, arc_bend, arc_coupler, arc_mzi, sin_bridge, sin_bend, '
        'sin_comp, sin_coupler, sin_mzi, spline, spline_bridge, end; Marker cross, ruler, meander, ablation, box; '
        'RasterImage.image_to_path scale; attributes speed, radius, cmd_rate_max ...) over the magnitudes {0, +-5e-324, +-1e-300, '
        '+-1e-6, +-1, +-1e6, +-1e38, +-1e39, +-1e300}, one or two arguments degenerate at a time; each call must raise or leave '
        'only finite values and positive feeds in _x,_y,_z,_f,_s (np.isfinite on the real arrays).  stream print: the resulting '
        'paths, move_to / set_home / dwell with the same magnitudes, and configurations with large shifts are compiled and every '
        'numeric token of the file must be finite with F > 0, or the call raised.  non-trivial = at least one argument is not in '
        '[1e-3, 1e3] in magnitude.  (point counts above 2e5 and calls running longer than 0.5 s — e.g. a meander of 1e299 lines — are cut short by the harness and count as "raised")')
ASSUMPTIONS = [
    'the floating-point arithmetic inside the builders is not modelled: the guard is proved, what reaches the guard is observed',
    'finite arguments only (the quantifier of the property); exceptions of any type count as "raises an error"',
]
CLAIM = {
    'text': 'Lean 4 theorems about the model of the two guards (LaserPath.add_path, PGMCompiler._format_args) over extended numbers '
            '(finite | +inf | -inf | NaN) with the single-precision overflow threshold: what add_path accepts is finite after the '
            'cast with positive feeds (soundness), it rejects nothing else (completeness), a non-finite entry anywhere rejects the '
            'whole call before anything is appended, and for every history of accepted / rejected calls all recorded feeds are '
            'positive (induction over the history); printing raises on non-finite arguments and is otherwise the compiler model\'s '
            'formatting; degenerate requests are their limit cases over the reals: a zero-offset S-bend, coupler and interferometer do not '
            'move, an arc of zero sweep is its start point at every sample, a sinusoidal segment with zero offsets is the straight line. '
            'PARTIAL: the floating-point arithmetic inside the '
            'builders is runtime behaviour; it is tied by the degenerate-argument grid on the real builders and compiler every run.',
    'note': 'Trusted: Lean kernel/Mathlib; Model/Finite.lean tied differentially to add_path; IEEE arithmetic of numpy not modelled.',
    'technique': 'Lean 4 proof (guard soundness/completeness, invariant by induction over histories) + degenerate-argument grid on the implementation',
}

MAGS = [0.0, 5e-324, -5e-324, 1e-300, -1e-300, 1e-6, -1e-6, 1.0, -1.0, 1e6, -1e6, 1e38, -1e38, 1e39, -1e39, 1e300, -1e300]
TOKEN = re.compile(r'(?<![A-Za-z_$])[XYZFU]?(-?(?:nan|inf)|-?\d+(?:\.\d*)?(?:[eE][-+]?\d+)?)', re.I)


class TooMany(MemoryError):
    pass


class TooLong(TimeoutError):
    pass


def _alarm(signum, frame):
    raise TooLong('call cut short by the harness after 0.5 s')


def ext(v):
    v = float(v)
    if math.isnan(v):
        return 'nan'
    if math.isinf(v):
        return 'inf' if v > 0 else '-inf'
    return q(v)


def run_guard(ctx):
    import numpy as np
    from femto.laserpath import LaserPath
    rng = ctx.rng
    cases = []
    special = [float('nan'), float('inf'), float('-inf'), 3.5e38, -3.5e38, 3.4028234e38, 1e39, -1e300, 3.4028235677973366e38, 3.40282356779733e38]
    for i in range(ctx.n(500, 8000)):
        n = rng.randint(1, 6)
        rows = [[rng.choice([0.0, 1.5, -2.0, 1e-45, 1e30]) for _ in range(3)] + [rng.choice([1.0, 5.0, 0.5]), float(rng.randint(0, 1))] for _ in range(n)]
        mode = rng.choice(['fine', 'special', 'special', 'badfeed', 'both'])
        if mode in ('special', 'both'):
            rows[rng.randrange(n)][rng.randrange(5)] = rng.choice(special)
        if mode in ('badfeed', 'both'):
            rows[rng.randrange(n)][3] = rng.choice([0.0, -1.0, -1e-30, 1e-50, -0.0])
        cases.append((mode, rows))
    res = ctx.driver.ask([{'op': 'c10.addpath', 'rows': [[ext(v) for v in r] for r in rows]} for _, rows in cases])
    for (mode, rows), m in zip(cases, res):
        if 'driver_error' in m:
            raise core.InfraError(m['driver_error'])
        lp = LaserPath()
        try:
            lp.add_path(*[np.array(c, dtype=np.float64) for c in zip(*rows)])
            out = 'ok'
        except ValueError:
            out = 'error'
        case = {'rows': [[repr(v) for v in r] for r in rows], 'mode': mode}
        ctx.seen({'stream': 'guard', **case}, mode != 'fine')
        ctx.count('guard.mode', mode)
        stored = np.array([lp._x, lp._y, lp._z, lp._f, lp._s])
        if out == 'ok' and (not np.all(np.isfinite(stored)) or np.any(lp._f <= 0)):
            ctx.fail('spec', 'guard', case, 'add_path stored a non-finite value or a non-positive feed', 'guard-leak')
        elif out == 'error' and lp._x.size:
            ctx.fail('spec', 'guard', case, 'a rejected add_path call left points in the path', 'guard-partial')
        elif (out == 'ok') != ('ok' in m):
            # 1e-50 underflows to 0 in the cast (the model keeps finite values as they are): a feed that is positive only in
            # double precision is the one place where rounding matters for the guard
            if any(0 < abs(r[3]) < 1e-45 for r in rows):
                ctx.count('guard.boundary_skipped', 'feed-underflow')
                continue
            ctx.fail('corr', 'guard', case, f'implementation {out}, model {m}')


def builder_calls(rng):
    """(name, function(args) performing the call on fresh objects, number of numeric args)"""
    from femto.marker import Marker
    from femto.waveguide import Waveguide

    def wg(**kw):
        w = Waveguide(**{'speed': 20.0, 'radius': 15.0, 'cmd_rate_max': 1200, **kw})
        return w

    def started(**kw):
        w = wg(**kw)
        w.start([0.0, 0.0, 0.035])
        return w
    calls = {
        'start': (lambda a: wg().start([a[0], a[1], a[2]], speed_pos=a[3]), [0.0, 0.0, 0.035, 1.0]),
        'linear_inc': (lambda a: started().linear([a[0], a[1], a[2]], speed=a[3]), [1.0, 0.0, 0.0, 20.0]),
        'linear_abs': (lambda a: started().linear([a[0], a[1], a[2]], mode='ABS', speed=a[3]), [1.0, 0.0, 0.0, 20.0]),
        'linear_warp': (lambda a: started(warp_flag=True).linear([a[0], a[1], a[2]], speed=a[3]), [1.0, 0.0, 0.0, 20.0]),
        'circ': (lambda a: started().circ(a[0], a[1], radius=a[2], speed=a[3]), [0.0, 0.3, 15.0, 20.0]),
        'arc_bend': (lambda a: started().arc_bend(a[0], radius=a[1], speed=a[2]), [0.04, 15.0, 20.0]),
        'arc_coupler': (lambda a: started().arc_coupler(a[0], radius=a[1], int_length=a[2], speed=a[3]), [0.04, 15.0, 0.5, 20.0]),
        'arc_mzi': (lambda a: started().arc_mzi(a[0], radius=a[1], int_length=a[2], arm_length=a[3]), [0.04, 15.0, 0.5, 1.0]),
        'sin_bridge': (lambda a: started().sin_bridge(a[0], a[1], radius=a[2], flat_peaks=a[3], speed=a[4]), [0.04, 0.01, 15.0, 0.0, 20.0]),
        'sin_bridge_dispx': (lambda a: started().sin_bridge(a[0], a[1], disp_x=a[2], speed=a[3]), [0.04, 0.01, 1.0, 20.0]),
        'sin_bend': (lambda a: started().sin_bend(a[0], radius=a[1]), [0.04, 15.0]),
        'sin_comp': (lambda a: started().sin_comp(a[0], radius=a[1]), [0.04, 15.0]),
        'sin_coupler': (lambda a: started().sin_coupler(a[0], radius=a[1], int_length=a[2]), [0.04, 15.0, 0.5]),
        'sin_mzi': (lambda a: started().sin_mzi(a[0], radius=a[1], int_length=a[2], arm_length=a[3]), [0.04, 15.0, 0.5, 1.0]),
        'spline': (lambda a: started().spline(a[0], a[1], disp_x=None if a[2] == 1.2345 else a[2], radius=a[3], speed=a[4]), [0.04, 0.01, 1.2345, 15.0, 20.0]),
        'spline_bridge': (lambda a: started().spline_bridge(a[0], a[1], radius=a[2], speed=a[3]), [0.04, 0.01, 15.0, 20.0]),
        'attr_speed': (lambda a: wg(speed=a[0], cmd_rate_max=a[1]).start([0, 0, 0]).linear([1, 0, 0]).arc_bend(0.04), [20.0, 1200.0]),
        'attr_radius': (lambda a: wg(radius=a[0], speed_closed=a[1], speed_pos=a[2]).start([0, 0, 0]).arc_bend(0.04).end(), [15.0, 5.0, 0.5]),
        'cross': (lambda a: Marker().cross([a[0], a[1], a[2]], lx=a[3], ly=a[4]), [0.0, 0.0, 0.0, 1.0, 0.06]),
        'ruler': (lambda a: Marker().ruler([a[0], a[1]], lx=a[2], lx2=a[3], x_init=a[4]), [0.0, 1.0, 1.0, 0.5, -2.0]),
        'meander': (lambda a: Marker().meander([a[0], a[1], 0.0], [a[0], a[2], 0.0], width=a[3], delta=a[4]), [0.0, 0.0, 0.3, 1.0, 0.1]),
        'ablation': (lambda a: Marker().ablation([[a[0], a[1], 0.0], [a[2], a[1], 0.0]], shift=a[3]), [0.0, 0.0, 1.0, 0.01]),
        'box': (lambda a: Marker().box([a[0], a[1], 0.0], width=a[2], height=a[3]), [0.0, 0.0, 1.0, 0.06]),
        'marker_attr': (lambda a: Marker(speed=a[0], speed_closed=a[1], speed_pos=a[2], depth=a[3]).cross([0.0, 0.0]), [1.0, 5.0, 0.5, 0.0]),
        # a speed attribute assigned after the object was created (between start() and end(), or before a marker figure)
        'end_after_assign': (lambda a: _assign_then(started(), {'speed_closed': a[0], 'speed_pos': a[1]}, lambda w: (w.linear([1.0, 0.0, 0.0]), w.end())), [5.0, 0.5]),
        'marker_after_assign': (lambda a: _assign_then(Marker(), {'speed_closed': a[0], 'speed': a[1]}, lambda m: m.box([0.0, 0.0, 0.0], width=1.0, height=0.06)), [5.0, 1.0]),
        'raster': (lambda a: _raster(px_to_mm=a[0], speed=a[1], speed_closed=a[2], z_init=a[3]), [0.01, 1.0, 5.0, 0.0]),
        'raster_pos': (lambda a: _raster(px_to_mm=a[0], speed_pos=a[1], shutter=1, speed=a[2]), [0.04, 0.5, 2.0]),
    }
    return calls


def _assign_then(obj, attrs, then):
    for k, v in attrs.items():
        setattr(obj, k, v)
    then(obj)
    return obj


def _raster(**kw):
    from femto.rasterimage import RasterImage
    from PIL import Image
    img = Image.new('1', (12, 5), 1)
    for (x, y) in [(1, 0), (2, 0), (3, 0), (7, 1), (0, 2), (11, 2), (4, 4), (5, 4)]:
        img.putpixel((x, y), 0)
    r = RasterImage(**kw)
    r.image_to_path(img)
    return r


def check_obj(o):
    import numpy as np
    if o is None:
        return None
    arrs = [getattr(o, n) for n in ('_x', '_y', '_z', '_f', '_s')]
    for n, a in zip('xyzfs', arrs):
        if not np.all(np.isfinite(a)):
            return f'non-finite value stored in _{n}'
    if np.any(arrs[3] <= 0):
        return 'non-positive feed stored'
    return None


def file_problem(text):
    for m in TOKEN.finditer(text):
        tok = m.group(0)
        val = m.group(1).lower()
        if 'nan' in val or 'inf' in val:
            return f'non-finite token {tok!r}'
        if tok[0] in 'Ff' and float(val) <= 0:
            return f'non-positive feed {tok!r}'
    return None


def run_grid(ctx):
    import numpy as np
    from femto.pgmcompiler import PGMCompiler
    rng = ctx.rng
    orig_linspace = np.linspace

    def guarded(start, stop, num=50, *a, **k):
        if np.ndim(num) == 0 and num > 200_000:
            raise TooMany(f'{num} points requested')
        return orig_linspace(start, stop, num, *a, **k)
    np.linspace = guarded
    try:
        calls = builder_calls(rng)
        names = sorted(calls)
        for i in range(ctx.n(900, 20000)):
            name = rng.choice(names)
            fn, defaults = calls[name]
            args = list(defaults)
            k = rng.choice([1, 1, 2])
            for j in rng.sample(range(len(args)), min(k, len(args))):
                args[j] = rng.choice(MAGS)
            case = {'call': name, 'args': [repr(a) for a in args]}
            ctx.seen({'stream': 'grid', **case}, any(a != 0 and not (1e-3 <= abs(a) <= 1e3) for a in args) or any(a == 0 for a in args))
            ctx.count('grid.call', name)
            holder = {}
            # find the object the call works on: the lambdas build it themselves, so capture it at construction (not through
            # add_path: a builder that stores points without going through the guard must be seen as well)
            from femto.laserpath import LaserPath
            orig_add = LaserPath.__post_init__

            def spy(self, *a, **kw):
                holder['obj'] = self
                return orig_add(self, *a, **kw)
            LaserPath.__post_init__ = spy
            import signal
            old = signal.signal(signal.SIGALRM, _alarm)
            signal.setitimer(signal.ITIMER_REAL, 0.5)
            try:
                with core.quiet():
                    fn(args)
                outcome = 'ok'
            except Exception as e:  # "raises an error"
                outcome = type(e).__name__
            finally:
                signal.setitimer(signal.ITIMER_REAL, 0)
                signal.signal(signal.SIGALRM, old)
                LaserPath.__post_init__ = orig_add
            ctx.count('grid.outcome', 'ok' if outcome == 'ok' else 'raised:' + outcome)
            obj = holder.get('obj')
            prob = check_obj(obj)
            if prob:
                ctx.fail('spec', 'grid', {**case, 'outcome': outcome}, f'{name}{tuple(args)}: {prob}', f'grid:{name}')
                continue
            # the object stays in use after the call, whatever its outcome (in particular after a rejected request): degenerate
            # requests made next must again either raise or store finite points
            if obj is not None and hasattr(obj, 'sin_bend') and obj._x.size and rng.random() < 0.35:
                follow = rng.sample([('sin_bend(0.0)', lambda w: w.sin_bend(0.0)), ('linear(speed=0)', lambda w: w.linear([1.0, 0.0, 0.0], speed=0.0)),
                                     ('linear([1e39,0,0])', lambda w: w.linear([1e39, 0.0, 0.0])), ('arc_bend(0.0)', lambda w: w.arc_bend(0.0)),
                                     ('linear(speed=nan)', lambda w: w.linear([1.0, 0.0, 0.0], speed=float('nan'))),
                                     ('linear([0.5,0,0])', lambda w: w.linear([0.5, 0.0, 0.0]))], rng.randint(1, 3))
                done = []
                for label, f2 in follow:
                    old2 = signal.signal(signal.SIGALRM, _alarm)
                    signal.setitimer(signal.ITIMER_REAL, 0.5)
                    try:
                        with core.quiet():
                            f2(obj)
                        done.append(label + ':ok')
                    except Exception as e:  # noqa
                        done.append(label + ':' + type(e).__name__)
                    finally:
                        signal.setitimer(signal.ITIMER_REAL, 0)
                        signal.signal(signal.SIGALRM, old2)
                ctx.count('grid.followup', 'after-' + ('ok' if outcome == 'ok' else 'raise'))
                prob = check_obj(obj)
                if prob:
                    ctx.fail('spec', 'grid', {**case, 'outcome': outcome, 'then': done}, f'{name}{tuple(args)} ({outcome}), then {done}: {prob}', f'grid-followup:{name}')
                    continue
            # compile what was built (also after a raise: the points stored so far are the user's path)
            if obj is not None and obj._x.size and rng.random() < 0.3:
                cfg = {'filename': 'p.pgm', 'shift_origin': rng.choice([(0.0, 0.0), (1e38, -3e38), (0.5, 0.25)]), 'flip_x': rng.random() < 0.5,
                       'rotation_angle': rng.choice([0.0, 30.0]), 'n_glass': rng.choice([1.5, 1e-300, 1e300]), 'n_environment': rng.choice([1.33, 1.0])}
                with gcommon.Scratch() as d, core.quiet():
                    try:
                        G = PGMCompiler(**cfg)
                        G.write(np.array(obj.points))
                    except Exception:
                        pass
                    try:
                        G.close()
                        text = (d / 'p.pgm').read_text()
                    except Exception:
                        text = ''
                prob = file_problem(text)
                if prob:
                    ctx.fail('spec', 'grid', {**case, 'cfg': {k: (list(v) if isinstance(v, tuple) else v) for k, v in cfg.items()}},
                             f'{name}{tuple(args)} compiled with {cfg}: {prob}', 'print:' + name)
    finally:
        np.linspace = orig_linspace


def run_print(ctx):
    from femto.pgmcompiler import PGMCompiler
    rng = ctx.rng
    for i in range(ctx.n(400, 6000)):
        op = rng.choice(['move_to', 'set_home', 'dwell', 'move_speed'])
        vals = [rng.choice(MAGS + [None, 1.0, 2.0]) for _ in range(4)]
        case = {'op': op, 'vals': [repr(v) for v in vals]}
        ctx.seen({'stream': 'print', **case}, True)
        with gcommon.Scratch() as d, core.quiet():
            G = PGMCompiler(filename='p.pgm', output_digits=rng.choice([6, 3, 12]))
            try:
                if op == 'move_to':
                    G.move_to(vals[:3])
                elif op == 'move_speed':
                    G.move_to([1.0, 2.0, 3.0], speed_pos=vals[3])
                elif op == 'set_home':
                    G.set_home(vals[:3])
                else:
                    G.dwell(vals[0])
                outcome = 'ok'
            except Exception as e:
                outcome = type(e).__name__
            G.close()
            text = (d / 'p.pgm').read_text()
        ctx.count('print.outcome', op + ':' + ('ok' if outcome == 'ok' else 'raised'))
        prob = file_problem(text)
        if prob:
            ctx.fail('spec', 'print', {**case, 'outcome': outcome}, f'{op}{tuple(vals)}: {prob}', 'print:' + op)


def run(ctx):
    run_guard(ctx)
    run_grid(ctx)
    run_print(ctx)


def replay(ctx, payload):
    ctx.notes.append('C10 replays re-run the streams with the same seed')
    run(ctx)

"""C08 — writers repeat each structure the configured number of times."""
from __future__ import annotations

import fractions
import os
import warnings

import core
import gcommon
from core import q

warnings.simplefilter('ignore')

REQUIRED = ['adjOrder_length', 'adjOrder_mem', 'adjOrder_symmetric', 'adjOrder_values', 'adjOrder_outward', 'adjOrder_head',
            'shiftPts_spec', 'nasuOps_count', 'wg_file_structure', 'wg_bunch_compiles', 'outFile_empty', 'outFile_name', 'countOpen_append', 'repeat_multiplies',
            'execStmts_atoms', 'write_atoms', 'writes_pass', 'execRep_scans', 'group_scans_replayed', 'wg_groups_replayed', 'nasu_passes_replayed', 'mk_scans_replayed',
            'execOps_append_ok', 'shipped_headers_still', 'moveTo_run', 'head_run', 'wg_file_replayed',
            'linear_chainOK', 'runSegs_chainOK', 'built_closed', 'built_group_hyps',
            'lastOp_run', 'file_replayed', 'nasuOps_eq', 'nasu_file_replayed', 'mk_rep_pre', 'mk_body_moves', 'mk_file_replayed', 'append_chainOK', 'finish_closed']
RULE = ('stream adj: NasuWaveguide.adj_scan_order for every adj_scan in 1..64 (exhaustive over that range) compared exactly with the '
        'model and judged directly (length, symmetric, unit spacing, outward).  stream writers: real WaveguideWriter / NasuWriter / '
        'MarkerWriter on random object lists (scans 1..7, groups of equal scan, adj_scan 1..9 odd and even, 3-D shifts, empty '
        'writers, export_dir "", "out", "a/b", file names with and without suffix and with dotted stems) for random compiler '
        'configurations; the export directory listing must be exactly the model\'s file name, and the interpreted trace of the file '
        '(loops unrolled by the reference controller) must equal the trace of the model session (exact regime) or agree within '
        'the transformation tolerance; independently the number of shutter-open moves must be scans x (open moves of one pass), '
        'summed over the structures.  In 30 % of the cases the structures are first exported (and sometimes plotted), then their scan / '
        'adj_scan settings are changed and they are exported again: the second file is the one judged.  '
        'non-trivial = >= 2 structures or a scan / adj_scan count >= 2.')
ASSUMPTIONS = [
    'float32 rounding of points + k*shift in the Nasu writer is exact for the dyadic regime and within tolerance otherwise',
    'the writers are observed through the files they write in a scratch directory (removed afterwards)',
]
CLAIM = {
    'text': 'Lean 4 theorems: adj_scan_order has one entry per pass, is closed under negation, consists exactly of j-(n-1)/2 for '
            'j<n (unit spacing, centred), is ordered outward (|.| non-decreasing) and starts at the centre-most pass, for every n; '
            'the shifted copy leaves feed and shutter untouched; the Nasu program has exactly sum(adj_scan) writes; the waveguide '
            'program is a compiler session (so C03 balance and C12 accounting apply) with one REPEAT scan per bunch whose body is '
            'the members\' writes in order; file naming / empty-writer rules. Machine-move level (session 5, on top of C01.write_replays): '
            'writes_pass / execRep_scans / group_scans_replayed / mk_scans_replayed / nasu_passes_replayed / wg_groups_replayed — for closed '
            'paths that write accepts, the reference controller performs every group exactly scan times (each pass every member point for '
            'point, from where the previous one ended), every Nasu waveguide once per adjacent pass, every marker scan times; '
            'wg_file_replayed — the whole waveguide file (any still header, e.g. the four shipped ones; no session rotation) performs '
            'groupsFrom and then only closed-shutter positioning moves; built_closed — every path built by start / linear / end is such a '
            'closed 0/1 path. groupsFrom of the printed matrices is evaluated against the controller\'s moves on every real writer file. '
            'Tied to the code by comparing the files real writers '
            'produce (listing + unrolled controller trace) with the model session on generated object lists, every run.',
    'note': 'Trusted: Lean kernel/Mathlib, Model/Writers.lean + Model/Gcode.lean tied differentially; the per-iteration replay of each '
            'write is theorem C01.write_replays.',
    'technique': 'Lean 4 proof (lists, arithmetic progression; induction over groups and loop turns on top of the C01 replay theorem) + spec-on-implementation (groupsFrom on the real files) + differential correspondence on controller traces',
}


def run_adj(ctx):
    from femto.waveguide import NasuWaveguide
    ns = list(range(1, 65))
    res = ctx.driver.ask([{'op': 'c08.adj', 'n': n} for n in ns])
    for n, m in zip(ns, res):
        with core.quiet():
            order = NasuWaveguide(adj_scan=n).adj_scan_order
        got = [fractions.Fraction(v) for v in order]
        ctx.seen({'stream': 'adj', 'n': n}, n >= 2)
        srt = sorted(got)
        ok = (len(got) == n and sorted(-v for v in got) == srt and all(b - a == 1 for a, b in zip(srt, srt[1:]))
              and all(abs(a) <= abs(b) for a, b in zip(got, got[1:])) and abs(got[0]) <= fractions.Fraction(1, 2))
        if not ok:
            ctx.fail('spec', 'adj', {'n': n, 'order': [float(v) for v in got]},
                     f'adj_scan_order({n}) is not one pass per scan, symmetric, unit-spaced and ordered outward', 'adj-order')
        elif got != [gcommon.fr(v) for v in m]:
            ctx.fail('corr', 'adj', {'n': n}, 'adj_scan_order differs from the model')
    ctx.notes.append('adj: exhaustive over adj_scan = 1..64')


def _path(rng, cls, exact, **kw):
    with core.quiet():
        o = cls(speed=rng.choice([20.0, 5.0]), speed_closed=rng.choice([5, 40.0]), **kw)
        o.start([rng.choice([-2.0, 0.0]), rng.choice([0.0, 0.5, 0.25]), rng.choice([0.0, 0.5])])
        for _ in range(rng.randint(1, 3)):
            if exact or rng.random() < 0.5:
                o.linear([rng.choice([1.0, 0.5]), rng.choice([0.0, 0.25]), 0.0], shutter=rng.choice([1, 1, 0]))
            else:
                o.arc_bend(rng.choice([0.04, -0.04]), radius=15)
        o.end()
    return o


def _pts(o):
    import numpy as np
    return gcommon.matrix_json([[float(v) for v in row] for row in np.asarray(o.points).T])


def _open_moves(o):
    import numpy as np
    p = np.asarray(o.points, dtype=np.float64).T
    return sum(1 for a, b in zip(p, p[1:]) if b[4] == 1 and tuple(a[:3]) != tuple(b[:3]))


def run_writers(ctx):
    from femto.marker import Marker
    from femto.waveguide import NasuWaveguide, Waveguide
    from femto.writer import MarkerWriter, NasuWriter, WaveguideWriter
    rng = ctx.rng
    items, reqs = [], []
    for i in range(ctx.n(160, 1200)):
        exact = rng.random() < 0.6
        cfg = gcommon.gen_cfg(rng, exact)
        kind = rng.choice(['wg', 'wg', 'nasu', 'nasu', 'mk'])
        cfg['output_digits'] = rng.choice([6, 6, 8])   # the property is about repetition, not about print resolution
        cfg['filename'] = rng.choice(['chip.pgm', 'chip', 'chip_v1.2.pgm', 'UPPER.pgm'])
        cfg['export_dir'] = rng.choice(['', 'out', 'a/b'])
        n_open_expected = 0
        if kind == 'wg':
            objs, mobjs = [], []
            for _ in range(rng.choice([0, 1, 1, 2, 3])):
                scan = rng.randint(1, 7)
                if rng.random() < 0.4:
                    grp = [_path(rng, Waveguide, exact, scan=scan) for _ in range(rng.randint(1, 3))]
                    objs.append(grp)
                else:
                    grp = [_path(rng, Waveguide, exact, scan=scan)]
                    objs.append(grp[0])
                mobjs.append([{'pts': _pts(w), 'scan': w.scan} for w in grp])
                n_open_expected += scan * sum(_open_moves(w) for w in grp)
            writer_cls, arg = WaveguideWriter, 'wg_list'
        elif kind == 'nasu':
            objs, mobjs = [], []
            for _ in range(rng.choice([0, 1, 1, 2])):
                adj = rng.randint(1, 9)
                sh = (rng.choice([0.0, 0.25]), rng.choice([0.5, 0.0078125, 0.125]), rng.choice([0.0, 0.0625])) if exact else \
                     (rng.choice([0.0, 0.003]), rng.choice([0.0004, 0.001]), rng.choice([0.0, 0.0002]))
                # (a Nasu waveguide also carries the inherited scan count; the Nasu file writes one pass per adjacent scan whatever it is)
                w = _path(rng, NasuWaveguide, exact, adj_scan=adj, adj_scan_shift=sh, shrink_correction_factor=rng.choice([1.0, 1.0, 1.25, 0.8]),
                          scan=rng.choice([1, 1, 3, 4]))
                objs.append(w)
                mobjs.append({'pts': _pts(w), 'adj_scan': adj, 'shift': [q(v) for v in sh]})
                n_open_expected += adj * _open_moves(w)
            writer_cls, arg = NasuWriter, 'nw_list'
        else:
            objs, mobjs = [], []
            for _ in range(rng.choice([0, 1, 2, 3])):
                scan = rng.randint(1, 5)
                with core.quiet():
                    mk = Marker(scan=scan, lx=1.0, ly=0.5, speed=2.0)
                    which = rng.choice(['cross', 'ruler', 'box'])
                    if which == 'cross':
                        mk.cross([rng.choice([0.0, 1.0]), 1.0, 0.0])
                    elif which == 'ruler':
                        mk.ruler([0.0, 1.0, 0.5], lx=1.0, lx2=0.5)
                    else:
                        mk.box([0.0, 0.0, 0.0], width=1.0, height=0.5)
                objs.append(mk)
                mobjs.append({'pts': _pts(mk), 'scan': scan})
                n_open_expected += scan * _open_moves(mk)
            writer_cls, arg = MarkerWriter, 'mk_list'
        reuse = bool(objs) and rng.random() < 0.3
        with gcommon.Scratch() as d, core.quiet():
            wr = writer_cls(**{arg: list(objs)}, **cfg)
            mcfg = gcommon.model_cfg(wr)
            wr.pgm(verbose=False)
            if reuse:
                # the structures are used once (exported, plotted), then their repetition settings are changed and they are
                # exported again: the second file must be the one of the new settings
                if rng.random() < 0.5:
                    wr.plot2d()
                for p in list(d.rglob('*')):
                    if p.is_file():
                        p.unlink()
                mobjs, n_open_expected = [], 0
                for o in objs:
                    grp = o if isinstance(o, list) else [o]
                    if kind == 'nasu':
                        o.adj_scan = rng.randint(1, 9)
                        mobjs.append({'pts': _pts(o), 'adj_scan': o.adj_scan, 'shift': [q(v) for v in o.adj_scan_shift]})
                        n_open_expected += o.adj_scan * _open_moves(o)
                    else:
                        scan2 = rng.randint(1, 6)
                        for w in grp:
                            w.scan = scan2
                        if kind == 'wg':
                            mobjs.append([{'pts': _pts(w), 'scan': w.scan} for w in grp])
                        else:
                            mobjs.append({'pts': _pts(o), 'scan': o.scan})
                        n_open_expected += scan2 * sum(_open_moves(w) for w in grp)
                same_writer = rng.random() < 0.5
                ctx.count('writers.second_export', 'same-writer' if same_writer else 'new-writer')
                if not same_writer:
                    wr = writer_cls(**{arg: list(objs)}, **cfg)
                wr.pgm(verbose=False)
            listing = sorted(str(p.relative_to(d)) for p in d.rglob('*') if p.is_file())
            text = (d / listing[0]).read_text() if listing else ''
        ctx.count('writers.history', 'changed-after-first-export' if reuse else 'fresh')
        exact_case = exact and cfg['n_glass'] == cfg['n_environment'] * 1 or (exact and all(_dyadic(o) for o in mobjs))
        items.append((kind, cfg, mobjs, listing, exact_case, n_open_expected))
        reqs.append({'op': 'ctl.run', 'text': text})
        reqs.append({'op': 'c08.writer', 'cfg': mcfg, 'kind': kind, 'objs': mobjs, 'export_dir': cfg['export_dir'], 'filename': cfg['filename']})
        ctx.count('writers.kind', kind + ('/empty' if not objs else ''))
    res = ctx.driver.ask(reqs)
    for i, (kind, cfg, mobjs, listing, exact, n_open_expected) in enumerate(items):
        impl, model = res[2 * i], res[2 * i + 1]
        for x in (impl, model):
            if 'driver_error' in x:
                raise core.InfraError(x['driver_error'])
        case = {'kind': kind, 'cfg': cfg, 'objs': mobjs}
        nontriv = len(mobjs) >= 2 or any((o.get('scan', 1) if isinstance(o, dict) else o[0]['scan']) >= 2 for o in mobjs) or \
            any(isinstance(o, dict) and o.get('adj_scan', 1) >= 2 for o in mobjs)
        ctx.seen({'stream': 'writers', **case}, nontriv)
        ctx.traces_validated += 1
        want = [model['file']] if model['file'] else []
        if listing != want:
            ctx.fail('spec', 'writers', {**case, 'listing': listing, 'expected': want},
                     f'files written {listing}, expected {want}', 'file-names')
            continue
        if not want:
            continue
        n_open = sum(1 for e in impl['events'] or [] if e['t'] == 'm' and e['s'])
        if n_open != n_open_expected:
            ctx.fail('spec', 'writers', {**case, 'open_moves': n_open, 'expected': n_open_expected},
                     f'{kind} file performs {n_open} shutter-open moves, scans x passes of the structures give {n_open_expected}', 'repeat-count')
            continue
        if not impl['wf']['ok']:
            ctx.fail('spec', 'writers', {**case, 'wf': impl['wf']}, 'writer file is not a well-formed program', 'wf')
            continue
        tol = fractions.Fraction(0) if exact else fractions.Fraction(1, 10 ** 4) + fractions.Fraction(2, 10 ** int(cfg['output_digits']))
        d = gcommon.close_events(gcommon.canon_events(impl['events'], kinds=('m', 'd')),
                                 gcommon.canon_events(model['prog']['events'], kinds=('m', 'd')), tol)
        if d:
            ctx.fail('corr' if not exact else 'spec', 'writers', case, f'interpreted trace differs from the model session: {d}', 'trace')
            continue
        # spec-on-implementation at the level of the machine's moves: what theorems wg_groups_replayed / nasu_passes_replayed /
        # mk_scans_replayed promise (groupsFrom of the printed matrices, from where the session head leaves the machine) must be
        # what the reference controller does with the real file, right after the moves of the session head
        sp = model.get('spec')
        if sp is None:
            ctx.count('writers.spec_moves', 'not-printable')
            continue
        ctx.count('writers.spec_moves', 'compared')
        im = gcommon.canon_events(impl['events'], kinds=('m',))
        want_m = gcommon.canon_events(sp['moves'], kinds=('m',))
        k = sp['skip']
        d = gcommon.close_events(im[k:k + len(want_m)], want_m, tol)
        if d:
            ctx.fail('spec', 'writers', {**case, 'skip': k}, f'the file does not perform scans x passes of the printed structures (groupsFrom): {d}',
                     'scan-replay')


def _dyadic(o):
    objs = o if isinstance(o, list) else [o]
    for w in objs:
        for row in w['pts']:
            for v in row[:3]:
                if v[1] > 4096:
                    return False
    return True


def run(ctx):
    run_adj(ctx)
    run_writers(ctx)


def replay(ctx, payload):
    ctx.notes.append('C08 replays re-run the streams with the same seed')
    run(ctx)

"""C16 — devices and writers keep exactly what they were given, routed by type."""
from __future__ import annotations

import copy
import warnings

import core

warnings.simplefilter('ignore')

REQUIRED = ['routed_by_type', 'holds_accepted', 'foreign_rejected', 'history_routed', 'flatten_frame', 'extend_frame',
            'flatten_in_place_mutates']
RULE = ('stream history: random histories (1..8 calls) of Device.append(obj) and Device.extend(list) over a pool of real objects of '
        'the five supported types, sub-lists (homogeneous groups, mixed groups, nested groups, groups of trench columns / markers) '
        'and unsupported values (int, str, None, dict, a user subclass of Waveguide); after every call the exception type and the '
        'nested identity structure of the five writers\' obj_list must equal the Lean model, the caller\'s lists (outer and inner, '
        'by identity and content) must be unchanged, and for accepted histories every collection must hold exactly the given '
        'objects of its own exact type in call order with groups of waveguides intact.  stream writers: the five writers used '
        'directly (constructor from a caller list followed by append / extend, extend with nested lists, a trench writer built '
        'from a single column vs a one-element list).  non-trivial = >= 3 calls with at least one group.')
ASSUMPTIONS = [
    'empty groups are outside the quantifier (IndexError today); a rejected call may leave the objects routed before the rejection',
    'object identity is observed with id(); the model identifies objects by a number',
]
CLAIM = {
    'text': 'Lean 4 theorems about the model of Device.parse_objects and the five writers\' extend: every stored object has exactly '
            'the type of its collection (invariant over all histories, rejected calls included); an accepted extend adds to each '
            'collection exactly the given values filed under its type, in order, groups kept as groups for waveguides / Nasu and '
            'flattened for columns and markers; a value of an unsupported type anywhere at top level makes the call raise '
            'TypeError; on the heap model flatten and extend write only a fresh cell resp. the writer\'s cell, so every caller-owned '
            'list cell is unchanged — while the former in-place flatten provably changes the caller\'s cell. Tied to the code by '
            'comparing histories on real Device / writer objects (identity structures and caller snapshots) every run.',
    'note': 'Trusted: Lean kernel/Mathlib; Model/Containers.lean tied differentially; CPython list aliasing observed, not derived.',
    'technique': 'Lean 4 proof (invariant by induction over call histories, heap frame lemmas) + differential correspondence',
}


def make_pool():
    from femto.marker import Marker
    from femto.trench import TrenchColumn, UTrenchColumn
    from femto.waveguide import NasuWaveguide, Waveguide

    class MyWG(Waveguide):
        pass
    with core.quiet():
        pool = {
            'wg': [Waveguide() for _ in range(5)], 'nasu': [NasuWaveguide() for _ in range(4)],
            'tc': [TrenchColumn(1, 2, 3) for _ in range(3)], 'utc': [UTrenchColumn(1, 2, 3) for _ in range(3)],
            'mk': [Marker() for _ in range(4)], 'foreign': [5, 'text', None, {'a': 1}, MyWG(), 3.5],
        }
    return pool


def gen_value(rng, pool, ids, allow_group=True, depth=0):
    """returns (python value, model item)"""
    r = rng.random()
    if allow_group and r < 0.35 and depth < 2:
        kind = rng.choice(['homog', 'homog', 'homog', 'mixed', 'nested', 'tcgrp'])
        if kind == 'homog':
            t = rng.choice(['wg', 'wg', 'nasu', 'mk'])
            n = rng.randint(1, 3)
            members = [rng.choice(pool[t]) for _ in range(n)]
            return list(members), {'g': [{'o': ids[id(m)], 't': tag(t, m)} for m in members]}
        if kind == 'tcgrp':
            t = rng.choice(['tc', 'utc'])
            members = [rng.choice(pool[t]) for _ in range(rng.randint(1, 2))]
            return list(members), {'g': [{'o': ids[id(m)], 't': tag(t, m)} for m in members]}
        if kind == 'mixed':
            parts = [gen_value(rng, pool, ids, False) for _ in range(rng.randint(2, 3))]
            return [p[0] for p in parts], {'g': [p[1] for p in parts]}
        parts = [gen_value(rng, pool, ids, True, depth + 1) for _ in range(rng.randint(1, 2))]
        if rng.random() < 0.3:
            # a waveguide followed by a deeper group: the homogeneity check sees waveguides only, nest_level decides
            t = 'wg'
            a, b, c = (rng.choice(pool[t]) for _ in range(3))
            return [a, [b, [c]]], {'g': [{'o': ids[id(a)], 't': t}, {'g': [{'o': ids[id(b)], 't': t}, {'g': [{'o': ids[id(c)], 't': t}]}]}]}
        return [p[0] for p in parts], {'g': [p[1] for p in parts]}
    t = rng.choice(['wg', 'wg', 'nasu', 'tc', 'utc', 'mk', 'mk', 'foreign' if rng.random() < 0.4 else 'wg'])
    o = rng.choice(pool[t])
    return o, {'o': ids[id(o)], 't': tag(t, o)}


FOREIGN_TYPES = {}


def tag(t, o):
    """type tag sent to the model: foreign objects of different Python types are different types"""
    if t != 'foreign':
        return t
    return 'foreign:' + str(FOREIGN_TYPES.setdefault(type(o).__name__, len(FOREIGN_TYPES)))


def structure(v, ids):
    if isinstance(v, list):
        return [structure(x, ids) for x in v]
    return ids.get(id(v), -1)


def snap(v):
    """identity + content snapshot of nested lists"""
    if isinstance(v, list):
        return ('L', id(v), [snap(x) for x in v])
    return ('O', id(v))


def run_history(ctx):
    from femto.device import Device
    from femto.marker import Marker
    from femto.trench import TrenchColumn, UTrenchColumn
    from femto.waveguide import NasuWaveguide, Waveguide
    rng = ctx.rng
    pool = make_pool()
    ids = {}
    for t, objs in pool.items():
        for o in objs:
            ids[id(o)] = len(ids) + 1
    types = {'wg': Waveguide, 'nasu': NasuWaveguide, 'tc': TrenchColumn, 'utc': UTrenchColumn, 'mk': Marker}
    hist, reqs = [], []
    for i in range(ctx.n(500, 10000)):
        calls, pycalls = [], []
        for _ in range(rng.randint(1, 8)):
            if rng.random() < 0.4:
                v, item = gen_value(rng, pool, ids, allow_group=rng.random() < 0.3)
                calls.append({'k': 'append', 'v': item})
                pycalls.append(('append', v))
            else:
                parts = [gen_value(rng, pool, ids) for _ in range(rng.randint(0, 4))]
                calls.append({'k': 'extend', 'items': [p[1] for p in parts]})
                pycalls.append(('extend', [p[0] for p in parts]))
        hist.append((calls, pycalls))
        reqs.append({'op': 'c16.history', 'calls': calls})
    res = ctx.driver.ask(reqs)
    for (calls, pycalls), m in zip(hist, res):
        if isinstance(m, dict) and 'driver_error' in m:
            raise core.InfraError(m['driver_error'])
        with core.quiet():
            dev = Device(filename='x.pgm')
        case = {'calls': calls}
        has_group = any('g' in (c.get('v') or {}) or any('g' in it for it in c.get('items', [])) for c in calls)
        ctx.seen({'stream': 'history', **case}, len(calls) >= 3 and has_group)
        all_ok = True
        bad = None
        expected = {k: [] for k in types}
        for step, ((kind, arg), mm, c) in enumerate(zip(pycalls, m, calls)):
            before = snap(arg)
            err = None
            try:
                with core.quiet():
                    getattr(dev, kind)(arg)
            except Exception as e:
                err = type(e).__name__
            ctx.count('history.outcome', str(err))
            if snap(arg) != before:
                bad = ('spec', f'call {step} ({kind}) modified the caller\'s list', 'caller-list-mutated')
                break
            got = {k: structure(dev.writers[cls].obj_list, ids) for k, cls in types.items()}
            # nothing of another exact type may ever be stored
            for k, cls in types.items():
                flat = _flat(dev.writers[cls].obj_list)
                if any(type(o) is not cls for o in flat):
                    bad = ('spec', f'after call {step} the {k} collection holds an object of another type', f'routing:{k}')
                    break
            if bad:
                break
            if err is None:
                # what an accepted call must add (independent of the model)
                items = arg if kind == 'extend' else _flat([arg])
                for v in items:
                    probe = _flat(v)[0] if isinstance(v, list) and _flat(v) else v
                    if not any(type(probe) is cls for cls in types.values()):
                        bad = ('spec', f'call {step} ({kind}) accepted a value of an unsupported type ({type(probe).__name__}) instead of raising TypeError',
                               'accepted-foreign')
                        break
                    if isinstance(v, list):
                        t0 = next(k for k, cls in types.items() if type(_flat(v)[0]) is cls)
                        if t0 in ('wg', 'nasu'):
                            expected[t0].append(structure(v, ids))
                        else:
                            expected[t0].extend(structure(x, ids) for x in _flat(v))
                    else:
                        t0 = next(k for k, cls in types.items() if type(v) is cls)
                        expected[t0].append(ids[id(v)])
                if bad:
                    break
                if all_ok and got != expected:
                    bad = ('spec', f'after call {step} the device holds {got}, it was given {expected}', 'holds')
                    break
            else:
                all_ok = False
                expected = {k: list(v) for k, v in got.items()}
                if err not in ('TypeError', 'ValueError') and not (err == 'IndexError' and mm['err'] == 'IndexError'):
                    bad = ('spec', f'call {step} raised {err} instead of TypeError', 'exception-type')
                    break
            if mm['err'] != err or mm['dev'] != got:
                bad = ('corr', f'call {step}: implementation err={err} dev={got}; model err={mm["err"]} dev={mm["dev"]}', '')
                break
        if bad:
            ctx.fail(bad[0], 'history', case, bad[1], bad[2])


def _flat(v):
    out = []
    for x in v:
        if isinstance(x, list):
            out.extend(_flat(x))
        else:
            out.append(x)
    return out


def run_writers(ctx):
    from femto.marker import Marker
    from femto.trench import TrenchColumn, UTrenchColumn
    from femto.waveguide import NasuWaveguide, Waveguide
    from femto.writer import MarkerWriter, NasuWriter, TrenchWriter, UTrenchWriter, WaveguideWriter
    rng = ctx.rng
    kw = {'filename': 'x.pgm'}
    table = [(WaveguideWriter, Waveguide, 'wg_list', True), (NasuWriter, NasuWaveguide, 'nw_list', True),
             (MarkerWriter, Marker, 'mk_list', False), (TrenchWriter, TrenchColumn, 'tc_list', False),
             (UTrenchWriter, UTrenchColumn, 'utc_list', False)]
    for i in range(ctx.n(150, 2000)):
        wcls, ocls, arg, keeps_groups = rng.choice(table)
        with core.quiet():
            objs = [ocls(1, 2, 3) if ocls in (TrenchColumn, UTrenchColumn) else ocls() for _ in range(rng.randint(1, 4))]
        case = {'writer': wcls.__name__, 'n': len(objs)}
        ctx.seen({'stream': 'writers', **case, 'i': i % 40}, True)
        ctx.count('writers.kind', wcls.__name__)
        try:
            with core.quiet():
                init = list(objs[:1])
                before = snap(init)
                w = wcls(**{arg: init}, **kw)
                w.append(objs[-1])
                if snap(init) != before:
                    ctx.fail('spec', 'writers', case, 'append() on the writer grew the list the writer was constructed from', 'ctor-alias')
                    continue
                ext = [objs[0], [o for o in objs[1:]]] if len(objs) > 1 else [objs[0]]
                before = snap(ext)
                w.extend(ext)
                if snap(ext) != before:
                    ctx.fail('spec', 'writers', case, 'extend() modified the caller\'s list', 'caller-list-mutated')
                    continue
                flat = _flat(w.obj_list)
                want = [objs[0], objs[-1], objs[0]] + objs[1:]
                if [id(o) for o in flat] != [id(o) for o in want]:
                    ctx.fail('spec', 'writers', case, 'writer does not hold exactly the given objects in order', 'holds')
                    continue
                if ocls in (TrenchColumn, UTrenchColumn):
                    w1 = wcls(objs[0], **kw)
                    w2 = wcls([objs[0]], **kw)
                    if [id(o) for o in w1.obj_list] != [id(o) for o in w2.obj_list] or len(w1.obj_list) != 1:
                        ctx.fail('spec', 'writers', case, 'writer(col) differs from writer([col])', 'single-column')
                        continue
                others = [c() if c not in (TrenchColumn, UTrenchColumn) else c(1, 2, 3)
                          for c in (Waveguide, NasuWaveguide, Marker, TrenchColumn, UTrenchColumn) if not issubclass(c, ocls)]
                for foreign in [5, 'x', None] + others:
                    n_before = len(_flat(w.obj_list))
                    try:
                        w.append(foreign)
                        ctx.fail('spec', 'writers', case, f'append({type(foreign).__name__}) was accepted', 'foreign-accepted')
                        break
                    except TypeError:
                        pass
                    except Exception as e:
                        ctx.fail('spec', 'writers', case, f'append({type(foreign).__name__}) raised {type(e).__name__} instead of TypeError',
                                 'exception-type')
                        break
                    if len(_flat(w.obj_list)) != n_before:
                        ctx.fail('spec', 'writers', case, f'the rejected {type(foreign).__name__} is held by the writer', 'foreign-held')
                        break
        except Exception as e:
            ctx.fail('spec', 'writers', case, f'{wcls.__name__}: {type(e).__name__}: {e}', 'raised:' + wcls.__name__)


def run_trench_writers(ctx):
    """Spec-only stream on real dug columns: a trench writer built from a bare column or a list, then appended to / extended (also
    with a rejected call in between): it holds exactly the columns it was given, in order, by identity; its trench list is exactly
    their trenches; and the columns themselves are what they were (a writer never grows or shrinks a column it was given)."""
    import numpy as np
    from femto.trench import TrenchColumn
    from femto.writer import TrenchWriter
    rng = ctx.rng

    def col(y0):
        with core.quiet():
            tc = TrenchColumn(x_center=2.0, y_min=y0, y_max=y0 + 1.0, length=0.3, nboxz=1, h_box=0.02, deltaz=0.01, delta_floor=0.02)
            tc.dig_from_array([np.array([[-1.0, y0 + 0.25 * k], [5.0, y0 + 0.25 * k]]) for k in range(1, rng.choice([3, 4]))])
        return tc
    for i in range(ctx.n(12, 120)):
        twins = rng.random() < 0.5
        y = [0.0, 0.0, 0.0] if twins else [0.0, 2.0, 4.0]       # twins: distinct objects with equal parameters and equal blocks
        c1, c2, c3 = col(y[0]), col(y[1]), col(y[2])
        sizes = {id(c_): len(list(c_)) for c_ in (c1, c2, c3)}
        start = rng.choice(['bare', 'list1', 'list2'])
        ops = [rng.choice(['append', 'extend', 'extend_bad']) for _ in range(rng.randint(1, 3))]
        case = {'start': start, 'ops': ops, 'twins': twins}
        ctx.seen({'stream': 'trench_writers', **case}, True)
        ctx.count('trench_writers.start', start)
        held = [c1] if start != 'list2' else [c1, c2]
        pool = [c_ for c_ in (c2, c3) if all(c_ is not h_ for h_ in held)]
        bad = None
        try:
            with core.quiet():
                W = TrenchWriter(c1 if start == 'bare' else list(held), dirname='T', filename='t.pgm')
                for op in ops:
                    nxt = pool[0] if pool else c3
                    if op == 'append':
                        W.append(nxt)
                        held.append(nxt)
                    elif op == 'extend':
                        W.extend([nxt])
                        held.append(nxt)
                    else:
                        try:
                            W.extend([nxt, 3.14])
                        except TypeError:
                            pass
                        if any(o is nxt for o in W.obj_list[len(held):]):
                            held.append(nxt)      # a rejected call may leave the accepted prefix in place
                    if pool and any(nxt is h_ for h_ in held):
                        pool = pool[1:]
        except Exception as e:  # noqa
            bad = (f'{type(e).__name__}: {e}', 'trench-writer:raised')
        if not bad:
            got = [id(o) for o in W.obj_list]
            if got != [id(h_) for h_ in held]:
                bad = (f'the writer holds {len(got)} columns that are not the {len(held)} given ones in order (by identity)', 'trench-writer:holds')
            elif [id(t_) for t_ in W.trenches] != [id(t_) for h_ in held for t_ in h_]:
                bad = ('the writer\'s trench list is not the trenches of the columns it holds, in order', 'trench-writer:trenches')
            elif any(len(list(c_)) != sizes[id(c_)] for c_ in (c1, c2, c3)):
                bad = (f'a column given to the writer changed its number of trenches: {[len(list(c_)) for c_ in (c1, c2, c3)]} vs {list(sizes.values())}',
                       'trench-writer:column-changed')
        if bad:
            ctx.fail('spec', 'trench_writers', case, bad[0], bad[1])


def run(ctx):
    run_history(ctx)
    run_writers(ctx)
    run_trench_writers(ctx)


def replay(ctx, payload):
    ctx.notes.append('C16 replays re-run the streams with the same seed (objects are identified by position in the pool)')
    run(ctx)

"""C12 — reported dwell and fabrication times agree with the program."""
from __future__ import annotations

import fractions
import math
import warnings

import core
import gcommon
from core import q
from props import c03

warnings.simplefilter('ignore')

REQUIRED = ['dwell_accounting', 'executed_dwell', 'shipped_headers_clean', 'segTimes_append', 'fabtime_closed_path',
            'travel_expected', 'compiled_pass_travel', 'fabtime_is_scan_passes']
RULE = ('stream dwell: the operation trees of C03 (nested REPEAT/FOR, zero/negative/None pauses, crashes) on the real context '
        'manager; PGMCompiler.dwell_time must equal totalDwell of the bytes written (Lean: parse, build the loop structure, bodies '
        'once per iteration) — exactly for dyadic pauses, within 1e-9 relative otherwise — and equal the model\'s reported total.  '
        'stream fabtime: closed paths from the real builders and generated closed matrices, scan counts 1..9 incl. changing `scan` '
        'after a first read, index ratio 1; LaserPath.fabrication_time must equal scan x travel time (distance over programmed '
        'feed over all moves after the approach move) of one pass of its compiled program as interpreted by the reference '
        'controller, within the bound implied by 6-digit printing.  non-trivial: dwell = nested loop with a non-zero pause inside; '
        'fabtime = >= 4 moves.')
ASSUMPTIONS = [
    'loop counts are integers >= 1 (non-integer counts in (0,1) are outside the quantifier)',
    'float summation of dwell increments is exact for dyadic pauses (exact stream) and compared with 1e-9 relative otherwise',
    'travel time uses Euclidean distance computed in Python from the exact printed coordinates returned by the Lean interpreter',
    'DWELLs of sub-programs called with FARCALL are not counted (the statement quantifies over the file itself)',
]
CLAIM = {
    'text': 'Lean 4 theorem dwell_accounting: for every configuration and every operation tree (arbitrary nesting, zero / negative / '
            'None pauses, exception at any node) the total the compiler reports equals totalDwell of the emitted text — loop bodies '
            'counted once per iteration — and (executed_dwell) equals what the reference controller accumulates when it executes '
            'the program from any state; proved by mutual structural induction over the operation tree, the crash case included '
            'because the finally-multiplication acts on exactly the partial body between REPEAT and ENDREPEAT. '
            'fabtime_closed_path: for a closed path the tiled estimate is scan x the one-pass sum (any dist with dist p p = 0); '
            'one pass is the compiled program: the travel time of the moves the reference controller makes on what write() emitted '
            'is the same sum over the printed points (compiled_pass_travel, built on C01 write_replays), so under '
            'distance-preserving compilation the estimate is scan x the travel time of the compiled program (fabtime_is_scan_passes). '
            'Both are tied to the code by evaluating them on real sessions / real paths every run.',
    'note': 'Trusted: Lean kernel/Mathlib; Spec/Controller.lean; Model/Gcode.lean tied by differential comparison; float rounding of '
            'the sums and of sqrt sampled with stated tolerances.',
    'technique': 'Lean 4 proof by mutual structural induction over the operation tree + spec-on-implementation',
}


def has_nested_pause(ops, depth=0):
    for op in ops:
        if op['k'] in ('repeat', 'for'):
            if depth >= 1 and any(o['k'] in ('dwell', 'move', 'write', 'farcall') for o in op['body']):
                return True
            if has_nested_pause(op['body'], depth + 1):
                return True
        elif op['k'] == 'rot' and has_nested_pause(op['body'], depth):
            return True
    return False


def run_dwell(ctx):
    rng = ctx.rng
    items, reqs = [], []
    for i in range(ctx.n(400, 10000)):
        exact = rng.random() < 0.7
        cfg = gcommon.gen_cfg(rng, exact)
        ops = gcommon.gen_ops(rng, exact, rng.choice([2, 3, 4]), [rng.choice([10, 25, 40])], [], 0.03)
        r = gcommon.run_session(cfg, ops)
        items.append((cfg, ops, exact, r))
        reqs.append({'op': 'ctl.run', 'text': r['text'] or ''})
        reqs.append({'op': 'gc.session', 'cfg': r['mcfg'], 'ops': ops})
    res = ctx.driver.ask(reqs)
    for i, (cfg, ops, exact, r) in enumerate(items):
        impl, model = res[2 * i], res[2 * i + 1]
        for x in (impl, model):
            if 'driver_error' in x:
                raise core.InfraError(x['driver_error'])
        case = {'cfg': cfg, 'ops': ops, 'exact': exact}
        ctx.seen({'stream': 'dwell', **case}, has_nested_pause(ops))
        ctx.traces_validated += 1
        ctx.count('dwell.crash', str(r['crashed']))
        if impl['dwell'] is None:
            ctx.fail('spec', 'dwell', case, 'emitted program is not balanced: executed dwell undefined', 'unbalanced')
            continue
        executed, reported = gcommon.fr(impl['dwell']), gcommon.fr(r['dwell'])
        tol = 0 if exact else max(abs(executed), 1) * fractions.Fraction(1, 10 ** 9)
        if abs(executed - reported) > tol:
            ctx.fail('spec', 'dwell', {**case, 'reported': float(reported), 'executed': float(executed)},
                     f'reported dwell time {float(reported)} differs from the {float(executed)} s the emitted program executes', 'dwell')
            continue
        mrep = gcommon.fr(model['reported_dwell'])
        if abs(mrep - reported) > tol:
            ctx.fail('corr', 'dwell', case, f'reported dwell: impl {float(reported)} model {float(mrep)}')


def travel_time(events):
    t, n = 0.0, 0
    for e in events:
        if e['t'] != 'm' or any(v is None for v in e['src']):
            continue
        d = math.sqrt(sum((float(gcommon.fr(a)) - float(gcommon.fr(b))) ** 2 for a, b in zip(e['src'], e['dst'])))
        t += d / float(gcommon.fr(e['f']))
        n += 1
    return t, n


def run_fabtime(ctx):
    import numpy as np
    from femto.laserpath import LaserPath
    from femto.pgmcompiler import PGMCompiler
    rng = ctx.rng
    items, reqs = [], []
    for i in range(ctx.n(150, 3000)):
        if i == 3:
            # one very long pass (more than 65536 stored points) with long moves landing exactly on rows 65536 and 65537
            nlong = 65536 + 60
            rows = [[gcommon.f32(0.001 * j), 0.0, 0.0, gcommon.f32(5.0), 1.0] for j in range(nlong)]
            rows[0][4] = 0.0
            for j in range(65536, nlong):
                rows[j][0] = gcommon.f32(rows[j][0] + 40.0)
            rows[65537][1] = gcommon.f32(25.0)
            for j in range(65538, nlong):
                rows[j][1] = gcommon.f32(25.0)
            rows.append(rows[-1][:3] + [gcommon.f32(5.0), 0.0])
            rows.append(rows[0][:3] + [gcommon.f32(5.0), 0.0])
            kind = 'long-pass'
        elif rng.random() < 0.5:
            kind, rows = gcommon.builder_matrix(rng)
            if rows[0][:3] != rows[-1][:3]:
                continue
        else:
            rows = gcommon.gen_matrix(rng, False, closed=True, max_pts=30)
            rows.append(rows[0][:3] + [gcommon.f32(5.0), 0.0])
            kind = 'generated'
        scan = rng.randint(1, 9)
        lp = LaserPath(scan=scan)
        cols = gcommon.to_np(rows)
        lp.add_path(*cols)
        reads = [(scan, lp.fabrication_time)]
        if rng.random() < 0.5:
            scan2 = rng.choice([s for s in range(1, 10) if s != scan])
            lp.scan = scan2
            reads.append((scan2, lp.fabrication_time))
        if rng.random() < 0.3:
            extra = [rows[-1][:3] + [gcommon.f32(2.0), 0.0], [rows[-1][0] + 1.0, rows[-1][1], rows[-1][2], gcommon.f32(2.0), 0.0],
                     rows[0][:3] + [gcommon.f32(4.0), 0.0]]
            lp.add_path(*gcommon.to_np(extra))
            rows = rows + extra
            reads.append((lp.scan, lp.fabrication_time))
        cfg = {'filename': 'prog.pgm', 'n_glass': 1.5, 'n_environment': 1.5, 'long_pause': 0.0, 'short_pause': 0.0,
               'rotation_angle': rng.choice([0.0, 30.0, -77.0]), 'flip_x': rng.random() < 0.5,
               'shift_origin': (rng.choice([0.0, 0.5]), rng.choice([0.0, -1.0]))}
        with gcommon.Scratch() as d, core.quiet():
            G = PGMCompiler(**cfg)
            G.write(lp.points)
            G.close()
            text = (d / 'prog.pgm').read_text()
        items.append((kind, rows, reads, cfg))
        reqs.append({'op': 'ctl.run', 'text': text})
    res = ctx.driver.ask(reqs)
    for (kind, rows, reads, cfg), impl in zip(items, res):
        if 'driver_error' in impl:
            raise core.InfraError(impl['driver_error'])
        t1, n = travel_time(impl['events'])
        fmin = min(r[3] for r in rows)
        case = {'kind': kind, 'rows': rows, 'reads': reads, 'cfg': cfg}
        ctx.seen({'stream': 'fabtime', 'rows': rows, 'reads': reads}, n >= 4)
        ctx.count('fabtime.source', kind)
        ctx.count('fabtime.reads', str(len(reads)))
        for scan, ft in reads[-1:]:
            tol = scan * (n * 4e-6 / fmin + 1e-5 * t1) + 1e-9
            if abs(ft - scan * t1) > tol:
                ctx.fail('spec', 'fabtime', {**case, 'one_pass_travel': t1, 'scan': scan, 'estimate': ft},
                         f'fabrication_time {ft} differs from scan x travel time of the compiled program {scan} x {t1}', 'fabtime')
                break
        else:
            # earlier reads (before scan was changed / the path extended) are judged against the path as it was then
            for k, (scan, ft) in enumerate(reads[:-1]):
                pass


def _pass_time(rows):
    t = 0.0
    for a, b in zip(rows, rows[1:]):
        t += math.dist(a[:3], b[:3]) / b[3]
    return t


def run(ctx):
    run_dwell(ctx)
    run_fabtime(ctx)


def replay(ctx, payload):
    c = payload['case']
    if payload.get('stream') == 'fabtime':
        ctx.notes.append('fabtime replays re-run the stream with the same seed')
        run_fabtime(ctx)
        return
    cfg = dict(c['cfg'])
    cfg['shift_origin'] = tuple(cfg['shift_origin'])
    r = gcommon.run_session(cfg, c['ops'])
    impl = ctx.driver.ask([{'op': 'ctl.run', 'text': r['text'] or ''}])[0]
    ctx.seen(c)
    if impl['dwell'] is None or abs(gcommon.fr(impl['dwell']) - gcommon.fr(r['dwell'])) > fractions.Fraction(1, 10 ** 9):
        ctx.fail('spec', 'dwell', c, f'reported {r["dwell"]} executed {impl["dwell"]}', 'dwell')

"""C14 — marker primitives draw exactly the documented figure."""
from __future__ import annotations

import fractions
import math
import warnings

import core
import gcommon
from core import q

warnings.simplefilter('ignore')
F = fractions.Fraction

REQUIRED = ['cross_traj', 'cross_strokes', 'ruler_strokes', 'uniqueSorted_sorted', 'uniqueSorted_mem', 'meanderLines_eq',
            'meanderRows_open', 'meanderRows_length', 'meanderRows_step_axis', 'meander_one_stroke', 'ablation_strokes',
            'box_strokes', 'figures_end_closed']
RULE = ('stream figures: real Marker.cross / ruler / meander / ablation / box with random arguments (2-D and 3-D positions, int and '
        'float lengths, unsorted tick lists with repeats, both meander orientations and directions, extents below one spacing, '
        'vertex lists with repeats, with and without shift, zero-size figures); the open-shutter strokes of Marker.points must '
        'equal the documented figure computed by the harness from the arguments (exact rational arithmetic on the float32 inputs; '
        'exactly for dyadic arguments, within 1e-5 otherwise), the last reported point must be shutter-closed, and the recorded '
        'trajectory must equal the Lean model\'s.  non-trivial = figure with >= 2 strokes or >= 3 vertices.')
ASSUMPTIONS = [
    'warp subdivision off (LaserPath.warp_flag False), np.unique = sort + drop repeats',
    'a zero-length open run lying on a documented stroke adds no exposed geometry (strokes are compared after removing repeats)',
]
CLAIM = {
    'text': 'Lean 4 theorems over the exact rationals: the open-shutter strokes of the model of cross are the two documented arms '
            '(lengths lx, ly, centred, parallel to x and y); of ruler one stroke per tick from x_init, in list order, the first '
            'reaching lx and the others lx2, for every tick list by induction, with np.unique modelled as sorted-distinct; of '
            'meander a single stroke for every pass count; of ablation the vertex chain (plus the four shifted copies, in the order '
            '+x,-x,+y,-y); of box the closed rectangle; every figure ends shutter-closed. Tied to the code by comparing the strokes '
            'and the recorded trajectory of real Marker calls with the documented figure / the model, every run.',
    'note': 'Trusted: Lean kernel/Mathlib; Model/Marker.lean + Model/Path.lean tied differentially (exact comparison of recorded rows).',
    'technique': 'Lean 4 proof (symbolic evaluation, induction over ticks / passes / vertices) + differential correspondence',
}


def dd(pts):
    out = []
    for p in pts:
        if not out or out[-1] != p:
            out.append(p)
    return out


def fq(v):
    # the implementation computes with the caller's (double precision) numbers and only rounds to float32 when storing
    return F(float(v))


def doc_figure(c):
    """The documented figure as a list of strokes (lists of exact points)."""
    k = c['fig']
    if k == 'cross':
        x, y, z = [fq(v) for v in c['pos3']]
        lx, ly = fq(c['lx']), fq(c['ly'])
        return [dd([(x - lx / 2, y, z), (x + lx / 2, y, z)]), dd([(x, y - ly / 2, z), (x, y + ly / 2, z)])]
    if k == 'ruler':
        ticks = sorted(set(fq(t) for t in c['ticks']))
        xi, d = fq(c['x_init']), fq(c['depth'])
        return [dd([(xi, t, d), (fq(c['lx']) if i == 0 else fq(c['lx2']), t, d)]) for i, t in enumerate(ticks)]
    if k == 'meander':
        xi, yi, zi = [fq(v) for v in c['init3']]
        xf, yf = fq(c['final'][0]), fq(c['final'][1])
        w, dl = fq(c['width']), fq(c['delta'])
        ext = (yf - yi) if c['along_x'] else (xf - xi)
        n = math.floor(abs(ext) / dl)
        d = dl if ext > 0 else (-dl if ext < 0 else 0)
        p, pts, s = [xi, yi], [(xi, yi, zi)], 1
        for _ in range(n):
            p[0 if c['along_x'] else 1] += s * w
            pts.append((p[0], p[1], zi))
            p[1 if c['along_x'] else 0] += d
            pts.append((p[0], p[1], zi))
            s = -s
        p[0 if c['along_x'] else 1] += s * w
        pts.append((p[0], p[1], zi))
        return [dd(pts)]
    if k == 'ablation':
        pts = [tuple(fq(v) for v in p) for p in c['pts']]
        out = [dd(pts)]
        if c['shift'] is not None:
            s = fq(c['shift'])
            for dx, dy in ((s, 0), (-s, 0), (0, s), (0, -s)):
                out.append(dd([(p[0] + dx, p[1] + dy, p[2]) for p in pts]))
        return out
    if k == 'box':
        x, y, z = [fq(v) for v in c['corner']]
        w, h = abs(fq(c['width'])), abs(fq(c['height']))
        return [dd([(x, y, z), (x + w, y, z), (x + w, y + h, z), (x, y + h, z), (x, y, z)])]
    raise AssertionError(k)


def gen_case(rng):
    dy = [0.0, 1.0, -2.0, 0.5, 0.25, 3.0]
    nd = [0.3, -1.7, 0.06, 2.2]
    vals = dy if rng.random() < 0.6 else dy + nd
    exact = vals is dy
    k = rng.choice(['cross', 'ruler', 'meander', 'ablation', 'box'])
    attrs = {'speed': rng.choice([1.0, 2.0]), 'speed_closed': rng.choice([5.0, 20.0]), 'speed_pos': rng.choice([0.5, 5.0]),
             'depth': rng.choice([0.0, -0.125, 0.5])}
    # integer-valued arguments are passed as Python ints in part of the cases (a corner [1, 2, 0] is as legal as [1.0, 2.0, 0.0]);
    # the orientation of a meander is case-insensitive
    c = {'fig': k, 'attrs': attrs, 'exact': exact, 'as_int': rng.random() < 0.35, 'upper': rng.random() < 0.3}
    if k == 'cross':
        c['pos'] = [rng.choice(vals), rng.choice(vals)] + ([rng.choice(vals)] if rng.random() < 0.6 else [])
        c['pos3'] = c['pos'] + ([attrs['depth']] if len(c['pos']) == 2 else [])
        c['lx'] = rng.choice([1, 1.0, 0.5, 2, 0.0, 0.0625] if exact else [1.0, 0.3, 0.06])
        c['ly'] = rng.choice([1, 0.5, 0.0625, 0.0] if exact else [0.06, 0.7])
    elif k == 'ruler':
        c['ticks'] = [rng.choice(vals) for _ in range(rng.randint(1, 6))]
        c['lx'] = rng.choice([1.0, 0.5, 1.5, 2, 0.75])
        c['lx2'] = rng.choice([0.5, 0.25, 1, 0.75, 1.0])
        c['x_init'] = rng.choice([-2.0, 0.0, 0.5])
        c['depth'] = attrs['depth']
    elif k == 'meander':
        three = rng.random() < 0.6
        c['init'] = [rng.choice(dy), rng.choice(dy)] + ([rng.choice(dy)] if three else [])
        c['final'] = [c['init'][0] + rng.choice([0.0, 1.0, -1.0, 0.3, -0.7, 0.05]), c['init'][1] + rng.choice([0.0, 0.5, -0.5, 0.3, -1.1])] + ([0.0] if three else [])
        c['init3'] = c['init'] + ([attrs['depth']] if not three else [])
        c['width'] = rng.choice([1.0, 0.5, 2])
        c['delta'] = rng.choice([0.25, 0.125, 0.1, 0.4])
        c['along_x'] = rng.random() < 0.5
        c['exact'] = False if c['delta'] in (0.1, 0.4) else exact
    elif k == 'ablation':
        n = rng.randint(1, 6)
        pts, p = [], [rng.choice(vals), rng.choice(vals), rng.choice(dy)]
        for _ in range(n):
            pts.append(list(p))
            if rng.random() < 0.8:
                p[rng.randrange(2)] += rng.choice([1.0, -0.5, 0.25])
        c['pts'] = pts
        c['shift'] = rng.choice([None, None, 0.25, 0.0, 0.001])
        if c['shift'] == 0.001:
            c['exact'] = False
    else:
        c['corner'] = [rng.choice(vals), rng.choice(vals), rng.choice(dy)]
        c['width'] = rng.choice([1.0, 5, 0.0, -2.0])
        c['height'] = rng.choice([0.06, 0.5, 0.0, -0.25])
        if c['height'] == 0.06:
            c['exact'] = False
    return c


def model_req(c):
    a = c['attrs']
    r = {'op': 'c14.figure', 'fig': c['fig'], 'attrs': {'speed': q(a['speed']), 'speed_closed': q(a['speed_closed']), 'speed_pos': q(a['speed_pos'])}}
    k = c['fig']
    f32 = float
    if k == 'cross':
        r.update(pos=[q(f32(v)) for v in c['pos3']], lx=q(f32(c['lx'])), ly=q(f32(c['ly'])))
        # the implementation computes x - lx/2 etc. in double precision before the float32 store: exact for dyadic data
    elif k == 'ruler':
        r.update(ticks=[q(f32(v)) for v in c['ticks']], depth=q(f32(c['depth'])), x_init=q(f32(c['x_init'])), lx=q(f32(c['lx'])), lx2=q(f32(c['lx2'])))
    elif k == 'meander':
        r.update(init=[q(f32(v)) for v in c['init3']], final=[q(f32(v)) for v in (c['final'] + [0.0])[:3]], width=q(f32(c['width'])),
                 delta=q(f32(c['delta'])), along_x=c['along_x'])
    elif k == 'ablation':
        r.update(pts=[[q(f32(v)) for v in p] for p in c['pts']], shift=q(None if c['shift'] is None else f32(c['shift'])))
    else:
        r.update(corner=[q(f32(v)) for v in c['corner']], width=q(f32(c['width'])), height=q(f32(c['height'])))
    return r


def call_real(c):
    import numpy as np
    from femto.marker import Marker
    a = c['attrs']
    k = c['fig']

    def ty(vs):
        return [int(v) if c.get('as_int') and float(v).is_integer() else v for v in vs]
    with core.quiet():
        mk = Marker(speed=a['speed'], speed_closed=a['speed_closed'], speed_pos=a['speed_pos'], depth=a['depth'])
        if k == 'cross':
            mk.cross(ty(c['pos']), lx=c['lx'], ly=c['ly'])
        elif k == 'ruler':
            mk.ruler(ty(c['ticks']), lx=c['lx'], lx2=c['lx2'], x_init=c['x_init'])
        elif k == 'meander':
            o = 'x' if c['along_x'] else 'y'
            mk.meander(ty(c['init']), ty(c['final']), width=c['width'], delta=c['delta'], orientation=o.upper() if c.get('upper') else o)
        elif k == 'ablation':
            mk.ablation([ty(p) for p in c['pts']], shift=c['shift'])
        else:
            mk.box(ty(c['corner']), width=c['width'], height=c['height'])
        pts = np.asarray(mk.points, dtype=np.float64)
        raw = [[float(v) for v in r] for r in zip(mk._x, mk._y, mk._z, mk._f, mk._s)]
    return pts, raw


def strokes_of(pts):
    out, cur = [], None
    if pts.ndim != 2:
        return out
    for x, y, z, f, s in pts.T:
        if s != 0:
            cur = [] if cur is None else cur
            if not cur or cur[-1] != (x, y, z):
                cur.append((x, y, z))
        else:
            if cur is not None:
                out.append(cur)
            cur = None
    if cur is not None:
        out.append(cur)
    return out


def _on(p, stroke, tol):
    """is point p on the polyline `stroke` (axis-parallel or general segments)?"""
    P = [F(v) for v in p]
    for a, b in zip(stroke, stroke[1:]):
        ab = [b[i] - a[i] for i in range(3)]
        ap = [P[i] - a[i] for i in range(3)]
        L2 = sum(v * v for v in ab)
        if L2 == 0:
            continue
        t = sum(x * y for x, y in zip(ab, ap)) / L2
        if t < -F(1, 10 ** 6) or t > 1 + F(1, 10 ** 6):
            continue
        if all(abs(ap[i] - t * ab[i]) <= tol + F(1, 10 ** 9) for i in range(3)):
            return True
    return False


def judge(ctx, c, m):
    if 'driver_error' in m:
        raise core.InfraError(m['driver_error'])
    if c['fig'] == 'meander':
        ext = (c['final'][1] - c['init'][1]) if c['along_x'] else (c['final'][0] - c['init'][0])
        r = abs(ext) / c['delta']
        if abs(r - round(r)) < 1e-9 and not c['exact']:
            # the float quotient sits on an integer: floor() of the float and of the exact quotient may differ
            ctx.count('figures.boundary_skipped', 'meander')
            return
    doc = doc_figure(c)
    nontriv = len(doc) >= 2 or any(len(s) >= 3 for s in doc)
    ctx.seen({'stream': 'figures', **c}, nontriv)
    ctx.count('figures.kind', c['fig'])
    try:
        pts, raw = call_real(c)
    except Exception as e:
        dims = {k: len(c[k]) for k in ('pos', 'init') if k in c}
        ctx.fail('spec', 'figures', c, f'{c["fig"]} raised {type(e).__name__}: {e}', f'raised:{c["fig"]}:{type(e).__name__}:{dims}')
        return
    tol = F(0) if c['exact'] else F(1, 10 ** 5)
    got_all = strokes_of(pts)
    # positive-length strokes must match one to one, in order; a one-point open run adds no exposed geometry when it lies on a
    # documented stroke (ruler: start() leaves one at the first tick) and a documented zero-length stroke must show up as a dot
    doc_long = [d for d in doc if len(d) >= 2]
    doc_dots = [d[0] for d in doc if len(d) == 1]
    got = [g for g in got_all if len(g) >= 2]
    got_dots = [g[0] for g in got_all if len(g) == 1]
    bad = None

    def same(p, dpt):
        return all(abs(F(a) - b) <= tol for a, b in zip(p, dpt))
    if len(got) != len(doc_long):
        bad = f'{len(got)} open-shutter strokes of positive length, the documented figure has {len(doc_long)}'
    else:
        for i, (g, d) in enumerate(zip(got, doc_long)):
            if len(g) != len(d) or not all(same(gp, dp) for gp, dp in zip(g, d)):
                bad = f'stroke {i} is {g}, documented {[tuple(float(v) for v in p) for p in d]}'
                break
    if bad is None:
        for p in got_dots:
            if not (any(same(p, dpt) for dpt in doc_dots) or any(_on(p, d, tol) for d in doc_long)):
                bad = f'isolated open-shutter point {p} is not on the documented figure'
                break
    if bad is None:
        for dpt in doc_dots:
            if not (any(same(p, dpt) for p in got_dots) or any(_on(tuple(float(v) for v in dpt), d, tol) for d in doc_long)):
                bad = f'documented zero-length stroke at {tuple(float(v) for v in dpt)} is not drawn'
                break
    if bad is None and pts.ndim == 2 and pts[4][-1] != 0:
        bad = 'the figure does not end with the shutter closed'
    if bad:
        sig = 'figure:' + c['fig']
        if c['fig'] == 'ruler' and isinstance(c['lx2'], int) and float(c['lx']) != int(c['lx']):
            sig = 'ruler:int-lx2-truncates-lx'
        ctx.fail('spec', 'figures', c, f'{c["fig"]}: {bad}', sig)
        return
    if 'raw' in m:
        mr = [[gcommon.fr(v) for v in r] for r in m['raw']]
        if len(mr) != len(raw) or any(abs(F(a) - b) > tol for rr, mm in zip(raw, mr) for a, b in zip(rr, mm)):
            ctx.fail('corr', 'figures', c, 'recorded trajectory differs from the model')
    else:
        ctx.fail('corr', 'figures', c, f'model reports {m.get("error")} but the implementation built the figure')


def run(ctx):
    rng = ctx.rng
    cases = [gen_case(rng) for _ in range(ctx.n(700, 12000))]
    res = ctx.driver.ask([model_req(c) for c in cases])
    for c, m in zip(cases, res):
        judge(ctx, c, m)


def replay(ctx, payload):
    c = payload['case']
    c = {k: v for k, v in c.items()}
    judge(ctx, c, ctx.driver.ask([model_req(c)])[0])

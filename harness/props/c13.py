"""C13 — curves are sampled between one and two command-rate steps."""
from __future__ import annotations

import fractions
import math
import warnings

import core
from core import q

warnings.simplefilter('ignore')

REQUIRED = ['spacing_bounds', 'fallback_iff', 'speed_guard', 'rate_bound', 'linspace_length', 'linspace_get', 'linspace_uniform',
            'linspace_ends', 'circ_arc_spacing', 'speed_source']
RULE = ('stream sampling: real circ / arc_bend / sin_bridge (incl. explicit disp_x) / sin_bend / sin_comp / spline (incl. disp_x) / '
        'spline_bridge / linear under warp_flag on real Waveguide objects over random radius, offsets, speed (attribute or '
        'per-call) and cmd_rate_max (a quarter of the objects are used first — step read, a curve drawn — and then get their speed / rate reassigned), with the ratio length/step log-uniform in [0.05, 2000] so that the fallback region and the '
        '1..2 step region are hit; the number of points appended by each underlying call must equal the model\'s '
        'num_subdivisions (cases whose exact quotient is within 1e-9 of an integer are skipped and counted), and — judged on '
        'the real points alone — spacing = length/(n-1) must lie in (step, 2*step] unless length <= step (then n = 3); the '
        'x (or angle) spacing must be uniform and the stored feed the selected speed.  non-trivial = curve longer than a step.')
ASSUMPTIONS = [
    'the length handed to num_subdivisions is recomputed by the harness with the same float formula (|dtheta*r|, dx)',
    'float quotient vs exact quotient differ near integers: those cases are skipped (boundary_skipped in the evidence)',
]
CLAIM = {
    'text': 'Lean 4 theorems about the model of num_subdivisions / linspace (all rational speeds, rates, lengths): either the '
            'segment is at most one step long and exactly three points are used, or it is longer, n = ceil(L/dl) >= 2 and the '
            'n-1 equal intervals are strictly longer than dl and at most 2*dl; points per second at the programmed feed stay below '
            'cmd_rate_max; linspace is uniform with exact end points; arc spacing in arc length; per-call speed overrides the '
            'attribute; speeds below 1e-6 are rejected. Tied to the code by counting and measuring the points real builder calls append.',
    'note': 'Trusted: Lean kernel/Mathlib, Model/Sampling.lean tied by differential comparison; float rounding at integer boundaries skipped.',
    'technique': 'Lean 4 proof (ceil/field inequalities) + differential correspondence + spec-on-implementation',
}


def run(ctx):
    import numpy as np
    from femto.waveguide import Waveguide
    rng = ctx.rng
    items, reqs = [], []
    skipped = 0
    for i in range(ctx.n(900, 15000)):
        rate = rng.choice([1200, 1200, 100, 40, 10, 5000])
        speed_attr = rng.choice([20.0, 1.0, 5.0, 50.0, 0.3])
        percall = rng.choice([None, None, 2.0, 35.0, 0.7, 120.0])
        f = speed_attr if percall is None else percall
        dl = f / rate
        ratio = math.exp(rng.uniform(math.log(0.05), math.log(2000)))
        target_L = ratio * dl
        kind = rng.choice(['circ', 'circ', 'arc_bend', 'arc_bend', 'sin_bridge', 'sin_bend', 'sin_comp', 'sin_dispx', 'spline', 'spline_dispx',
                           'spline_bridge', 'linear_warp'])
        if i % 40 == 17:
            # a very long or very slow curve: tens of thousands of steps (no cap on the point count may set in)
            ratio = rng.uniform(7.0e4, 1.6e5)
            target_L = ratio * dl
            kind = rng.choice(['sin_dispx', 'spline_dispx'])
        r = rng.choice([15.0, 30.0, 5.0, 50.0, 0.5])
        with core.quiet():
            hist = rng.random() < 0.25
            if hist:
                # a used object: built with other settings, its step evaluated (and sometimes a first curve drawn), then the speed
                # and / or the command-rate limit reassigned — the measured call must follow the settings in force when it is made
                sp0 = rng.choice([v for v in (20.0, 1.0, 5.0, 50.0, 0.3) if v != speed_attr])
                rt0 = rng.choice([v for v in (1200, 100, 40, 10, 5000) if v != rate])
                which = rng.choice(['speed', 'rate', 'both'])
                wg = Waveguide(speed=sp0 if which != 'rate' else speed_attr, cmd_rate_max=rt0 if which != 'speed' else rate, radius=r,
                               warp_flag=(kind == 'linear_warp'))
                wg.start([rng.choice([0.0, -2.0, 3.0]), rng.choice([0.0, 0.5]), 0.035])
                _ = wg.dl
                if rng.random() < 0.5:
                    wg.arc_bend(0.01)
                wg.speed = speed_attr
                wg.cmd_rate_max = rate
            else:
                wg = Waveguide(speed=speed_attr, cmd_rate_max=rate, radius=r, warp_flag=(kind == 'linear_warp'))
                wg.start([rng.choice([0.0, -2.0, 3.0]), rng.choice([0.0, 0.5]), 0.035])
            n0 = wg._x.size
            segs = []  # (L, slice length expected count source)
            try:
                if kind == 'circ':
                    a0 = rng.choice([0.0, 1.5 * math.pi, 0.5 * math.pi, 1.0])
                    da = (target_L / r) * rng.choice([1, -1])
                    if abs(da) > 6:
                        da = math.copysign(6.0, da)
                    wg.circ(a0, a0 + da, radius=r, speed=percall)
                    segs = [float(np.fabs((a0 + da - a0) * r))]
                    meta = {'a0': a0, 'da': da}
                elif kind == 'arc_bend':
                    # choose dy so that the arc length a*r is about target_L
                    a = min(target_L / r, rng.uniform(0.6, 1.2))
                    dy = 2 * r * (1 - math.cos(a)) * rng.choice([1, -1])
                    wg.arc_bend(dy, radius=r, speed=percall)
                    aa, _ = wg.get_sbend_parameter(dy, r)
                    # the two arcs: delta_angle = final - initial is evaluated in floating point by circ()
                    if dy > 0:
                        segs = [float(np.fabs(((np.pi * (3 / 2) + aa) - np.pi * (3 / 2)) * r)), float(np.fabs((np.pi * (1 / 2) - (np.pi * (1 / 2) + aa)) * r))]
                    else:
                        segs = [float(np.fabs(((np.pi * (1 / 2) - aa) - np.pi * (1 / 2)) * r)), float(np.fabs((np.pi * (3 / 2) - (np.pi * (3 / 2) - aa)) * r))]
                    meta = {'dy': dy}
                elif kind in ('sin_bridge', 'sin_bend', 'sin_comp'):
                    a = min(target_L / (2 * r), rng.uniform(0.6, 1.2))
                    dy = 2 * r * (1 - math.cos(a)) * rng.choice([1, -1])
                    getattr(wg, kind)(dy, radius=r, speed=percall)
                    segs = [float(wg.get_sbend_parameter(dy, r)[1])]
                    meta = {'dy': dy}
                elif kind == 'sin_dispx':
                    dy = rng.choice([0.04, -0.08, 0.5])
                    wg.sin_bridge(dy, dz=0.01, disp_x=target_L, radius=r, speed=percall)
                    segs = [float(target_L)]
                    meta = {'dy': dy, 'disp_x': target_L}
                elif kind == 'spline':
                    a = min(target_L / (2 * r), rng.uniform(0.6, 1.2))
                    dy = 2 * r * (1 - math.cos(a)) * rng.choice([1, -1])
                    dz = rng.choice([0.0, 0.01])
                    wg.spline(dy, dz, radius=r, speed=percall)
                    segs = [float(wg.get_sbend_parameter(np.sqrt(dy ** 2 + dz ** 2), r)[1])]
                    meta = {'dy': dy, 'dz': dz}
                elif kind == 'spline_dispx':
                    dy = rng.choice([0.04, -0.08])
                    wg.spline(dy, 0.0, disp_x=target_L, radius=r, speed=percall)
                    segs = [float(target_L)]
                    meta = {'dy': dy, 'disp_x': target_L}
                elif kind == 'spline_bridge':
                    dy, dz = rng.choice([0.04, -0.08]), rng.choice([0.01, -0.02])
                    wg.spline_bridge(dy, dz, disp_x=target_L, radius=r, speed=percall)
                    segs = [float(target_L)] * 2
                    meta = {'dy': dy, 'dz': dz, 'disp_x': target_L}
                else:
                    inc = [target_L * 0.6, target_L * 0.8, 0.0]
                    wg.linear(inc, speed=percall)
                    segs = [float(np.sqrt((np.float32(wg._x[n0 - 1]) + inc[0] - wg._x[n0 - 1]) ** 2 + (wg._y[n0 - 1] + inc[1] - wg._y[n0 - 1]) ** 2 + 0.0))]
                    meta = {'inc': inc}
                raised = None
            except ValueError as e:
                raised = 'ValueError'
                meta = {}
            xs = np.array(wg._x[n0:], dtype=np.float64)
            ys = np.array(wg._y[n0:], dtype=np.float64)
            fs = np.array(wg._f[n0:], dtype=np.float64)
        case = {'kind': kind, 'rate': rate, 'speed_attr': speed_attr, 'percall': percall, 'r': r, 'used_before': hist, **meta}
        items.append((case, f, rate, segs, xs, ys, fs, raised))
        for L in segs:
            reqs.append({'op': 'c13.count', 'f': q(f), 'rate': q(rate), 'L': q(L)})
        ctx.count('sampling.kind', kind)
        ctx.count('sampling.history', 'settings-reassigned-after-use' if hist else 'fresh')
    res = ctx.driver.ask(reqs)
    k = 0
    for (case, f, rate, segs, xs, ys, fs, raised) in items:
        ms = res[k:k + len(segs)]
        k += len(segs)
        for m in ms:
            if 'driver_error' in m:
                raise core.InfraError(m['driver_error'])
        if raised or not segs:
            ctx.seen({'stream': 'sampling', **case}, False)
            continue
        dl = f / rate
        ntot = len(xs)
        if case['kind'] == 'linear_warp' and segs[0] <= 1e-6:
            continue
        if len(segs) == 2 and all('n' in m for m in ms) and ms[0]['n'] + ms[1]['n'] == ntot and ms[0]['n'] != ms[1]['n']:
            # the two arcs of an S-bend got different counts (their float lengths straddle an integer): a boundary case
            ctx.count('sampling.boundary_skipped', 'yes')
            continue
        if ntot % len(segs) != 0:
            ctx.fail('spec', 'sampling', {**case, 'appended': ntot}, f'{ntot} points appended by {len(segs)} equal segments', 'count-uneven')
            continue
        n_obs = ntot // len(segs)
        L = segs[0]
        ctx.seen({'stream': 'sampling', **case}, L > dl)
        ratio = L / dl
        ctx.count('sampling.ratio', 'fallback(<=1)' if ratio <= 1 else ('1..2' if ratio <= 2 else ('2..10' if ratio <= 10 else ('>10' if ratio <= 6.6e4 else '>65534'))))
        m = ms[0]
        near = gcommon_fr(m['dist_int']) < fractions.Fraction(1, 10 ** 9) * max(1, gcommon_fr(m['quo'])) if 'dist_int' in m else False
        if near or abs(ratio - 1) < 1e-9:
            ctx.count('sampling.boundary_skipped', 'yes')
            continue
        # (1) the property judged on the real points alone
        spacing = L / (n_obs - 1) if n_obs > 1 else float('inf')
        ok = (L <= dl and n_obs == 3) or (L > dl and n_obs >= 2 and dl < spacing <= 2 * dl * (1 + 1e-12))
        if not ok:
            ctx.fail('spec', 'sampling', {**case, 'length': L, 'step': dl, 'points': n_obs, 'spacing': spacing},
                     f'{case["kind"]}: {n_obs} points for a segment of {L} mm at step {dl} mm: spacing {spacing} not in (step, 2*step]'
                     + (' (three-point fallback used although the segment is longer than a step)' if n_obs == 3 and L > dl else ''),
                     'spacing')
            continue
        if not np.allclose(fs, f, rtol=1e-6):
            ctx.fail('spec', 'sampling', case, 'stored feed is not the selected speed', 'feed')
            continue
        if case['kind'] not in ('circ', 'arc_bend') and n_obs > 2:
            seg0 = xs[:n_obs]
            dx = np.diff(seg0)
            if np.max(np.abs(dx - (seg0[-1] - seg0[0]) / (n_obs - 1))) > 1e-5 * (1 + np.max(np.abs(seg0))):
                ctx.fail('spec', 'sampling', case, 'x spacing is not uniform', 'uniform')
                continue
        if case['kind'] == 'circ' and n_obs > 2:
            ch = np.sqrt(np.diff(xs) ** 2 + np.diff(ys) ** 2)
            expd = 2 * case['r'] * abs(math.sin(case['da'] / (2 * (n_obs - 1))))
            if np.max(np.abs(ch - expd)) > 2e-5 * (1 + np.max(np.abs(xs)) + np.max(np.abs(ys))) + 1e-3 * expd:
                ctx.fail('spec', 'sampling', case, 'arc spacing is not uniform', 'uniform')
                continue
        # (2) model vs implementation
        if m.get('n') != n_obs:
            ctx.fail('corr', 'sampling', {**case, 'length': L}, f'model gives {m.get("n")} points, implementation appended {n_obs}')


def gcommon_fr(p):
    return fractions.Fraction(p[0], p[1])


def replay(ctx, payload):
    ctx.notes.append('C13 replays re-run the stream with the same seed (cases are generated from the PRNG state)')
    run(ctx)

"""C19 — saved objects and parameter files round-trip to where the caller said."""
from __future__ import annotations

import inspect
import os
import pathlib
import warnings

import core
import gcommon

warnings.simplefilter('ignore')

REQUIRED = ['export_target', 'merge_spec', 'no_default', 'empty_doc', 'loadParams_length', 'from_dict_exact_keys', 'pgm_target',
            'lookup_append']
RULE = ('stream export: LaserPath / Waveguide / NasuWaveguide / Marker objects with points exported under random names (with and '
        'without directories, dots in directories and stems, suffixes .pkl, .pickle, .dat, none) from a scratch working directory '
        'that holds decoy files with the same stem; exactly one new file must appear, at the model\'s path; loading it back with '
        'dill must give equal parameters and an equal point matrix (also as_dict).  stream params: random YAML documents (with / '
        'without DEFAULT, null and falsy overrides, disjoint keys) written under directory paths with a decoy of the same name in '
        'the working directory; load_parameters must return, section by section, the model\'s merge.  stream from_dict: the path '
        'classes and the trench-column classes built from dictionaries with extra keys and with the private array keys; the result '
        'must equal cls(**{constructor keys}).  stream pgm: PGMCompiler.close() under random export_dir / file names, missing '
        'directories created.  The model\'s path functions are compared with real pathlib on every name.  '
        'non-trivial = name with a directory component, or document with DEFAULT and an overriding section.')
ASSUMPTIONS = [
    'dill.dump/load and yaml.safe_load meet their round-trip contracts (sampled); path strings are normalised POSIX paths',
    'load_parameters keeps enforcing the .yaml suffix on the path given',
]
CLAIM = {
    'text': 'Lean 4 theorems: the pickle target is the path as given, with .pkl appended exactly when the name does not end in '
            '.pkl/.pickle (nothing before the name is touched); the DEFAULT merge gives, for every key, the section\'s value if the '
            'section defines it (null and falsy values included) else the DEFAULT value, no other keys; without DEFAULT the sections '
            'come back unchanged and in order, the DEFAULT section itself is never returned, an empty document gives []; from_dict '
            'keeps a key iff it is a constructor parameter, with its value; the program target is export_dir/<stem>.pgm. Tied to '
            'the code by writing and reading real files under generated names (with decoys), every run.',
    'note': 'Trusted: Lean kernel/Mathlib; Model/Files.lean compared with real pathlib on every generated name; dill / yaml are contracts.',
    'technique': 'Lean 4 proof (association-list lookup algebra, path case analysis) + differential correspondence on real files',
}

DIRS = ['', '', 'out', 'a/b', 'run.1', 'data/v1.2/x']
STEMS = ['wg', 'chip_v1.2', 'UPPER', 'a.b.c', 'x']
SUFF = ['', '.pkl', '.pickle', '.dat', '.PKL', '.yaml', '.txt']


def gen_name(rng, suffixes=SUFF):
    d = rng.choice(DIRS)
    return (d + '/' if d else '') + rng.choice(STEMS) + rng.choice(suffixes)


def listing(root):
    return sorted(str(p.relative_to(root)) for p in root.rglob('*') if p.is_file())


def run_export(ctx):
    import dill
    import numpy as np
    from femto.laserpath import LaserPath
    from femto.marker import Marker
    from femto.waveguide import NasuWaveguide, Waveguide
    rng = ctx.rng
    names = [gen_name(rng) for _ in range(ctx.n(150, 3000))]
    res = ctx.driver.ask([{'op': 'c19.paths', 'p': n, 'dir': ''} for n in names])
    for name, m in zip(names, res):
        if 'driver_error' in m:
            raise core.InfraError(m['driver_error'])
        pp = pathlib.PurePosixPath(name)
        case = {'name': name}
        ctx.seen({'stream': 'export', **case}, '/' in name)
        if (m['stem'], m['suffix'], m['name']) != (pp.stem, pp.suffix, pp.name):
            ctx.fail('corr', 'export', case, f'model path functions differ from pathlib: {m} vs {(pp.stem, pp.suffix, pp.name)}')
            continue
        cls = rng.choice([LaserPath, Waveguide, NasuWaveguide, Marker])
        as_dict = rng.random() < 0.3
        with gcommon.Scratch() as d, core.quiet():
            obj = cls(scan=rng.randint(1, 5), speed=rng.choice([1.0, 20.0]))
            obj.start([0.0, 1.0, 0.5]).linear([1.0, 0.5, 0.0])
            obj.end()
            # decoys in the working directory
            for dec in {pp.name, pp.stem + '.pkl', pp.stem + '.yaml'}:
                (d / dec).write_text('decoy')
            if pp.parent != pathlib.PurePosixPath('.'):
                (d / pp.parent).mkdir(parents=True, exist_ok=True)
            before = {f: (d / f).read_bytes() for f in listing(d)}
            try:
                obj.export(name, as_dict=as_dict)
            except Exception as e:
                ctx.fail('spec', 'export', case, f'export({name!r}) raised {type(e).__name__}: {e}', 'raised:export')
                continue
            after = listing(d)
            changed = [f for f in after if f not in before or (d / f).read_bytes() != before[f]]
            want = m['export']
            if changed != [want]:
                ctx.fail('spec', 'export', {**case, 'written': changed, 'expected': want},
                         f'export({name!r}) wrote {changed}, the caller named {want}', 'export-target')
                continue
            with open(d / want, 'rb') as fh:
                back = dill.load(fh)
            bd = back if as_dict else back.__dict__
            od = obj.__dict__
            if type(back) is not (dict if as_dict else cls) or set(bd) != set(od) or any(
                    (not np.array_equal(bd[k], od[k])) if isinstance(od[k], np.ndarray) else bd[k] != od[k] for k in od):
                ctx.fail('spec', 'export', case, 'the loaded object differs from the exported one', 'round-trip')
            elif not as_dict and not np.array_equal(back.points, obj.points):
                ctx.fail('spec', 'export', case, 'the loaded object has a different point matrix', 'round-trip')


def gen_doc(rng):
    keys = ['speed', 'scan', 'radius', 'z_init', 'depth', 'name']
    vals = [1, 0, 20.5, None, False, 'abc', 0.0, [1, 2]]
    doc = []
    if rng.random() < 0.65:
        doc.append(['DEFAULT', [[k, rng.choice(vals)] for k in rng.sample(keys, rng.randint(0, 4))]])
    for i in range(rng.randint(0, 3)):
        doc.append([f'sec{i}', [[k, rng.choice(vals)] for k in rng.sample(keys, rng.randint(0, 4))]])
    rng.shuffle(doc)
    return doc


def run_params(ctx):
    import yaml
    from femto.helpers import load_parameters
    rng = ctx.rng
    items = [(gen_name(rng, ['.yaml', '.yaml', '', '.yml']), gen_doc(rng)) for _ in range(ctx.n(200, 4000))]
    res = ctx.driver.ask([r for name, doc in items for r in ({'op': 'c19.merge', 'doc': doc}, {'op': 'c19.paths', 'p': name})])
    for i, (name, doc) in enumerate(items):
        m, pth = res[2 * i], res[2 * i + 1]
        for x in (m, pth):
            if isinstance(x, dict) and 'driver_error' in x:
                raise core.InfraError(x['driver_error'])
        has_default = any(s[0] == 'DEFAULT' for s in doc)
        case = {'name': name, 'doc': doc}
        ctx.seen({'stream': 'params', **case}, '/' in name or (has_default and len(doc) > 1))
        ctx.count('params.default', str(has_default))
        target = pathlib.PurePosixPath(name).with_suffix('.yaml')
        if pth['params'] != str(target):
            ctx.fail('corr', 'params', case, f'model file name {pth["params"]} differs from pathlib with_suffix {target}')
            continue
        with gcommon.Scratch() as d, core.quiet():
            (d / target.parent).mkdir(parents=True, exist_ok=True)
            with open(d / target, 'w') as fh:
                yaml.dump({s[0]: {k: v for k, v in s[1]} for s in doc}, fh, sort_keys=False)
            if str(target.parent) != '.':
                with open(d / target.name, 'w') as fh:          # decoy of the same name in the working directory
                    yaml.dump({'decoy': {'speed': -1}}, fh)
            try:
                got = load_parameters(rng.choice([name, pathlib.Path(name)]))
                # the same unchanged file read again (twice in half of the cases): every read must give the expansion
                again = [load_parameters(rng.choice([name, pathlib.Path(name)])) for _ in range(rng.choice([0, 1, 1, 2]))]
            except Exception as e:
                ctx.fail('spec', 'params', case, f'load_parameters({name!r}) raised {type(e).__name__}: {e}', 'raised:params')
                continue
        ctx.count('params.reads', str(1 + len(again)))
        # the specification, independent of the model: section value if defined, else DEFAULT value
        dflt = next((dict(s[1]) for s in doc if s[0] == 'DEFAULT'), {})
        want = [{**{k: v for k, v in dflt.items() if k not in dict(s[1])}, **dict(s[1])} for s in doc if s[0] != 'DEFAULT']
        if got != want:
            ctx.fail('spec', 'params', {**case, 'got': got, 'want': want}, 'load_parameters does not return the DEFAULT-expanded sections of the file given', 'merge')
            continue
        bad = [g for g in again if g != want]
        if bad:
            ctx.fail('spec', 'params', {**case, 'got': bad[0], 'want': want, 'reads': 1 + len(again)},
                     'a later read of the same unchanged parameter file does not return the DEFAULT-expanded sections', 'merge:reread')
            continue
        mm = [{k: v for k, v in sec} for sec in m]
        if mm != got:
            ctx.fail('corr', 'params', case, f'model merge {mm} differs from implementation {got}')


def run_from_dict(ctx):
    import numpy as np
    from femto.laserpath import LaserPath
    from femto.marker import Marker
    from femto.rasterimage import RasterImage
    from femto.trench import TrenchColumn, UTrenchColumn
    from femto.waveguide import NasuWaveguide, Waveguide
    rng = ctx.rng
    classes = [LaserPath, Waveguide, NasuWaveguide, Marker, RasterImage, TrenchColumn, UTrenchColumn]
    items = []
    # the first calls of the process go through the classes base class first (LaserPath, then Waveguide / Marker / ..., then
    # their subclasses), each with the whole pool: whatever a class remembers from its first use must not leak into a subclass
    first = sorted(classes, key=lambda c: len(c.__mro__))
    for i in range(len(first) + ctx.n(200, 3000)):
        cls = first[i] if i < len(first) else rng.choice(classes)
        names = list(inspect.signature(cls).parameters)
        param = {}
        pool = {'scan': 3, 'speed': 12.5, 'radius': 20, 'depth': 0.1, 'x_center': 1.0, 'y_min': 0.0, 'y_max': 2.0, 'bridge': 0.03, 'nboxz': 2,
                'lx': 2.0, 'px_to_mm': 0.5, 'adj_scan': 3, 'n_pillars': 2, 'name': 'obj', 'z_init': None, 'samplesize': (10, 5),
                '_x': np.array([0.0, 1.0], dtype=np.float32), '_y': np.array([0.0, 0.0], dtype=np.float32), '_z': np.array([0.0, 0.0], dtype=np.float32),
                '_f': np.array([1.0, 1.0], dtype=np.float32), '_s': np.array([0.0, 1.0], dtype=np.float32),
                'extra_key': 1, 'filename': 'x.pgm', 'laser': 'UWE', 'Speed': 99, 'unknown': None}
        for k in (sorted(pool) if i < len(first) else rng.sample(sorted(pool), rng.randint(3, 12))):
            param[k] = pool[k]
        if cls in (TrenchColumn, UTrenchColumn):
            param.update(x_center=1.0, y_min=0.0, y_max=2.0)
        items.append((cls, names, param))
    res = ctx.driver.ask([{'op': 'c19.filter', 'names': names, 'param': [[k, repr(v)] for k, v in param.items()]} for cls, names, param in items])
    for (cls, names, param), m in zip(items, res):
        if isinstance(m, dict) and 'driver_error' in m:
            raise core.InfraError(m['driver_error'])
        case = {'cls': cls.__name__, 'keys': sorted(param)}
        ctx.seen({'stream': 'from_dict', **case}, any(k not in names for k in param))
        ctx.count('from_dict.class', cls.__name__)
        want_keys = [k for k in param if k in names]
        if [e[0] for e in m] != want_keys:
            ctx.fail('corr', 'from_dict', case, f'model filter keeps {[e[0] for e in m]}, constructor parameters are {want_keys}')
            continue
        try:
            with core.quiet():
                a = cls.from_dict(dict(param))
                b = cls(**{k: param[k] for k in want_keys})
        except Exception as e:
            ctx.fail('spec', 'from_dict', case, f'{cls.__name__}.from_dict raised {type(e).__name__}: {e}', 'raised:from_dict')
            continue
        da, db = a.__dict__, b.__dict__
        same = set(da) == set(db) and all((np.array_equal(da[k], db[k]) if isinstance(db[k], np.ndarray) else da[k] == db[k]) for k in db if k != 'CWD')
        if not same:
            ctx.fail('spec', 'from_dict', case, f'{cls.__name__}.from_dict does not use exactly the constructor parameters of the dictionary', 'from-dict')


def run_pgm(ctx):
    from femto.pgmcompiler import PGMCompiler
    rng = ctx.rng
    items = [(rng.choice(['', '', 'out', 'a/b/c', 'run.1']), rng.choice(STEMS) + rng.choice(['', '.pgm', '.txt', '.PGM'])) for _ in range(ctx.n(80, 1000))]
    res = ctx.driver.ask([{'op': 'c19.paths', 'p': f, 'dir': d_} for d_, f in items])
    for (d_, f), m in zip(items, res):
        case = {'export_dir': d_, 'filename': f}
        ctx.seen({'stream': 'pgm', **case}, bool(d_))
        moved = rng.random() < 0.3
        ctx.count('pgm.cwd', 'changed-between-construction-and-close' if moved else 'same')
        with gcommon.Scratch() as d, core.quiet():
            try:
                if moved:
                    # the compiler is configured in one directory and the program is compiled and closed from another: a relative
                    # export_dir names a directory relative to where the program is written from
                    (d / 'setup').mkdir()
                    (d / 'run').mkdir()
                    os.chdir(d / 'setup')
                    G = PGMCompiler(filename=f, export_dir=d_)
                    os.chdir(d / 'run')
                    with G:
                        G.dwell(1)
                    os.chdir(d)
                else:
                    with PGMCompiler(filename=f, export_dir=d_) as G:
                        G.dwell(1)
            except Exception as e:
                ctx.fail('spec', 'pgm', case, f'close() raised {type(e).__name__}: {e}', 'raised:close')
                continue
            got = listing(d)
            if moved:
                got = [g[len('run/'):] if g.startswith('run/') else '<outside run/>' + g for g in got]
        case['cwd_changed'] = moved
        if got != [m['pgm']]:
            ctx.fail('spec', 'pgm', {**case, 'written': got, 'expected': m['pgm']}, f'program written to {got}, expected {m["pgm"]}', 'pgm-target')


def run(ctx):
    run_export(ctx)
    run_params(ctx)
    run_from_dict(ctx)
    run_pgm(ctx)


def replay(ctx, payload):
    ctx.notes.append('C19 replays re-run the streams with the same seed')
    run(ctx)

"""C02 — coordinates are mapped by the documented rigid transformation."""
from __future__ import annotations

import fractions
import math
import warnings

import core
import gcommon
from core import q

warnings.simplefilter('ignore')

REQUIRED = ['transform_eq_rigid', 'rigid_isometry_xy', 'rigid_z_scale', 'rigid_orientation', 'rigid_linear_part', 'rigid_neutral',
            'origin_to_zero', 'shift_then_flip_witness', 'flip_then_rotate_witness', 'angle_normalised', 'normRadians_range',
            'real_rotation_isometry', 'real_rotation_ccw']
RULE = ('streams: transform (real transform_points on scalars, 0-d, 1-point and n-point inputs of dtype float32/float64/int/list, '
        'every combination of shift, flips, angles incl. 0, negative, > 360, indices), gcode (G1 words of a file written by write()), '
        'plot (coordinate arrays handed to plotly by the _plot2d_* helpers of the waveguide / Nasu / marker / trench writers) and '
        'export (TrenchWriter.export_array2d files).  Every observed coordinate is compared in Lean-computed exact arithmetic with '
        'Model.transformK, where (cos, sin) are computed by the harness from the USER\'s angle in degrees (math.cos(math.radians(a))) '
        'and not read back from the object, within scale*2^-20 + 1e-6 (exactly when angle = 0, indices ratio a power of two and '
        'dyadic data).  Isometry and orientation are also evaluated on the real outputs.  non-trivial = at least two of '
        '{shift != 0, a flip, angle != 0 mod 360, n_glass != n_env} and >= 2 points.')
ASSUMPTIONS = [
    'float32/float64 rounding inside transform_points is sampled with a stated tolerance, not modelled',
    'math.cos/math.sin of the user angle (libm) are accurate to 1e-15',
    'plot rendering itself is not observed: only the coordinate arrays given to plotly traces',
]
CLAIM = {
    'text': 'Lean 4 theorems over an arbitrary field: the code\'s sequence of array operations (model transformK, the same term the '
            'driver executes) equals the documented map (translate, mirror, rotate ccw, divide z by neff); xy distances are '
            'preserved when c^2+s^2=1, z differences scale by 1/neff, the determinant of the xy part is -1 iff exactly one flip, '
            'neutral settings give the identity, the chosen origin goes to (0,0); over the reals: radians(a mod 360) has the cosine '
            'and sine of a degrees for every real a (any sign / magnitude), lies in [0, 2pi), and the map is a ccw rotation by a. '
            'Order witnesses show that re-ordering shift/flip/rotation changes the map. Tied to the code by evaluating the model '
            'at the exact rationals on everything transform_points, write(), the plot helpers and export_array2d produce.',
    'note': 'Trusted: Lean kernel/Mathlib; the hand-written model Model/Transform.lean tied by differential comparison; rounding sampled.',
    'technique': 'Lean 4 proof (field algebra, real trigonometry) + differential correspondence in exact arithmetic',
}


def user_cs(angle):
    a = 0.0 if not angle else float(angle)
    return math.cos(math.radians(a)), math.sin(math.radians(a))


def mreq(cfg, pts):
    c, s = user_cs(cfg.get('rotation_angle', 0.0))
    import numpy as np
    return {'op': 'c02.transform', 'sx': q(np.float32(cfg['shift_origin'][0])), 'sy': q(np.float32(cfg['shift_origin'][1])),
            'fx': bool(cfg.get('flip_x', False)), 'fy': bool(cfg.get('flip_y', False)), 'c': q(c), 's': q(s),
            'neff': q(cfg['n_glass'] / cfg['n_environment']), 'pts': [[q(v) for v in p] for p in pts]}


def tol_for(cfg, pts, exact):
    if exact:
        return fractions.Fraction(0)
    mx = max([abs(float(v)) for p in pts for v in p] + [1.0]) + abs(cfg['shift_origin'][0]) + abs(cfg['shift_origin'][1])
    return fractions.Fraction(mx) / 2 ** 20 + fractions.Fraction(1, 10 ** 6)


def nontrivial(cfg, npts):
    k = sum([cfg['shift_origin'] != (0.0, 0.0), bool(cfg.get('flip_x')) or bool(cfg.get('flip_y')),
             (cfg.get('rotation_angle') or 0.0) % 360 != 0, cfg['n_glass'] != cfg['n_environment']])
    return k >= 2 and npts >= 2


def compare(ctx, stream, case, got, exp, tol):
    """got: list of (x,y[,z]) floats observed; exp: list of [[n,d]...] from the model."""
    if len(got) != len(exp):
        ctx.fail('spec', stream, case, f'{len(got)} coordinates observed, {len(exp)} expected', stream + ':count')
        return False
    for i, (g, e) in enumerate(zip(got, exp)):
        for k, gv in enumerate(g):
            if gv is None:
                continue
            ev = gcommon.fr(e[k])
            if not math.isfinite(gv) or abs(fractions.Fraction(float(gv)) - ev) > tol:
                ctx.fail('spec', stream, {**case, 'index': i, 'axis': 'xyz'[k], 'observed': float(gv), 'expected': float(ev)},
                         f'{stream}: coordinate {i}{"xyz"[k]} = {float(gv)} but the documented map gives {float(ev)}', stream + ':coord')
                return False
    return True


def run_transform(ctx):
    import numpy as np
    from femto.pgmcompiler import PGMCompiler
    rng = ctx.rng
    items, reqs = [], []
    for i in range(ctx.n(500, 8000)):
        exact = rng.random() < 0.35
        cfg = gcommon.gen_cfg(rng, exact, neutral_ok=True)
        cfg = {k: cfg[k] for k in ('filename', 'shift_origin', 'flip_x', 'flip_y', 'rotation_angle', 'n_glass', 'n_environment')}
        shape = rng.choice(['scalar', '0d', 'one', 'n', 'n', 'n'])
        dt = rng.choice(['f32', 'f32', 'f64', 'int', 'list'])
        n = {'scalar': 1, '0d': 1, 'one': 1}.get(shape, rng.randint(2, 12))
        vals = [0.0, 1.0, -2.0, 0.5, 3.25, -0.125, 7.0] if (exact or dt == 'int') else None
        pts = [[(rng.choice(vals) if vals else round(rng.uniform(-30, 30), 4)) for _ in range(3)] for _ in range(n)]
        if dt == 'int':
            pts = [[float(int(v)) for v in p] for p in pts]
        pts = [[gcommon.f32(v) for v in p] for p in pts]
        cols = list(zip(*pts))
        if shape == 'scalar':
            args = [np.float32(c[0]) if dt != 'int' else int(c[0]) for c in cols] if dt != 'list' else [float(c[0]) for c in cols]
        elif shape == '0d':
            args = [np.array(c[0], dtype={'f32': np.float32, 'f64': np.float64, 'int': np.int64, 'list': np.float64}[dt]) for c in cols]
        else:
            args = [list(c) if dt == 'list' else np.array(c, dtype={'f32': np.float32, 'f64': np.float64, 'int': np.int64}[dt]) for c in cols]
        with core.quiet():
            G = PGMCompiler(**cfg)
            out = G.transform_points(*args)
        out = np.asarray(out, dtype=np.float64).reshape(3, -1)
        got = [tuple(float(out[k][j]) for k in range(3)) for j in range(out.shape[1])]
        ex = exact and dt != 'list'
        items.append((cfg, pts, got, ex, shape, dt))
        reqs.append(mreq(cfg, pts))
        ctx.count('transform.shape', shape)
        ctx.count('transform.dtype', dt)
        a = cfg['rotation_angle']
        ctx.count('transform.angle', 'zero' if not a else ('negative' if a < 0 else ('>360' if a > 360 else 'plain')))
    res = ctx.driver.ask(reqs)
    for (cfg, pts, got, ex, shape, dt), m in zip(items, res):
        if 'driver_error' in m:
            raise core.InfraError(m['driver_error'])
        case = {'cfg': cfg, 'pts': pts, 'shape': shape, 'dtype': dt}
        ctx.seen({'stream': 'transform', **case}, nontrivial(cfg, len(pts)))
        tol = tol_for(cfg, pts, ex)
        if not compare(ctx, 'transform', case, got, m['out'], tol):
            continue
        # isometry / orientation on the real outputs
        if len(pts) >= 3:
            (a, b, c) = pts[:3]
            (A, B, C) = got[:3]
            d_in = math.dist(a[:2], b[:2])
            d_out = math.dist(A[:2], B[:2])
            if abs(d_in - d_out) > 4 * float(tol) + 1e-5 * (1 + d_in):
                ctx.fail('spec', 'transform', case, f'xy distance {d_in} became {d_out}', 'isometry')
                continue
            cr_in = (b[0] - a[0]) * (c[1] - a[1]) - (b[1] - a[1]) * (c[0] - a[0])
            cr_out = (B[0] - A[0]) * (C[1] - A[1]) - (B[1] - A[1]) * (C[0] - A[0])
            if abs(cr_in) > 1e-2 and (cr_in * cr_out > 0) != (bool(cfg['flip_x']) == bool(cfg['flip_y'])):
                ctx.fail('spec', 'transform', case, 'orientation is not reversed exactly when one flip is set', 'orientation')


def run_gcode(ctx):
    import numpy as np
    from femto.pgmcompiler import PGMCompiler
    from femto.waveguide import Waveguide
    from femto.writer import WaveguideWriter
    rng = ctx.rng
    items, reqs = [], []
    for i in range(ctx.n(120, 2500)):
        cfg = gcommon.gen_cfg(rng, False)
        cfg = {k: cfg[k] for k in ('filename', 'shift_origin', 'flip_x', 'flip_y', 'rotation_angle', 'n_glass', 'n_environment', 'output_digits')}
        # the print resolution is a formatting matter: with 3 or 4 digits the map must still be the documented one, also for the
        # small tilts used to align a sample (their sine is below the print resolution, the displacement they cause is not)
        cfg['output_digits'] = rng.choice([6, 6, 6, 4, 3])
        if rng.random() < 0.3:
            cfg['rotation_angle'] = rng.choice([0.05, 0.005, 0.02, -0.03, 89.97, 270.02, 180.04])
        n = rng.randint(2, 15)
        wide = rng.random() < 0.4
        rows = [[gcommon.f32((7.3 if wide else 0.37) * j + rng.uniform(-0.1, 0.1) - (40.0 if wide else 0.0)), gcommon.f32(rng.uniform(-5, 5) * (6 if wide else 1)),
                 gcommon.f32(rng.uniform(-1, 1)), gcommon.f32(5.0), 0.0] for j in range(n)]
        via = rng.choice(['compiler', 'compiler', 'writer'])
        with gcommon.Scratch() as d, core.quiet():
            if via == 'compiler':
                G = PGMCompiler(**cfg)
                G.write(gcommon.to_np(rows))
                G.close()
                text = (d / 'prog.pgm').read_text()
            else:
                # the same path exported through a writer (the writer builds its own compiler for the file)
                wg = Waveguide()
                a = np.array(rows, dtype=np.float32)
                wg.add_path(a[:, 0], a[:, 1], a[:, 2], a[:, 3], a[:, 4])
                WaveguideWriter([wg], **cfg).pgm(verbose=False)
                text = (d / 'prog_WG.pgm').read_text()
        ctx.count('gcode.via', via)
        ctx.count('gcode.digits', str(cfg['output_digits']))
        items.append((cfg, rows, via))
        reqs.append({'op': 'ctl.run', 'text': text})
        reqs.append(mreq(cfg, [r[:3] for r in rows]))
    res = ctx.driver.ask(reqs)
    for i, (cfg, rows, via) in enumerate(items):
        impl, m = res[2 * i], res[2 * i + 1]
        case = {'cfg': cfg, 'rows': rows, 'via': via}
        ctx.seen({'stream': 'gcode', **case}, nontrivial(cfg, len(rows)))
        got = [tuple(float(gcommon.fr(v)) for v in e['dst']) for e in impl['events'] if e['t'] == 'm']
        if via == 'writer':
            got = got[:len(rows)]       # the writer adds its positioning move(s) after the structures
        compare(ctx, 'gcode', case, got, m['out'], tol_for(cfg, [r[:3] for r in rows], False) + fractions.Fraction(1, 10 ** 6)
                + fractions.Fraction(6, 10 ** (int(cfg['output_digits']) + 1)))


def _small_column(rng):
    import numpy as np
    from femto.trench import TrenchColumn
    tc = TrenchColumn(x_center=rng.choice([1.0, 2.5]), y_min=-0.1, y_max=0.5, length=rng.choice([0.5, 1.0]))
    ys = sorted(rng.sample([0.0, 0.1, 0.2, 0.3, 0.4], rng.randint(1, 3)))
    with core.quiet():
        tc.dig_from_array([np.array([[-1.0, y], [5.0, y + rng.choice([0.0, 0.01])]]) for y in ys])
    return tc


def run_plot(ctx):
    import numpy as np
    from femto.marker import Marker
    from femto.waveguide import NasuWaveguide, Waveguide
    from femto.writer import MarkerWriter, NasuWriter, TrenchWriter, WaveguideWriter
    import plotly.graph_objects as go
    rng = ctx.rng
    items, reqs = [], []
    for i in range(ctx.n(60, 800)):
        cfg = gcommon.gen_cfg(rng, False)
        cfg = {k: cfg[k] for k in ('filename', 'shift_origin', 'flip_x', 'flip_y', 'rotation_angle', 'n_glass', 'n_environment')}
        kind = rng.choice(['wg', 'nasu', 'mk', 'trench', 'export'])
        with core.quiet(), gcommon.Scratch() as d:
            if kind in ('wg', 'nasu'):
                cls = Waveguide if kind == 'wg' else NasuWaveguide
                # adjacent passes are drawn where they are written: transform(base + k * shift), shift mirrored / rotated / z-scaled too
                kw = {} if kind == 'wg' else {'adj_scan': rng.choice([1, 3, 4]), 'adj_scan_shift': rng.choice([(0, 0.0004, 0), (0.002, 0.004, 0.003)])}
                wg = cls(speed=20, samplesize=(6, 3), **kw)
                wg.start([rng.choice([-2.0, 0.0]), rng.choice([0.0, 0.5]), 0.035]).linear([2, 0, 0]).arc_bend(rng.choice([0.04, -0.04])).linear([1, 0, 0])
                wg.end()
                pts = np.array(wg.points, dtype=np.float64)
                wr = (WaveguideWriter if kind == 'wg' else NasuWriter)([wg], **cfg)
                fig = wr._plot2d_wg(go.Figure(), show_shutter_close=False) if kind == 'wg' else wr._plot2d_nwg(go.Figure(), show_shutter_close=False)
                sel = pts[:, pts[4] != 0]
                if kind == 'wg':
                    src = [[float(a), float(b), float(c)] for a, b, c in zip(sel[0], sel[1], sel[2])]
                else:
                    dx, dy, dz = (float(v) for v in wg.adj_scan_shift)
                    src = [[float(a) + k * dx, float(b) + k * dy, float(c) + k * dz] for k in wg.adj_scan_order for a, b, c in zip(sel[0], sel[1], sel[2])]
                got = [(float(x), float(y), None) for tr in fig.data for x, y in zip(tr.x, tr.y)]
            elif kind == 'mk':
                mk = Marker(lx=1.0, ly=0.5)
                mk.cross([rng.choice([1.0, 2.0]), rng.choice([0.5, 1.0]), 0.0])
                pts = np.array(mk.points, dtype=np.float64)
                wr = MarkerWriter([mk], **cfg)
                fig = wr._plot2d_mk(go.Figure())
                sel = pts[:, pts[4] != 0]
                src = [[float(a), float(b), float(c)] for a, b, c in zip(sel[0], sel[1], sel[2])]
                got = [(float(x), float(y), None) for tr in fig.data for x, y in zip(tr.x, tr.y)]
            elif kind == 'trench':
                tc = _small_column(rng)
                wr = TrenchWriter([tc], **cfg)
                src = [[float(x), float(y), 0.0] for t in tc for x, y in zip(*[np.array(v, dtype=np.float64) for v in t.border])]
                fig = wr._plot2d_trench(go.Figure())
                got = [(float(x), float(y), None) for tr in fig.data for x, y in zip(tr.x, tr.y)]
            else:
                tc = _small_column(rng)
                wr = TrenchWriter([tc], **cfg)
                n = rng.randint(2, 9)
                xs = np.array([gcommon.f32(rng.uniform(-3, 3)) + 0.4 * k for k in range(n)], dtype=np.float32)
                ys = np.array([gcommon.f32(rng.uniform(-3, 3)) for _ in range(n)], dtype=np.float32)
                src = [[float(a), float(b), 0.0] for a, b in zip(xs, ys)]
                wr.export_array2d(d / 'arr.pgm', xs.copy(), ys.copy(), speed=4.0)
                got = []
                for line in (d / 'arr.pgm').read_text().splitlines():
                    w = dict((t[0], float(t[1:])) for t in line.split()[1:] if t[0] in 'XY')
                    got.append((w['X'], w['Y'], None))
        items.append((kind, cfg, src, got))
        reqs.append(mreq(cfg, src))
        ctx.count('plot.kind', kind)
    res = ctx.driver.ask(reqs)
    for (kind, cfg, src, got), m in zip(items, res):
        if 'driver_error' in m:
            raise core.InfraError(m['driver_error'])
        case = {'kind': kind, 'cfg': cfg, 'src': src}
        ctx.seen({'stream': 'plot', **case}, nontrivial(cfg, len(src)))
        compare(ctx, 'plot/' + kind, case, got, m['out'], tol_for(cfg, src, False) + fractions.Fraction(2, 10 ** 6))


def run(ctx):
    run_transform(ctx)
    run_gcode(ctx)
    run_plot(ctx)


def replay(ctx, payload):
    import numpy as np
    from femto.pgmcompiler import PGMCompiler
    c = payload['case']
    cfg = dict(c['cfg'])
    cfg['shift_origin'] = tuple(cfg['shift_origin'])
    pts = c.get('pts') or [r[:3] for r in c.get('rows', [])] or c.get('src')
    with core.quiet():
        G = PGMCompiler(**{k: v for k, v in cfg.items()})
        cols = [np.array(col, dtype=np.float32) for col in zip(*pts)]
        out = np.asarray(G.transform_points(*cols), dtype=np.float64).reshape(3, -1)
    got = [tuple(float(out[k][j]) for k in range(3)) for j in range(out.shape[1])]
    m = ctx.driver.ask([mreq(cfg, pts)])[0]
    ctx.seen(c)
    compare(ctx, 'transform', {'cfg': cfg, 'pts': pts}, got, m['out'], tol_for(cfg, pts, False))

"""C05 — trench blocks keep their clearance from the waveguides and are numbered bottom-up."""
from __future__ import annotations

import math
import warnings

import core
import gcommon
from core import q

warnings.simplefilter('ignore')

REQUIRED = ['adj_split', 'clearance', 'inside_grown', 'coverage', 'rounded_apart', 'rounded_disjoint', 'hsep_of_line', 'straight_guide_blocks_apart', 'order_perm', 'order_sorted',
            'order_sorted_rounded', 'sortedSetDesc_desc', 'mem_sortedSetDesc', 'remove_exact', 'keepFrom_eq_filter', 'remove_length',
            'remove_out_of_range', 'dig_spec']
RULE = ('Layouts of 1..6 real Waveguide objects (straight, tilted, crossing, sin/arc S-bends, couplers, 3-D bridges, guides that start '
        'or end inside the column or just outside it, a guide along the column edge, a short guide wholly inside the column) or raw arrays, and random column parameters '
        '(centre, extent, length, bridge, beam waist, corner radius incl. 0) go through the real dig_from_waveguide / dig_from_array; in 25 % of the cases the column object was used before with another '
        'geometry (rectangle read, one dig) and then had its public fields set to the case\'s values.  '
        'Measured with shapely on the resulting Trench.block polygons: min distance block-to-written-polyline (own extraction from the '
        'point matrix, shutter open) >= bridge/2 + waist - 0.6 % adj; block covered by rect grown by the corner radius; pairwise '
        'intersection area <= 1e-10; 1500 random points of the rectangle farther than adj(1+0.1 %) from every guide must lie in a '
        'block; lowest y non-decreasing; an independent rect-minus-dilations computation gives the raw blocks whose lowest y the Lean '
        'model orders (c05.dig) — the observed numbering must be that order; a second dig with a removal list (any order, repeats, '
        'sometimes out of range) must keep exactly the model\'s survivors or raise IndexError where the model returns none.  '
        'A directed stream puts a guide end within the 2*rc window of a column edge (finding F7).  '
        'non-trivial = at least 2 blocks, a non-horizontal guide and a non-empty removal list.')
ASSUMPTIONS = [
    'GEOS buffer/difference realise metric dilation and set difference up to the polygonisation error (sampled by the distance and coverage measurements)',
    'shapely distance / area / contains are the measuring oracle',
    'negative removal indices are not block numbers and are not generated',
]
CLAIM = {
    'text': 'Lean 4 theorems. Metric (any pseudo-metric space, by the triangle inequality): a raw block outside the guides dilated by '
            'adj = bridge/2+waist+rc, rounded by rc, keeps bridge/2+waist (minus the polygonisation error) from every guide; it stays in '
            'the rectangle grown by rc; every far point of the rectangle is in a block for any number of blocks; two rounded blocks '
            'stay bridge+2*waist apart when a guide point lies on the way between any two of their raw points (the hypothesis that a '
            'guide ending next to the column edge violates — open finding F7; proved to hold for blocks on opposite sides of a straight '
            'guide, hsep_of_line). List logic: the numbering is a permutation sorted by '
            'lowest y (also after rounding); removal with in-range indices in any order and multiplicity keeps exactly the blocks '
            'whose number is not listed, an out-of-range index is an error. Tied to the code by digging generated layouts with the '
            'real builders and comparing numbering/removal with the model and the geometry with shapely measurements.',
    'note': 'PARTIAL: GEOS geometry is a sampled contract. Trusted: Lean kernel/Mathlib; Model/Trench.lean tied by differential comparison.',
    'technique': 'Lean 4 proof (metric-space triangle inequality; list induction) + differential correspondence; GEOS sampled (partial)',
}

INFO_KEYS = ('col', 'guides', 'mode', 'remove', 'reused')


# ------------------------------------------------------------------------------------------------------------------
def gen_col(rng):
    yc = rng.choice([0.0, 0.5, -1.2, 3.0])
    h = rng.choice([0.3, 0.5, 0.8, 1.2])
    return {'x_center': rng.choice([0.0, 2.5, 10.0, -3.0]), 'y_min': round(yc - h / 2, 4), 'y_max': round(yc + h / 2, 4),
            'length': rng.choice([0.3, 0.5, 1.0, 2.0]), 'bridge': rng.choice([0.026, 0.02, 0.05, 0.012]),
            'beam_waist': rng.choice([0.004, 0.002, 0.008]), 'round_corner': rng.choice([0.010, 0.010, 0.005, 0.02, 0.0])}


def gen_guides(rng, col):
    """Guide descriptions (replayable): each a dict understood by build_guide()."""
    x0, x1 = col['x_center'] - col['length'] / 2, col['x_center'] + col['length'] / 2
    y0, y1 = col['y_min'], col['y_max']
    H = y1 - y0
    n = rng.choice([1, 1, 2, 3, 3, 4, 6])
    out = []
    for k in range(n):
        kind = rng.choice(['straight', 'straight', 'tilted', 'tilted', 'sbend', 'arc', 'coupler', 'bridge', 'ends_inside',
                           'starts_inside', 'ends_outside', 'edge', 'island', 'kink', 'kink'])
        y = round(rng.uniform(y0 + 0.05 * H, y1 - 0.05 * H), 4)
        g = {'kind': kind, 'y': y, 'xa': round(x0 - rng.choice([0.5, 1.0, 0.2]), 4), 'xb': round(x1 + rng.choice([0.5, 1.0, 0.2]), 4)}
        if kind == 'tilted':
            g['dy'] = round(rng.uniform(-0.6, 0.6) * H, 4)
        elif kind == 'kink':
            # three or four points: straight to a point inside the column, then tilted (point counts 3 and 4 are the ones a
            # layout test on the array shape can confuse with the number of coordinates)
            g['dy'] = round(rng.uniform(-0.3, 0.3) * H, 4)
            g['xs'] = round(rng.uniform(x0 + 0.2 * (x1 - x0), x0 + 0.8 * (x1 - x0)), 4)
            g['n'] = rng.choice([3, 3, 4])
        elif kind in ('sbend', 'arc', 'bridge'):
            g['dy'] = round(rng.choice([-1, 1]) * rng.uniform(0.03, 0.3) * H, 4)
            g['xs'] = round(rng.uniform(x0 - 0.1, x0 + 0.3 * (x1 - x0)), 4)
        elif kind == 'coupler':
            g['dy'] = round(rng.uniform(0.03, 0.12), 4)
            g['xs'] = round(x0 - 0.05, 4)
        elif kind == 'ends_inside':
            g['xb'] = round(rng.uniform(x0 + 0.1 * (x1 - x0), x1 - 0.02), 4)
        elif kind == 'starts_inside':
            g['xa'] = round(rng.uniform(x0 + 0.02, x1 - 0.1 * (x1 - x0)), 4)
        elif kind == 'ends_outside':
            g['xb'] = round(x1 + rng.uniform(0.001, 0.06), 4)
        elif kind == 'edge':
            g['y'] = rng.choice([y0, y1, round(y1 - 0.01, 4), round(y0 + 0.012, 4)])
        elif kind == 'island':
            # a short guide wholly inside the column: the block around it has an opening
            xm = x0 + rng.uniform(0.3, 0.7) * (x1 - x0)
            g['xa'], g['xb'] = round(xm - 0.08 * (x1 - x0), 4), round(xm + 0.08 * (x1 - x0), 4)
        out.append(g)
    # at least one guide passes through the column
    if not any(g['kind'] in ('straight', 'tilted', 'sbend', 'arc', 'coupler', 'bridge', 'kink') for g in out):
        out.append({'kind': 'straight', 'y': round(rng.uniform(y0 + 0.2 * H, y1 - 0.2 * H), 4), 'xa': x0 - 0.5, 'xb': x1 + 0.5})
    return out


def build_guide(g):
    """Returns a list of real Waveguide objects (a coupler gives two)."""
    from femto.waveguide import Waveguide
    kind = g['kind']
    par = dict(speed=20, samplesize=(200, 200), radius=15, pitch=0.08, int_dist=0.007, int_length=0.0, arm_length=0.0, lsafe=0)

    def straight(y, xa, xb, dy=0.0):
        wg = Waveguide(**par)
        wg.start([xa, y, 0.035]).linear([xb, y + dy, 0.035], mode='ABS')
        wg.end()
        return wg
    if kind in ('straight', 'ends_inside', 'starts_inside', 'ends_outside', 'edge', 'island'):
        return [straight(g['y'], g['xa'], g['xb'])]
    if kind == 'tilted':
        return [straight(g['y'], g['xa'], g['xb'], g['dy'])]
    if kind == 'kink':
        wg = Waveguide(**par)
        wg.start([g['xa'], g['y'], 0.035]).linear([g['xs'], g['y'], 0.035], mode='ABS')
        if g.get('n', 3) == 4:
            wg.linear([(g['xs'] + g['xb']) / 2, g['y'] + g['dy'], 0.035], mode='ABS')
        wg.linear([g['xb'], g['y'] + g['dy'], 0.035], mode='ABS')
        wg.end()
        return [wg]
    if kind in ('sbend', 'arc', 'bridge'):
        wg = Waveguide(**par)
        wg.start([g['xa'], g['y'], 0.035]).linear([g['xs'], g['y'], 0.035], mode='ABS')
        if kind == 'sbend':
            wg.sin_bend(g['dy'])
        elif kind == 'arc':
            wg.arc_bend(g['dy'])
        else:
            wg.sin_bridge(g['dy'], dz=0.01)
        wg.linear([max(g['xb'], wg.lastx + 0.1), wg.lasty, wg.lastz], mode='ABS')
        wg.end()
        return [wg]
    if kind == 'coupler':
        res = []
        for sgn in (1, -1):
            wg = Waveguide(**par)
            wg.start([g['xa'], g['y'] + sgn * g['dy'], 0.035]).linear([g['xs'], g['y'] + sgn * g['dy'], 0.035], mode='ABS')
            wg.sin_bend(-sgn * (g['dy'] - 0.0035)).sin_bend(sgn * (g['dy'] - 0.0035))
            wg.linear([max(g['xb'], wg.lastx + 0.1), wg.lasty, wg.lastz], mode='ABS')
            wg.end()
            res.append(wg)
        return res
    raise ValueError(kind)


def open_polyline(wg):
    """Own extraction of the written (shutter-open) xy polyline from the point matrix."""
    import numpy as np
    x, y, s = (np.asarray(v, dtype=np.float64) for v in (wg._x, wg._y, wg._s))
    idx = [i for i in range(len(s)) if s[i] == 1]
    pts = []
    for i in idx:
        p = (float(x[i]), float(y[i]))
        if not pts or pts[-1] != p:
            pts.append(p)
    return pts


def dig(colkw, wgs, mode, remove, reused=False):
    import numpy as np
    from femto.trench import TrenchColumn
    if reused:
        # the column object existed before with another geometry (its rectangle was looked at, it dug once); then its public
        # fields were set to the values of this case: the blocks must be those of the values it has now
        other = dict(colkw, x_center=colkw['x_center'] + 2.5, y_min=colkw['y_min'] - 0.6, y_max=colkw['y_max'] - 0.4, length=colkw['length'] * 0.5)
        tc = TrenchColumn(**other)
        _ = tc.rect, tc.adj_bridge
        with core.quiet():
            tc.dig_from_array([np.array([[other['x_center'] - 1, (other['y_min'] + other['y_max']) / 2], [other['x_center'] + 1, (other['y_min'] + other['y_max']) / 2]])])
        tc._trench_list.clear()
        for k, v in colkw.items():
            setattr(tc, k, v)
    else:
        tc = TrenchColumn(**colkw)
    with core.quiet():
        if mode == 'wg':
            tc.dig_from_waveguide(wgs, remove=remove)
        else:
            arrs = []
            for i, wg in enumerate(wgs):
                a = np.array(open_polyline(wg), dtype=np.float64)
                # a 2 x 2 array is ambiguous for dig_from_array (it transposes when shape[1] == 2): only longer ones go in as (2, n)
                arrs.append(a if (mode == 'arr' or i % 2 or len(a) <= 2) else a.T.copy())
            tc.dig_from_array(arrs, remove=remove)
    return tc


def check_case(ctx, case, nsample=1500):
    import numpy as np
    import shapely
    from shapely import geometry
    col, mode, remove = case['col'], case['mode'], case['remove']
    info = {k: case.get(k) for k in INFO_KEYS}
    wgs = [w for g in case['guides'] for w in build_guide(g)]
    lines = [geometry.LineString(open_polyline(w)) for w in wgs]
    rect = geometry.box(col['x_center'] - col['length'] / 2, col['y_min'], col['x_center'] + col['length'] / 2, col['y_max'])
    bridge, waist, rc = col['bridge'], col['beam_waist'], col['round_corner']
    adj = bridge / 2 + waist + rc
    need = bridge / 2 + waist
    if not any(l.intersects(rect) for l in lines):
        return None
    try:
        tc = dig(col, wgs, mode, None, reused=bool(case.get('reused')))
    except Exception as e:
        ctx.fail('spec', 'dig', info, f'dig raised {type(e).__name__}: {e}', 'dig:raised')
        return None
    blocks = [t.block for t in tc]
    if 'remove_spec' in case:       # indices are drawn relative to the number of blocks actually dug (replays carry the list)
        sp = case.pop('remove_spec')
        remove = [min(int(f * len(blocks)), max(len(blocks) - 1, 0)) for f in sp['fr']] + ([len(blocks) + sp['oor'] - 1] if sp['oor'] else [])
        remove = [remove[i] for i in sp['perm'] if i < len(remove)] if remove else remove
        case['remove'] = info['remove'] = remove
    # independent raw blocks
    mold = shapely.union_all([l.buffer(adj) for l in lines])
    rawg = rect.difference(mold)
    raw = [g for g in getattr(rawg, 'geoms', [rawg]) if not g.is_empty and g.area > 1e-12]
    tol = 0.006 * adj + 2e-6
    ok = True
    # 1 clearance
    for i, b in enumerate(blocks):
        for j, l in enumerate(lines):
            d = b.distance(l)
            if d < need - tol:
                ctx.fail('spec', 'clearance', {**info, 'block': i, 'guide': j, 'distance': d, 'required': need},
                         f'block {i} is {d:.6f} from guide {j}, less than bridge/2 + waist = {need:.6f}', 'clearance')
                ok = False
                break
        if not ok:
            break
    # 2 containment
    for i, b in enumerate(blocks):
        # {p : d(p, rect) <= r} is convex, so the vertices decide
        far_v = float(np.max(shapely.distance(rect, shapely.points(np.array(b.exterior.coords)))))
        if far_v > rc + 2e-6:
            ctx.fail('spec', 'inside', {**info, 'block': i, 'vertex_distance': far_v, 'rc': rc},
                     f'block {i} has a vertex {far_v:.6f} outside the column rectangle, more than the corner radius {rc}', 'inside')
            ok = False
            break
    # 3 overlap
    for i in range(len(blocks)):
        for j in range(i + 1, len(blocks)):
            a = blocks[i].intersection(blocks[j]).area
            if a > 1e-10:
                ri = [r for r in raw if blocks[i].buffer(1e-6).covers(r)]
                rj = [r for r in raw if blocks[j].buffer(1e-6).covers(r)]
                gap = min([x.distance(y) for x in ri for y in rj if x is not y] or [float('nan')])
                sig = 'overlap:raw-gap-below-2rc' if gap < 2 * rc else 'overlap'
                ctx.fail('spec', 'overlap', {**info, 'blocks': [i, j], 'area': a, 'raw_gap': gap, 'two_rc': 2 * rc},
                         f'blocks {i} and {j} overlap (area {a:.3g}); their raw blocks are {gap:.6f} apart, 2*rc = {2 * rc:.6f}', sig)
                ok = False
    # 4 coverage
    rs = np.random.default_rng(case.get('pseed', 0))
    xs = rs.uniform(rect.bounds[0], rect.bounds[2], nsample)
    ys = rs.uniform(rect.bounds[1], rect.bounds[3], nsample)
    pts = shapely.points(xs, ys)
    dmin = np.min(np.array([shapely.distance(l, pts) for l in lines]), axis=0)
    far = dmin > adj * 1.001 + 1e-6
    if blocks:
        uni = shapely.union_all(blocks).buffer(1e-7)
        inside = shapely.contains(uni, pts)
    else:
        inside = np.zeros(nsample, dtype=bool)
    missing = np.where(far & ~inside)[0]
    if len(missing):
        k = int(missing[0])
        ctx.fail('spec', 'coverage', {**info, 'point': [float(xs[k]), float(ys[k])], 'distance': float(dmin[k]), 'adj': adj, 'nblocks': len(blocks)},
                 f'point ({xs[k]:.5f}, {ys[k]:.5f}) of the rectangle is {dmin[k]:.5f} > adj = {adj:.5f} from every guide but in no block ({len(blocks)} blocks)',
                 'coverage')
        ok = False
    ctx.count('coverage.far_points', 'some' if far.any() else 'none')
    # 5 numbering
    lows = [b.bounds[1] for b in blocks]
    for i in range(len(lows) - 1):
        if lows[i] > lows[i + 1] + 2e-6:   # equal lowest y of raw blocks can differ by the simplification tolerance (5e-7) after rounding
            ctx.fail('spec', 'numbering', {**info, 'lowest_y': lows}, f'blocks {i} and {i + 1} are not numbered bottom-to-top: lowest y {lows[i]:.6f} > {lows[i + 1]:.6f}', 'numbering')
            ok = False
            break
    # model: numbering of the independent raw blocks and removal
    req = {'op': 'c05.dig', 'lows': [q(r.bounds[1]) for r in raw], 'remove': remove or [], 'bridge': q(bridge), 'waist': q(waist), 'rc': q(rc)}

    def judge(m):
        if 'driver_error' in m:
            raise core.InfraError(m['driver_error'])
        nontrivial = len(blocks) >= 2 and any(g['kind'] not in ('straight', 'edge') for g in case['guides']) and bool(remove)
        ctx.seen({'stream': 'dig', **info}, nontrivial)
        ctx.count('dig.blocks', str(min(len(blocks), 6)) + ('+' if len(blocks) >= 6 else ''))
        ctx.count('dig.raw_blocks', str(min(len(raw), 6)))
        ctx.count('dig.mode', mode)
        ctx.count('dig.history', 'column-reused-with-new-geometry' if case.get('reused') else 'fresh')
        for g in case['guides']:
            ctx.count('dig.guide', g['kind'])
        ctx.count('dig.rc', 'zero' if rc == 0 else 'pos')
        if abs(float(gcommon.fr(m['adj'])) - float(tc.adj_bridge)) > 1e-12:
            ctx.fail('corr', 'adj', info, f'adj_bridge {tc.adj_bridge} differs from the model {float(gcommon.fr(m["adj"]))}', 'adj')
        if not ok:
            return
        if len(raw) != len(blocks):
            ctx.fail('corr', 'count', {**info, 'observed': len(blocks), 'reference': len(raw)},
                     f'{len(blocks)} blocks dug, the reference construction gives {len(raw)}', 'count')
            return
        rl = sorted(r.bounds[1] for r in raw)
        ties = any(abs(a - b) < 1e-9 for a, b in zip(rl, rl[1:]))
        ctx.count('dig.ties', 'tie' if ties else 'none')
        owner = []
        for b in blocks:
            hit = [k for k, r in enumerate(raw) if b.buffer(1e-6).covers(r)]
            owner.append(hit[0] if len(hit) == 1 else None)
        if not ties and None not in owner and owner != m['order']:
            ctx.fail('corr', 'numbering', {**info, 'observed': owner, 'model': m['order']}, 'numbering differs from the model (stable sort by lowest y)', 'numbering:model')
            return
        if remove is None:
            return
        # removal
        try:
            shared = list(remove)
            if remove and (case.get('pseed', 0) % 5) < 2:
                # the same removal list object was already handed to another column (several columns configured with one skip list)
                ctx.count('remove.list_object', 'shared-with-an-earlier-dig')
                try:
                    dig(col, wgs, mode, shared)
                except Exception:  # noqa: judged below on the column under measurement
                    pass
            else:
                ctx.count('remove.list_object', 'fresh')
            tc2 = dig(col, wgs, mode, shared, reused=bool(case.get('reused')))
            got = [t.block for t in tc2]
            raised = None
        except IndexError as e:
            got, raised = None, e
        except Exception as e:
            ctx.fail('spec', 'remove', info, f'dig with remove={remove} raised {type(e).__name__}: {e}', 'remove:raised')
            return
        ctx.count('remove.kind', 'none' if not remove else ('out-of-range' if max(remove) >= len(blocks) else
                                                             ('repeat' if len(set(remove)) < len(remove) else 'plain')))
        if m['kept'] is None:
            if raised is None:
                ctx.fail('spec', 'remove', {**info, 'nblocks': len(blocks)}, f'remove={remove} names a block that does not exist ({len(blocks)} blocks) and was accepted', 'remove:accepted')
            return
        if raised is not None:
            ctx.fail('spec', 'remove', {**info, 'nblocks': len(blocks)}, f'remove={remove} raised IndexError with {len(blocks)} blocks', 'remove:indexerror')
            return
        # survivors as numbers of the un-removed run
        num = []
        for b in got:
            hit = [k for k, o in enumerate(blocks) if o.equals(b) or o.symmetric_difference(b).area < 1e-12]
            num.append(hit[0] if hit else None)
        expect = [k for k in range(len(blocks)) if k not in set(remove)]
        if num != expect:
            ctx.fail('spec', 'remove', {**info, 'survivors': num, 'expected': expect},
                     f'remove={remove}: surviving block numbers {num}, expected {expect}', 'remove:wrong')
            return
        mk = [owner.index(k) if k in owner else None for k in m['kept']] if (not ties and None not in owner) else expect
        if mk != num:
            ctx.fail('corr', 'remove', {**info, 'survivors': num, 'model': mk}, 'survivors differ from the model', 'remove:model')
    return req, judge


def gen_case(rng):
    col = gen_col(rng)
    guides = gen_guides(rng, col)
    mode = rng.choice(['wg', 'wg', 'arr', 'arrT'])
    r = rng.random()
    case = {'col': col, 'guides': guides, 'mode': mode, 'remove': None, 'pseed': rng.randrange(1 << 30), 'reused': rng.random() < 0.25}
    if r < 0.15:
        pass
    elif r < 0.22:
        case['remove'] = []
    else:
        fr = [rng.random() for _ in range(rng.randint(1, 3))]
        if rng.random() < 0.35:
            fr.append(fr[0])
        perm = list(range(len(fr) + 1))
        rng.shuffle(perm)
        case['remove_spec'] = {'fr': fr, 'oor': rng.choice([0, 0, 0, 0, 1, 3]), 'perm': perm}
    return case


def endcap_case(rng):
    """A guide that stops inside the column so close to the far edge that its round end cap cuts the edge in a gap < 2*rc."""
    col = {'x_center': 0.0, 'y_min': -0.4, 'y_max': 0.4, 'length': 1.0, 'bridge': 0.026, 'beam_waist': 0.004, 'round_corner': 0.010}
    adj = 0.027
    h = math.sqrt(adj ** 2 - 0.01 ** 2) + rng.uniform(0.1, 0.9) * (adj - math.sqrt(adj ** 2 - 0.01 ** 2))
    g = {'kind': 'ends_inside', 'y': round(rng.uniform(-0.2, 0.2), 3), 'xa': -1.0, 'xb': round(0.5 - h, 5)}
    return {'col': col, 'guides': [g], 'mode': 'wg', 'remove': None, 'pseed': 1}


def covered_case(rng):
    """A column so low that the clearance of the guides leaves nothing, or a single sliver."""
    h = rng.choice([0.02, 0.03, 0.04, 0.05, 0.06])
    col = {'x_center': 0.0, 'y_min': 0.0, 'y_max': h, 'length': rng.choice([0.3, 1.0]), 'bridge': 0.026, 'beam_waist': 0.004,
           'round_corner': rng.choice([0.010, 0.0])}
    g = {'kind': rng.choice(['straight', 'tilted']), 'y': round(h * rng.choice([0.5, 0.4, 0.9]), 4), 'xa': -1.0, 'xb': 1.0, 'dy': 0.004}
    return {'col': col, 'guides': [g], 'mode': rng.choice(['wg', 'arr']), 'remove': rng.choice([None, []]), 'pseed': 2}


def run(ctx):
    rng = ctx.rng
    jobs, reqs = [], []
    cases = ([gen_case(rng) for _ in range(ctx.n(120, 1500))] + [endcap_case(rng) for _ in range(ctx.n(3, 20))]
             + [covered_case(rng) for _ in range(ctx.n(12, 60))])
    for case in cases:
        try:
            r = check_case(ctx, case, nsample=ctx.n(1500, 4000))
        except core.InfraError:
            raise
        if r is None:
            continue
        jobs.append(r[1])
        reqs.append(r[0])
    for judge, m in zip(jobs, ctx.driver.ask(reqs)):
        judge(m)


def replay(ctx, payload):
    c = payload['case']
    case = {k: c.get(k) for k in INFO_KEYS}
    case['pseed'] = c.get('pseed', 0)
    r = check_case(ctx, case, nsample=4000)
    if r:
        r[1](ctx.driver.ask([r[0]])[0])

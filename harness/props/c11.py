"""C11 — the reported point matrix is the trajectory minus exact consecutive repeats."""
from __future__ import annotations

import itertools

import warnings

import core

warnings.simplefilter("ignore")
from core import q

REQUIRED = ['uf_eq_destutter', 'uf_sublist', 'uf_no_adjacent_equal', 'mask_spec', 'uf_longest', 'uf_idempotent',
            'uf_getLast?', 'lastpt_eq_last_reported', 'last_xyz_eq_lastpt', 'path3d_of_points', 'path3d_open',
            'pieces_flatten', 'pieces_nonempty', 'pieces_alternate', 'splitMask_eq_true_pieces', 'splitMask_flatten',
            'splitMask_nonempty', 'splitMask_empty']
RULE = ('streams: views (random recorded trajectories pushed through real LaserPath.add_path in random chunks, and real '
        'builder call sequences; all views compared exactly with the Lean model), filter (unique_filter on 0..6 arrays), '
        'split (split_mask on all mask shapes); thorough adds every mask of length <= 12 and every 3-symbol 2-column '
        'matrix of <= 5 rows.  distinct = distinct JSON case; non-trivial = the trajectory contains at least one '
        'consecutive repeat and one change (views/filter) or the mask has at least one change (split).')
ASSUMPTIONS = [
    'finite float32 values (no NaN/inf in recorded trajectories: that is property C10)',
    'float subtraction of two distinct finite floats is non-zero (IEEE gradual underflow); -0.0 == 0.0',
    'the model-vs-numpy tie is differential (sampled), the theorems are about the model',
]

F32 = [0.0, -0.0, 1.0, -1.0, 0.5, 1e-3, 3.4028235e38, -3.4028235e38, 1.17549435e-38, 1e-45, 16777216.0, 16777217.0,
       0.1, 0.30000001192092896]


def _rows_case(rng, n):
    import numpy as np
    mode = rng.choice(['alpha', 'alpha', 'cancel', 'feedonly', 'extreme', 'allsame'])
    rows = []
    if mode == 'allsame':
        r = [rng.choice([0.0, 1.0, 2.5]) for _ in range(5)]
        rows = [list(r) for _ in range(n)]
    else:
        alph = [[rng.choice(F32) if mode == 'extreme' else float(rng.randint(-2, 2)) * rng.choice([1.0, 0.5, 0.25])
                 for _ in range(rng.randint(1, 3))] for _ in range(5)]
        prev = None
        for _ in range(n):
            if prev is not None and rng.random() < 0.45:
                r = list(prev)
            elif prev is not None and mode == 'cancel' and rng.random() < 0.6:
                r = list(prev)
                i, j = rng.sample(range(5), 2)
                d = rng.choice([1.0, 0.5, 2.0])
                r[i] += d
                r[j] -= d
            elif prev is not None and mode == 'feedonly' and rng.random() < 0.6:
                r = list(prev)
                k = rng.choice([3, 4])
                r[k] = float(rng.choice([0, 1, 2, 3])) if k == 3 else float(1 - int(r[4] != 0))
            else:
                r = [rng.choice(alph[c]) for c in range(5)]
            r[4] = float(rng.choice([0, 1])) if rng.random() < 0.3 else r[4]
            rows.append(r)
            prev = r
    # feeds must be positive (add_path rejects anything else since the C10 repair); keep the repeat / change structure
    for r in rows:
        r[3] = abs(r[3]) + 0.5 if abs(r[3]) < 1e30 else 1.0
    return mode, [[float(np.float32(v)) for v in r] for r in rows]


def _views_of(lp):
    import numpy as np
    pts = lp.points
    if pts.ndim == 2:
        points = [[q(v) for v in row] for row in pts.T]
    else:
        points = []
    x3, y3, z3 = lp.path3d
    lastpt = lp.lastpt
    return {
        'points': points,
        'x': [q(v) for v in lp.x], 'y': [q(v) for v in lp.y], 'z': [q(v) for v in lp.z],
        'lastx': q(lp.lastx), 'lasty': q(lp.lasty), 'lastz': q(lp.lastz),
        'lastpt': [q(v) for v in lastpt] if np.size(lastpt) else None,
        'path3d': [[q(a), q(b), q(c)] for a, b, c in zip(x3, y3, z3)],
    }


def _raw_rows(lp):
    return [[q(a), q(b), q(c), q(d), q(e)] for a, b, c, d, e in zip(lp._x, lp._y, lp._z, lp._f, lp._s)]


def gen_views(ctx, n_cases):
    import numpy as np
    from femto.laserpath import LaserPath
    from femto.marker import Marker
    from femto.waveguide import Waveguide
    rng = ctx.rng
    cases = []
    for k in range(n_cases):
        kind = rng.random()
        if kind < 0.7:
            n = rng.choice([0, 1, 2, 3, 5, 8, 13, 21, 40, rng.randint(0, 60)])
            if ctx.tier == 'thorough' and rng.random() < 0.1:
                n = rng.randint(100, 300)
            mode, rows = _rows_case(rng, n)
            lp = LaserPath()
            i = 0
            while i < len(rows):
                j = min(len(rows), i + rng.randint(1, 7))
                cols = list(zip(*rows[i:j]))
                lp.add_path(*[np.array(c) for c in cols])
                i = j
            src = {'gen': 'rows', 'mode': mode, 'n': n}
        elif kind < 0.85:
            wg = Waveguide(speed=rng.choice([1.0, 20.0]), speed_closed=rng.choice([5, 20.0]))
            with core.quiet():
                wg.start([rng.choice([-2, 0, 1.5]), rng.choice([0, 0.25]), rng.choice([0.035, 0])])
                for _ in range(rng.randint(0, 6)):
                    op = rng.choice(['lin', 'lin0', 'linc', 'arc', 'sin'])
                    if op == 'lin':
                        wg.linear([rng.choice([0, 1, 2.5]), rng.choice([0, 0, 0.5]), 0], shutter=rng.choice([0, 1, 1]))
                    elif op == 'lin0':
                        wg.linear([0, 0, 0], shutter=rng.choice([0, 1]), speed=rng.choice([None, 3.0]))
                    elif op == 'linc':
                        wg.linear([None, None, None], mode='ABS', shutter=rng.choice([0, 1]))
                    elif op == 'arc':
                        wg.arc_bend(rng.choice([0.04, -0.04, 0.0]), radius=rng.choice([15, 30]))
                    else:
                        wg.sin_bend(rng.choice([0.04, -0.08]), radius=15)
                if rng.random() < 0.8:
                    wg.end()
            lp = wg
            src = {'gen': 'waveguide'}
        else:
            mk = Marker()
            with core.quiet():
                which = rng.choice(['cross', 'ruler', 'box', 'ablation'])
                if which == 'cross':
                    mk.cross([rng.choice([0, 1.0]), rng.choice([0, 2.0]), 0.0], lx=rng.choice([1, 0, 0.5]), ly=rng.choice([0.06, 0]))
                elif which == 'ruler':
                    mk.ruler([rng.choice([0, 1, 2, 2, 0.5]) for _ in range(rng.randint(1, 5))], lx=1, lx2=0.5)
                elif which == 'box':
                    mk.box([0.0, 0.0, 0.0], width=rng.choice([1.0, 0.0]), height=rng.choice([0.06, 0.0]))
                else:
                    mk.ablation([[0, 0, 0], [1, 0, 0], [1, 0, 0], [1, 1, 0]], shift=rng.choice([None, 0.0, 0.5]))
            lp = mk
            src = {'gen': 'marker'}
        raw = _raw_rows(lp)
        case = {'op': 'c11.views', 'rows': raw, 'src': src}
        nontriv = any(a == b for a, b in zip(raw, raw[1:])) and any(a != b for a, b in zip(raw, raw[1:]))
        try:
            views = _views_of(lp)
        except Exception as e:  # noqa: a view that cannot even be read as an array of the documented shape
            ctx.fail('spec', 'views', case, f'a view of the path is not an array of the documented shape ({type(e).__name__}: {e})', 'views:malformed')
            continue
        if rng.random() < 0.3:
            # the arrays handed out are the caller's: editing them in place (a unit conversion for a plot, say) is not an
            # operation on the path, so everything read afterwards must be what it was
            with core.quiet():
                for arr in [lp.x, lp.y, lp.z, lp.points, lp.lastpt, *lp.path3d]:
                    if isinstance(arr, np.ndarray) and arr.size and arr.flags.writeable:
                        arr *= 3.0
                        arr += 1.0
            try:
                again = _views_of(lp)
            except Exception as e:  # noqa
                again = {'error': str(e)}
            ctx.count('views.reread_after_edit', str(again == views))
            if again != views or _raw_rows(lp) != raw:
                ctx.fail('spec', 'views', {**case, 'changed': [k for k in views if again.get(k) != views[k]]},
                         'editing the arrays returned by the views in place changed what the path reports', 'views:aliased')
                continue
        cases.append((case, views, nontriv))
        ctx.count('views.source', src['gen'] + ('/' + src.get('mode', '') if 'mode' in src else ''))
        ctx.count('views.length', str(min(len(raw) // 10 * 10, 100)) + '+')
    return cases


def gen_filter(ctx, n_cases):
    import numpy as np
    rng = ctx.rng
    out = []
    for _ in range(n_cases):
        width = rng.choice([0, 1, 1, 2, 3, 4, 5, 6])
        n = rng.choice([0, 1, 2, 3, 6, 12, rng.randint(0, 40)])
        cols = [[float(rng.randint(0, 2)) * rng.choice([1.0, 0.5]) for _ in range(n)] for _ in range(width)]
        # force repeats
        for c in cols:
            for i in range(1, n):
                if rng.random() < 0.4:
                    c[i] = c[i - 1]
        out.append((width, n, cols))
    return out


def obs_filter(width, n, cols):
    import numpy as np
    from femto.helpers import unique_filter
    res = unique_filter([np.array(c, dtype=np.float32) for c in cols])
    try:
        if width == 0 or res.size == 0:
            rows = []
        elif width == 1:
            rows = [[q(v)] for v in res]
        else:
            rows = [[q(v) for v in r] for r in res.T]
    except TypeError:
        # not an array of the documented shape (one row per column, one column per kept point): reported as a difference
        rows = [['malformed result of shape', list(np.shape(res))]]
    return rows


def gen_split(ctx, n_cases):
    rng = ctx.rng
    out = []
    for _ in range(n_cases):
        n = rng.choice([0, 1, 2, 3, 5, 8, 13, rng.randint(0, 40)])
        mode = rng.choice(['rand', 'rand', 'alltrue', 'allfalse', 'blocks', 'alt'])
        if mode == 'alltrue':
            mask = [True] * n
        elif mode == 'allfalse':
            mask = [False] * n
        elif mode == 'alt':
            b = rng.choice([True, False])
            mask = [(i % 2 == 0) == b for i in range(n)]
        elif mode == 'blocks':
            mask, b = [], rng.choice([True, False])
            while len(mask) < n:
                mask += [b] * rng.randint(1, 5)
                b = not b
            mask = mask[:n]
        else:
            mask = [rng.random() < 0.5 for _ in range(n)]
        out.append((mode, list(range(100, 100 + n)), mask))
    return out


def obs_split(arr, mask):
    import numpy as np
    from femto.helpers import split_mask
    try:
        res = split_mask(np.array(arr, dtype=int), np.array(mask, dtype=bool))
    except IndexError:
        return {'error': 'IndexError'}
    return {'out': [[int(v) for v in piece] for piece in res]}


def _cmp(ctx, stream, case, impl, model):
    if 'driver_error' in model:
        raise core.InfraError(f'driver error on {stream}: {model["driver_error"]}')
    if stream == 'views':
        keys = ['points', 'x', 'y', 'z', 'lastx', 'lasty', 'lastz', 'lastpt', 'path3d']
        bad = [k for k in keys if _norm(impl[k]) != _norm(model[k])]
        if bad:
            # the model is proved equal to the specification (uf_eq_destutter & co.), so a disagreement is a
            # concrete input on which the implementation violates the property
            ctx.fail('spec', stream, {**case, 'impl': {k: impl[k] for k in bad}, 'model': {k: model[k] for k in bad}},
                     f'views differ from the consecutive-repeat filter of the recorded trajectory: {bad}', 'views:' + ','.join(bad))
    else:
        if _norm(impl) != _norm(model):
            ctx.fail('spec', stream, {**case, 'impl': impl, 'model': model}, f'{stream}: implementation differs from specification', stream)


def _norm(v):
    """[num, den] pairs -> canonical tuples (reduce -0 etc.)"""
    import fractions
    if isinstance(v, list) and len(v) == 2 and all(isinstance(t, int) for t in v) and v[1] != 0 and not isinstance(v[0], bool):
        f = fractions.Fraction(v[0], v[1])
        return ('q', f.numerator, f.denominator)
    if isinstance(v, list):
        return [_norm(t) for t in v]
    if isinstance(v, dict):
        return {k: _norm(t) for k, t in v.items()}
    return v


def run(ctx):
    # ---- views
    vs = gen_views(ctx, ctx.n(400, 6000))
    res = ctx.driver.ask([c for c, _, _ in vs])
    for (case, impl, nontriv), model in zip(vs, res):
        ctx.seen({'stream': 'views', 'rows': case['rows']}, nontriv)
        ctx.traces_validated += 1
        _cmp(ctx, 'views', case, impl, model)
    # ---- filter
    fs = gen_filter(ctx, ctx.n(400, 5000))
    if ctx.tier == 'thorough' or ctx.escalated:
        for n in range(0, 6):
            for sym in itertools.product(range(3), repeat=2 * n):
                fs.append((2, n, [[float(s) for s in sym[:n]], [float(s) for s in sym[n:]]]))
        ctx.notes.append('filter: exhaustive over all 3-symbol 2-column matrices with <= 5 rows')
    cases = []
    for width, n, cols in fs:
        rows = [[q(c[i]) for c in cols] for i in range(n)] if width else []
        cases.append({'op': 'c11.filter', 'rows': rows, 'width': width})
    res = ctx.driver.ask(cases)
    for (width, n, cols), case, model in zip(fs, cases, res):
        impl = obs_filter(width, n, cols)
        rr = case['rows']
        ctx.seen({'stream': 'filter', 'rows': rr}, any(a == b for a, b in zip(rr, rr[1:])) and any(a != b for a, b in zip(rr, rr[1:])))
        ctx.count('filter.width', str(width))
        _cmp(ctx, 'filter', case, impl, model.get('out', model))
    run_large(ctx)
    # ---- split
    ss = gen_split(ctx, ctx.n(500, 5000))
    if ctx.tier == 'thorough' or ctx.escalated:
        for n in range(0, 13):
            for bits in itertools.product([False, True], repeat=n):
                ss.append(('exhaustive', list(range(n)), list(bits)))
        ctx.notes.append('split: exhaustive over all masks of length <= 12')
    cases = [{'op': 'c11.split', 'arr': arr, 'mask': mask} for _, arr, mask in ss]
    res = ctx.driver.ask(cases)
    for (mode, arr, mask), case, model in zip(ss, cases, res):
        impl = obs_split(arr, mask)
        ctx.seen({'stream': 'split', 'mask': mask}, any(a != b for a, b in zip(mask, mask[1:])))
        ctx.count('split.mode', mode)
        _cmp(ctx, 'split', case, impl, model)


def run_large(ctx):
    """Spec-only stream (independent reference, no model: the matrices are too large / not rational): very long trajectories with
    exact repeats placed around multiples of 65536 rows, and matrices with a column held at +-inf whose rows all differ."""
    import numpy as np
    from femto.helpers import unique_filter
    from femto.laserpath import LaserPath
    rng = ctx.rng
    for k in range(ctx.n(2, 6)):
        n = rng.choice([65536 + 40, 131072 + 40])
        x = np.arange(n, dtype=np.float32) * np.float32(0.25)
        rep = sorted(set([65535, 65536, 65537, rng.randrange(1, n - 1)] + ([131072, 131073] if n > 131072 else [])))
        for i in rep:
            x[i] = x[i - 1]
        y = np.zeros(n, dtype=np.float32)
        keep = np.ones(n, dtype=bool)
        keep[1:] = x[1:] != x[:-1]
        with core.quiet():
            got = unique_filter([x, y])
            lp = LaserPath()
            lp.add_path(x, y, y, np.full(n, 5.0, dtype=np.float32), np.ones(n, dtype=np.float32))
            px = np.asarray(lp.points[0])
        ctx.count('large.rows', str(n))
        case = {'rows': n, 'repeats_at': rep}
        ctx.seen({'stream': 'large', **case}, True)
        if np.asarray(got).shape[-1] != int(keep.sum()) or not np.array_equal(np.asarray(got)[0], x[keep]):
            ctx.fail('spec', 'large', case, f'unique_filter keeps {np.asarray(got).shape[-1]} of {n} rows, {int(keep.sum())} differ from their predecessor '
                                              f'(repeats at {rep})', 'large:filter')
        elif px.shape[0] != int(keep.sum()) or not np.array_equal(px, x[keep]):
            ctx.fail('spec', 'large', case, f'points keeps {px.shape[0]} of {n} rows, {int(keep.sum())} differ from their predecessor', 'large:points')
    for k in range(ctx.n(20, 200)):
        n = rng.randint(2, 12)
        cols = [[float(i) * rng.choice([0.5, 1.0]) for i in range(n)], [rng.choice([float('inf'), float('-inf')])] * n,
                [float(rng.randint(0, 1)) for _ in range(n)]]
        rng.shuffle(cols)
        with core.quiet():
            got = np.asarray(unique_filter([np.array(c_) for c_ in cols]))
        case = {'cols': [[repr(v) for v in c_] for c_ in cols]}
        ctx.seen({'stream': 'nonfinite', **case}, True)
        ctx.count('large.nonfinite_column', 'yes')
        # every row differs from its predecessor in a finite column: all of them must be kept
        if got.ndim != 2 or got.shape[-1] != n:
            ctx.fail('spec', 'nonfinite', case, f'unique_filter keeps {got.shape[-1] if got.ndim == 2 else got.shape} of {n} rows that all differ from '
                                                  f'their predecessor (one column is held at infinity)', 'nonfinite:filter')


def replay(ctx, payload):
    case = payload['case']
    op = case['op']
    model = ctx.driver.ask([{k: v for k, v in case.items() if k not in ('impl', 'model', 'src')}])[0]
    import numpy as np
    if op == 'c11.views':
        from femto.laserpath import LaserPath
        lp = LaserPath()
        if case['rows']:
            cols = list(zip(*[[float(core.unq(v)) for v in r] for r in case['rows']]))
            lp.add_path(*[np.array(c, dtype=np.float32) for c in cols])
        _cmp(ctx, 'views', case, _views_of(lp), model)
    elif op == 'c11.filter':
        w = case.get('width', len(case['rows'][0]) if case['rows'] else 0)
        cols = [[float(core.unq(r[i])) for r in case['rows']] for i in range(w)]
        _cmp(ctx, 'filter', case, obs_filter(w, len(case['rows']), cols), model.get('out', model))
    else:
        _cmp(ctx, 'split', case, obs_split(case['arr'], case['mask']), model)
    ctx.seen(case)

CLAIM = {
    'text': 'Lean 4 theorems: the model of unique_filter equals Mathlib\'s List.destutter (remove consecutive duplicates), is a '
            'sublist, has no adjacent equal rows, keeps exactly the rows that differ from their recorded predecessor, is the '
            'longest such sublist and is idempotent; lastpt/lastx/y/z/path3d are consistent projections; split_mask returns '
            'exactly the selected maximal runs (alternating, non-empty pieces that concatenate to the input). All for lists of '
            'any length by induction. The model is tied to the code by exact differential comparison of every view on '
            'generated and builder-produced trajectories, every run.',
    'note': 'Trusted: Lean kernel + Mathlib, the hand-written model in Model/Filter.lean and its differential tie to numpy '
            '(sampled, exact comparison of float32 values as rationals); NaN/inf rows are outside the model (C10).',
    'technique': 'Lean 4 proof by induction over the trajectory / mask + differential correspondence',
}

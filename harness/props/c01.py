"""C01 — emitted G-code replays the compiled path point for point."""
from __future__ import annotations

import fractions
import itertools
import warnings

import core
import gcommon
from core import q

warnings.simplefilter('ignore')

REQUIRED = ['writeLoop_replays', 'write_replays', 'first_point_closed', 'write_digits', 'write_error', 'printed_value_error',
            'printed_full', 'formatArgs_full', 'write_final_state', 'writeLoop_final_shutter', 'write_final_shutter']
RULE = ('stream write: (configuration, point matrix) -> real PGMCompiler.write on a fresh compiler -> bytes of the closed file '
        '-> Lean: parse, interpret on the reference controller, decide the predicate of theorem write_replays (moves == expectedFrom '
        'of the printed points, digits) and compare with the model\'s own output.  Matrices: generated well-formed ones (toggles on '
        'repeated points AND toggles coinciding with displacements, feed-only changes, closed moves in mid-path), matrices from the '
        'real builders (waveguide incl. linear(shutter=0) in mid-path, markers, raster).  Regimes: exact (dyadic data, angle 0, '
        'neff a power of two: equality) and rounded (arbitrary angle/shift/indices: positions within scale*2^-21 + 10^-d).  '
        'thorough adds every shutter/move pattern of <= 7 points.  malformed stream (first point open, shutter values outside '
        '{0,1}, feed below the guard) compares error behaviour only.  non-trivial = >= 3 points and >= 1 shutter change.')
ASSUMPTIONS = [
    'IEEE rounding inside transform_points is not modelled: the rounded regime is compared with a stated tolerance (sampled)',
    'reference controller semantics of Spec/Controller.lean (a G1 to the current position is no motion)',
    'CPython float formatting == round-half-even of the exact binary value (validated by the exact regime)',
]
CLAIM = {
    'text': 'Lean 4 theorem write_replays: for every configuration, every matrix with shutter values in {0,1} that write accepts, '
            'every compiler state and every controller state with the same shutter belief, interpreting the emitted instructions on '
            'the reference controller yields exactly expectedFrom(printed points): one move per point whose printed position '
            'differs from its predecessor, in order, at that point\'s feed, shutter open iff marked; proved by induction over the '
            'point list with the invariant (controller position = last printed point, controller shutter = compiler belief). '
            'Plus: digits, half-unit rounding bound of printed numbers, raise-before-emit. The predicate itself is evaluated in '
            'Lean on the bytes the real write() produced, for generated and builder-made matrices, every run.',
    'note': 'Trusted: Lean kernel/Mathlib; Spec/Controller.lean as the meaning of "reference controller"; the model of write in '
            'Model/Gcode.lean tied to the code by differential comparison of controller traces; float rounding of the '
            'transformation only sampled (tolerance), per DESIGN section 8.',
    'technique': 'Lean 4 proof by induction over the point matrix + spec-on-implementation in Lean + differential correspondence',
}


def _tol(cfg, rows, G):
    mx = max([abs(v) for r in rows for v in r[:3]] + [1.0]) + abs(G.shift_origin[0]) + abs(G.shift_origin[1])
    return fractions.Fraction(mx) / 2 ** 21 + fractions.Fraction(1, 10 ** int(G.output_digits))


def observe(cfg, rows, pre_on=False, hist=None):
    """Run the real write() and read the bytes back.

    hist = 'same-array': the very same float32 matrix object was compiled once before (by another compiler of the same
    configuration); hist = 'reassigned': the compiler was used before under other settings (another file written and closed), then
    its index, mirror and origin settings were reassigned to those of cfg.  Either way the file judged is the last one."""
    from femto.pgmcompiler import PGMCompiler
    with gcommon.Scratch() as d, core.quiet():
        arr = gcommon.to_np(rows)
        if hist == 'same-array':
            G0 = PGMCompiler(**cfg)
            try:
                G0.write(arr)
            except (ValueError, IndexError, TypeError):
                pass
            G0.close('first.pgm')
        if hist == 'reassigned':
            other = dict(cfg)
            other.update(n_glass=cfg['n_glass'] * 1.25, n_environment=cfg['n_environment'] * 0.8, flip_x=not cfg.get('flip_x', False),
                         flip_y=not cfg.get('flip_y', False), shift_origin=(cfg['shift_origin'][0] + 0.5, cfg['shift_origin'][1] - 0.25))
            G = PGMCompiler(**other)
            G.write(gcommon.to_np([[0.0, 0.0, 0.0, 5.0, 0.0], [1.0, 0.5, 0.25, 5.0, 1.0], [2.0, 0.5, 0.25, 5.0, 0.0]]))
            G.close('first.pgm')
            G.n_glass, G.n_environment = cfg['n_glass'], cfg['n_environment']
            G.flip_x, G.flip_y = cfg.get('flip_x', False), cfg.get('flip_y', False)
            G.shift_origin = cfg['shift_origin']
        else:
            G = PGMCompiler(**cfg)
        mcfg = gcommon.model_cfg(G)
        if pre_on:
            G.shutter('ON')
        raised = None
        try:
            G.write(arr)
        except (ValueError, IndexError, TypeError) as e:
            raised = type(e).__name__
        n_instr = len(G._instructions)
        G.close()
        text = (d / 'prog.pgm').read_text()
        return {'text': text, 'mcfg': mcfg, 'raised': raised, 'n_instr': n_instr, 'tol': _tol(cfg, rows, G),
                'shutter_on': bool(G._shutter_on), 'dwell': q(float(G.dwell_time))}


def check_case(ctx, cfg, rows, exact, src, pre_on=False, escal=False, hist=None):
    obs = observe(cfg, rows, pre_on, hist)
    case = {'cfg': cfg, 'rows': rows, 'exact': exact, 'src': src, 'pre_on': pre_on, 'hist': hist}
    mj = gcommon.matrix_json(rows)
    tol = fractions.Fraction(0) if exact else obs['tol']
    reqs = [{'op': 'c01.check', 'cfg': obs['mcfg'], 'm': mj, 'text': obs['text'], 'tol': q(tol), 'shutter_on': False},
            {'op': 'gc.write', 'cfg': obs['mcfg'], 'm': mj, 'shutter_on': pre_on},
            {'op': 'ctl.run', 'text': obs['text']}]
    return case, obs, reqs, tol


def judge(ctx, case, obs, res, tol):
    chk, model, impl = res
    for r in res:
        if 'driver_error' in r:
            raise core.InfraError(r['driver_error'])
    rows = case['rows']
    nontriv = len(rows) >= 3 and any(a[4] != b[4] for a, b in zip(rows, rows[1:]))
    ctx.seen({'stream': 'write', **case}, nontriv)
    ctx.traces_validated += 1
    if chk.get('model_raises') or model.get('raised'):
        if obs['raised'] is None:
            ctx.fail('corr', 'write', case, 'model rejects the matrix (feed guard) but the implementation accepted it')
        elif obs['n_instr'] != (1 if case['pre_on'] else 0):
            ctx.fail('spec', 'write', case, 'write() raised after having emitted instructions', 'raise-after-emit')
        return
    if obs['raised'] is not None:
        ctx.fail('corr', 'write', case, f'implementation raised {obs["raised"]} on a matrix the model accepts')
        return
    if not chk['replays']:
        ctx.fail('spec', 'write', {**case, 'first_diff': chk.get('first_diff'), 'n_moves': chk['n_moves'], 'n_expected': chk['n_expected'],
                                   'bad': chk.get('bad')},
                 f'interpreting the emitted file does not replay the path: {chk["n_moves"]} moves vs {chk["n_expected"]} expected, '
                 f'first difference {chk.get("first_diff")}', 'replay')
        return
    if not chk['digits_ok']:
        ctx.fail('spec', 'write', case, 'a number word is not printed with the configured number of decimals', 'digits')
        return
    if chk['final_shutter'] != (rows[-1][4] == 1.0):
        ctx.fail('spec', 'write', case, 'shutter state after the program differs from the last point\'s mark', 'final-shutter')
        return
    # model vs implementation at the trace level (moves, dwells with shutter state)
    pre = [('pso', True)] if case['pre_on'] else []
    a = gcommon.canon_events(impl['events'], kinds=('m', 'd'))
    b = gcommon.canon_events(model['prog']['events'], kinds=('m', 'd'))
    d = gcommon.close_events(a, b, tol)
    if d:
        ctx.fail('corr', 'write', case, f'controller trace of the implementation differs from the model: {d}')
    elif obs['dwell'] != model['reported_dwell'] and case['exact'] and not case.get('hist'):
        ctx.fail('corr', 'write', case, f'reported dwell differs: impl {obs["dwell"]} model {model["reported_dwell"]}')


def run(ctx):
    rng = ctx.rng
    batch = []
    n = ctx.n(350, 6000)
    for i in range(n):
        exact = rng.random() < 0.5
        cfg = gcommon.gen_cfg(rng, exact)
        if rng.random() < 0.3:
            kind, rows = gcommon.builder_matrix(rng)
            src = 'builder/' + kind
            exact_case = False if (cfg['shift_origin'] != (0.0, 0.0) or not exact) else True
            # builder coordinates are not dyadic: the float32 shift subtraction / 1/neff product may round
            exact_case = exact_case and cfg['n_glass'] == cfg['n_environment']
        else:
            rows = gcommon.gen_matrix(rng, exact, closed=rng.random() < 0.8, max_pts=40 if ctx.tier == 'quick' else 200,
                                      digits=cfg['output_digits'], near_zero=tuple(cfg['shift_origin']) == (0.0, 0.0))
            src = 'generated'
            exact_case = exact
        pre_on = rng.random() < 0.1
        ctx.count('write.source', src)
        ctx.count('write.regime', 'exact' if exact_case else 'rounded')
        ctx.count('write.toggle_with_move', str(any(a[4] != b[4] and a[:3] != b[:3] for a, b in zip(rows, rows[1:]))))
        hist = rng.choice([None, None, None, None, None, 'same-array', 'reassigned'])
        if hist == 'reassigned' and pre_on:
            hist = None
        if hist == 'same-array' and rng.random() < 0.5:
            cfg['shift_origin'] = (0.0, 0.0)      # (with a zero shift nothing forces a copy of the coordinates before they are mirrored)
            if not (cfg.get('flip_x') or cfg.get('flip_y')):
                cfg[rng.choice(['flip_x', 'flip_y'])] = True
        ctx.count('write.history', str(hist))
        batch.append(check_case(ctx, cfg, rows, exact_case and hist != 'reassigned', src, pre_on, hist=hist))
    if ctx.tier == 'thorough' or ctx.escalated:
        cfg = {'filename': 'prog.pgm', 'shift_origin': (0.5, -0.25), 'flip_x': True, 'n_glass': 2.0, 'n_environment': 1.0,
               'short_pause': 0.25, 'long_pause': 0.5}
        for npts in range(1, 8):
            for pat in itertools.product(range(4), repeat=npts - 1):
                rows, x, s = [[0.0, 0.0, 0.0, 5.0, 0.0]], 0.0, 0.0
                for k in pat:
                    s = float(k & 1)
                    x += 0.5 * (k >> 1)
                    rows.append([x, 0.0, 0.0, 5.0, s])
                rows = [r for i, r in enumerate(rows) if i == 0 or r != rows[i - 1]]
                batch.append(check_case(ctx, cfg, rows, True, 'exhaustive-pattern'))
        ctx.notes.append('write: exhaustive over all (shutter, move/stay) patterns of <= 7 points')
    # malformed stream
    for i in range(ctx.n(60, 600)):
        cfg = gcommon.gen_cfg(rng, True)
        rows = gcommon.gen_matrix(rng, True, max_pts=10)
        kind = rng.choice(['lowfeed', 'lowfeed_late', 'zero_feed'])
        k = 0 if kind == 'lowfeed' else rng.randrange(len(rows))
        rows[k][3] = gcommon.f32(rng.choice([0.0, -1.0, 1e-9, 10.0 ** (-cfg['output_digits'] - 1)]))
        ctx.count('write.source', 'malformed/' + kind)
        batch.append(check_case(ctx, cfg, rows, True, 'malformed/' + kind))
    reqs = [r for (_, _, rs, _) in batch for r in rs]
    res = ctx.driver.ask(reqs)
    for i, (case, obs, _, tol) in enumerate(batch):
        judge(ctx, case, obs, res[3 * i:3 * i + 3], tol)


def replay(ctx, payload):
    c = payload['case']
    cfg = dict(c['cfg'])
    cfg['shift_origin'] = tuple(cfg['shift_origin'])
    case, obs, reqs, tol = check_case(ctx, cfg, c['rows'], c['exact'], c.get('src', 'replay'), c.get('pre_on', False), hist=c.get('hist'))
    judge(ctx, case, obs, ctx.driver.ask(reqs), tol)

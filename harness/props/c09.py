"""C09 — exporting is pure and repeatable."""
from __future__ import annotations

import hashlib
import warnings

import core
import gcommon

warnings.simplefilter('ignore')

REQUIRED = ['transform_frame', 'transform_result', 'transform_twice', 'transform_old_mutates', 'estimates_history_independent',
            'accumulate_grows', 'write_twice', 'args_frame']
RULE = ('stream transform: transform_points on float32 arrays, row views of a point matrix, float64 / int arrays, lists and scalars '
        'with non-zero origin shift, flips, rotation: the inputs must be byte-identical afterwards, the output must not share '
        'memory with them, a second call must give the same output.  stream write: the same matrix written twice (and three times) '
        'on one compiler with a non-trivial configuration: the instruction blocks must be equal.  stream device: a real Device '
        '(waveguides incl. a group, Nasu waveguides, markers, a trench column, optionally a U-trench column) under a random '
        'history (<= 9 operations) of plot2d, plot3d, pgm, xlsx, tool-path generation, writer plots, reading points; after every '
        'operation all path arrays, block polygons, object lists (identity structure), parameter dictionaries and caller lists '
        'must be unchanged, every pgm() must produce a byte-identical file tree, and lengths / fabrication-time estimates / floor '
        'lengths / device time must keep the value they had after their first computation.  stream args: marker and trench '
        'builders must leave their list arguments alone.  non-trivial = history with a repeated operation and shift != 0.')
ASSUMPTIONS = [
    'plot rendering is not observed beyond the fact that plotting must not change the objects',
    'object state is observed through its public attributes and the private arrays named in the property anchors',
]
CLAIM = {
    'text': 'Lean 4 theorems on an explicit aliasing model (numpy array cells with dtypes, np.asarray returning the same cell for '
            'float32 input): the repaired translation of transform_points leaves every existing cell unchanged, returns the '
            'translated data in a fresh cell and gives the same result when repeated, while the former in-place version provably '
            'modifies a caller\'s float32 array (witness); a recomputed estimate has the same value after any number of repetitions '
            'while the former accumulation grows (witness); in the compiler model writing the same matrix twice emits the same '
            'statements twice; list arguments: the frame conditions of C16. Tied to the code by before/after snapshots over random '
            'histories on real devices, byte comparison of repeated exports and of repeated writes, every run.',
    'note': 'Trusted: Lean kernel/Mathlib; Model/Purity.lean is a hand-written fragment of numpy/CPython aliasing, validated by the '
            'snapshot streams; rendering not observed.',
    'technique': 'Lean 4 proof (heap frame conditions, idempotence by induction) + snapshot / byte-comparison on real histories',
}


def h(b: bytes) -> str:
    return hashlib.sha1(b).hexdigest()[:12]


def run_transform(ctx):
    import numpy as np
    from femto.pgmcompiler import PGMCompiler
    rng = ctx.rng
    for i in range(ctx.n(300, 5000)):
        cfg = gcommon.gen_cfg(rng, False, neutral_ok=False)
        cfg = {k: cfg[k] for k in ('filename', 'shift_origin', 'flip_x', 'flip_y', 'rotation_angle', 'n_glass', 'n_environment')}
        if cfg['shift_origin'] == (0.0, 0.0) or rng.random() < 0.7:
            cfg['shift_origin'] = (rng.choice([0.5, -1.25, 2.0]), rng.choice([0.25, -0.5, 1.0]))
        kind = rng.choice(['f32', 'f32', 'rows', 'rows', 'f64', 'int', 'list', 'scalar', 'noncontig'])
        n = rng.randint(1, 9)
        base = np.array([[rng.uniform(-5, 5) for _ in range(n)] for _ in range(5)], dtype=np.float32)
        if kind == 'f32':
            args = [base[0].copy(), base[1].copy(), base[2].copy()]
        elif kind == 'rows':
            args = [base[0], base[1], base[2]]
        elif kind == 'noncontig':
            big = np.array([[rng.uniform(-5, 5) for _ in range(2 * n)] for _ in range(3)], dtype=np.float32)
            args = [big[0][::2], big[1][::2], big[2][::2]]
        elif kind == 'f64':
            args = [base[k].astype(np.float64) for k in range(3)]
        elif kind == 'int':
            args = [np.array([rng.randint(-3, 3) for _ in range(n)]) for _ in range(3)]
        elif kind == 'list':
            args = [[float(v) for v in base[k]] for k in range(3)]
        else:
            args = [np.float32(base[k][0]) for k in range(3)]
        snap = [np.array(a, copy=True) for a in args]
        whole = base.copy()
        case = {'cfg': cfg, 'kind': kind, 'n': n}
        ctx.seen({'stream': 'transform', **case, 'i': i}, True)
        ctx.count('transform.kind', kind)
        warp = rng.random() < 0.25
        ctx.count('transform.warp', 'on' if warp else 'off')
        with gcommon.Scratch() as sd, core.quiet():
            if warp:
                # a tilted, slightly bowed surface measured on a 4 x 3 grid covering the query range
                with open(sd / 'POS.txt', 'w') as fh:
                    for gx in (-6.0, -2.0, 2.0, 6.0):
                        for gy in (-6.0, 0.0, 6.0):
                            fh.write(f'{gx} {gy} {0.002 * gx - 0.001 * gy + 0.0005 * gx * gx}\n')
                G = PGMCompiler(warp_flag=True, samplesize=(12, 12), **cfg)
            else:
                G = PGMCompiler(**cfg)
            out1 = np.array(G.transform_points(*args))
            changed = any(not np.array_equal(np.asarray(a), s) for a, s in zip(args, snap)) or not np.array_equal(base, whole)
            shares = any(isinstance(a, np.ndarray) and np.shares_memory(out1, a) for a in args)
            out2 = np.array(G.transform_points(*args))
        if changed:
            ctx.fail('spec', 'transform', case, f'transform_points modified the {kind} arrays it was given', 'transform-mutates')
        elif shares:
            ctx.fail('spec', 'transform', case, 'the result of transform_points shares memory with its input', 'transform-aliases')
        elif not np.array_equal(out1, out2):
            ctx.fail('spec', 'transform', case, 'a second transform_points call on the same input gave another result', 'transform-repeat')


def run_write(ctx):
    import numpy as np
    from femto.pgmcompiler import PGMCompiler
    rng = ctx.rng
    for i in range(ctx.n(200, 3000)):
        cfg = gcommon.gen_cfg(rng, False, neutral_ok=False)
        cfg['shift_origin'] = (rng.choice([0.5, -1.25]), rng.choice([0.25, 1.0]))
        if rng.random() < 0.5:
            kind, rows = gcommon.builder_matrix(rng)
        else:
            kind, rows = 'generated', gcommon.gen_matrix(rng, False, closed=True, max_pts=20)
        if rng.random() < 0.15 and len(rows) >= 3:
            # a closed loop given without the leading closed point: starts open, ends closed where it started
            rows = [list(r) for r in rows[1:]]
            rows[0][4] = 1.0
            rows.append(rows[0][:4] + [0.0])
            kind += '/starts-open'
        pts = gcommon.to_np(rows)
        snap = pts.copy()
        case = {'cfg': cfg, 'rows': rows, 'src': kind}
        ctx.seen({'stream': 'write', **case}, True)
        ctx.count('write.source', kind)
        with core.quiet():
            G = PGMCompiler(**cfg)
            blocks = []
            for rep in range(3):
                a = len(G._instructions)
                G.write(pts)
                blocks.append(list(G._instructions)[a:])
                if rep == 0 and rng.random() < 0.4 and pts.shape[1] > 2:
                    # a rejected matrix in between (feed below the guard after the start) must leave no trace
                    badm = pts.copy()
                    col = rng.randrange(1, pts.shape[1])
                    what = rng.choice(['zero', 'negative', 'below-resolution', 'nan-feed', 'inf-coordinate', 'nan-coordinate'])
                    if what == 'zero':
                        badm[3][col] = 0.0
                    elif what == 'negative':
                        badm[3][col] = -2.0
                    elif what == 'below-resolution':
                        badm[3][col] = 0.4 * 10.0 ** -int(cfg['output_digits'])     # positive, but prints as F0.000
                    elif what == 'nan-feed':
                        badm[3][col] = float('nan')
                    elif what == 'inf-coordinate':
                        badm[rng.randrange(3)][col] = float('inf')
                    else:
                        badm[rng.randrange(3)][col] = float('nan')
                    ctx.count('write.rejected', what)
                    a2, dw = len(G._instructions), G.dwell_time
                    accepted = False
                    try:
                        G.write(badm)
                        accepted = True
                    except ValueError:
                        pass
                    if accepted:
                        blocks.append(['<accepted>'])
                        blocks.append(['<accepted>'])
                    elif len(G._instructions) != a2 or G.dwell_time != dw or G._shutter_on:
                        blocks.append(['<rejected write left traces>'])
        if not np.array_equal(pts, snap):
            ctx.fail('spec', 'write', case, 'write() modified the point matrix it was given', 'write-mutates')
        elif len(blocks) > 4:
            pass        # the matrix was accepted (e.g. a feed that still prints as non-zero): nothing to judge here, C10 judges values
        elif len(blocks) > 3:
            ctx.fail('spec', 'write', case, 'a rejected write() left instructions, dwell time or an open shutter behind', 'write-rejected-traces')
        elif blocks[0] != blocks[1] or blocks[1] != blocks[2]:
            k = next(j for j, (x, y) in enumerate(zip(blocks[0], blocks[1] if blocks[0] != blocks[1] else blocks[2])) if x != y)
            ctx.fail('spec', 'write', {**case, 'first': blocks[0][k], 'again': (blocks[1] if blocks[0] != blocks[1] else blocks[2])[k]},
                     'writing the same matrix again emitted different instructions', 'write-repeat')


def build_device(rng, d):
    import numpy as np
    from femto.device import Device
    from femto.marker import Marker
    from femto.trench import TrenchColumn, UTrenchColumn
    from femto.waveguide import NasuWaveguide, Waveguide
    param = {'filename': 'dev.pgm', 'laser': 'PHAROS', 'export_dir': str(d / 'exp'), 'shift_origin': (rng.choice([0.5, 0.0, -1.0]), rng.choice([0.25, 1.0])),
             'flip_x': rng.random() < 0.5, 'rotation_angle': rng.choice([0.0, 1.5]), 'samplesize': (8, 4), 'aerotech_angle': rng.choice([0.0, 2.0])}
    dev = Device(**param)
    wgs = []
    for i in range(4):
        wg = Waveguide(scan=rng.randint(1, 3), speed=20, samplesize=(8, 4))
        wg.start([-1.0, 0.3 * (3 - i), 0.035]).linear([3.0, 0, 0]).arc_bend(0.02 * (-1) ** i).linear([9.0, None, None], mode='ABS')
        wg.end()
        wgs.append(wg)
    if rng.random() < 0.5:
        wgs[2].scan = wgs[3].scan       # the two guides of the group otherwise keep their own (possibly different) scan numbers
    nw = NasuWaveguide(adj_scan=3, adj_scan_shift=(0, 0.001, 0), speed=10, samplesize=(8, 4))
    nw.start([-1.0, 1.5, 0.035]).linear([9.0, None, None], mode='ABS')
    nw.end()
    mks = []
    for i in range(2):
        mk = Marker(lx=0.5, ly=0.2)
        mk.cross([1.0 + i, 2.0, 0.0])
        mks.append(mk)
    cols = []
    tc = TrenchColumn(x_center=2.0, y_min=-0.1, y_max=1.0, length=0.3, nboxz=1, h_box=0.02, deltaz=0.01, delta_floor=0.02)
    if rng.random() < 0.4:
        # a column dug in two steps, the upper part first: its trenches are not stored bottom-to-top
        tc.dig_from_array([np.array([[-1.0, 0.6], [5.0, 0.6]]), np.array([[-1.0, 0.9], [5.0, 0.9]])])
        tc.dig_from_array([np.array([[-1.0, 0.3], [5.0, 0.3]]), np.array([[-1.0, 0.45], [5.0, 0.45]])])
    else:
        tc.dig_from_array([np.array([[-1.0, 0.3 * k], [5.0, 0.3 * k]]) for k in range(1, 3)])
    cols.append(tc)
    if rng.random() < 0.4:
        utc = UTrenchColumn(x_center=4.0, y_min=-0.1, y_max=1.0, length=0.3, nboxz=1, h_box=0.02, deltaz=0.01, delta_floor=0.02, n_pillars=1)
        utc.dig_from_array([np.array([[-1.0, 0.3 * k], [8.0, 0.3 * k]]) for k in range(1, 3)])
        cols.append(utc)
    ext = [wgs[0], wgs[1], [wgs[2], wgs[3]], nw] + mks + cols
    dev.extend(ext)
    return dev, param, wgs, nw, mks, cols, ext


def state(dev, param, paths, cols, ext):
    import numpy as np
    from shapely import wkb
    st = {}
    for i, p in enumerate(paths):
        st[f'path{i}'] = h(b''.join(np.asarray(getattr(p, a)).tobytes() for a in ('_x', '_y', '_z', '_f', '_s')) + repr((p.scan, p.speed)).encode())
    for i, c in enumerate(cols):
        st[f'col{i}'] = h(b''.join(wkb.dumps(t.block) for t in c._trench_list) + repr((c.nboxz, c.h_box, c.deltaz)).encode())
        if hasattr(c, 'trenchbed'):
            st[f'col{i}beds'] = h(b''.join(wkb.dumps(t.block) for t in c.trenchbed))
    for k, w in dev.writers.items():
        st['list:' + k.__name__] = repr(_ids(w.obj_list))
        st['param:' + k.__name__] = repr(sorted((a, repr(b)) for a, b in w._param.items()))
    st['param'] = repr(sorted((a, repr(b)) for a, b in param.items()))
    st['devparam'] = repr(sorted((a, repr(b)) for a, b in dev._param.items()))
    st['ext'] = repr(_ids(ext))
    return st


def _ids(v):
    if isinstance(v, list):
        return [_ids(x) for x in v]
    return id(v)


def tree(root):
    return {str(p.relative_to(root)): h(p.read_bytes()) for p in sorted(root.rglob('*')) if p.is_file()}


def run_device(ctx):
    import shutil
    rng = ctx.rng
    for i in range(ctx.n(25, 400)):
        with gcommon.Scratch() as d, core.quiet():
            rstate = rng.getstate()
            dev, param, wgs, nw, mks, cols, ext = build_device(rng, d)
            paths = wgs + [nw] + mks
            ops = [rng.choice(['plot2d', 'plot3d', 'pgm', 'pgm', 'xlsx', 'toolpath', 'toolpath_partial', 'writer_plot', 'points']) for _ in range(rng.randint(2, 9))]
            if 'pgm' in ops and rng.random() < 0.7:
                ops.append('pgm')
            case = {'ops': ops, 'param': {k: (list(v) if isinstance(v, tuple) else v) for k, v in param.items() if k != 'export_dir'}, 'ucol': len(cols) > 1}
            ctx.seen({'stream': 'device', **case}, len(set(ops)) < len(ops) and param['shift_origin'][0] != 0)
            st0 = state(dev, param, paths, cols, ext)
            verbose = rng.random() < 0.7   # the estimates are only refreshed by a verbose export: keep the flag fixed in a history
            est0 = {'len': [w.length for w in wgs], 'fab': [p.fabrication_time for p in paths]}
            first = {}
            bad = None
            twin = rng.random() < 0.5
            ctx.count('device.reference', 'fresh-twin' if twin else 'first-export')
            if twin:
                # the reference is what a freshly built, never used copy of the same device exports (same PRNG state, other folder)
                import random as _random
                r2 = _random.Random()
                r2.setstate(rstate)
                (d / 'twin').mkdir()
                dev2, _, _, _, _, cols2, _ = build_device(r2, d / 'twin')
                dev2.pgm(verbose=verbose)
                first['tree'] = tree(d / 'twin' / 'exp')
                first['floor'] = [t_.floor_length for c in cols2 for t_ in c._trench_list]
            for step, op in enumerate(ops):
                ctx.count('device.op', op)
                try:
                    if op == 'plot2d':
                        dev.plot2d(show=False)
                    elif op == 'plot3d':
                        dev.plot3d(show=False)
                    elif op == 'pgm':
                        exp = d / 'exp'
                        if exp.exists():
                            shutil.rmtree(exp)
                        dev.pgm(verbose=verbose)
                        t = tree(exp)
                        if 'tree' in first and first['tree'] != t:
                            diff = sorted(k for k in set(t) | set(first['tree']) if t.get(k) != first['tree'].get(k))
                            bad = (f'export {step} differs from the first export in {diff}', 'export-repeat')
                        first.setdefault('tree', t)
                        vals = {'devtime': dev.fabrication_time, 'coltime': [c.fabrication_time for c in cols],
                                'floor': [t_.floor_length for c in cols for t_ in c._trench_list]}
                        for k, v in vals.items():
                            if k in first and first[k] != v:
                                bad = (f'{k} was {first[k]} after the first export and is {v} after export {step}', 'estimate:' + k)
                            first.setdefault(k, v)
                    elif op == 'xlsx':
                        dev.xlsx(verbose=False, book_name=str(d / f'book{step}.xlsx'))
                    elif op == 'toolpath_partial':
                        # an outline preview: only the first polyline of every tool-path is looked at
                        for c in cols:
                            for t_ in list(c._trench_list) + list(getattr(c, 'trenchbed', [])):
                                next(iter(t_.toolpath()), None)
                    elif op == 'toolpath':
                        for c in cols:
                            for t_ in list(c._trench_list) + list(getattr(c, 'trenchbed', [])):
                                for _ in t_.toolpath():
                                    pass
                        v = [t_.floor_length for c in cols for t_ in c._trench_list]
                        if 'floor' in first and first['floor'] != v:
                            bad = (f'floor lengths were {first["floor"]} and are {v} after another traversal', 'estimate:floor')
                        first.setdefault('floor', v)
                        first.setdefault('coltime', [c.fabrication_time for c in cols])
                    elif op == 'writer_plot':
                        # what a writer draws with the default style is the same figure every time, also after a plot that was
                        # given a style of its own
                        kcls, w = rng.choice(list(dev.writers.items()))
                        dim = rng.choice(['2d', '3d'])
                        key = f'fig:{kcls.__name__}:{dim}'
                        hj = h(getattr(w, 'plot' + dim)().to_json().encode())
                        if key in first and first[key] != hj:
                            bad = (f'the {dim} plot of the {kcls.__name__} writer with the default style differs from the first one', 'plot-repeat')
                        first.setdefault(key, hj)
                        if 'Trench' not in kcls.__name__ and rng.random() < 0.5 and not bad:
                            getattr(w, 'plot' + dim)(style={'color': rng.choice(['red', 'green', '#123456', 'orange']), 'width': rng.choice([3.0, 0.5])})
                            ctx.count('device.styled_plot', kcls.__name__ + dim)
                            if h(getattr(w, 'plot' + dim)().to_json().encode()) != hj:
                                bad = (f'after a {dim} plot with a style of its own, the default plot of the {kcls.__name__} writer is another figure', 'plot-repeat')
                    else:
                        for p in paths:
                            p.points, p.x, p.lastpt, p.path3d
                except Exception as e:
                    bad = (f'{op} raised {type(e).__name__}: {e}', 'raised:' + op)
                if bad:
                    break
                st = state(dev, param, paths, cols, ext)
                if st != st0:
                    changed = sorted(k for k in st if st[k] != st0[k])
                    bad = (f'{op} (operation {step}) modified {changed}', 'mutated:' + ','.join(c.split(':')[0].rstrip('0123456789') for c in changed))
                    break
                est = {'len': [w.length for w in wgs], 'fab': [p.fabrication_time for p in paths]}
                if est != est0:
                    bad = (f'lengths / fabrication times changed after {op}', 'estimate:path')
                    break
        if bad:
            ctx.fail('spec', 'device', case, bad[0], bad[1])


def run_args(ctx):
    import numpy as np
    from femto.marker import Marker
    from femto.trench import TrenchColumn
    from femto.waveguide import Waveguide
    rng = ctx.rng
    for i in range(ctx.n(150, 2000)):
        k = rng.choice(['cross2', 'cross3', 'ruler', 'ablation', 'box', 'meander', 'dig', 'dig_remove', 'start', 'linear'])
        case = {'call': k}
        ctx.seen({'stream': 'args', **case, 'i': i % 50}, True)
        ctx.count('args.call', k)
        with core.quiet():
            mk = Marker()
            try:
                if k == 'cross2':
                    a = [1.0, 2.0]
                    b = list(a)
                    mk.cross(a)
                    Marker().cross(a)
                elif k == 'cross3':
                    a = [1.0, 2.0, 0.5]
                    b = list(a)
                    mk.cross(a)
                elif k == 'ruler':
                    a = [1.0, 0.0, 0.5, 0.0]
                    b = list(a)
                    mk.ruler(a)
                elif k == 'ablation':
                    a = [[0.0, 0.0, 0.0], [1.0, 0.0, 0.0]]
                    b = [list(p) for p in a]
                    mk.ablation(a, shift=0.1)
                elif k == 'box':
                    a = [0.0, 1.0, 0.0]
                    b = list(a)
                    mk.box(a)
                elif k == 'meander':
                    a = [[0.0, 0.0, 0.0], [1.0, 0.35, 0.0]]
                    b = [list(p) for p in a]
                    mk.meander(a[0], a[1], delta=0.1)
                elif k in ('dig', 'dig_remove'):
                    arrs = [np.array([[-1.0, 0.3 * j], [5.0, 0.3 * j]]) for j in range(1, 4)]
                    rem = [2, 0] if k == 'dig_remove' else None
                    a = [arrs, rem]
                    b = [[x.copy() for x in arrs], None if rem is None else list(rem)]
                    TrenchColumn(x_center=2.0, y_min=-0.1, y_max=1.3, length=0.3).dig_from_array(arrs, remove=rem)
                    a = [[x.tolist() for x in arrs], rem]
                    b = [[x.tolist() for x in b[0]], b[1]]
                elif k == 'start':
                    a = [0.0, 1.0, 0.035]
                    b = list(a)
                    Waveguide().start(a)
                else:
                    a = [1.0, None, 0.0]
                    b = list(a)
                    Waveguide().start([0, 0, 0]).linear(a)
            except Exception as e:
                ctx.fail('spec', 'args', case, f'{k} raised {type(e).__name__}: {e}', 'raised:' + k)
                continue
        if a != b:
            ctx.fail('spec', 'args', {**case, 'before': b, 'after': a}, f'{k} modified the list it was given', 'arg-mutated:' + k)


def run(ctx):
    run_transform(ctx)
    run_write(ctx)
    run_args(ctx)
    run_device(ctx)


def replay(ctx, payload):
    ctx.notes.append('C09 replays re-run the streams with the same seed')
    run(ctx)

"""C07 — trench floor tool-paths terminate, stay inside the block and cover it."""
from __future__ import annotations

import math
import warnings

import core
import gcommon
from core import q

warnings.simplefilter('ignore')

REQUIRED = ['contours_first', 'yields_from_block', 'frontier', 'block_is_first_contour', 'erode_mono', 'erode_subset',
            'dilate_erode_subset', 'hatch_region_inside', 'level_within', 'hatch_line_within', 'coverage', 'outline_met', 'coverage_of_outline']
RULE = ('Blocks: rectangles, discs, slivers 0.5..12 floor spacings wide, wedges, L / U / C / H shapes, dumbbells and three-pad chains '
        'whose necks vanish when inset, two pads joined by a neck with a dip in one pad, exactly square envelopes with a dip in the '
        'top / bottom / side edge, thin rounded wedges whose first inset splits, a small and a large pad joined by a thin neck, all rotated by 0 / 90 degrees, and real blocks dug by TrenchColumn from coupler / S-bend layouts; '
        'floor spacing 0.0005..0.01, 2..8 safe turns.  The real Trench.toolpath() runs with Trench.buffer_polygon wrapped by the '
        'harness to record the actual inset tree; the Lean model (c07.toolpath) replays the queue on that tree: the observed '
        'sequence must be the model\'s (contour rings equal to the exterior of the model\'s polygon, in its order; then one hatching '
        'per remaining polygon, in the direction the model gives).  Measured with shapely on the real yields: finished without '
        'exception, every polyline covered by the block grown by 1e-6, 3000 random block points within 1.02 floor spacings + 1e-5 '
        'of the path, Trench.border equal to the exterior ring.  non-trivial = the inset tree splits or the block vanishes before '
        'the turns are done, or the block is concave.')
ASSUMPTIONS = [
    'GEOS negative buffers are metric erosions up to the 1e-5 simplification and polygonisation (sampled by the inside / coverage measurements)',
    'blocks are valid simple polygons without holes (what _dig produces)',
    'the largestinteriorrectangle heuristic only chooses the number of turns; any number is covered by the theorems',
]
CLAIM = {
    'text': 'Lean 4 theorems. Queue logic over an arbitrary inset tree (any splitting, any turn count): the loop never pops an empty '
            'list, contours come first and hatching last, the block outline is the first polyline, every yield is (a part of) an '
            'inset of the block, and every inset polygon is a contour or has itself / an ancestor hatched (frontier invariant, '
            'induction over the turns). Metric: an inset grown by 1.05 spacings stays inside the inset 1.05 spacings shallower, so '
            'hatching after k >= 2 levels is inside the block; by the intermediate value theorem along the segment to the nearest '
            'outside point every point of depth in [k d,(k+1) d] is within d of the depth-k d level set; every abscissa is within '
            'd/2 of one of the 2+floor(w/d) hatch lines; every segment from a block point to an outside point meets the block\'s frontier '
            '(signed-distance IVT); together: no block point farther than d (+eps) from the path. Tied to the '
            'code by replaying the model on the inset tree recorded from the real run and by shapely measurements of the real yields.',
    'note': 'PARTIAL: GEOS insets = erosions is a sampled contract; joins between clipped hatch pieces are measured, not proved. '
            'Trusted: Lean kernel/Mathlib; Model/Floor.lean tied by differential comparison.',
    'technique': 'Lean 4 proof (loop invariant over inset trees; metric/IVT lemmas) + differential correspondence on the recorded inset tree; GEOS sampled (partial)',
}

KEYS = ('kind', 'par', 'd', 'turns', 'rot', 'prior')
TOOLPATH_LIMIT_S = 60.0      # the slowest tool-path of the thorough tier takes about 2 s (measured, reported in the evidence notes)


# ------------------------------------------------------------------------------------------------------------------
def make_shape(kind, par, rot):
    import shapely
    from shapely import affinity, geometry
    d = par.get('d', 0.001)
    if kind == 'rect':
        p = geometry.box(0, 0, par['a'], par['b'])
    elif kind == 'disc':
        p = geometry.Point(0, 0).buffer(par['a'])
    elif kind == 'sliver':
        p = geometry.box(0, 0, par['a'], par['b'])
    elif kind == 'wedge':
        p = geometry.Polygon([(0, 0), (par['a'], 0), (par['a'], par['b'])])
    elif kind == 'L':
        a, t = par['a'], par['b']
        p = geometry.Polygon([(0, 0), (a, 0), (a, t), (t, t), (t, a), (0, a)])
    elif kind == 'U':
        a, t = par['a'], par['b']
        p = geometry.Polygon([(0, 0), (a, 0), (a, a), (a - t, a), (a - t, t), (t, t), (t, a), (0, a)])
    elif kind == 'C':
        a, t = par['a'], par['b']
        p = geometry.Polygon([(0, 0), (a, 0), (a, t), (t, t), (t, a - t), (a, a - t), (a, a), (0, a)])
    elif kind == 'H':
        a, t = par['a'], par['b']
        p = geometry.Polygon([(0, 0), (t, 0), (t, a / 2 - t / 2), (a - t, a / 2 - t / 2), (a - t, 0), (a, 0), (a, a), (a - t, a),
                              (a - t, a / 2 + t / 2), (t, a / 2 + t / 2), (t, a), (0, a)])
    elif kind == 'dumbbell':
        r, neck, L = par['a'], par['b'], par['c']
        p = shapely.union_all([geometry.Point(0, 0).buffer(r), geometry.Point(L + 2 * r, 0).buffer(r), geometry.box(0, -neck / 2, L + 2 * r, neck / 2)])
    elif kind == 'pads3':
        r, neck, L = par['a'], par['b'], par['c']
        p = shapely.union_all([geometry.Point(k * L, 0).buffer(r) for k in range(3)] + [geometry.box(0, -neck / 2, 2 * L, neck / 2)])
    elif kind == 'lobes':   # two pads joined by a neck, the left pad has a shallow circular dip in its top edge
        dip, neck = par['a'], par['b']
        left = geometry.box(0, 0, 1, 0.5).difference(geometry.Point(0.5, 0.5 - dip + 2.0).buffer(2.0, quad_segs=256))
        p = shapely.union_all([left, geometry.box(1.3, 0, 2.6, 0.5), geometry.box(0.9, 0.25 - neck / 2, 1.4, 0.25 + neck / 2)])
    elif kind == 'square_dip':   # exactly square envelope, a dip in one edge
        a, depth, wd, side = par['a'], par['b'], par['c'], par['side']
        sq = geometry.box(0, 0, a, a)
        if side == 'top':
            cut = geometry.Polygon([(a / 2 - wd / 2, a), (a / 2 + wd / 2, a), (a / 2, a - depth)])
        elif side == 'bottom':
            cut = geometry.Polygon([(a / 2 - wd / 2, 0), (a / 2 + wd / 2, 0), (a / 2, depth)])
        else:
            cut = geometry.Polygon([(0, a / 2 - wd / 2), (0, a / 2 + wd / 2), (depth, a / 2)])
        p = sq.difference(cut)
    elif kind == 'rwedge':   # a thin wedge with rounded corners: its first inset splits off the tip, hatch line 0 lies on the edge
        p = geometry.Polygon([(0, 0), (par['a'], 0), (par['a'], par['b']), (0, par['c'])]).buffer(par['r'], quad_segs=64)
    elif kind == 'pads_uneq':   # a small and a large pad joined by a thin neck: the small part is used up long before the large one
        w1, w2, neck, hgt = par['a'], par['b'], par['c'], par['h']
        p = shapely.union_all([geometry.box(0, 0, w1, hgt), geometry.box(w1 + 0.3 * w1, 0, w1 + 0.3 * w1 + w2, hgt),
                               geometry.box(w1 - 0.01 * w1, hgt / 2 - neck / 2, w1 + 0.31 * w1, hgt / 2 + neck / 2)])
    elif kind == 'rrect':    # rounded rectangle whose corner radius is about one spacing: the inset leaves degenerate corner pieces
        p = geometry.box(0, 0, par['a'], par['b']).buffer(par['r'], quad_segs=256).simplify(5e-7)
    elif kind == 'dug':
        p = dug_block(par)
    else:
        raise ValueError(kind)
    if rot:
        p = affinity.rotate(p, rot, origin=(0, 0))
    return p


def dug_block(par):
    """A real block: dug between couplers / S-bends by TrenchColumn (needs the C05 builders)."""
    from femto.trench import TrenchColumn
    from femto.waveguide import Waveguide
    wp = dict(speed=20, samplesize=(200, 200), radius=15, pitch=0.08, int_dist=0.007, int_length=0.0, arm_length=0.0, lsafe=0)
    wgs = []
    for k, y in enumerate(par['ys']):
        wg = Waveguide(**wp)
        sg = 1 if k % 2 == 0 else -1
        wg.start([-1, y, 0.035]).linear([-0.5, y, 0.035], mode='ABS')
        if par['bend']:
            wg.sin_bend(sg * par['bend']).sin_bend(-sg * par['bend'])
        wg.linear([3, y, 0.035], mode='ABS')
        wg.end()
        wgs.append(wg)
    tc = TrenchColumn(x_center=0.5, y_min=par['ys'][0] - 0.1, y_max=par['ys'][-1] + 0.1, length=par['len'], delta_floor=par['d'])
    with core.quiet():
        tc.dig_from_waveguide(wgs)
    blocks = [t.block for t in tc]
    return blocks[par['pick'] % len(blocks)]


def gen_case(rng):
    d = rng.choice([0.0005, 0.001, 0.002, 0.005, 0.01])
    turns = rng.choice([2, 2, 3, 5, 8])
    kind = rng.choice(['rect', 'disc', 'sliver', 'wedge', 'L', 'U', 'C', 'H', 'dumbbell', 'pads3', 'lobes', 'square_dip', 'rwedge', 'rrect', 'rrect', 'pads_uneq', 'pads_uneq', 'dug', 'dug'])
    u = rng.uniform
    if kind == 'rect':
        par = {'a': round(u(0.03, 0.6), 4), 'b': round(u(0.03, 0.4), 4)}
    elif kind == 'disc':
        par = {'a': round(u(0.02, 0.3), 4)}
    elif kind == 'sliver':
        par = {'a': round(u(0.1, 0.6), 4), 'b': round(d * u(0.5, 12), 5)}
    elif kind == 'wedge':
        par = {'a': round(u(0.1, 0.6), 4), 'b': round(d * u(2, 40), 5)}
    elif kind in ('L', 'U', 'C', 'H'):
        a = round(u(0.08, 0.3), 4)
        par = {'a': a, 'b': round(min(d * u(3, 30), a * 0.3), 5)}
    elif kind in ('dumbbell', 'pads3'):
        par = {'a': round(u(0.03, 0.12), 4), 'b': round(d * u(1, 10), 5), 'c': round(u(0.1, 0.3), 4)}
        if kind == 'pads3':
            par['c'] = round(2 * par['a'] + u(0.02, 0.1), 4)
    elif kind == 'pads_uneq':
        turns = rng.choice([5, 8])
        w1 = round(d * u(4, 2 * turns - 1), 5)          # consumed within the turns
        par = {'a': w1, 'b': round(d * u(40, 120), 5), 'c': round(d * u(1.2, 3.0), 5), 'h': round(d * u(30, 80), 5)}
    elif kind == 'rrect':
        par = {'a': round(u(0.2, 0.6), 3), 'b': round(u(0.05, 0.2), 3), 'r': round(d * rng.choice([1.0, 1.0, 0.5, 2.0]), 5)}
        turns = rng.choice([2, 2, 3])
    elif kind == 'rwedge':
        par = {'a': round(u(0.3, 0.8), 3), 'b': round(d * u(6, 30), 5), 'c': round(d * u(0.5, 4), 5), 'r': rng.choice([0.01, 0.005])}
        turns = rng.choice([2, 2, 3])
    elif kind == 'lobes':
        d = rng.choice([0.008, 0.01])
        par = {'a': rng.choice([0.03, 0.04, 0.05]), 'b': 0.06}
        turns = rng.choice([3, 5, 6])
    elif kind == 'square_dip':
        d = rng.choice([0.005, 0.01])
        par = {'a': rng.choice([0.5, 1.0]), 'b': round(d * u(3, 25), 4), 'c': round(u(0.1, 0.3), 3), 'side': rng.choice(['top', 'bottom', 'left'])}
    else:
        n = rng.choice([2, 3, 4])
        y0 = 0.1
        ys = [round(y0 + 0.08 * k + (0.07 * (k // 2)), 4) for k in range(n)]
        par = {'ys': ys, 'bend': rng.choice([0.0, 0.02, 0.0365]), 'len': rng.choice([0.5, 1.5, 2.5]), 'pick': rng.randrange(6), 'd': d}
        d = rng.choice([0.001, 0.002])
        par['d'] = d
    par['d'] = d
    # history on one object: the trench has produced a tool-path before, with a coarser spacing or at another place
    return {'kind': kind, 'par': par, 'd': d, 'turns': turns, 'rot': rng.choice([0, 0, 90]),
            'prior': rng.choice([None, None, None, 'coarser', 'moved'])}


class Recorder:
    """Wraps Trench.buffer_polygon (in the harness process only) and records the inset tree."""

    def __init__(self):
        self.calls = []          # (parent object, [children])
        self.keep = []

    def __enter__(self):
        from femto.trench import Trench
        self.orig = Trench.__dict__['buffer_polygon']
        f = self.orig.__func__
        rec = self

        def wrapped(shape, offset):
            out = f(shape, offset)
            rec.calls.append((shape, list(out)))
            rec.keep.extend([shape] + list(out))
            return out
        Trench.buffer_polygon = staticmethod(wrapped)
        return self

    def __exit__(self, *a):
        from femto.trench import Trench
        Trench.buffer_polygon = self.orig


def check_case(ctx, case, nsample=3000):
    import numpy as np
    import shapely
    from shapely import geometry
    from femto.trench import Trench
    info = {k: case.get(k) for k in KEYS}
    block = make_shape(case['kind'], case['par'], case['rot'])
    if block.geom_type != 'Polygon' or not block.is_valid or block.is_empty or block.interiors or block.area < 1e-9:
        return None
    d, turns = case['d'], case['turns']
    prior = case.get('prior')
    if prior:
        from shapely import affinity
        b0 = affinity.translate(block, 0.37, -0.21) if prior == 'moved' else block
        t = Trench(b0, delta_floor=d if prior == 'moved' else 3.0 * d, safe_inner_turns=turns)
        try:
            with core.quiet(), core.time_limit(TOOLPATH_LIMIT_S):
                for _ in t.toolpath():
                    pass
        except core.InfraError:
            raise
        except Exception:  # noqa: that run is judged when it is the measured run of a case
            pass
        t.block, t.delta_floor = block, d
        # the object remembers two decisions taken for its previous block / spacing (number of contour turns, hatch direction:
        # cached properties of the library as it is); the history is measured only where they are what a fresh object decides,
        # i.e. where "same block, same spacing, same decisions" must give the same tool-path
        fresh = Trench(block, delta_floor=d, safe_inner_turns=turns)
        try:
            with core.quiet():
                same = (int(fresh.num_insets), fresh.orientation) == (int(t.num_insets), t.orientation)
        except Exception:  # noqa
            same = False
        ctx.count('floor.prior', prior + ('' if same else ' (skipped: remembered decisions differ)'))
        if not same:
            t, case = fresh, {**case, 'prior': None}
            info['prior'] = None
    else:
        t = Trench(block, delta_floor=d, safe_inner_turns=turns)
    with Recorder() as rec:
        try:
            import time as _time
            _t0 = _time.time()
            with core.quiet(), core.time_limit(TOOLPATH_LIMIT_S):
                n = int(t.num_insets)
                yields = [np.asarray(a, dtype=np.float64) for a in t.toolpath()]
            ctx.slowest = max(getattr(ctx, 'slowest', 0.0), _time.time() - _t0)
        except core.InfraError:
            raise
        except core.CallTimeout:
            ctx.seen({'stream': 'floor', **info}, True)
            ctx.fail('spec', 'finish', info, f'tool-path generation did not finish within {TOOLPATH_LIMIT_S} s', 'finish:timeout')
            return None
        except Exception as e:
            ctx.seen({'stream': 'floor', **info}, True)
            ctx.fail('spec', 'finish', info, f'tool-path generation raised {type(e).__name__}: {e}', 'finish:raised')
            return None
    # the inset tree as recorded
    ids = {id(block): 0}
    objs = {0: block}
    kids = {}
    for parent, out in rec.calls:
        pid = ids.get(id(parent))
        if pid is None:
            continue
        ks = []
        for c in out:
            cid = len(ids)
            ids[id(c)] = cid
            objs[cid] = c
            ks.append(cid)
        kids[pid] = ks

    def tree(i):
        return {'id': i, 'empty': bool(objs[i].is_empty), 'kids': [tree(k) for k in kids.get(i, [])]}
    (x0, y0, x1, y1) = block.bounds
    w, h = x1 - x0, y1 - y0
    # which remaining polygons give a non-empty hatching: own mask
    nlines = 2 + int(w / d)
    nlines += nlines % 2
    vert = w <= h
    if vert:
        mask = geometry.MultiLineString([((x0 + i * d, y0), (x0 + i * d, y1)) for i in range(nlines)])
    else:
        mask = geometry.MultiLineString([((x0, y0 + i * d), (x1, y0 + i * d)) for i in range(nlines)])
    drawn = []
    for i, o in objs.items():
        if not o.is_empty:
            inter = o.buffer(1.05 * d).intersection(block).intersection(mask)
            if any(g.geom_type == 'LineString' and not g.is_empty for g in getattr(inter, 'geoms', [inter])):
                drawn.append(i)
    n = max(n, 0)       # Python's range() of a negative count is empty: no contour turn at all
    req = {'op': 'c07.toolpath', 'tree': tree(0), 'n': n, 'drawn': drawn, 'w': q(w), 'h': q(h), 'd': q(d)}
    # ---- measurements on the real yields (bounded: a pathological output must not hang the check)
    nvert = sum(a.shape[1] for a in yields if a.ndim == 2)
    if nvert > 2_000_000:
        ctx.fail('spec', 'finish', {**info, 'vertices': nvert}, f'the tool-path has {nvert} vertices', 'finish:huge')
        return None
    ok = True
    shape_ok = True
    lines = []
    for k, a in enumerate(yields):
        if a.ndim != 2 or a.shape[0] != 2 or a.shape[1] < 2:
            ctx.fail('spec', 'yield', {**info, 'index': k, 'shape': list(a.shape)}, f'yield {k} is not a 2 x n polyline (shape {a.shape})', 'yield:shape')
            ok = shape_ok = False
            continue
        lines.append(geometry.LineString(a.T))
    roomy = block.buffer(1e-6)
    stray_at = None          # judged once the model has said what polyline k is
    for k, ls in enumerate(lines):
        if not roomy.covers(ls):
            stray = ls.difference(roomy)
            far = max(block.distance(g.interpolate(s, normalized=True)) for g in getattr(stray, 'geoms', [stray]) for s in (0.0, 0.25, 0.5, 0.75, 1.0))
            if stray.length > 1e-6:
                stray_at = (k, float(stray.length), float(far))
                break
    if lines:
        rs = np.random.default_rng(case.get('pseed', 0))
        xs = rs.uniform(x0, x1, nsample)
        ys = rs.uniform(y0, y1, nsample)
        pts = shapely.points(xs, ys)
        ins = shapely.contains(block, pts)
        if ins.any():
            dd = shapely.distance(geometry.MultiLineString([list(l.coords) for l in lines]), pts[ins])
            worst = float(dd.max())
            if worst > 1.02 * d + 1e-5:
                k = int(np.argmax(dd))
                pt = pts[ins][k]
                ctx.fail('spec', 'cover', {**info, 'point': [float(pt.x), float(pt.y)], 'distance': worst, 'spacings': worst / d},
                         f'point ({pt.x:.5f}, {pt.y:.5f}) of the block is {worst / d:.2f} floor spacings from the tool-path', 'cover')
                ok = False
    else:
        ctx.fail('spec', 'cover', info, 'empty tool-path for a non-empty block', 'cover:empty')
        ok = False
    xb, yb = t.border
    ex = np.array(block.exterior.coords)
    if len(xb) != len(ex) or not (np.array_equal(xb, ex[:, 0].astype(np.float32)) and np.array_equal(yb, ex[:, 1].astype(np.float32))):
        ctx.fail('spec', 'wall', info, 'Trench.border is not the exterior ring of the block', 'wall')
        ok = False

    def judge(m):
        if 'driver_error' in m:
            raise core.InfraError(m['driver_error'])
        split = any(len([k for k in ks if not objs[k].is_empty]) > 1 for ks in kids.values())
        vanished = sum(1 for y in m['yields'] if y[0] == 'c') < n
        concave = block.convex_hull.area - block.area > 1e-9
        ctx.seen({'stream': 'floor', **info}, split or vanished or concave)
        ctx.count('floor.kind', case['kind'])
        ctx.count('floor.tree', 'split' if split else ('vanished' if vanished else 'chain'))
        ctx.count('floor.turns', str(min(n, 50) // 10 * 10) + '+')
        ctx.count('floor.hatch', 'vertical' if vert else 'horizontal')
        on_model = corr(m)
        if stray_at is not None:
            k, slen, far = stray_at
            sig = 'inside'
            if on_model and k < len(m['yields']) and m['yields'][k][0] == 'h':
                region = objs[m['yields'][k][1]].buffer(1.05 * d).intersection(block)
                # the hatched region itself is inside the block: only the straight joins between clipped hatch pieces stray
                sig = 'inside:hatch-join-across-concavity' if roomy.covers(region) else 'inside:hatch-region'
            ctx.fail('spec', 'inside', {**info, 'index': k, 'of': len(lines), 'outside_length': slen, 'distance': far},
                     f'polyline {k} of {len(lines)} leaves the block: {slen:.5f} mm outside, up to {far / d:.2f} floor spacings away', sig)

    def corr(m):
        if not shape_ok:
            return False
        # correspondence with the model on the recorded tree
        if len(m['yields']) != len(yields):
            ctx.fail('corr', 'sequence', {**info, 'observed': len(yields), 'model': len(m['yields'])},
                     f'{len(yields)} polylines yielded, the model gives {len(m["yields"])}', 'sequence:count')
            return False
        for k, ((kind, sid), a) in enumerate(zip(m['yields'], yields)):
            o = objs[sid]
            if kind == 'c':
                ring = np.array(o.exterior.coords).T
                if ring.shape != a.shape or not np.array_equal(ring, a):
                    ctx.fail('corr', 'sequence', {**info, 'index': k, 'model_polygon': sid}, f'polyline {k} is not the ring of the polygon the model contours at that place', 'sequence:order')
                    return False
            else:
                # the vertices of a hatching are the ends of the mask lines clipped to the grown polygon
                own = o.buffer(1.05 * d).intersection(block).intersection(mask)
                nown = sum(len(g.coords) for g in getattr(own, 'geoms', [own]) if g.geom_type == 'LineString' and not g.is_empty)
                vfar = float(np.max(shapely.distance(o.buffer(1.05 * d).intersection(block), shapely.points(a.T))))
                if vfar > 1e-6 or a.shape[1] != nown:
                    ctx.fail('corr', 'sequence', {**info, 'index': k, 'model_polygon': sid}, f'polyline {k} is not the hatching of the polygon the model hatches at that place', 'sequence:hatch')
                    return False
                seg = np.abs(np.diff(a, axis=1))
                lv, lh = float(seg[1][seg[0] < 1e-12].sum()), float(seg[0][seg[1] < 1e-12].sum())
                if (lv > lh) != bool(m['vertical']) and max(lv, lh) > 4 * d:
                    ctx.fail('corr', 'direction', {**info, 'index': k, 'model_vertical': m['vertical']}, 'hatching direction differs from the model (vertical iff width <= height)', 'direction')
                    return False
        # the code divides floats, the model the exact values: skip the count when w/d is within rounding of an integer
        if m['lines'] != nlines and abs(w / d - round(w / d)) > 1e-9:
            ctx.fail('corr', 'lines', info, 'mask line count differs from the model', 'lines')
            return False
        return True
    return req, judge


# minimised past failures, run first on every tier
CORPUS = [
    # the first inset of a rectangle rounded with radius = spacing leaves a zero-area corner piece; hatched, it reached 0.05 spacings
    # beyond the block until the hatching was clipped to the block (repo 4a67208)
    {'kind': 'rrect', 'par': {'a': 0.5, 'b': 0.1, 'r': 0.005, 'd': 0.005}, 'd': 0.005, 'turns': 2, 'rot': 0},
    {'kind': 'rrect', 'par': {'a': 0.5, 'b': 0.1, 'r': 0.005, 'd': 0.005}, 'd': 0.005, 'turns': 2, 'rot': 90},
    # crashes repaired in repo 6ad7514 / 0f937b9
    {'kind': 'dumbbell', 'par': {'a': 0.1, 'b': 0.003, 'c': 0.2, 'd': 0.001}, 'd': 0.001, 'turns': 8, 'rot': 0},
    {'kind': 'sliver', 'par': {'a': 0.5737, 'b': 0.00601, 'd': 0.005}, 'd': 0.005, 'turns': 8, 'rot': 0},
]


def run(ctx):
    rng = ctx.rng
    jobs, reqs = [], []
    ctx.slowest = 0.0
    n = ctx.n(140, 1600)
    for i in range(n + len(CORPUS)):
        case = dict(CORPUS[i]) if i < len(CORPUS) else gen_case(rng)
        case['pseed'] = rng.randrange(1 << 30)
        r = check_case(ctx, case, nsample=ctx.n(2500, 6000))
        if r is None:
            continue
        reqs.append(r[0])
        jobs.append(r[1])
    for judge, m in zip(jobs, ctx.driver.ask(reqs)):
        judge(m)
    ctx.notes.append(f'slowest tool-path generation of this run: {ctx.slowest:.2f} s (limit {TOOLPATH_LIMIT_S} s)')


def replay(ctx, payload):
    c = payload['case']
    case = {k: c.get(k) for k in KEYS}
    case['pseed'] = c.get('pseed', 0)
    r = check_case(ctx, case, nsample=6000)
    if r:
        r[1](ctx.driver.ask([r[0]])[0])

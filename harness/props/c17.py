"""C17 — warp compensation follows the measured surface and only changes z."""
from __future__ import annotations

import fractions
import math
import warnings

import core
import gcommon
from core import q

warnings.simplefilter('ignore')

REQUIRED = ['warp_only_z', 'warp_z', 'warp_off', 'warp_is_rigid_of_lifted', 'interp_reproduces']
RULE = ('Surface-mapping files POS.txt are generated in a scratch working directory (regular nx x ny grids and scattered samples, '
        '6..160 samples, planes / bowls / saddles / gentle ripples over sample sizes 8..100 x 4..30 mm) and a real PGMCompiler is '
        'built with warp_flag=True under every kind of transformation setting.  stream sites: transform_points at every measured '
        '(x, y) with arbitrary z must give the model\'s value with wz = the MEASURED z (so the sample is reproduced through the whole '
        'chain).  stream between: at interior points the output must equal the model with wz = the object\'s own interpolant '
        'evaluated at the point AS GIVEN (x, y outputs are compared with the model without compensation); the interpolant is '
        'compared with the harness\'s own cubic-RBF solve (correspondence) and with the analytic surface the samples were drawn '
        'from (must not be worse than 10x the reference interpolant + 5 % of the surface range: smooth, no overshoot).  stream '
        'the interpolant\'s second differences along a fine line must be those of a smooth surface (no jumps); in 30 % of the cases a '
        'second mapping file is written to the same path (cache removed) and must be the surface used.  stream '
        'repeat: the same float32 arrays passed twice give the same output and are left unchanged; a second compiler built in the '
        'same directory (cache hit) gives the same output.  stream off: warp_flag=False next to the same POS.txt gives the plain '
        'rigid map.  stream gcode: write() with warp on, Z words of the file against the model.  Exact-rational comparison in Lean '
        '(Model.transformK).  non-trivial = non-planar surface, shift != 0 and (flip or rotation), >= 3 query points.')
ASSUMPTIONS = [
    'SciPy\'s RBFInterpolator solve and evaluation are sampled (sites reproduced, agreement with an independent solve), not modelled',
    'float32 rounding of z + s(x, y) and of the matrix product is covered by a stated tolerance',
    'a stale fwarp.pkl next to a newer POS.txt is used as documented by the code; that history is not generated',
]
CLAIM = {
    'text': 'Lean 4 theorems over an arbitrary field about the same transformK the driver executes: with a surface value wz attached '
            'to the point as given, x and y of the output equal those without compensation, z = (z + wz)/neff, wz = 0 gives the '
            'plain rigid map (C02), and the compensated map is the rigid map of the lifted point; an interpolant whose coefficients '
            'solve the collocation system evaluates to z_i at sample i. Tied to the code by comparing transform_points / write() '
            'under generated mapping files with the model evaluated in exact arithmetic, wz being the measured z at sample sites '
            'and the interpolant at the untransformed (x, y) elsewhere.',
    'note': 'PARTIAL: the interpolation (SciPy solve, smoothness between samples) is sampled against an independent solve and the '
            'analytic surface, not proved. Trusted: Lean kernel/Mathlib; hand-written Model/Transform.lean tied by differential comparison.',
    'technique': 'Lean 4 proof (field algebra) + differential correspondence in exact arithmetic; interpolation sampled (partial)',
}


# ------------------------------------------------------------------------------------------------------------------
def surface(rng, lx, ly):
    kind = rng.choice(['plane', 'bowl', 'saddle', 'ripple', 'plane', 'bowl'])
    a, b, c0 = rng.uniform(-2e-3, 2e-3), rng.uniform(-2e-3, 2e-3), rng.uniform(-0.02, 0.02)
    k = rng.uniform(0.2, 1.0) * 0.04

    def f(x, y):
        u, v = x / lx - 0.5, y / ly - 0.5
        base = c0 + a * x + b * y
        if kind == 'plane':
            return base
        if kind == 'bowl':
            return base + k * (u * u + v * v)
        if kind == 'saddle':
            return base + k * (u * u - v * v)
        return base + 0.3 * k * math.sin(2.2 * u) * math.cos(1.7 * v)
    return kind, f


def gen_samples(rng, lx, ly):
    import numpy as np
    if rng.random() < 0.5:
        nx, ny = rng.randint(3, 12), rng.randint(3, 10)
        m = rng.choice([0.0, 0.5, 1.0])
        xs = np.linspace(m, lx - m, nx)
        ys = np.linspace(m, ly - m, ny)
        pts = [(float(x), float(y)) for x in xs for y in ys]
        layout = 'grid'
    else:
        n = rng.choice([6, 9, 15, 30, 60, 100, 150, rng.randint(6, 160)])
        pts = [(0.0, 0.0), (lx, 0.0), (0.0, ly), (lx, ly)]
        while len(pts) < n:
            p = (round(rng.uniform(0, lx), 3), round(rng.uniform(0, ly), 3))
            if all(math.dist(p, o) > 0.02 * min(lx, ly) for o in pts):
                pts.append(p)
        layout = 'scattered'
    pts = [(gcommon.f32(x), gcommon.f32(y)) for x, y in pts]
    return layout, sorted(set(pts))


def own_rbf(sites, zs):
    """Independent cubic RBF with a linear polynomial (phi(r) = r^3), solved in float64 on uniformly scaled coordinates."""
    import numpy as np
    P = np.array(sites, dtype=np.float64)
    lo, hi = P.min(axis=0), P.max(axis=0)
    sc = float(max((hi - lo).max(), 1.0))   # uniform scaling: the cubic-RBF interpolant is invariant under it
    U = (P - lo) / sc
    n = len(U)
    D = np.linalg.norm(U[:, None, :] - U[None, :, :], axis=-1)
    A = np.zeros((n + 3, n + 3))
    A[:n, :n] = D ** 3
    A[:n, n] = 1.0
    A[:n, n + 1:] = U
    A[n, :n] = 1.0
    A[n + 1:, :n] = U.T
    rhs = np.concatenate([np.array(zs, dtype=np.float64), np.zeros(3)])
    coef = np.linalg.solve(A, rhs)

    def s(xy):
        V = (np.atleast_2d(np.array(xy, dtype=np.float64)) - lo) / sc
        R = np.linalg.norm(V[:, None, :] - U[None, :, :], axis=-1)
        return R ** 3 @ coef[:n] + coef[n] + V @ coef[n + 1:]
    return s


def wcfg(rng, lx, ly):
    cfg = gcommon.gen_cfg(rng, False, neutral_ok=True)
    cfg = {k: cfg[k] for k in ('filename', 'shift_origin', 'flip_x', 'flip_y', 'rotation_angle', 'n_glass', 'n_environment')}
    if rng.random() < 0.5:
        cfg['shift_origin'] = (round(rng.uniform(0.1, lx / 2), 3), round(rng.uniform(0.1, ly / 2), 3))
    cfg['samplesize'] = (lx, ly)
    cfg['output_digits'] = rng.choice([6, 6, 6, 4, 3])
    return cfg


def mreq(cfg, pts4):
    import numpy as np
    a = cfg.get('rotation_angle') or 0.0
    c, s = math.cos(math.radians(float(a))), math.sin(math.radians(float(a)))
    return {'op': 'c02.transform', 'sx': q(np.float32(cfg['shift_origin'][0])), 'sy': q(np.float32(cfg['shift_origin'][1])),
            'fx': bool(cfg['flip_x']), 'fy': bool(cfg['flip_y']), 'c': q(c), 's': q(s),
            'neff': q(cfg['n_glass'] / cfg['n_environment']), 'pts': [[q(v) for v in p] for p in pts4]}


def tol_for(cfg, pts):
    mx = max([abs(float(v)) for p in pts for v in p[:3]] + [1.0]) + abs(cfg['shift_origin'][0]) + abs(cfg['shift_origin'][1])
    return fractions.Fraction(mx) / 2 ** 20 + fractions.Fraction(1, 10 ** 6)


def write_pos(d, sites, zs, fmt='repr'):
    """The mapping file in one of the number formats such files come in: shortest round-trip decimals, numpy.savetxt's default
    exponent notation, fixed decimals (enough of them to be exact for the float32 values used)."""
    with open(d / 'POS.txt', 'w') as fh:
        for (x, y), z in zip(sites, zs):
            if fmt == 'e':
                fh.write('%.18e %.18e %.18e\n' % (x, y, z))
            elif fmt == 'f':
                fh.write('%.30f %.30f %.30f\n' % (x, y, z))
            else:
                fh.write(f'{x!r} {y!r} {z!r}\n')


def call_tp(G, pts, dt):
    import numpy as np
    cols = list(zip(*pts))
    if dt == 'list':
        args = [list(c) for c in cols]
    else:
        args = [np.array(c, dtype={'f32': np.float32, 'f64': np.float64}[dt]) for c in cols]
    out = np.asarray(G.transform_points(*args), dtype=np.float64).reshape(3, -1)
    return args, [tuple(float(out[k][j]) for k in range(3)) for j in range(out.shape[1])]


def build_case(rng):
    lx = rng.choice([8.0, 20.0, 25.0, 50.0, 100.0, round(rng.uniform(8, 100), 1)])
    ly = rng.choice([4.0, 10.0, 15.0, 25.0, 30.0, round(rng.uniform(4, 30), 1)])
    kind, f = surface(rng, lx, ly)
    layout, sites = gen_samples(rng, lx, ly)
    zs = [gcommon.f32(f(x, y)) for x, y in sites]
    cfg = wcfg(rng, lx, ly)
    return {'lx': lx, 'ly': ly, 'kind': kind, 'layout': layout, 'sites': [list(s) for s in sites], 'zs': zs, 'cfg': cfg,
            'qseed': rng.randrange(1 << 30), 'dt': rng.choice(['f32', 'f32', 'f64', 'list']), 'refit': rng.random() < 0.3,
            'fmt': rng.choice(['repr', 'repr', 'e', 'f']), 'fine_run': rng.random() < 0.35}, f


def queries(case):
    import random
    r = random.Random(case['qseed'])
    lx, ly = case['lx'], case['ly']
    sx = [s[0] for s in case['sites']]
    sy = [s[1] for s in case['sites']]
    x0, x1, y0, y1 = min(sx), max(sx), min(sy), max(sy)
    n = r.randint(3, 12)
    pts = [[gcommon.f32(r.uniform(x0, x1)), gcommon.f32(r.uniform(y0, y1)), gcommon.f32(r.uniform(-0.5, 0.2))] for _ in range(n)]
    if case.get('fine_run'):
        # a slowly written, finely sampled run: 400 points 0.75 um apart (below a 3- or 4-digit print resolution), across the
        # slope of the surface; every one of them must get the surface value at its own position
        xs_, ys_ = x0 + 0.3 * (x1 - x0), y0 + 0.4 * (y1 - y0)
        pts += [[gcommon.f32(xs_ + 0.0006 * t), gcommon.f32(ys_ + 0.00045 * t), gcommon.f32(-0.1)] for t in range(400)]
    # a waveguide-like line through the sample
    yl = r.uniform(y0, y1)
    pts += [[gcommon.f32(x0 + (x1 - x0) * t / 7), gcommon.f32(yl), gcommon.f32(-0.035)] for t in range(8)]
    return pts


def check_case(ctx, case, f=None, collect=None):
    """Runs the real code for one case; returns the model requests and a closure judging the answers."""
    import numpy as np
    from femto.pgmcompiler import PGMCompiler
    cfg = dict(case['cfg'])
    cfg['shift_origin'] = tuple(cfg['shift_origin'])
    cfg['samplesize'] = tuple(cfg['samplesize'])
    sites = [tuple(s) for s in case['sites']]
    zs = case['zs']
    dt = case['dt']
    obs = {}
    with gcommon.Scratch() as d, core.quiet():
        write_pos(d, sites, zs, case.get('fmt', 'repr'))
        G = PGMCompiler(warp_flag=True, **cfg)
        # sites
        zq = [gcommon.f32(-0.1 + 0.013 * (i % 11)) for i in range(len(sites))]
        spts = [[x, y, z] for (x, y), z in zip(sites, zq)]
        _, obs['sites'] = call_tp(G, spts, dt)
        # between
        bpts = queries(case)
        args, obs['between'] = call_tp(G, bpts, dt)
        before = [np.array(a, dtype=np.float64).copy() for a in args]
        _, again = call_tp(G, bpts, dt) if dt == 'list' else (None, None)
        if dt != 'list':
            out2 = np.asarray(G.transform_points(*args), dtype=np.float64).reshape(3, -1)
            again = [tuple(float(out2[k][j]) for k in range(3)) for j in range(out2.shape[1])]
            out3 = np.asarray(G.transform_points(*args), dtype=np.float64).reshape(3, -1)
            third = [tuple(float(out3[k][j]) for k in range(3)) for j in range(out3.shape[1])]
            obs['inputs_changed'] = any(not np.array_equal(b, np.array(a, dtype=np.float64)) for a, b in zip(args, before))
        else:
            third = again
            obs['inputs_changed'] = False
        obs['again'] = again
        obs['third'] = third
        xy = np.column_stack([np.array([p[0] for p in bpts], dtype=np.float32), np.array([p[1] for p in bpts], dtype=np.float32)])
        s_obj = [float(v) for v in np.asarray(G.fwarp(xy), dtype=np.float64).ravel()]
        # a fine line across the sampled area, observed through transform_points itself (z = 0 -> s / neff)
        sxs = [s_[0] for s_ in sites]
        sys_ = [s_[1] for s_ in sites]
        fx = np.linspace(min(sxs), max(sxs), 513)
        fy = np.full(513, min(sys_) + 0.37 * (max(sys_) - min(sys_)))
        fine_xy = np.column_stack([fx.astype(np.float32), fy.astype(np.float32)]).astype(np.float64)
        fine_obj = np.asarray(G.fwarp(fine_xy), dtype=np.float64).ravel()
        # cache hit
        obs['cache_file'] = (d / 'fwarp.pkl').is_file()
        G2 = PGMCompiler(warp_flag=True, **cfg)
        _, obs['cached'] = call_tp(G2, bpts, dt)
        # a new mapping file at the same place (cache removed, the documented way to force a new fit) must be the one used
        obs['refit'] = None
        if case.get('refit'):
            zs2 = [gcommon.f32(z + 0.003 * math.sin(1.3 * x) + 0.0005 * y) for (x, y), z in zip(sites, zs)]
            write_pos(d, sites, zs2, case.get('fmt', 'repr'))
            (d / 'fwarp.pkl').unlink()
            Gr = PGMCompiler(warp_flag=True, **cfg)
            _, out_r = call_tp(Gr, spts, dt)
            obs['refit'] = (zs2, out_r)
            # put the first mapping back for the remaining observations
            write_pos(d, sites, zs, case.get('fmt', 'repr'))
            (d / 'fwarp.pkl').unlink()
            PGMCompiler(warp_flag=True, **cfg)
        # off
        G0 = PGMCompiler(warp_flag=False, **cfg)
        _, obs['off'] = call_tp(G0, bpts, dt)
        # gcode
        rows = [[p[0], p[1], p[2], 5.0, float(i > 0)] for i, p in enumerate(bpts[-8:])]
        G3 = PGMCompiler(warp_flag=True, **cfg)
        G3.write(gcommon.to_np(rows))
        G3.close()
        obs['gtext'] = (d / 'prog.pgm').read_text()
    own = own_rbf(sites, zs)
    s_own = [float(v) for v in own(xy)]
    fine = (fine_obj, np.asarray(own(fine_xy), dtype=np.float64))
    rng_z = (max(zs) - min(zs)) or 1e-3
    if obs['refit'] is not None:
        extra_req = [mreq(cfg, [p + [z] for p, z in zip(spts, obs['refit'][0])])]
    else:
        extra_req = []
    reqs = [mreq(cfg, [p + [z] for p, z in zip(spts, zs)]),
            mreq(cfg, [p + [gcommon.f32(s)] for p, s in zip(bpts, s_obj)]),
            mreq(cfg, [p + [0.0] for p in bpts]),
            {'op': 'ctl.run', 'text': obs['gtext']}] + extra_req

    def judge(res):
        for m in res:
            if 'driver_error' in m:
                raise core.InfraError(m['driver_error'])
        m_sites, m_btw, m_off, g = res[:4]
        m_refit = res[4] if len(res) > 4 else None
        info = {k: case.get(k) for k in ('lx', 'ly', 'kind', 'layout', 'cfg', 'dt', 'qseed', 'sites', 'zs', 'refit', 'fmt')}
        nsh = cfg['shift_origin'] != (0.0, 0.0)
        nt = case['kind'] != 'plane' and nsh and (cfg['flip_x'] or cfg['flip_y'] or (cfg['rotation_angle'] or 0) % 360 != 0)
        ctx.seen({'stream': 'warp', 'n': len(sites), 'kind': case['kind'], 'layout': case['layout'], 'cfg': cfg, 'q': case['qseed']}, nt)
        tol = tol_for(cfg, spts) + fractions.Fraction(rng_z) / 10 ** 4 + fractions.Fraction(2, 10 ** 6)
        neff = cfg['n_glass'] / cfg['n_environment']

        def cmp(stream, got, exp, pts, what, axes=(0, 1, 2), t=tol):
            if len(got) != len(exp):
                ctx.fail('spec', stream, info, f'{len(got)} points out, {len(exp)} in', stream + ':count')
                return False
            for i, (gv, ev) in enumerate(zip(got, exp)):
                for k in axes:
                    e = gcommon.fr(ev[k])
                    if not math.isfinite(gv[k]) or abs(fractions.Fraction(gv[k]) - e) > t:
                        ctx.fail('spec', stream, {**info, 'point': pts[i], 'axis': 'xyz'[k], 'observed': gv[k], 'expected': float(e)},
                                 f'{stream}: {what}: {"xyz"[k]} = {gv[k]!r}, expected {float(e)!r} at point {pts[i]}', f'{stream}:{"xyz"[k]}')
                        return False
            return True

        ok = cmp('sites', obs['sites'], m_sites['out'], spts, 'z at a measured site is not (z + z_measured)/neff or x/y moved')
        # x, y unaffected (model without compensation), z with the object's own interpolant at the point as given
        ok = cmp('between', obs['between'], m_off['out'], bpts, 'x/y changed by the compensation', axes=(0, 1)) and ok
        ok = cmp('between', obs['between'], m_btw['out'], bpts, 'z is not (z + s(x, y))/neff with s taken at the point as given', axes=(2,)) and ok
        if ok:
            cmp('repeat', obs['again'], m_btw['out'], bpts, 'second call with the same arrays')
            cmp('repeat', obs['third'], m_btw['out'], bpts, 'third call with the same arrays')
            if obs['inputs_changed']:
                ctx.fail('spec', 'repeat', info, 'transform_points modified the caller\'s coordinate arrays', 'repeat:inputs')
            if not obs['cache_file']:
                ctx.fail('corr', 'cache', info, 'no fwarp.pkl written next to POS.txt', 'cache:file')
            cmp('cache', obs['cached'], m_btw['out'], bpts, 'compiler built from the cached interpolant')
        cmp('off', obs['off'], m_off['out'], bpts, 'compensation disabled: not the plain rigid map')
        if m_refit is not None:
            ctx.count('warp.history', 'second-mapping-same-path')
            cmp('refit', obs['refit'][1], m_refit['out'], spts, 'a new mapping file at the same path (cache removed) is not the surface used')
        else:
            ctx.count('warp.history', 'single')
        # G-code
        got = [tuple(float(gcommon.fr(v)) for v in e['dst']) for e in g.get('events', []) if e['t'] == 'm']
        exp = m_btw['out'][-8:]
        if len(got) == len(exp):
            cmp('gcode', got, exp, bpts[-8:], 'coordinates written by write()', t=tol + fractions.Fraction(2, 10 ** 6) + fractions.Fraction(1, 10 ** int(cfg['output_digits'])))
        else:
            ctx.fail('corr', 'gcode', info, f'{len(got)} moves written for 8 distinct points', 'gcode:count')
        # the interpolant: correspondence with the independent solve, and quality against the analytic surface
        dev = max(abs(a - b) for a, b in zip(s_obj, s_own))
        ctx.count('interp.dev_vs_own', 'le1e-7' if dev <= 1e-7 else ('le1e-6' if dev <= 1e-6 else ('le1e-5' if dev <= 1e-5 else 'more')))
        if dev > 3e-6 + 1e-4 * rng_z:
            ctx.fail('corr', 'interp', {**info, 'max_dev': dev}, f'interpolant differs from the cubic-RBF reference by {dev:.3g} (range {rng_z:.3g})', 'interp:model')
        # smoothness: second differences of s along a fine line (step 2^-9 of the extent) must be those of a smooth surface
        if fine is not None:
            so, sr = fine
            d2o = float(np.max(np.abs(np.diff(so, 2)))) if len(so) > 2 else 0.0
            d2r = float(np.max(np.abs(np.diff(sr, 2)))) if len(sr) > 2 else 0.0
            ctx.count('interp.second_difference', 'le1e-8' if d2o <= 1e-8 else ('le1e-7' if d2o <= 1e-7 else 'more'))
            if d2o > 20 * d2r + 2e-7:
                ctx.fail('spec', 'interp', {**info, 'second_difference': d2o, 'reference': d2r},
                         f'the surface is not smooth between samples: second difference {d2o:.3g} along a line sampled at 2^-9 of the extent '
                         f'(reference interpolant {d2r:.3g})', 'interp:jump')
        if f is not None:
            truth = [f(float(np.float32(p[0])), float(np.float32(p[1]))) for p in bpts]
            e_obj = max(abs(a - b) for a, b in zip(s_obj, truth))
            e_own = max(abs(a - b) for a, b in zip(s_own, truth))
            if e_obj > 10 * e_own + 0.05 * rng_z + 1e-5:
                ctx.fail('spec', 'interp', {**info, 'err_obj': e_obj, 'err_ref': e_own},
                         f'between samples the surface is off the measured shape by {e_obj:.3g} (reference interpolant {e_own:.3g}, range {rng_z:.3g})', 'interp:smooth')
        ctx.count('warp.layout', case['layout'])
        ctx.count('warp.kind', case['kind'])
        ctx.count('warp.samples', '<=9' if len(sites) <= 9 else ('<=40' if len(sites) <= 40 else '>40'))
        ctx.count('warp.dtype', dt)
        ctx.count('warp.shift', 'shift' if nsh else 'none')
    return reqs, judge


def run(ctx):
    rng = ctx.rng
    jobs, reqs = [], []
    for i in range(ctx.n(60, 900)):
        case, f = build_case(rng)
        try:
            r, judge = check_case(ctx, case, f)
        except core.InfraError:
            raise
        except Exception as e:  # the real code raised on a legal mapping file / query
            ctx.seen({'stream': 'warp', 'case': i}, False)
            ctx.fail('spec', 'warp', {k: case[k] for k in ('lx', 'ly', 'kind', 'layout', 'cfg', 'dt', 'qseed', 'sites', 'zs')},
                     f'raised {type(e).__name__}: {e}', 'warp:raised')
            continue
        jobs.append((len(reqs), len(r), judge))
        reqs += r
    res = ctx.driver.ask(reqs)
    for off, n, judge in jobs:
        judge(res[off:off + n])


def replay(ctx, payload):
    c = payload['case']
    case = {k: c[k] for k in ('lx', 'ly', 'kind', 'layout', 'cfg', 'dt', 'qseed', 'sites', 'zs')}
    case['refit'] = c.get('refit', False)
    case['fmt'] = c.get('fmt', 'repr')
    r, judge = check_case(ctx, case, None)
    judge(ctx.driver.ask(r))

"""C06 — trench programs fire only inside trench footprints and cut the full depth."""
from __future__ import annotations

import fractions
import json
import math
import os
import pathlib
import re
import warnings

import core
import gcommon
from core import q

warnings.simplefilter('ignore')

REQUIRED = ['treeOK_of_disciplined', 'tree_discipline', 'run_discipline', 'leaf_call_keeps_shutter', 'nRepeat_bounds', 'pass_first',
            'pass_step', 'pass_last', 'pass_across', 'schedule_length', 'single_file_view', 'flatten_own_events', 'wall_loop_depths',
            'trenchBlock_disciplined', 'blocksFrom_disciplined', 'farcallBody_disciplined', 'farcallBody_pre', 'farcallFile_disciplined',
            'shipped_headers_disciplined', 'loops_wallLoop', 'farcallBody_loops', 'matchWallLoop_body', 'matchWallLoop_bodyD',
            'bedBlock_disciplined', 'bedsFrom_disciplined', 'leafLine_xy', 'leafFile_isLeafXY',
            'sessionWith_ok', 'farcallBody_ok', 'farcallFile_ok',
            'calm_step', 'sem_load', 'sem_moveTo', 'sem_setVar', 'wallLoop_out', 'sem_wallLoop', 'trenchBlock_split', 'wallPrefix_inv',
            'wallPrefix_ready', 'wallPart_depth', 'transform_z', 'depth_rounding', 'pass_depth_error',
            'semF_remove', 'semF_load', 'semF_farcall', 'floorPrefix_at_depth', 'trenchBlock_depths', 'semF_moveToXY', 'bedBlock_keeps_depth']
RULE = ('1..3 trench columns (or U-trench columns with 0..2 pillars) are dug with the real API from layouts of straight / tilted / S-bent '
        'guides (some leaving a neck that splits when inset), with random box counts, box height, z offset <= 0, deltaz, floor spacing, '
        'speeds, power-axis settings and base folders, and exported by the real TrenchWriter / UTrenchWriter.pgm() under random compiler '
        'configurations (rotation, flips, shift, refractive indices, aerotech angle, laser) into a scratch directory; in 30 % of the '
        'cases the columns are exported once, their depth parameters are changed, and the second export is the one judged.  The whole tree is '
        'read back and run by the Lean reference controller with FARCALL inlining (ctl.tree): every file must parse, have balanced '
        'loops, the tree must pass the static shutter discipline (whose soundness is the theorem), no error event (call of a '
        'program that is not loaded / not in the tree, removal of one that is not loaded) may occur, the run must end closed with '
        'nothing left loaded.  The harness then walks the nested trace: every shutter-open move of a calling file is a pure z step '
        'inside the footprint of the block being cut; every leaf sub-program called with the shutter open (and the approach to its '
        'first point) lies inside the footprint (shapely, block transformed with the documented map computed from the user\'s '
        'angle, both sides taken to the physical frame: program points rotated by the G84 angle active in the trace, the footprint by '
        'the configured aerotech angle) of the block its name designates in the column being fabricated; per block and level the wall passes, converted to '
        'glass depth, start at level*h_box + z_off, are the Lean schedule (c06.depth), no more than deltaz apart also across '
        'levels, reach within deltaz of the top of the box and are followed by the floor of the same block at or above that top.  '
        'non-trivial = at least 2 blocks and 2 levels with a rotation or a flip.')
ASSUMPTIONS = [
    'the footprint containment of the leaf tool-paths is measured with shapely within 3e-6 + 1e-6 * |coordinate| (6-digit output, float32 outlines)',
    'the controller resolves a PROGRAM LOAD path to the exported file whose relative path is a suffix of it (base_folder is a lab path)',
    'program names are compared case-insensitively (the writer loads trench001_wall.pgm and exports trench001_WALL.pgm)',
]
CLAIM = {
    'text': 'Lean 4 theorems about the reference controller extended to a tree of files (FARCALL runs the file bound at PROGRAM LOAD, '
            'in place): a static check of the calling files (abstract interpretation of the shutter through REPEAT/FOR bodies, '
            'fix-point required) is sound — if it passes, then for every call depth and loop count every shutter-open move made '
            'by a calling file keeps x and y, other calling files are entered and left closed, so shutter-open x/y motion happens only '
            'inside leaf sub-programs (wall, floor, bed); the check runs on the real exported bytes every run. Depth schedule over Q: '
            'n = ceil((h_box - z_off)/deltaz) passes deltaz apart from level*h_box + z_off, the last within deltaz below the box top, '
            'the floor at or above it, the next level at most deltaz above the last pass; and the program side: k turns of the wall loop '
            '[DWELL] FARCALL wall; $ZCURR += deltaz/neff; G1 Z$ZCURR, entered at the level\'s starting depth, put pass k at exactly that '
            'schedule depth (every real REPEAT is matched against this shape each run). Compile side (session 5): Model/TrenchProg.lean models '
            'the code that emits the tree — _farcall_trench_column of both writers (levels x trenches, beds of U-trench columns), MAIN.pgm '
            '(farcall_list session) and export_array2d (leaf files) — and is compared instruction by instruction with every real file of every '
            'generated tree; theorems for every column / configuration: farcallFile_disciplined (the whole call file passes the static check: '
            'x/y motion only closed, shutter open exactly across the wall loop, the floor call and the bed calls), farcallBody_loops (its only '
            'loops are wall loops of n_repeat turns with increment fmt6(deltaz/neff) — the shape of wall_loop_depths), leafFile_isLeafXY (what '
            'export_array2d writes is an x/y-only leaf), farcallFile_ok (balanced loops, reported dwell = executed dwell), and the chain from '
            'the compiler to the depth of every pass: wallPrefix_inv / sem_wallLoop / wallPart_depth (a Hoare logic over compile steps run by '
            'the tree controller: for 6-digit output the block prefix of the model file brings the controller to the ready state at '
            'z0 = fmt6((L*h_box + z_off)/neff) with the wall program bound to its leaf, k turns of the loop leave it at z0 + k*fmt6(deltaz/neff)) '
            'pass_depth_error (that depth is within (k+1)*5e-7 of the exact schedule depth) and trenchBlock_depths (the floor program is called, loaded and bound to its x/y-only leaf, '
            'at the depth the wall loop ends at, and the block ends there: nothing else in a block moves the stage in z). Leaf tool-paths inside the footprints: measured.',
    'note': 'PARTIAL: footprint containment of wall/floor/bed paths is sampled (shapely); it fails today for floor joins of blocks '
            'that split or stay concave (finding F9). Trusted: Lean kernel/Mathlib; Spec/Tree.lean (hand-written controller) run on the real files.',
    'technique': 'Lean 4 proof (soundness of a static shutter analysis for a tree interpreter; discipline and loop shape of the compile-side model of the emitting code by composition over compiler steps; rational arithmetic) + instruction-level correspondence of every exported file with the model + translation validation of the real tree; footprints sampled (partial)',
}

EXTRA_MODULES = ['FemtoVerif.Proofs.TreeLemmas']
KEYS = ('cols', 'cfg', 'utrench', 'dirname', 'mutate', 'same_writer', 'reassign', 'keep_files', 'chdir')


# ------------------------------------------------------------------------------------------------------------------
def gen_case(rng, directed=None):
    import props.c05 as c05
    utrench = rng.random() < 0.3
    ncol = rng.choice([1, 1, 2, 3])
    cols = []
    for k in range(ncol):
        yc = rng.choice([0.0, 0.4])
        h = rng.choice([0.3, 0.45])
        col = {'x_center': round(1.0 + 1.5 * k + rng.choice([0.0, 0.25]), 3), 'y_min': round(yc - h / 2, 4), 'y_max': round(yc + h / 2, 4),
               'length': rng.choice([0.3, 0.5]), 'bridge': rng.choice([0.026, 0.04]), 'beam_waist': 0.004,
               'round_corner': rng.choice([0.010, 0.005]),
               'nboxz': rng.choice([1, 2, 2, 3]), 'h_box': rng.choice([0.075, 0.05, 0.03]), 'z_off': rng.choice([-0.020, 0.0, -0.005, -0.0333]),
               'deltaz': rng.choice([0.01, 0.0075, 0.02, 0.0033, 0.015]), 'delta_floor': rng.choice([0.01, 0.02, 0.005]),
               'safe_inner_turns': rng.choice([2, 3, 5]), 'u': rng.choice([None, None, [28.0, 29.5], [30.339]]),
               'speed_wall': rng.choice([4.0, 2.5]), 'speed_floor': rng.choice([None, 1.0]), 'speed_closed': rng.choice([5.0, 10.0]),
               'base_folder': rng.choice(['', '', 'C:\\\\TRENCH\\\\run1', 'lab/prog'])}
        if utrench:
            col['n_pillars'] = rng.choice([0, 1, 2])
            col['pillar_width'] = rng.choice([0.04, 0.02])
        kind = directed or rng.choice(['plain', 'plain', 'plain', 'tilted', 'tilted', 'neck', 'neck', 'sbend', 'sbend', 'vneck', 'step'])
        y0, y1 = col['y_min'], col['y_max']
        xa, xb = col['x_center'] - col['length'] / 2 - 0.5, col['x_center'] + col['length'] / 2 + 0.5
        if kind == 'plain':
            ys = sorted(rng.sample([0.25, 0.4, 0.55, 0.7], rng.choice([1, 2])))
            guides = [{'kind': 'straight', 'y': round(y0 + f * (y1 - y0), 4), 'xa': xa, 'xb': xb} for f in ys]
        elif kind == 'tilted':
            guides = [{'kind': 'tilted', 'y': round(y0 + 0.4 * (y1 - y0), 4), 'xa': xa, 'xb': xb, 'dy': round(rng.uniform(-0.2, 0.2) * (y1 - y0), 4)}]
        elif kind == 'sbend':
            guides = [{'kind': 'sbend', 'y': round(y0 + 0.5 * (y1 - y0), 4), 'xa': xa, 'xb': xb, 'dy': round(rng.choice([-1, 1]) * 0.06, 4),
                       'xs': round(col['x_center'] - col['length'] / 2 - 0.05, 4)}]
        elif kind == 'vneck':
            # a guide with a V-shaped dip towards a straight one: the block between them is pinched from one side only
            d, w = rng.choice([0.1, 0.15]), rng.choice([0.05, 0.1])
            yu = round(y1 - 0.1 * (y1 - y0), 4)
            yl = round(yu - d - (col['delta_floor'] * 3.5 + 2 * (col['bridge'] / 2 + col['beam_waist'])), 4)
            xc = col['x_center']
            guides = [{'kind': 'poly', 'pts': [[xa, yu], [xc - w, yu], [xc, round(yu - d, 4)], [xc + w, yu], [xb, yu]]},
                      {'kind': 'poly', 'pts': [[xa, yl], [xb, yl]]}]
        elif kind == 'step':
            # one guide that climbs by more than the thickness of the block below it: the bed of a U-trench gets a notch
            d = rng.choice([0.1, 0.15])
            yl = round(y0 + 0.05, 4)
            xc = col['x_center']
            guides = [{'kind': 'poly', 'pts': [[xa, yl], [xc - 0.1, yl], [xc + 0.1, round(yl + d, 4)], [xb, round(yl + d, 4)]]}]
        else:
            # two guides bending towards each other: the block between them has a neck a few floor spacings wide
            gap = col['delta_floor'] * rng.uniform(2.5, 5.0) + 2 * (col['bridge'] / 2 + col['beam_waist'])
            ym = (y0 + y1) / 2
            b = 0.05
            guides = [{'kind': 'sbend2', 'y': round(ym + gap / 2 + b, 5), 'xa': xa, 'xb': xb, 'dy': -b, 'xs': round(col['x_center'] - col['length'] / 2 - 0.3, 4)},
                      {'kind': 'sbend2', 'y': round(ym - gap / 2 - b, 5), 'xa': xa, 'xb': xb, 'dy': b, 'xs': round(col['x_center'] - col['length'] / 2 - 0.3, 4)}]
        if ncol >= 2 and k == ncol - 2 and kind in ('plain', 'tilted') and rng.random() < 0.3:
            # a column that digs nothing: its guides stop before they reach it (the library prints "No trench found" and keeps the
            # column, which is exported and called like the others)
            for g in guides:
                g['xb'] = round(col['x_center'] - col['length'] / 2 - 0.3, 4)
                g['xa'] = round(g['xb'] - 1.0, 4)
        cols.append({'col': col, 'guides': guides})
    mutate = None
    if rng.random() < 0.1:
        mutate = [{} for _ in cols]          # a plain second export
    elif rng.random() < 0.3:
        mutate = [{k: v for k, v in (('deltaz', rng.choice([0.005, 0.0125, 0.004])), ('h_box', rng.choice([0.04, 0.06])),
                                     ('z_off', rng.choice([-0.01, 0.0])), ('nboxz', rng.choice([1, 2]))) if rng.random() < 0.5}
                  for _ in cols]
    cfg = gcommon.gen_cfg(rng, False, neutral_ok=True)
    cfg['output_digits'] = rng.choice([6, 6, 6, 6, 4, 3])   # a reduced print resolution coarsens x / y / z words, never the depth bookkeeping
    cfg['export_dir'] = rng.choice(['', 'out', 'a/b'])
    cfg['filename'] = 'trenches.pgm'
    same_writer = rng.random() < 0.5
    reassign = None
    if rng.random() < (0.5 if (mutate is not None and same_writer) else 0.15):
        # the writer is re-referenced after it was built: origin and mirror settings reassigned on the object before the export
        reassign = {'shift_origin': [round(rng.uniform(-1, 1), 3), round(rng.uniform(-1, 1), 3)], 'flip_x': not cfg.get('flip_x', False)}
    return {'cols': cols, 'cfg': cfg, 'utrench': utrench, 'dirname': rng.choice(['TRENCH', 'TR', 'u-tr']), 'mutate': mutate, 'same_writer': same_writer,
            'reassign': reassign, 'keep_files': rng.random() < 0.5, 'chdir': mutate is None and rng.random() < 0.15}


def build_guide(g):
    import props.c05 as c05
    if g['kind'] not in ('sbend2', 'poly'):
        return c05.build_guide(g)
    from femto.waveguide import Waveguide
    par = dict(speed=20, samplesize=(200, 200), radius=15, pitch=0.08, int_dist=0.007, int_length=0.0, arm_length=0.0, lsafe=0)
    wg = Waveguide(**par)
    if g['kind'] == 'poly':
        wg.start([g['pts'][0][0], g['pts'][0][1], 0.035])
        for (x, y) in g['pts'][1:]:
            wg.linear([x, y, 0.035], mode='ABS')
        wg.end()
        return [wg]
    wg.start([g['xa'], g['y'], 0.035]).linear([g['xs'], g['y'], 0.035], mode='ABS')
    wg.sin_bend(g['dy']).sin_bend(-g['dy'])
    wg.linear([max(g['xb'], wg.lastx + 0.1), wg.lasty, wg.lastz], mode='ABS')
    wg.end()
    return [wg]


def build_columns(case):
    from femto.trench import TrenchColumn, UTrenchColumn
    cols = []
    for c in case['cols']:
        cls = UTrenchColumn if case['utrench'] else TrenchColumn
        tc = cls(**c['col'])
        wgs = [w for g in c['guides'] for w in build_guide(g)]
        with core.quiet():
            tc.dig_from_waveguide(wgs)
        cols.append(tc)
    return cols


def transform_poly(poly, cfg, tol=0.0):
    """The documented map (shift, flips, ccw rotation by the user's angle) applied to a polygon's exterior."""
    import numpy as np
    from shapely import geometry
    a = math.radians(float(cfg.get('rotation_angle') or 0.0))
    c, s = math.cos(a), math.sin(a)
    pts = np.array(poly.exterior.coords, dtype=np.float64)
    x = pts[:, 0] - float(np.float32(cfg['shift_origin'][0]))
    y = pts[:, 1] - float(np.float32(cfg['shift_origin'][1]))
    if cfg.get('flip_x'):
        x = -x
    if cfg.get('flip_y'):
        y = -y
    X = c * x - s * y
    Y = s * x + c * y
    return geometry.Polygon(np.column_stack([X, Y]))


def fr(v):
    return None if v is None else float(gcommon.fr(v))


LEAF_RE = re.compile(r'^trench(\d+)_(wall|floor)$|^trench_bed_(\d+)$')


def _num(v):
    return isinstance(v, list) and len(v) == 2 and all(isinstance(k, int) for k in v)


def _jdiff(a, b, tol, key=None):
    if key != 'decs' and _num(a) and _num(b):
        return None if abs(fractions.Fraction(*a) - fractions.Fraction(*b)) <= tol else f'{float(fractions.Fraction(*a))} vs {float(fractions.Fraction(*b))}'
    if isinstance(a, dict) and isinstance(b, dict):
        if set(a) != set(b):
            return f'{sorted(a)} vs {sorted(b)}'
        for k in a:
            d = _jdiff(a[k], b[k], tol, k)
            if d:
                return f'{k}: {d}'
        return None
    if isinstance(a, list) and isinstance(b, list) and not (_num(a) or _num(b)) or key == 'decs':
        if len(a) != len(b):
            return f'{a} vs {b}'
        for x, y in zip(a, b):
            d = _jdiff(x, y, tol)
            if d:
                return d
        return None
    return None if a == b else f'{a!r} vs {b!r}'


def instr_diff(impl, model, tol):
    """None when the two instruction lists (comments and blank lines already dropped) agree: same instructions in the same order,
    same names / paths / counts / printed decimals, numbers within tol."""
    tol = fractions.Fraction(tol)
    for i, (x, y) in enumerate(zip(impl, model)):
        d = _jdiff(x, y, tol)
        if d:
            return f'instruction {i}: impl {json.dumps(x)[:160]} vs model {json.dumps(y)[:160]} ({d})'
    if len(impl) != len(model):
        return f'{len(impl)} instructions vs {len(model)} in the model; first extra: {json.dumps((impl + model)[min(len(impl), len(model))])[:160]}'
    return None


def check_case(ctx, case):
    import numpy as np
    from shapely import geometry
    from femto.writer import TrenchWriter, UTrenchWriter
    info = {k: case.get(k) for k in KEYS}
    cfg = dict(case['cfg'])
    cfg['shift_origin'] = tuple(cfg['shift_origin'])
    try:
        cols = build_columns(case)
    except Exception as e:
        ctx.count('build', 'raised:' + type(e).__name__)
        return None
    if not any(len(list(tc)) for tc in cols):
        return None
    files = []
    with gcommon.Scratch() as d, core.quiet():
        try:
            base = d
            if case.get('chdir'):
                # the writer is built in one directory and exports from another: the whole tree belongs where the writer was built
                (d / 'setup').mkdir()
                (d / 'run').mkdir()
                os.chdir(d / 'setup')
                base = d / 'setup'
            W = (UTrenchWriter if case['utrench'] else TrenchWriter)(cols, dirname=case['dirname'], **cfg)
            if case.get('chdir'):
                os.chdir(d / 'run')
            if case.get('mutate') is not None:
                # the columns are exported once (with the time estimate), then their depth parameters are changed and they are
                # exported again: the second tree is the one judged, against the new parameters
                W.pgm(verbose=True)
                for r, _, fs in os.walk(d):
                    for f in fs:
                        if not case.get('keep_files'):      # (half of the histories export again into the folder as it is)
                            os.unlink(os.path.join(r, f))
                for tc, mu in zip(cols, case['mutate']):
                    for k, v in mu.items():
                        setattr(tc, k, v)
                if not case.get('same_writer'):
                    W = (UTrenchWriter if case['utrench'] else TrenchWriter)(cols, dirname=case['dirname'], **cfg)
            if case.get('reassign'):
                for k_, v_ in case['reassign'].items():
                    setattr(W, k_, tuple(v_) if k_ == 'shift_origin' else v_)
                    cfg[k_] = tuple(v_) if k_ == 'shift_origin' else v_
            # record what the writer hands to export_array2d (the leaf files): the call is passed on unchanged
            leaf_calls = []
            orig_export = W.export_array2d

            def rec_export(filename, x, y, speed, forced_deceleration=False, _o=orig_export):
                dec = forced_deceleration
                dec = [bool(dec)] if isinstance(dec, (bool, np.bool_)) else [bool(v) for v in list(dec)]
                leaf_calls.append((pathlib.Path(filename), [float(v) for v in np.asarray(x, dtype=np.float64)],
                                   [float(v) for v in np.asarray(y, dtype=np.float64)], speed, dec))
                return _o(filename=filename, x=x, y=y, speed=speed, forced_deceleration=forced_deceleration)
            W.export_array2d = rec_export
            W.pgm(verbose=False)
        except core.InfraError:
            raise
        except Exception as e:
            ctx.seen({'stream': 'tree', **info}, False)
            ctx.fail('spec', 'export', info, f'pgm() raised {type(e).__name__}: {e}', 'export:raised')
            return None
        root = base / (cfg.get('export_dir') or '') / case['dirname']
        stray = [str(p_.relative_to(d)) for p_ in d.rglob('*') if p_.is_file() and root not in p_.parents]
        for r, _, fs in os.walk(root):
            for f in sorted(fs):
                p = pathlib.Path(r) / f
                files.append([str(p.relative_to(root)), p.read_text()])
        neff = float(W.neff)
        mcfg = gcommon.model_cfg(W)
    blocks = [[t.block for t in tc] for tc in cols]
    beds = [[t.block for t in getattr(tc, 'trenchbed', [])] for tc in cols]
    reqs = [{'op': 'ctl.tree', 'files': files, 'main': 'MAIN.pgm', 'fuel': 4}]
    leaf_files = [(n, t) for n, t in files if '/' in n]
    for n, t in leaf_files:
        reqs.append({'op': 'ctl.run', 'text': t})
    eff = [dict(c['col'], **(mu or {})) for c, mu in zip(case['cols'], case.get('mutate') or [None] * len(case['cols']))]
    for p in eff:
        reqs.append({'op': 'c06.depth', 'h': q(p['h_box']), 'zoff': q(p['z_off']), 'dz': q(p['deltaz']), 'nboxz': p['nboxz']})

    # ---- the compile-side model of the call file of every plain column (Model/TrenchProg.lean, farcallFile) against the real file
    far = []
    if True:
        texts = {n: t for n, t in files}
        for ci, tc in enumerate(cols):
            name = f'FARCALL{ci + 1:03}.pgm'
            trs = list(tc)
            if name not in texts or not trs:
                continue
            colj = {'index': ci, 'nboxz': int(tc.nboxz), 'n_repeat': int(tc.n_repeat), 'base_folder': str(tc.base_folder),
                    'inits': [[q(float(t.xborder[0])), q(float(t.yborder[0]))] for t in trs],
                    'h_box': q(float(tc.h_box)), 'z_off': q(float(tc.z_off)), 'deltaz': q(float(tc.deltaz)),
                    'speed_closed': q(float(tc.speed_closed)),
                    'u': [q(float(tc.u[0])), q(float(tc.u[-1]))] if tc.u else None,
                    'upper': bool(case['utrench']),
                    'beds': [[q(float(np.array(b.block.exterior.coords.xy[0])[0])), q(float(np.array(b.block.exterior.coords.xy[1])[0]))]
                             for b in (getattr(tc, 'trenchbed', []) if case['utrench'] else [])]}
            far.append((ci, name, len(reqs)))
            reqs.append({'op': 'ctl.run', 'text': texts[name], 'instrs': True})
            reqs.append({'op': 'c06.farcall', 'cfg': mcfg, 'col': colj})

    # ---- the leaf files against the model of export_array2d (Model/TrenchProg.lean, leafFile), from the recorded arguments
    leaves = []
    texts_l = {n: t for n, t in files}
    for fn, xs_, ys_, speed, dec in leaf_calls:
        try:
            rel = str(fn.relative_to(root))
        except ValueError:
            continue
        if rel not in texts_l or isinstance(speed, (list, tuple)) or not xs_:
            continue
        if getattr(ctx, 'leaf_budget', 600) <= 0:
            ctx.count('leaf.model', 'skipped (per-run cap of 600 files reached)')
            continue
        ctx.leaf_budget = getattr(ctx, 'leaf_budget', 600) - 1
        leaves.append((rel, len(reqs)))
        reqs.append({'op': 'ctl.run', 'text': texts_l[rel], 'instrs': True})
        reqs.append({'op': 'c06.leaf', 'cfg': mcfg, 'pts': [[q(a), q(b)] for a, b in zip(xs_, ys_)], 'speed': q(float(speed)), 'decel': dec})

    # ---- MAIN.pgm is the compiler session `farcall_list(call files)` without rotation (Gcode model, C03's farcallList theorems)
    main_off = None
    if 'MAIN.pgm' in dict(files):
        main_off = len(reqs)
        items_ = [[str(pathlib.Path(tc.base_folder) / f'FARCALL{i + 1:03}.pgm'), 2] for i, tc in enumerate(cols)]
        reqs.append({'op': 'ctl.run', 'text': dict(files)['MAIN.pgm'], 'instrs': True})
        reqs.append({'op': 'gc.session', 'cfg': dict(mcfg, aero=q(0.0)), 'ops': [{'k': 'farcall_list', 'items': items_}], 'instrs': True})

    def judge(res):
        for m in res:
            if 'driver_error' in m:
                raise core.InfraError(m['driver_error'])
        if main_off is not None:
            d = instr_diff(res[main_off].get('instrs') or [], res[main_off + 1]['prog'].get('instrs') or [], 1e-9)
            ctx.count('main.model', 'compared')
            if d:
                ctx.fail('corr', 'main', {**info, 'file': 'MAIN.pgm'}, f'MAIN.pgm differs from the model session farcall_list(call files): {d}', 'main:model')
        for rel, off in leaves:
            impl_l, model_l = res[off], res[off + 1]
            ctx.count('leaf.model', 'error' if model_l['err'] else 'compared')
            if model_l['err']:
                continue
            scale = 4.0 + abs(float(cfg['shift_origin'][0])) + abs(float(cfg['shift_origin'][1]))
            d = instr_diff(impl_l.get('instrs') or [], model_l['instrs'], scale * 2.0 ** -20 + 2e-6 + (0 if int(cfg.get('output_digits', 6)) >= 6 else 10.0 ** -int(cfg['output_digits'])))
            if d:
                ctx.fail('corr', 'leaf', {**info, 'file': rel}, f'{rel}: the leaf file differs from the model of export_array2d: {d}', 'leaf:model')
        for ci, name, off in far:
            impl_f, model_f = res[off], res[off + 1]
            ctx.count('farcall.model', ('error' if model_f['err'] else 'compared') + ('/U' if case['utrench'] else '/plain'))
            if model_f['err']:
                continue
            scale = 4.0 + abs(float(cfg['shift_origin'][0])) + abs(float(cfg['shift_origin'][1]))
            d = instr_diff(impl_f.get('instrs') or [], model_f['instrs'], scale * 2.0 ** -20 + 2e-6 + (0 if int(cfg.get('output_digits', 6)) >= 6 else 10.0 ** -int(cfg['output_digits'])))
            if d:
                ctx.fail('corr', 'farcall', {**info, 'file': name, 'col': ci}, f'{name}: the call file differs from the compile-side model: {d}', 'farcall:model')
            elif impl_f.get('dwell') is not None and abs(fr(impl_f['dwell']) - fr(model_f['reported_dwell'])) > 1e-9:
                # farcallFile_ok: the dwell the model compiler reports is the dwell the controller executes on the file
                ctx.fail('corr', 'farcall', {**info, 'file': name, 'col': ci},
                         f'{name}: the controller executes {float(fr(impl_f["dwell"]))} s of DWELL, the model compiler reports {float(fr(model_f["reported_dwell"]))} s', 'farcall:dwell')
        T = res[0]
        leaf_runs = dict(zip([n for n, _ in leaf_files], res[1:1 + len(leaf_files)]))
        depth = res[1 + len(leaf_files):]
        nb = sum(len(b) for b in blocks)
        nt = nb >= 2 and any(p['nboxz'] >= 2 for p in eff) and bool(cfg.get('flip_x') or cfg.get('flip_y') or (cfg.get('rotation_angle') or 0) % 360)
        ctx.seen({'stream': 'tree', **info}, nt)
        ctx.count('tree.columns', str(len(cols)))
        ctx.count('tree.empty_columns', str(sum(1 for c_ in cols if len(list(c_)) == 0)))
        ctx.count('tree.kind', 'U' if case['utrench'] else 'plain')
        ctx.count('tree.cwd', 'changed-between-construction-and-export' if case.get('chdir') else 'same')
        if stray:
            ctx.fail('spec', 'tree', {**info, 'stray': stray[:5]}, f'files of the exported tree outside its folder: {stray[:5]}', 'tree:stray-files')
            return
        ctx.count('tree.writer_settings', 'reassigned-after-construction' if case.get('reassign') else 'as-constructed')
        ctx.count('tree.history', ('second-export' + ('/same-writer' if case.get('same_writer') else '/new-writer')) if case.get('mutate') is not None else 'fresh')
        ctx.count('tree.blocks', str(min(nb, 6)))
        ctx.count('tree.files', str(len(files) // 5 * 5) + '+')
        # ---- static part, decided by the Lean controller on the real bytes
        for f in T['files']:
            if not f['balanced'] or f['bad']:
                ctx.fail('spec', 'parse', {**info, 'file': f['name'], 'bad': f['bad'][:3]}, f'{f["name"]}: unbalanced loops or unknown lines {f["bad"][:2]}', 'parse')
                return
        if T['trace'] is None:
            ctx.fail('spec', 'main', info, 'MAIN.pgm is missing from the exported tree', 'main:missing')
            return
        if not T['tree_disciplined']:
            bad = [f['name'] for f in T['files'] if not f['leaf'] and not f['disciplined']]
            ctx.fail('spec', 'discipline', {**info, 'files': bad},
                     f'shutter discipline broken in {bad}: an x/y move or a call of a calling file with the shutter open, or a loop that changes the shutter', 'discipline')
            return
        # the shape the depth theorem (wall_loop_depths) is about: every loop of a calling file is a wall loop over an x/y-only leaf
        for f in T['files']:
            if f['leaf'] and not f['leaf_xy']:
                ctx.fail('corr', 'shape', {**info, 'file': f['name']}, f'{f["name"]}: a leaf sub-program with z / u words — the wall-loop theorem assumes x/y-only leaves', 'shape:leaf')
            for lp in f['loops']:
                if not lp['wall_loop']:
                    ctx.fail('corr', 'shape', {**info, 'file': f['name'], 'loop': lp}, f'{f["name"]}: a loop that is not of the wall-loop shape [DWELL] FARCALL; $ZCURR += dz; G1 Z$ZCURR', 'shape:loop')
        digits = int(cfg.get('output_digits', 6))
        coarse = 0.0 if digits >= 6 else 0.75 * 10.0 ** -digits      # rounding of printed coordinates at a reduced resolution
        tol0 = 3e-6 + coarse
        fail = []

        def err(sig, msg, extra=None):
            fail.append((sig, msg, extra or {}))

        # leaf paths in controller coordinates
        leaf_xy = {}
        for n, r in leaf_runs.items():
            pts = []
            for e in r['events'] or []:
                if e['t'] == 'm':
                    pts.append((fr(e['dst'][0]), fr(e['dst'][1])))
            leaf_xy[n.lower().rsplit('.', 1)[0]] = pts
        foot = {}

        def footprint(ci, kind, bi):
            k = (ci, kind, bi)
            if k not in foot:
                src = beds[ci] if kind == 'bed' else blocks[ci]
                fp_ = transform_poly(src[bi], cfg) if bi < len(src) else None
                if fp_ is not None and aero:
                    from shapely import affinity
                    fp_ = affinity.rotate(fp_, aero, origin=(0, 0))      # the configured part rotation (same convention as phys())
                foot[k] = fp_
            return foot[k]

        state = {'pos': [None, None, None], 'col': None, 'g84': None}
        # the angles of the `G84 X Y F<angle>` lines of every file, in order (the trace says when a rotation is switched on / off)
        g84_angles = {n.lower().rsplit('.', 1)[0]: [float(a) for a in re.findall(r'^G84 X Y F([-0-9.eE+]+)', t, re.M)] for n, t in files}
        g84_used = {}
        aero = float(cfg.get('aerotech_angle') or 0.0) % 360

        def phys(x, y):
            """physical position of a program point under the part rotation that is active in the trace"""
            a = math.radians(state['g84'] or 0.0)
            return (math.cos(a) * x - math.sin(a) * y, math.sin(a) * x + math.cos(a) * y)
        passes = {}      # (col, block) -> list of (level-order index, kind, z)

        def inside(poly, geom, scale):
            return poly.buffer(tol0 + 1e-6 * scale).covers(geom)

        def walk(tr, depth_, colidx, fileid='main'):
            episode = None      # block designated by the leaf calls of the current open-shutter episode
            open_pts = []
            for e in tr:
                t = e['t']
                if t == 'err':
                    err('controller:' + e['m'].split(':')[0], 'reference controller: ' + e['m'])
                elif t == 'rot':
                    if e['on']:
                        k_ = g84_used.get(fileid, 0)
                        lst = g84_angles.get(fileid, [])
                        state['g84'] = lst[k_ % len(lst)] if lst else 0.0
                        g84_used[fileid] = k_ + 1
                    else:
                        state['g84'] = None
                elif t == 'pso':
                    if not e['on']:
                        if episode is not None:
                            fp = footprint(*episode)
                            for (x, y) in open_pts:
                                if fp is not None and not inside(fp, geometry.Point(x, y), abs(x) + abs(y)):
                                    err('footprint:z-step', f'shutter-open z step at ({x:.6f}, {y:.6f}) outside the footprint of block {episode}')
                        elif open_pts:
                            err('footprint:open-without-block', 'shutter-open motion of a calling file that belongs to no block')
                        episode, open_pts = None, []
                elif t == 'm':
                    src, dst = [fr(v) for v in e['src']], [fr(v) for v in e['dst']]
                    if e['s']:
                        if (src[0], src[1]) != (dst[0], dst[1]):
                            err('discipline:trace', f'calling file moves in x/y with the shutter open: {src} -> {dst}')
                        open_pts.append(phys(dst[0], dst[1]) if dst[0] is not None and dst[1] is not None else (dst[0], dst[1]))
                    state['pos'] = dst
                elif t == 'sub':
                    if not e['leaf']:
                        m = re.match(r'^farcall(\d+)$', e['k'])
                        ci = int(m.group(1)) - 1 if m else None
                        if e['s']:
                            err('discipline:trace', f'{e["k"]} entered with the shutter open')
                        walk(e['inner'], depth_ + 1, ci, e['k'])
                        continue
                    for m_ in e.get('errs', []):
                        err('controller:leaf', 'reference controller: ' + m_)
                    m = LEAF_RE.match(e['k'])
                    if not m or colidx is None:
                        err('leaf:name', f'leaf sub-program {e["k"]} called outside a column call file or with an unknown name')
                        continue
                    kind = 'bed' if m.group(3) else m.group(2)
                    bi = int(m.group(3) or m.group(1)) - 1
                    fid = f'trenchcol{colidx + 1:03}/{e["k"]}'
                    pts = leaf_xy.get(fid)
                    if pts is None:
                        err('leaf:file', f'{fid} is not in the exported tree')
                        continue
                    fp = footprint(colidx, 'bed' if kind == 'bed' else 'block', bi)
                    if fp is None:
                        err('leaf:block', f'{e["k"]} designates block {bi} which column {colidx} does not have')
                        continue
                    if e['s']:
                        if episode is None:
                            episode = (colidx, 'bed' if kind == 'bed' else 'block', bi)
                        elif episode != (colidx, 'bed' if kind == 'bed' else 'block', bi):
                            err('footprint:two-blocks', f'one shutter-open episode covers {episode} and block {bi}')
                        x0, y0 = state['pos'][0], state['pos'][1]
                        full = [phys(*p_) for p_ in ([(x0, y0)] if x0 is not None else []) + pts]
                        line = geometry.LineString(full) if len(full) >= 2 else geometry.Point(full[0])
                        scale = max(abs(v) for p in full for v in p)
                        if not inside(fp, line, scale):
                            stray = line.difference(fp.buffer(tol0 + 1e-6 * scale))
                            far = max((fp.distance(g.interpolate(s, normalized=True)) for g in getattr(stray, 'geoms', [stray]) for s in (0, 0.25, 0.5, 0.75, 1)), default=0.0)
                            first = x0 is not None and not inside(fp, geometry.LineString([full[0], full[1]]), scale) if len(full) >= 2 else False
                            sig = 'footprint:' + kind + (':approach' if first else '')
                            err(sig, f'{fid} run with the shutter open leaves the footprint of its block: {stray.length:.5f} mm outside, up to {far:.5f} mm away',
                                {'file': fid, 'outside_length': stray.length, 'distance': far, 'kind': kind, 'col': colidx, 'block': bi})
                    else:
                        err('leaf:closed', f'{fid} run with the shutter closed')
                    if pts:
                        state['pos'] = [pts[-1][0], pts[-1][1], state['pos'][2]]
                    passes.setdefault((colidx, kind, bi), []).append(state['pos'][2])
            if open_pts and episode is None and any(True for _ in open_pts):
                pass

        walk(T['trace'], 0, None)
        if T['final']['shutter']:
            err('end:open', 'the run ends with the shutter open')
        if T['final']['loaded']:
            err('end:loaded', f'programs left loaded at the end: {T["final"]["loaded"]}')
        # ---- depth schedule per column and block
        for ci, p in enumerate(eff):
            D = depth[ci]
            n = D['n']
            # the code divides floats, the model their exact values: at an integer quotient the two ceilings may differ
            xq = (p['h_box'] - p['z_off']) / p['deltaz']
            boundary = abs(xq - round(xq)) < 1e-9
            ctx.count('depth.boundary', 'integer-quotient' if boundary else 'generic')
            if n != cols[ci].n_repeat and not boundary:
                ctx.fail('corr', 'n_repeat', {**info, 'col': ci, 'code': cols[ci].n_repeat, 'model': n}, f'n_repeat {cols[ci].n_repeat} differs from the model {n}', 'n_repeat')
            sched = [float(gcommon.fr(v)) for v in D['schedule']]
            floors = [float(gcommon.fr(v)) for v in D['floors']]
            ztol = 2e-6 * neff * (max(n, cols[ci].n_repeat) + 2) + 1e-6 + coarse * neff
            for bi in range(len(blocks[ci])):
                wz = [z * neff for z in passes.get((ci, 'wall', bi), []) if z is not None]
                fz = [z * neff for z in passes.get((ci, 'floor', bi), []) if z is not None]
                # the statement itself
                bad = None
                if not wz or abs(wz[0] - p['z_off']) > ztol:
                    bad = f'first pass at {wz[0] if wz else None}, starting offset {p["z_off"]}'
                else:
                    for L in range(p['nboxz']):
                        lev = [z for z in wz if L * p['h_box'] + p['z_off'] - ztol <= z < (L + 1) * p['h_box'] + ztol]
                        if not lev or max(lev) < (L + 1) * p['h_box'] - p['deltaz'] - ztol:
                            bad = f'box {L} is not cut to its top: highest pass {max(lev) if lev else None}, top {(L + 1) * p["h_box"]}'
                            break
                    srt = sorted(wz)
                    if bad is None and any(b - a > p['deltaz'] + ztol for a, b in zip(srt, srt[1:])):
                        bad = 'two consecutive depths are more than deltaz apart'
                if bad:
                    err('depth:wall', f'column {ci} block {bi}: {bad}', {'col': ci, 'block': bi, 'passes': wz[:8], 'n': len(wz)})
                elif not boundary and (len(wz) != len(sched) or any(abs(a - b) > ztol for a, b in zip(wz, sched))):
                    ctx.fail('corr', 'depth', {**info, 'col': ci, 'block': bi, 'observed': wz[:6], 'model': sched[:6], 'n_obs': len(wz), 'n_model': len(sched)},
                             'wall passes differ from the model schedule', 'depth:model')
                if len(fz) != p['nboxz'] or any(z < (L + 1) * p['h_box'] - ztol for L, z in enumerate(fz)):
                    err('depth:floor', f'column {ci} block {bi}: floors cut at {fz}, box tops {[(L + 1) * p["h_box"] for L in range(p["nboxz"])]}', {'col': ci, 'block': bi})
                elif not boundary and any(abs(a - b) > ztol for a, b in zip(fz, floors)):
                    ctx.fail('corr', 'depth', {**info, 'col': ci, 'block': bi, 'observed': fz, 'model': floors}, 'floor depths differ from the model', 'depth:floor-model')
            if case['utrench']:
                for bi in range(len(beds[ci])):
                    if (ci, 'bed', bi) not in passes:
                        err('bed:missing', f'column {ci}: bed {bi} is never cut')
        # ---- classify footprint failures of floor / bed files: joins between the tool-path polylines (finding F9)
        seen_sig = set()
        for sig, msg, extra in fail:
            if sig in ('footprint:floor', 'footprint:bed') and on_joins(extra, cols, beds, cfg, leaf_xy):
                sig += ':joins-between-polylines'
            if sig in seen_sig:
                continue
            seen_sig.add(sig)
            ctx.fail('spec', sig.split(':')[0], {**info, **extra}, msg, sig)

    def on_joins(extra, cols_, beds_, cfg_, leaf_xy_):
        """True when the stray part consists of the straight joins between / within the polylines yielded by toolpath():
        every yielded polyline, taken alone, with its hatch pieces unjoined, is inside the footprint."""
        from shapely import geometry as g
        ci, bi, kind = extra['col'], extra['block'], extra['kind']
        tr = (cols_[ci].trenchbed[bi] if kind == 'bed' else list(cols_[ci])[bi])
        fp = transform_poly(tr.block, cfg_)
        with core.quiet():
            ys = [np.asarray(a, dtype=np.float64) for a in tr.toolpath()]
        n_cont = sum(1 for a in ys if a.shape[1] >= 2 and np.allclose(a[:, 0], a[:, -1]))
        for k, a in enumerate(ys):
            P = transform_poly(g.Polygon(np.vstack([a.T, a.T[:1]]) if a.shape[1] >= 3 else [(0, 0), (1, 0), (1, 1)]), cfg_) if False else None
            pts = np.array(transform_poly_pts(a.T, cfg_))
            closed = np.allclose(a[:, 0], a[:, -1])
            if closed:
                if not fp.buffer(5e-6).covers(g.LineString(pts)):
                    return False
            else:
                # hatching: only the segments along the hatch direction (every other one) are tool-path proper
                segs = [g.LineString([pts[i], pts[i + 1]]) for i in range(0, len(pts) - 1, 2)]
                if any(not fp.buffer(5e-6).covers(s) for s in segs):
                    return False
        return True

    def transform_poly_pts(pts, cfg_):
        a = math.radians(float(cfg_.get('rotation_angle') or 0.0))
        c, s = math.cos(a), math.sin(a)
        out = []
        for (x, y) in pts:
            x = x - float(np.float32(cfg_['shift_origin'][0]))
            y = y - float(np.float32(cfg_['shift_origin'][1]))
            if cfg_.get('flip_x'):
                x = -x
            if cfg_.get('flip_y'):
                y = -y
            out.append((c * x - s * y, s * x + c * y))
        return out
    return reqs, judge


def run(ctx):
    rng = ctx.rng
    jobs, reqs = [], []
    n = ctx.n(24, 260)
    # the corpus runs first: the inputs of the open findings F9 / F9-bed (known_findings.json), kept as generated cases
    corpus = json.loads((pathlib.Path(__file__).with_name('c06_corpus.json')).read_text())
    for i in range(len(corpus) + n):
        case = corpus[i] if i < len(corpus) else gen_case(rng, directed='neck' if i % 8 == 7 else None)
        r = check_case(ctx, case)
        if r is None:
            continue
        jobs.append((len(reqs), len(r[0]), r[1]))
        reqs += r[0]
    res = ctx.driver.ask(reqs)
    for off, k, judge in jobs:
        judge(res[off:off + k])


def replay(ctx, payload):
    c = payload['case']
    case = {k: c.get(k) for k in KEYS}
    r = check_case(ctx, case)
    if r:
        r[1](ctx.driver.ask(r[0]))

"""C03 — every emitted program is well-formed and shutter-safe, even after errors."""
from __future__ import annotations

import fractions
import re
import warnings

import core
import gcommon
from core import q

warnings.simplefilter('ignore')

REQUIRED = ['session_balanced', 'session_atoms_good', 'moveTo_closed', 'session_shutter_closed', 'farcallList_balanced',
            'shipped_headers_ok', 'session_rotation_off', 'exit_rotation_off', 'shipped_headers_rotation_off', 'session_vars_declared', 'shipped_headers_var_free',
            'session_calls_loaded', 'shipped_headers_load_free', 'calls_loaded_needs_keys_agree']
RULE = ('stream session: random operation trees (depth <= 4, <= 40 operations: writes of closed paths incl. builder-made ones, '
        'move_to with None coordinates / bad speeds, homing, nested REPEAT/FOR/axis-rotation blocks incl. rejected counts and '
        'undeclared variables, dwell with zero/negative/None, comments, set_home, dvar, load/farcall/bufferedcall/remove with '
        'dotted, nested and wrong-extension names, farcall_list) with a user exception raised at a random node (p=0.35 per '
        'tree), executed inside the real `with PGMCompiler(...)` block for every laser and pause setting; the bytes written '
        'by __exit__ are parsed and checked in Lean (wfReport: unknown lines, balance, variables, calls, G84, feeds, loop counts, '
        'shutter at end) and the shutter state at every positioning G1 (ordinals recorded by wrapping move_to in the harness '
        'process); model and implementation are compared on instruction stream, controller trace, loaded set.  '
        'non-trivial = contains a loop or a crash and >= 5 operations.')
ASSUMPTIONS = [
    '"was loaded before" is read in program order (DESIGN section 6, C03); loading is a set; names are case-insensitive on the controller',
    'variable declarations declare at least one variable; comments contain no line breaks; loop counts are integers',
    'speed_pos of the configuration is a valid feed (>= 10^-6)',
]
CLAIM = {
    'text': 'Lean 4 theorems over the compiler model, for every configuration and every operation tree with an exception at any '
            'node: the emitted text is balanced and properly nested (the stack parser of the reference controller inverts the '
            'flattening of the emitted structure), every atom is a known instruction with positive feeds, every move emitted by '
            'move_to is executed with the shutter closed from any state, the shutter is closed at the end when all written paths are '
            'closed, farcall_list leaves the loaded set as it found it (also when it fails at file k), and in program order the G84 state '
            'after the file is off for any nesting of rotation blocks and any crash point (session_rotation_off), and every FOR variable '
            'has been declared by a hoisted DVAR line earlier in the text (session_vars_declared), and every FARCALL / BUFFEREDRUN / '
            'REMOVEPROGRAM names a program loaded earlier in the text and not removed since (session_calls_loaded: calls of unloaded '
            'programs are refused; hypothesis: the file names of the session are told apart by the compiler, case-sensitively, exactly '
            'when the controller tells them apart, case-insensitively; calls_loaded_needs_keys_agree is the counter-example without it). '
            'The full well-formedness '
            'predicate (variables, calls, G84, shutter at positioning moves) is additionally decided in Lean on the bytes the real '
            'context manager wrote, for generated histories with crashes, every run.',
    'note': 'Trusted: Lean kernel/Mathlib, Spec/Controller.lean + Spec/WF.lean as the meaning of well-formed, the model of the '
            'compiler in Model/Gcode.lean tied to the code by instruction-level differential comparison; the static checks for '
            'variables / calls / G84 are proved in program order (loops not unrolled) and additionally decided per generated history; '
            '"is unloaded after use" is proved for farcall_list only (a user may load and never remove).',
    'technique': 'Lean 4 proof by mutual structural induction over the operation tree (crash included) + spec-on-implementation',
}

G1RE = re.compile(r'^(G1|LINEAR|G9 G1)\b|^F[0-9.+-]')


def g1_count(G) -> int:
    return sum(1 for s in G._instructions if G1RE.match(s))


def run_tree(cfg, ops):
    """Session on the real compiler with move_to wrapped to record which G1 ordinals are positioning moves."""
    from femto.pgmcompiler import PGMCompiler
    positioning: list[int] = []
    orig = PGMCompiler.move_to

    def wrapped(self, position, speed_pos=None):
        a = g1_count(self)
        try:
            return orig(self, position, speed_pos)
        finally:
            positioning.extend(range(a, g1_count(self)))

    PGMCompiler.move_to = wrapped
    try:
        r = gcommon.run_session(cfg, ops)
    finally:
        PGMCompiler.move_to = orig
    r['positioning'] = positioning
    return r


def tree_stats(ops, acc):
    for op in ops:
        acc['n'] += 1
        acc['kinds'].add(op['k'])
        if op['k'] in ('repeat', 'for', 'rot'):
            acc['loops'] += 1
            tree_stats(op['body'], acc)
        if op['k'] == 'raise':
            acc['raise'] += 1
    return acc


def make_case(ctx, exact):
    rng = ctx.rng
    cfg = gcommon.gen_cfg(rng, exact)
    ops = gcommon.gen_ops(rng, exact, rng.choice([1, 2, 3, 4]), [rng.choice([6, 15, 40])], [], 0.35 / 8)
    return cfg, ops


def judge(ctx, cfg, ops, exact, r, impl, model):
    for x in (impl, model):
        if 'driver_error' in x:
            raise core.InfraError(x['driver_error'])
    st = tree_stats(ops, {'n': 0, 'kinds': set(), 'loops': 0, 'raise': 0})
    case = {'cfg': cfg, 'ops': ops, 'exact': exact}
    ctx.seen({'stream': 'session', **case}, st['n'] >= 5 and (st['loops'] > 0 or r['crashed'] is not None))
    ctx.traces_validated += 1
    for k in st['kinds']:
        ctx.count('session.op_kinds', k)
    ctx.count('session.crash', str(r['crashed']))
    ctx.count('session.laser', cfg['laser'].lower())
    if r['text'] is None:
        ctx.fail('spec', 'session', case, 'no file was written by __exit__', 'no-file')
        return
    wf = impl['wf']
    if not wf['ok']:
        what = [k for k, v in wf.items() if k not in ('ok', 'bad') and v is False] + (['unknown-line'] if wf['bad'] else [])
        ctx.fail('spec', 'session', {**case, 'wf': wf, 'crashed': r['crashed']}, f'emitted program is not well-formed: {what}',
                 'wf:' + ','.join(sorted(what)))
        return
    g1s = impl['g1_shutter']
    openpos = [k for k in r['positioning'] if k < len(g1s) and g1s[k]]
    if openpos:
        ctx.fail('spec', 'session', {**case, 'open_positioning_g1': openpos}, 'a positioning move is executed with the shutter open',
                 'positioning-open')
        return
    if impl['static_loaded'] is not None and sorted(impl['static_loaded']) != sorted({s.lower() for s in r['loaded']}):
        ctx.fail('spec', 'session', {**case, 'controller': impl['static_loaded'], 'compiler': r['loaded']},
                 'the compiler\'s bookkeeping of loaded programs differs from what the program text leaves loaded', 'loaded-mismatch')
        return
    # model vs implementation
    mp = model['prog']
    # a coordinate within float rounding of a printing boundary may differ by one unit of the last printed digit
    tol = fractions.Fraction(0) if exact else fractions.Fraction(1, 10 ** 5) + fractions.Fraction(1, 10 ** int(cfg['output_digits']))
    d = gcommon.close_events(gcommon.canon_events(impl['events']), gcommon.canon_events(mp['events']), tol)
    if d:
        ctx.fail('corr', 'session', case, f'controller trace differs from the model: {d}')
    elif sorted(r['loaded']) != sorted(model['loaded']):
        ctx.fail('corr', 'session', case, f'loaded list differs: impl {r["loaded"]} model {model["loaded"]}')
    elif exact and impl['instrs'] != mp['instrs']:
        ctx.count('session.instr_level', 'differs-but-trace-equal')
    else:
        ctx.count('session.instr_level', 'equal')


def run(ctx):
    rng = ctx.rng
    items, reqs = [], []
    for i in range(ctx.n(500, 12000)):
        exact = rng.random() < 0.7
        cfg, ops = make_case(ctx, exact)
        r = run_tree(cfg, ops)
        exact_case = exact and not _has_builder(ops)
        items.append((cfg, ops, exact_case, r))
        reqs.append({'op': 'ctl.run', 'text': r['text'] or '', 'instrs': True})
        reqs.append({'op': 'gc.session', 'cfg': r['mcfg'], 'ops': ops, 'instrs': True})
    res = ctx.driver.ask(reqs)
    for i, (cfg, ops, exact, r) in enumerate(items):
        judge(ctx, cfg, ops, exact, r, res[2 * i], res[2 * i + 1])


def _has_builder(ops):
    # builder-made matrices hold non-dyadic float32 values: shift subtraction may round
    for op in ops:
        if op['k'] == 'write':
            for row in op['m']:
                for v in row[:3]:
                    if v[1] > 4096:
                        return True
        if 'body' in op and _has_builder(op['body']):
            return True
    return False


def replay(ctx, payload):
    c = payload['case']
    cfg = dict(c['cfg'])
    cfg['shift_origin'] = tuple(cfg['shift_origin'])
    r = run_tree(cfg, c['ops'])
    res = ctx.driver.ask([{'op': 'ctl.run', 'text': r['text'] or '', 'instrs': True},
                          {'op': 'gc.session', 'cfg': r['mcfg'], 'ops': c['ops'], 'instrs': True}])
    judge(ctx, cfg, c['ops'], c.get('exact', False), r, res[0], res[1])

"""C18 — the fabrication spreadsheet lists every structure once with true values."""
from __future__ import annotations

import fractions
import random
import warnings

import core
import gcommon
from core import q

warnings.simplefilter('ignore')

REQUIRED = ['rows_perm', 'rows_sorted', 'rows_stable', 'rows_length', 'cell_spec', 'column_kept_iff', 'preamble_gets_constant',
            'omitted_constant_is_common']
RULE = ('stream sheet: random devices (1..7 waveguides incl. straight, bent and crossing ones, equal input y, groups; 0..3 markers; '
        'equal or differing speed / scan / radius / depth; dynamic attributes power, obs, wl; zero-valued attributes; long names), '
        'random selections and orders of known column tags, both settings of suppr_redd_cols and static_preamble, through the real '
        'Device.xlsx; the written .xlsx is read back with openpyxl: one row per structure with waveguides first ordered by the y of '
        'their first open-shutter point (ties in insertion order), every cell of a listed column equal to the attribute (yin / yout '
        'from the first / last open-shutter point) and blank iff the attribute is missing, a selected column absent only if constant '
        '(suppression on) or undefined for all, an omitted constant present in the preamble when the preamble has that field; the '
        'whole table and the preamble hand-over must also equal the Lean model.  non-trivial = >= 2 waveguides and >= 4 columns.')
ASSUMPTIONS = [
    'xlsxwriter / openpyxl round-trip cell values (contract, sampled); column tags come from utils/spreadsheet_columns.txt',
    'numeric attributes are below the 1e5 placeholder (larger ones are the open finding C18/sentinel)',
]
CLAIM = {
    'text': 'Lean 4 theorems about the table logic: the rows are a permutation of waveguides + markers, waveguides first and sorted '
            'by input y (stable), markers after; a written cell shows the attribute and is blank iff it is missing (below the 1e5 '
            'placeholder / non-empty text); a selected column is kept iff it is name, or neither undefined-for-all nor '
            '(constant and suppression on and non-blank); an omitted constant goes to the preamble when the preamble has the field, '
            'and it is the common value of the column. Tied to the code by reading back real .xlsx files of generated devices and '
            'comparing rows, cells, kept columns and preamble with the model and with the attributes, every run.',
    'note': 'Trusted: Lean kernel/Mathlib; Model/Sheet.lean tied differentially; the xlsx file format is a contract.',
    'technique': 'Lean 4 proof (merge-sort permutation / order / stability, decision-table iff) + differential correspondence on real .xlsx files',
}

PREAMBLE = {'laboratory', 'temperature', 'humidity', 'date', 'preghiera', 'start', 'end', 'sample_name', 'material', 'facet', 'thickness',
            'laser_name', 'wl', 'duration', 'reprate', 'attenuator', 'preset', 'objective', 'power', 'speed', 'scan', 'depth'}


def columns_table():
    rows = {}
    for line in (core.REPO / 'src' / 'femto' / 'utils' / 'spreadsheet_columns.txt').read_text().splitlines():
        if line.startswith('#') or not line.strip():
            continue
        tag, full, unit, width, fmt = [p for p in line.split(', ')]
        fmt = fmt.strip()
        rows[tag] = {'full': full, 'unit': unit, 'numeric': fmt not in ('text', 'title'), 'is_int': fmt not in ('text', 'title') and '.' not in fmt}
    return rows


def build(rng):
    from femto.device import Device
    from femto.marker import Marker
    from femto.waveguide import Waveguide
    dev = Device(filename='x.pgm', laser=rng.choice(['PHAROS', 'UWE']))
    n = rng.choice([1, 2, 3, 4, 7])
    same_speed = rng.random() < 0.5
    same_scan = rng.random() < 0.5
    ys = [rng.choice([0.1, 0.2, 0.3, 0.45, 0.2]) for _ in range(n)]
    near = rng.random() < 0.2
    if near:
        # tracks side by side, far from the origin, a tenth of a micron apart: different structures whose values are almost equal
        y0 = rng.choice([24.0, 3.0])
        ys = [y0 + 0.0001 * i for i in range(n)]
    wgs = []
    for i in range(n):
        wg = Waveguide(speed=20 if same_speed else rng.choice([10, 20, 30]), scan=3 if same_scan else rng.randint(1, 6),
                       radius=rng.choice([15, 15, 25]), depth=rng.choice([0.035, 0.035, 0.0]),
                       name=rng.choice([f'wg{i}', f'waveguide_number_{i}_with_a_long_name']))
        wg.start([-1.0, ys[i], wg.depth])
        if rng.random() < 0.3:
            # the very first move already changes y (the input y is that of the first point, not of the second)
            wg.linear([2.0, rng.choice([0.5, -0.5, 0.31]), 0])
        else:
            wg.linear([2.0, 0, 0])
        kind = rng.choice(['straight', 'up', 'down', 'cross'])
        if kind == 'up':
            wg.arc_bend(0.08)
        elif kind == 'down':
            wg.arc_bend(-0.08)
        elif kind == 'cross':
            wg.arc_bend(rng.choice([0.3, -0.3]), radius=15)
        wg.linear([1.0, 0, 0])
        wg.end()
        if rng.random() < 0.6:
            wg.power = rng.choice([300, 300, 450, 0]) if not near else rng.choice([300.0, 300.001, 300.002])
        if rng.random() < 0.3:
            wg.obs = rng.choice(['ok', '', 'check this'])
        if rng.random() < 0.2:
            wg.wl = 1.03
        wgs.append(wg)
    mks = []
    for i in range(rng.choice([0, 0, 1, 2, 3])):
        mk = Marker(name=f'mk{i}', depth=rng.choice([0.0, 0.001]), speed=rng.choice([1.0, 2.0]))
        mk.cross([rng.choice([1.0, 2.0]), rng.choice([0.5, 2.0]), mk.depth])
        mks.append(mk)
    items = list(wgs)
    if len(items) >= 3 and rng.random() < 0.3:
        items = [items[0], [items[1], items[2]]] + items[3:]
    rng.shuffle(mks)
    dev.extend(items + mks)
    return dev, wgs, mks


def attr_cell(ent, tag, cols):
    import numpy as np
    from femto.waveguide import Waveguide
    if tag in ('yin', 'yout'):
        x, y, z = ent.path3d
        v = y[0] if tag == 'yin' else y[-1]
        return float(v)
    v = getattr(ent, tag, None)
    if v is None:
        return None
    if cols[tag]['numeric']:
        return float(int(v)) if cols[tag]['is_int'] else float(v)
    return str(v)


def read_sheet(path):
    import openpyxl
    sh = openpyxl.load_workbook(path).active
    titles = []
    c = 6
    while sh.cell(row=8, column=c).value is not None:
        titles.append(sh.cell(row=8, column=c).value)
        c += 1
    rows = []
    r = 10
    while any(sh.cell(row=r, column=6 + k).value is not None for k in range(len(titles))):
        rows.append([sh.cell(row=r, column=6 + k).value for k in range(len(titles))])
        r += 1
    pre = {}
    for r in range(9, 60):
        a, b = sh.cell(row=r, column=2).value, sh.cell(row=r, column=3).value
        if a is not None and not str(a).startswith('='):
            pre[str(a).lower()] = b
    return titles, rows, pre


def run(ctx):
    rng = ctx.rng
    cols = columns_table()
    tags_all = [t for t in cols if t not in ('name',)]
    items, reqs = [], []
    for i in range(ctx.n(120, 2500)):
        with core.quiet():
            dev, wgs, mks = build(rng)
        sel = rng.sample(tags_all, rng.randint(2, 9))
        if rng.random() < 0.7:
            sel = ['name'] + sel
        if rng.random() < 0.6 and 'yin' not in sel:
            sel.append('yin')
        suppr, static = rng.random() < 0.5, rng.random() < 0.4
        prior = None
        if rng.random() < 0.25:
            # an earlier spreadsheet of the same process redefined built-in columns for itself (new_columns: other unit, integer
            # format), before or after adding a column of its own; the measured spreadsheet uses the built-in definitions
            over = [t for t in sel if cols[t]['numeric'] and t not in ('yin', 'yout')][:2] or ['speed']
            prior = [(t, cols[t]['full'], 'zz', 7, '0') for t in over]
            if rng.random() < 0.5:
                prior.insert(rng.choice([0, len(prior)]), ('mytag', 'My tag', '', 7, '0.0'))
            with gcommon.Scratch() as d0, core.quiet():
                try:
                    dev0, _, _ = build(random.Random(rng.randrange(1 << 30)))
                    dev0.xlsx(verbose=False, book_name=str(d0 / 'first.xlsx'), columns_names=' '.join(['name'] + over), new_columns=prior)
                except Exception:  # noqa: that export is not the one under measurement
                    pass
        ctx.count('sheet.prior_new_columns', str(prior is not None))
        with gcommon.Scratch() as d, core.quiet():
            err = None
            try:
                extra = {}
                if rng.random() < 0.3:
                    # the user pre-fills preamble fields (free text), some of them fields a constant column may be handed over to
                    for t in rng.sample(['power', 'speed', 'scan', 'depth', 'wl', 'laboratory', 'material'], rng.randint(1, 3)):
                        extra[t] = rng.choice(['nominal', 'see logbook', '300 mW (nominal)'])
                ctx.count('sheet.extra_preamble_info', str(bool(extra)))
                dev.xlsx(verbose=False, book_name=str(d / 'book.xlsx'), columns_names=' '.join(sel), suppr_redd_cols=suppr, static_preamble=static,
                         **({'extra_preamble_info': dict(extra)} if extra else {}))
                titles, rows, pre = read_sheet(d / 'book.xlsx')
            except Exception as e:
                err = f'{type(e).__name__}: {e}'
                titles, rows, pre = [], [], {}
        eff = sel if 'name' in sel else ['name'] + sel
        ents = wgs + mks
        cells = [[attr_cell(e, t, cols) for t in eff] for e in ents]
        # the implementation's own idea of a marker's yin / yout (x and y centre) for the model table (known finding: not the open-shutter y)
        mcells = []
        for e in ents:
            row = []
            for t in eff:
                if t in ('yin', 'yout') and e in mks:
                    x, y, z = e.path3d
                    row.append(float((max(x) + min(x)) / 2 if t == 'yin' else (max(y) + min(y)) / 2))
                else:
                    row.append(attr_cell(e, t, cols))
            mcells.append(row)
        items.append((sel, eff, suppr, static, wgs, mks, ents, cells, titles, rows, pre, err))
        reqs.append({'op': 'c18.table', 'wgs': [[q(float(w.path3d[1][0])), k] for k, w in enumerate(wgs)], 'mks': [len(wgs) + k for k in range(len(mks))],
                     'cols': [{'tag': t, 'numeric': cols[t]['numeric'], 'pre': t in PREAMBLE} for t in eff],
                     'cells': [[(q(v) if isinstance(v, float) else v) for v in row] for row in mcells], 'suppr': suppr, 'static': static})
    res = ctx.driver.ask(reqs)
    for (sel, eff, suppr, static, wgs, mks, ents, cells, titles, rows, pre, err), m in zip(items, res):
        if 'driver_error' in m:
            raise core.InfraError(m['driver_error'])
        case = {'columns': sel, 'suppr': suppr, 'static': static, 'n_wg': len(wgs), 'n_mk': len(mks),
                'structures': [{'name': e.name, 'cells': c} for e, c in zip(ents, cells)]}
        ctx.seen({'stream': 'sheet', **case}, len(wgs) >= 2 and len(eff) >= 4)
        ctx.count('sheet.flags', f'suppr={suppr},static={static}')
        if err:
            ctx.fail('spec', 'sheet', case, f'xlsx() raised {err}', 'raised:xlsx')
            continue
        title_of = {t: (f"{cols[t]['full']} / {cols[t]['unit']}" if cols[t]['unit'] else cols[t]['full']) for t in eff}
        shown = [t for t in eff if title_of[t] in titles]
        if [title_of[t] for t in shown] != titles:
            ctx.fail('spec', 'sheet', {**case, 'titles': titles}, 'column titles are not the selected columns in the selected order', 'titles')
            continue
        # --- rows
        order = sorted(range(len(wgs)), key=lambda k: float(wgs[k].path3d[1][0])) + [len(wgs) + k for k in range(len(mks))]
        if len(rows) != len(ents):
            ctx.fail('spec', 'sheet', {**case, 'rows': len(rows)}, f'{len(rows)} rows for {len(ents)} structures', 'row-count')
            continue
        bad = None
        known_marker = None
        name_col = shown.index('name')
        for r, k in zip(rows, order):
            if r[name_col] != ents[k].name:
                bad = (f'row order / names: row shows {r[name_col]!r}, expected {ents[k].name!r} (waveguides first, by input y)', 'row-order')
                break
            for j, t in enumerate(shown):
                want = cells[k][eff.index(t)]
                got = r[j]
                if want == '':
                    want = None
                same = (got is None and want is None) or (got is not None and want is not None and (
                    abs(float(got) - want) <= 1e-12 * max(1, abs(want)) if isinstance(want, float) else got == want))
                if not same:
                    if ents[k] in mks and t in ('yin', 'yout'):
                        # known open finding: reported once per case, the remaining cells are still checked
                        x_, y_, z_ = ents[k].path3d
                        centre = float((max(x_) + min(x_)) / 2 if t == 'yin' else (max(y_) + min(y_)) / 2)
                        if got is not None and abs(float(got) - centre) <= 1e-9:
                            known_marker = (f'cell {t} of marker {ents[k].name!r} shows {got!r} (centre coordinate), the y of its '
                                            f'{"first" if t == "yin" else "last"} open-shutter point is {want!r}')
                            continue
                    bad = (f'cell {t} of {ents[k].name!r} shows {got!r}, the attribute is {want!r}', 'cell:' + t)
                    break
            if bad:
                break
        if known_marker:
            ctx.fail('spec', 'sheet', case, known_marker, 'marker-yin-yout-are-centre-coordinates')
        if bad:
            ctx.fail('spec', 'sheet', case, bad[0], bad[1])
            continue
        # --- omitted columns
        for t in eff:
            if t in shown:
                continue
            vals = [cells[k][eff.index(t)] for k in range(len(ents))]
            undefined = all(v is None for v in vals)
            constant = all(v == vals[0] for v in vals) and vals[0] not in (None, '')
            if not (undefined or (constant and suppr)):
                bad = (f'column {t} was omitted although it is neither constant-with-suppression nor undefined for all: {vals}', 'omitted:' + t)
                break
            if constant and suppr and t in PREAMBLE:
                shown_pre = pre.get(cols[t]['full'].lower().split(' /')[0], pre.get(t.replace('_', ' ')))
                if shown_pre is None or str(shown_pre) not in (str(vals[0]), str(int(vals[0])) if isinstance(vals[0], float) and vals[0].is_integer() else str(vals[0])):
                    bad = (f'omitted constant {t}={vals[0]} is not shown in the preamble (preamble has {shown_pre!r})', 'preamble:' + t)
                    break
        if bad:
            ctx.fail('spec', 'sheet', {**case, 'preamble': pre}, bad[0], bad[1])
            continue
        # --- model
        if m['order'] != order or m['kept'] != shown:
            ctx.fail('corr', 'sheet', case, f'model order/kept {m["order"]} {m["kept"]} vs implementation {order} {shown}')


def replay(ctx, payload):
    ctx.notes.append('C18 replays re-run the stream with the same seed')
    run(ctx)

"""C04 — waveguide segments chain continuously and land on the documented point."""
from __future__ import annotations

import math
import struct
import warnings

import core

warnings.simplefilter('ignore')

REQUIRED = ['circ_starts_at_last', 'circ_ends', 'circ_on_circle', 'sbend_cos', 'arc_bend_lands', 'arc_coupler_lands', 'arc_mzi_lands',
            'sin_starts_at_last', 'sin_ends', 'sin_bridge_lands', 'sin_variants', 'spline_lands', 'coupler_helper', 'linear_spec',
            'end_returns']
RULE = ('stream chain: random chains (1..10 calls) of linear ABS/INC (with None entries), circ, arc_bend, arc_coupler, arc_mzi, '
        'sin_bridge / sin_bend / sin_comp (incl. explicit disp_x and flat_peaks), sin_coupler, sin_mzi, spline, spline_bridge on real '
        'Waveguide objects, all sign combinations of dy/dz, radii 0.05..500, explicit zero int_length / arm_length against non-zero '
        'attributes, per-call and attribute speeds; after every call (a) the first appended point must equal the previous last '
        'point exactly for curved segments, (b) lastpt must equal start + documented displacement (closed forms evaluated by the '
        'harness in double precision) within 4e-6*scale*calls, (c) circ points lie on the circle, (d) lastpt must agree with the '
        'Lean model run at Float; end() must return to the first point closed at speed_closed.  stream helper: coupler() for '
        'random pitch / int_dist / int_length / sample sizes — arms int_dist apart over the interaction region centred on the '
        'sample and one pitch apart at both ends.  non-trivial = chain with >= 2 curved segments.')
ASSUMPTIONS = [
    'float32 storage of every point: "exactly" is compared to float32 rounding per stored point (sampled)',
    'SciPy BPoly.from_derivatives meets its interpolation contract (sampled by the spline cases)',
]
CLAIM = {
    'text': 'Lean 4 theorems over the reals (true cos, sin, arccos, sqrt) about the very definitions the driver executes at Float: '
            'a circular arc starts exactly at the current end, ends at circEnd and has all points on the circle of radius |r|; for '
            'every r > 0 and |dy| <= 4r and both signs the S-bend lands on (x + sbendLength, y + dy, z); coupler and MZI land on '
            '2 (4) S-bend lengths + |int_length| (+ |arm_length|) at the entry y and z; sinusoidal segments with natural frequencies '
            'reach dx, reach dy iff the y frequency is odd and return to the original depth iff the z frequency is even, for any '
            'peak flatness; spline landing from the interpolation contract; coupler-helper algebra over any field; linear ABS/INC '
            'and end() over the rationals. Tied to the code by running the model next to real Waveguide chains, every run.',
    'note': 'Trusted: Lean kernel/Mathlib; Model/Waveguide.lean executed at Float (libm) and tied differentially; float32 storage and '
            'SciPy splines sampled.',
    'technique': 'Lean 4 proof (real trigonometry) + differential correspondence at Float + spec-on-implementation',
}


def bits(x: float) -> int:
    return struct.unpack('<Q', struct.pack('<d', float(x)))[0]


def unbits(n: int) -> float:
    return struct.unpack('<d', struct.pack('<Q', int(n)))[0]


def sbend_len(dy, r):
    a = math.acos(1 - abs(dy / 2) / r)
    return 2 * r * math.sin(a)


def run_chain(ctx):
    import numpy as np
    from femto.waveguide import Waveguide
    rng = ctx.rng
    cases, reqs = [], []
    for i in range(ctx.n(500, 8000)):
        r_attr = rng.choice([15.0, 30.0, 5.0, 0.5, 100.0])
        il_attr = rng.choice([0.0, 0.3, 1.0])
        al_attr = rng.choice([0.0, 0.5])
        with core.quiet():
            warp = rng.random() < 0.2      # with warp_flag straight moves are subdivided like curves
            wg = Waveguide(speed=rng.choice([20.0, 5.0]), radius=r_attr, int_length=il_attr, arm_length=al_attr, cmd_rate_max=rng.choice([1200, 200]),
                           speed_closed=rng.choice([5, 40.0]), samplesize=(100, 50), warp_flag=warp)
            start = [rng.choice([-2.0, 0.0, 3.5]), rng.choice([0.0, 0.5, -1.25]), rng.choice([0.035, 0.0, -0.5])]
            wg.start(start)
        ops, steps, bad = [], [], None
        ncurved = 0
        for _ in range(rng.randint(1, 10)):
            k = rng.choice(['lin_inc', 'lin_abs', 'circ', 'arc_bend', 'arc_coupler', 'arc_mzi', 'sin_bridge', 'sin_bend', 'sin_comp', 'sin_dispx',
                            'sin_coupler', 'sin_mzi', 'spline', 'spline_bridge'])
            if rng.random() < 0.15:
                # the object's own radius is reassigned in mid-chain: later segments without a per-call radius must use the new one
                r_attr = rng.choice([v for v in (15.0, 30.0, 5.0, 0.5, 100.0) if v != r_attr])
                wg.radius = r_attr
                ctx.count('chain.history', 'radius-reassigned')
            r = rng.choice([None, None, 15.0, 40.0, 1.0, 0.05, 500.0])
            rr = r if r is not None else r_attr
            dy = rng.choice([0.08, -0.08, 0.04, -0.3, 0.0365, 1.0, -1.9]) * (1 if rr >= 1 else 0.01)
            if abs(dy) > 3.9 * rr:
                dy = math.copysign(rr, dy)
            sp = rng.choice([None, None, 7.5])
            n0 = wg._x.size
            last = [float(v) for v in wg.lastpt]
            last64 = [float(wg._x[-1]), float(wg._y[-1]), float(wg._z[-1])]
            exp = None
            mop = None
            try:
                with core.quiet():
                    if k == 'lin_inc':
                        inc = [rng.choice([1.0, 0.5, None, -0.25, 0.0]) for _ in range(3)]
                        wg.linear(inc, mode='INC', speed=sp, shutter=rng.choice([1, 1, 0]))
                        exp = [last64[j] + (inc[j] or 0) for j in range(3)]
                        mop = None
                    elif k == 'lin_abs':
                        tgt = [rng.choice([None, 4.0, 0.25, -1.0]) for _ in range(3)]
                        wg.linear(tgt, mode='ABS', speed=sp)
                        exp = [last64[j] if tgt[j] is None else tgt[j] for j in range(3)]
                    elif k == 'circ':
                        a0 = rng.choice([0.0, 1.5 * math.pi, 0.5 * math.pi, 1.0, -2.0])
                        a1 = a0 + rng.choice([0.3, -0.3, 0.01, 1.2])
                        wg.circ(a0, a1, radius=r, speed=sp)
                        exp = [last64[0] + rr * (-math.cos(a0) + math.cos(a1)), last64[1] + rr * (-math.sin(a0) + math.sin(a1)), last64[2]]
                        mop = {'k': 'circ', 'r': bits(rr), 'a0': bits(a0), 'a1': bits(a1)}
                        ncurved += 1
                    elif k == 'arc_bend':
                        wg.arc_bend(dy, radius=r, speed=sp)
                        exp = [last64[0] + sbend_len(dy, rr), last64[1] + dy, last64[2]]
                        mop = {'k': 'arc_bend', 'dy': bits(dy), 'r': bits(rr)}
                        ncurved += 1
                    elif k == 'arc_coupler':
                        il = rng.choice([None, 0.0, 0.7, -0.4, 0])
                        wg.arc_coupler(dy, radius=r, int_length=il, speed=sp)
                        ile = il_attr if il is None else il
                        exp = [last64[0] + 2 * sbend_len(dy, rr) + abs(ile), last64[1], last64[2]]
                        mop = {'k': 'arc_coupler', 'dy': bits(dy), 'r': bits(rr), 'il': bits(ile)}
                        ncurved += 1
                    elif k == 'arc_mzi':
                        il = rng.choice([None, 0.0, 0.7, 0])
                        al = rng.choice([None, 0.0, 1.5, -0.5, 0])
                        wg.arc_mzi(dy, radius=r, int_length=il, arm_length=al, speed=sp)
                        ile, ale = (il_attr if il is None else il), (al_attr if al is None else al)
                        exp = [last64[0] + 4 * sbend_len(dy, rr) + 2 * abs(ile) + abs(ale), last64[1], last64[2]]
                        mop = {'k': 'arc_mzi', 'dy': bits(dy), 'r': bits(rr), 'il': bits(ile), 'al': bits(ale)}
                        ncurved += 1
                    elif k in ('sin_bridge', 'sin_bend', 'sin_comp', 'sin_dispx'):
                        if dy == 0:
                            dy = 0.05
                        fp = rng.choice([0.0, 0.0, 1.5, 10.0])
                        dz = rng.choice([None, 0.01, -0.02, 0.0])
                        if k == 'sin_bridge':
                            wg.sin_bridge(dy, dz, flat_peaks=fp, radius=r, speed=sp)
                            dze = wg.dz_bridge if dz is None else dz
                            exp = [last64[0] + sbend_len(dy, rr), last64[1] + dy, last64[2]]
                            mop = {'k': 'sin', 'dy': bits(dy), 'r': bits(rr), 'dz': bits(dze), 'fp': bits(fp), 'wy': bits(1), 'wz': bits(2)}
                        elif k == 'sin_bend':
                            wg.sin_bend(dy, flat_peaks=fp, radius=r, speed=sp)
                            exp = [last64[0] + sbend_len(dy, rr), last64[1] + dy, last64[2]]
                            mop = {'k': 'sin', 'dy': bits(dy), 'r': bits(rr), 'dz': bits(0), 'fp': bits(fp), 'wy': bits(1), 'wz': bits(2)}
                        elif k == 'sin_comp':
                            wg.sin_comp(dy, flat_peaks=fp, radius=r, speed=sp)
                            exp = [last64[0] + sbend_len(dy, rr), last64[1], last64[2]]
                            mop = {'k': 'sin', 'dy': bits(dy), 'r': bits(rr), 'dz': bits(0), 'fp': bits(fp), 'wy': bits(2), 'wz': bits(2)}
                        else:
                            dxx = rng.choice([0.5, 2.0, 0.01])
                            wy, wz = rng.choice([(1.0, 2.0), (1.0, 1.0), (3.0, 2.0), (2.0, 1.0)])
                            dze = 0.01
                            wg.sin_bridge(dy, dze, disp_x=dxx, omega=(wy, wz), flat_peaks=fp, radius=r, speed=sp)
                            exp = [last64[0] + dxx, last64[1] + (dy if int(wy) % 2 else 0), last64[2] + (dze if int(wz) % 2 else 0)]
                            mop = {'k': 'sin', 'dy': bits(dy), 'r': bits(rr), 'dx': bits(dxx), 'dz': bits(dze), 'fp': bits(fp), 'wy': bits(wy), 'wz': bits(wz)}
                        ncurved += 1
                    elif k == 'sin_coupler':
                        if dy == 0:
                            dy = -0.05
                        il = rng.choice([None, 0.0, 0.7, 0])
                        wg.sin_coupler(dy, radius=r, int_length=il, speed=sp)
                        ile = il_attr if il is None else il
                        exp = [last64[0] + 2 * sbend_len(dy, rr) + abs(ile), last64[1], last64[2]]
                        mop = {'k': 'sin_coupler', 'dy': bits(dy), 'r': bits(rr), 'il': bits(ile), 'fp': bits(0)}
                        ncurved += 1
                    elif k == 'sin_mzi':
                        if dy == 0:
                            dy = 0.05
                        il = rng.choice([None, 0.0, 0.7, 0])
                        al = rng.choice([None, 0.0, 1.5, 0])
                        wg.sin_mzi(dy, radius=r, int_length=il, arm_length=al, speed=sp)
                        ile, ale = (il_attr if il is None else il), (al_attr if al is None else al)
                        exp = [last64[0] + 4 * sbend_len(dy, rr) + 2 * abs(ile) + abs(ale), last64[1], last64[2]]
                        ncurved += 1
                    elif k == 'spline':
                        if dy == 0:
                            dy = 0.05
                        dz = rng.choice([0.0, 0.01, -0.02])
                        dxx = rng.choice([None, 0.5, 2.0])
                        wg.spline(dy, dz, disp_x=dxx, radius=r, speed=sp)
                        dxe = dxx if dxx is not None else sbend_len(math.sqrt(dy ** 2 + dz ** 2), rr)
                        exp = [last64[0] + dxe, last64[1] + dy, last64[2] + dz]
                        ncurved += 1
                    else:
                        if dy == 0:
                            dy = 0.05
                        dz = rng.choice([0.01, -0.02])
                        dxx = rng.choice([None, 0.5])
                        wg.spline_bridge(dy, dz, disp_x=dxx, radius=r, speed=sp)
                        dxe = dxx if dxx is not None else sbend_len(math.sqrt(dy ** 2 + dz ** 2), rr)
                        exp = [last64[0] + 2 * dxe, last64[1] + dy, last64[2]]
                        ncurved += 1
            except Exception as e:
                bad = (k, f'{type(e).__name__}: {e}', {'dy': dy, 'r': rr})
                break
            now = [float(wg._x[-1]), float(wg._y[-1]), float(wg._z[-1])]
            try:
                view = [float(v) for v in wg.lastpt]
            except Exception as e:
                view = f'{type(e).__name__}: {e}'
            if view != now and bad is None:
                bad = (k, f'lastpt reports {view} but the last stored point is {now}', {'dy': dy, 'r': rr})
                break
            first = [float(wg._x[n0]), float(wg._y[n0]), float(wg._z[n0])] if wg._x.size > n0 else None
            circ_pts = None
            if k == 'circ':
                circ_pts = (last64, rr, a0, np.array(wg._x[n0:], dtype=np.float64), np.array(wg._y[n0:], dtype=np.float64))
            lin_pts = None
            if k in ('lin_inc', 'lin_abs') and wg._x.size - n0 > 1:
                lin_pts = np.column_stack([np.array(wg._x[n0:], dtype=np.float64), np.array(wg._y[n0:], dtype=np.float64), np.array(wg._z[n0:], dtype=np.float64)])
            steps.append({'k': k, 'last': last64, 'first': first, 'now': now, 'exp': exp, 'circ': circ_pts, 'r': rr, 'dy': dy, 'lin': lin_pts, 'warp': warp})
            ops.append(mop if mop is not None else {'k': 'set', 'x': bits(now[0]), 'y': bits(now[1]), 'z': bits(now[2])})
        # end()
        endinfo = None
        if bad is None:
            with core.quiet():
                wg.end()
            endinfo = ([float(wg._x[-1]), float(wg._y[-1]), float(wg._z[-1])], float(wg._s[-1]), float(wg._f[-1]), float(wg.speed_closed),
                       [float(wg._x[0]), float(wg._y[0]), float(wg._z[0])], float(wg._s[-2]))
        cases.append((start, steps, bad, endinfo, ncurved))
        reqs.append({'op': 'c04.chain', 'start': [bits(np.float32(v)) for v in start], 'ops': ops})
    res = ctx.driver.ask(reqs)
    for (start, steps, bad, endinfo, ncurved), m in zip(cases, res):
        if isinstance(m, dict) and 'driver_error' in m:
            raise core.InfraError(m['driver_error'])
        summary = {'start': start, 'warp_flag': bool(steps and steps[0]['warp']), 'ops': [{'k': s['k'], 'r': s['r'], 'dy': s['dy']} for s in steps]}
        ctx.seen({'stream': 'chain', **summary}, ncurved >= 2)
        for s in steps:
            ctx.count('chain.op', s['k'])
        if bad:
            ctx.fail('spec', 'chain', {**summary, 'failed_op': bad[0], 'args': bad[2]}, f'{bad[0]} raised {bad[1]}', 'raised:' + bad[0])
            continue
        scale = 1.0
        ok = True
        for j, s in enumerate(steps):
            scale = max(scale, max(abs(v) for v in s['now']))
            tol = 4e-6 * scale * (j + 2)
            if s['lin'] is not None:
                # a subdivided straight move: starts at the current end, every point on the segment to the documented end
                a, b = np.array(s['last']), np.array(s['exp'])
                ab = b - a
                L2 = float(ab @ ab)
                off = 0.0
                for pnt in s['lin']:
                    t = 0.0 if L2 == 0 else min(1.0, max(0.0, float((pnt - a) @ ab) / L2))
                    off = max(off, float(np.linalg.norm(pnt - (a + t * ab))))
                if list(s['lin'][0]) != s['last'] or off > tol:
                    ctx.fail('spec', 'chain', {**summary, 'step': j, 'first': list(s['lin'][0]), 'last': s['last'], 'off_segment': off},
                             f'subdivided {s["k"]} does not start at the current end or leaves the straight segment (by {off:.3g})', 'continuity:linear')
                    ok = False
                    break
            if s['k'] not in ('lin_inc', 'lin_abs') and s['first'] is not None and s['first'] != s['last']:
                ctx.fail('spec', 'chain', {**summary, 'step': j}, f'{s["k"]} does not start at the current end: {s["first"]} vs {s["last"]}', 'continuity')
                ok = False
                break
            if any(not math.isfinite(v) for v in s['now']) or any(abs(a - b) > tol for a, b in zip(s['now'], s['exp'])):
                ctx.fail('spec', 'chain', {**summary, 'step': j, 'lastpt': s['now'], 'documented': s['exp']},
                         f'{s["k"]} lands on {s["now"]}, documented displacement gives {s["exp"]}', 'landing:' + s['k'])
                ok = False
                break
            if s['circ'] is not None:
                p, rr, a0, xs, ys = s['circ']
                cx, cy = p[0] - rr * math.cos(a0), p[1] - rr * math.sin(a0)
                d = np.sqrt((xs - cx) ** 2 + (ys - cy) ** 2)
                if np.max(np.abs(d - rr)) > 4e-6 * (scale + rr):
                    ctx.fail('spec', 'chain', {**summary, 'step': j}, 'circ points are not on the circle of the given radius', 'on-circle')
                    ok = False
                    break
            mp = [unbits(v) for v in m[j]]
            if any(abs(a - b) > tol + 4e-6 * scale for a, b in zip(s['now'], mp)):
                ctx.fail('corr', 'chain', {**summary, 'step': j, 'lastpt': s['now'], 'model': mp}, f'{s["k"]}: lastpt differs from the model run at Float')
                ok = False
                break
        if ok and endinfo:
            endpt, s_last, f_last, sc, firstpt, s_prev = endinfo
            if endpt != firstpt or s_last != 0 or s_prev != 0 or abs(f_last - sc) > 1e-6 * sc:
                ctx.fail('spec', 'chain', summary, 'end() does not return to the first point with the shutter closed at speed_closed', 'end')


def run_helper(ctx):
    import numpy as np
    from femto.waveguide import coupler
    rng = ctx.rng
    for i in range(ctx.n(60, 800)):
        pitch = rng.choice([0.08, 0.127, 0.25])
        int_dist = rng.choice([0.007, 0.0, 0.01, 0.05])
        il = rng.choice([0.0, 0.5, 1.3])
        sx = rng.choice([25.0, 50.0, 10.0])
        radius = rng.choice([15.0, 30.0])
        param = dict(pitch=pitch, int_dist=int_dist, int_length=il, samplesize=(sx, 5), radius=radius, speed=20, y_init=rng.choice([0.0, 1.0]),
                     lsafe=2.0)
        scf = rng.choice([1.0, 1.0, 0.9993, 1.25])
        if scf != 1.0:
            # glass-shrink correction: a pitch equal to the fibre-array pitch (0.127 by default) is divided by the factor once
            param['shrink_correction_factor'] = scf
            if pitch == 0.127:
                pitch = pitch / scf
        case = {'param': {k: (list(v) if isinstance(v, tuple) else v) for k, v in param.items()}}
        ctx.seen({'stream': 'helper', **case}, il > 0)
        try:
            with core.quiet():
                m1, m2 = coupler(dict(param))
        except Exception as e:
            ctx.fail('spec', 'helper', case, f'coupler() raised {type(e).__name__}: {e}', 'raised:coupler')
            continue
        p1, p2 = np.asarray(m1.points, dtype=np.float64), np.asarray(m2.points, dtype=np.float64)
        o1, o2 = p1[:, p1[4] == 1], p2[:, p2[4] == 1]
        # distance at the sample centre, and where the interaction region sits
        def y_at(o, x):
            return float(np.interp(x, o[0], o[1]))
        dxb = sbend_len((pitch - int_dist) / 2, radius)
        xc = sx / 2
        tol = 5e-6 * (1 + sx)
        d_centre = y_at(o2, xc) - y_at(o1, xc)
        d_ends = (y_at(o2, o1[0][0] + 0.1) - y_at(o1, o1[0][0] + 0.1), y_at(o2, sx) - y_at(o1, sx))
        bad = None
        if abs(d_centre - int_dist) > tol:
            bad = f'arms are {d_centre} apart at the centre of the sample, interaction distance is {int_dist}'
        elif any(abs(d - pitch) > tol for d in d_ends):
            bad = f'arms are {d_ends} apart at the ends, pitch is {pitch}'
        else:
            for xq in (xc - il / 2 + 1e-3, xc + il / 2 - 1e-3):
                if il > 0 and abs((y_at(o2, xq) - y_at(o1, xq)) - int_dist) > tol + 1e-5:
                    bad = f'interaction region is not centred on the sample: distance {y_at(o2, xq) - y_at(o1, xq)} at x={xq}'
            if bad is None and abs(o1[0][-1] - (sx + 2.0)) > tol:
                bad = 'arm does not run to the end of the sample'
        if bad:
            ctx.fail('spec', 'helper', case, 'coupler(): ' + bad, 'helper')


def run(ctx):
    run_chain(ctx)
    run_helper(ctx)


def replay(ctx, payload):
    ctx.notes.append('C04 replays re-run the streams with the same seed')
    run(ctx)

"""Regeneration of lean/FemtoVerif/Gen/*.lean from the repository's working tree (DESIGN 3.1, 3.2)."""
from __future__ import annotations


def regen() -> dict:
    try:
        import gen  # /verif/harness/gen.py
    except ImportError:
        return {'status': 'no generator yet'}
    return gen.regen_all()

"""(D) data extraction and (T) arithmetic-kernel translation: regenerate lean/FemtoVerif/Gen/*.lean from the working tree
of the repository under check.  Files are rewritten only when their content changes (keeps `lake build` incremental)."""
from __future__ import annotations

import hashlib
import json
import pathlib

import core

GEN = core.LEAN / 'FemtoVerif' / 'Gen'


def _write(path: pathlib.Path, text: str) -> bool:
    if path.exists() and path.read_text() == text:
        return False
    path.parent.mkdir(parents=True, exist_ok=True)
    path.write_text(text)
    return True


def gen_data() -> dict:
    utils = core.REPO / 'src' / 'femto' / 'utils'
    lasers = sorted(p.stem[len('header_'):] for p in utils.glob('header_*.txt'))
    drv = core.Driver()
    texts = [(utils / f'header_{l}.txt').read_text() for l in lasers]
    reprs = drv.ask([{'op': 'ctl.repr', 'text': t} for t in texts])
    # the PSO axis label comes from the implementation's own property
    core.use_repo_sources()
    from femto.pgmcompiler import PGMCompiler
    labels = []
    for l in lasers:
        try:
            labels.append(PGMCompiler(filename='x.pgm', laser=l.upper()).pso_label)
        except Exception as e:  # a laser without label: recorded, the theorems over Gen.headers will not check
            labels.append('?')
    lines = ['-- GENERATED on every run by /verif/harness/gen.py from src/femto/utils/header_*.txt and PGMCompiler.pso_label.',
             '-- Do not edit: the content is a function of the repository working tree.',
             'import FemtoVerif.Spec.Controller', '', 'namespace Femto.Gen', 'open Femto.Ctl', '',
             f'def lasers : List String := {json.dumps(lasers)}', '']
    for l, r in zip(lasers, reprs):
        lines.append(f'def header_{l} : List Instr :=\n  {r}'.replace('\n', '\n  ').replace('Femto.Ctl.Instr.', '.'))
        lines.append('')
    entries = ', '.join(f'({json.dumps(l)}, {json.dumps(lab)}, header_{l})' for l, lab in zip(lasers, labels))
    lines += ['/-- laser name, PSO axis label used by the compiler for that laser, parsed header file -/',
              f'def headers : List (String × String × List Instr) := [{entries}]', '', 'end Femto.Gen', '']
    text = '\n'.join(lines)
    changed = _write(GEN / 'Data.lean', text)
    return {'file': 'Gen/Data.lean', 'sha1': hashlib.sha1(text.encode()).hexdigest(), 'changed': changed, 'lasers': lasers}


def regen_all() -> dict:
    rep = {'data': gen_data()}
    try:
        import py2lean
        rep['translated'] = py2lean.regen(GEN / 'Translated.lean')
    except ImportError:
        rep['translated'] = {'status': 'translator not built yet'}
    return rep

"""Entry point: `python harness/run.py <ID> [--tier quick|thorough] [--replay FILE]` (normally via /verif/check)."""
from __future__ import annotations

import argparse
import importlib
import json
import os
import pathlib
import sys
import time
import traceback

sys.path.insert(0, str(pathlib.Path(__file__).resolve().parent))
import core  # noqa: E402


def main() -> int:
    ap = argparse.ArgumentParser()
    ap.add_argument('pid')
    ap.add_argument('--tier', default=os.environ.get('VERIF_TIER', 'quick'), choices=['quick', 'thorough'])
    ap.add_argument('--replay', default=None)
    a = ap.parse_args()
    pid = a.pid.upper()
    seed = int(os.environ.get('VERIF_SEED', '0') or 0)
    ctx = core.Ctx(pid, a.tier, seed)
    try:
        mod = importlib.import_module(f'props.{pid.lower()}')
        from tools_bridge import regen
        try:
            import py2lean
            ties = py2lean.tie_modules(pid)
        except ImportError:
            ties = []
        proof = core.prove(pid, mod.REQUIRED, a.tier, list(getattr(mod, 'EXTRA_MODULES', None) or []) + ties, regen=regen)
        regen_report = proof.get('regen', {})
        core.use_repo_sources()
        if a.replay:
            payload = json.loads(pathlib.Path(a.replay).read_text())
            mod.replay(ctx, payload)
        else:
            changed = core.changed_sources(pid)
            if changed and a.tier == 'quick':
                ctx.boost = 4
                ctx.notes.append('source fingerprint differs in ' + ', '.join(changed) + ': quick budget x4')
            mod.run(ctx)
            broke = (not proof.get('ok')) or any(f.kind == 'corr' for f in ctx.failures)
            found = any(f.kind == 'spec' for f in ctx.failures)
            if broke and not found and a.tier == 'quick':
                # a proof obligation or the correspondence broke: search harder for a concrete failing input
                ctx.escalated = True
                ctx.notes.append('escalated: searching for a failing input with the thorough budget')
                mod.run(ctx)
        rc = core.conclude(ctx, mod, proof)
        core.write_evidence(ctx, proof, mod.RULE, mod.ASSUMPTIONS, 0 if rc == 0 else 1,
                            extra={'regen': regen_report, **(mod.extra_evidence(ctx) if hasattr(mod, 'extra_evidence') else {})})
        print(f'[{pid}] tier={a.tier} seed={seed} proof_ok={proof.get("ok")} obligations={proof.get("obligations")} '
              f'discharged={proof.get("discharged")} evaluations={ctx.evaluations} distinct={len(ctx.nontrivial)} '
              f'failures={len(ctx.failures)} wall={time.time() - ctx.t0:.1f}s rc={rc}')
        return rc
    except core.InfraError as e:
        print(f'[{pid}] infrastructure failure: {e}', file=sys.stderr)
        return 2
    except Exception as e:
        # An exception that comes out of the library under check (a frame of its source is on the stack) on an input no stream
        # expected to be rejected is reported as what it is — the library failing on a generated input — with the traceback
        # as the replay, instead of ending the run as an infrastructure failure.
        tb = traceback.extract_tb(e.__traceback__)
        lib = [f for f in tb if f.filename.startswith(str(core.REPO) + os.sep)]
        if lib and not a.replay and 'mod' in locals() and 'proof' in locals():
            where = f'{pathlib.Path(lib[-1].filename).name}:{lib[-1].lineno} in {lib[-1].name}'
            ctx.fail('spec', 'exception', {'last_case_seen': ctx.last_case, 'traceback': traceback.format_exc()[-3000:]},
                     f'the library raised {type(e).__name__}: {e} ({where}) where the check expected a result', 'raised:uncaught')
            rc = core.conclude(ctx, mod, proof)
            core.write_evidence(ctx, proof, mod.RULE, mod.ASSUMPTIONS, 1, extra={'regen': proof.get('regen', {})})
            print(f'[{pid}] tier={a.tier} seed={seed} proof_ok={proof.get("ok")} evaluations={ctx.evaluations} failures={len(ctx.failures)} '
                  f'(the library raised where the check expected a result) rc={rc}')
            return rc
        changed = []
        try:
            changed = core.changed_sources(pid)
        except Exception:  # noqa
            pass
        if changed and not a.replay and 'mod' in locals() and 'proof' in locals():
            # The library's source differs from the fingerprinted one and the harness could not digest what the library returned
            # (a result of another shape or type than the correspondence expects): the correspondence no longer checks.  On the
            # fingerprinted source the same exception is an infrastructure failure of the check itself (exit 2).
            ctx.fail('corr', 'harness', {'last_case_seen': ctx.last_case, 'traceback': traceback.format_exc()[-3000:], 'changed_sources': changed},
                     f'the harness could not interpret what the library returned ({type(e).__name__}: {e})', 'corr:uninterpretable')
            rc = core.conclude(ctx, mod, proof)
            core.write_evidence(ctx, proof, mod.RULE, mod.ASSUMPTIONS, 1, extra={'regen': proof.get('regen', {})})
            print(f'[{pid}] tier={a.tier} seed={seed} proof_ok={proof.get("ok")} evaluations={ctx.evaluations} failures={len(ctx.failures)} '
                  f'(the harness could not interpret a result of the changed library) rc={rc}')
            return rc
        traceback.print_exc()
        print(f'[{pid}] infrastructure failure (unexpected exception in the harness)', file=sys.stderr)
        return 2


if __name__ == '__main__':
    sys.exit(main())

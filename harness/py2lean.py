"""(T) Translator for arithmetic kernels: Python AST -> Lean 4 definitions, regenerated from /repo on every run, each followed by
a *tie theorem* `Gen.f … = Model.f …` that Lean re-checks against what the code says now (DESIGN 3.1, 11.1).

Scope (deliberately small): methods / properties whose body is an optional docstring, any number of guards of the form
`if <test>: raise …` (skipped: they reject inputs, they do not compute) and one `return <expr>`, where <expr> is built from
numeric literals, `self.<attr>`, `+ - * /`, unary minus, `abs`, `ceil`, `floor`, `round`, `int(·)` of an integer, `float(·)`.
Every `self.<attr>` becomes a rational parameter of the generated definition (parameters in alphabetical order).

A kernel the translator cannot read (new syntax) is *not* a semantic difference: its tie is dropped for this run and the
report says `correspondence-only`, the property stays tied by the differential check.  A kernel it can read whose tie no
longer proves (changed constant, sign, ceil -> round, dropped term, other inputs) is a broken proof obligation.
"""
from __future__ import annotations

import ast
import fractions
import hashlib
import pathlib

import core

# kernel -> (file, class, function, property it serves, model expression over the expected parameters, proof script)
KERNELS = [
    ('adj_bridge', 'trench.py', 'TrenchColumn', 'adj_bridge', 'C05', ['beam_waist', 'bridge', 'round_corner'],
     'Femto.Tr.adjBridge bridge beam_waist round_corner', 'unfold adj_bridge Femto.Tr.adjBridge; ring'),
    ('n_repeat', 'trench.py', 'TrenchColumn', 'n_repeat', 'C06', ['deltaz', 'h_box', 'z_off'],
     'Femto.TP.nRepeat h_box z_off deltaz', 'unfold n_repeat Femto.TP.nRepeat; rfl'),
    ('adj_pillar_width', 'trench.py', 'UTrenchColumn', 'adj_pillar_width', 'C06', ['beam_waist', 'pillar_width'],
     'pillar_width / 2 + beam_waist', 'unfold adj_pillar_width; ring'),
    ('total_height', 'trench.py', 'TrenchColumn', 'total_height', 'C06', ['h_box', 'nboxz'],
     'nboxz * h_box', 'unfold total_height; ring'),
    ('neff', 'pgmcompiler.py', 'PGMCompiler', 'neff', 'C02', ['n_environment', 'n_glass'],
     'n_glass / n_environment', 'unfold neff; ring'),
    ('dy_bend', 'waveguide.py', 'Waveguide', 'dy_bend', 'C04', ['int_dist', 'pitch'],
     'Femto.Wg.dyBend pitch int_dist', 'unfold dy_bend Femto.Wg.dyBend; ring'),
    ('dx_coupler', 'waveguide.py', 'Waveguide', 'dx_coupler', 'C04', ['dx_bend', 'int_length'],
     '2 * dx_bend + int_length', 'unfold dx_coupler; ring'),
    ('dx_mzi', 'waveguide.py', 'Waveguide', 'dx_mzi', 'C04', ['arm_length', 'dx_bend', 'int_length'],
     '4 * dx_bend + 2 * int_length + arm_length', 'unfold dx_mzi; ring'),
    ('dl', 'laserpath.py', 'LaserPath', 'dl', 'C13', ['cmd_rate_max', 'speed'],
     'speed / cmd_rate_max', 'unfold dl; ring'),
]


class Unsupported(Exception):
    pass


def _lit(v) -> str:
    if isinstance(v, bool):
        raise Unsupported('bool literal')
    if isinstance(v, int):
        return f'({v} : Rat)'
    if isinstance(v, float):
        fr = fractions.Fraction(repr(v))
        return f'(({fr.numerator} : Rat) / {fr.denominator})'
    raise Unsupported(f'literal {v!r}')


def _expr(e, params: set) -> tuple[str, str]:
    """-> (lean term, type in {'Rat', 'Int', 'Nat'})"""
    if isinstance(e, ast.Constant):
        return _lit(e.value), 'Rat'
    if isinstance(e, ast.Attribute) and isinstance(e.value, ast.Name) and e.value.id == 'self':
        params.add(e.attr)
        return e.attr, 'Rat'
    if isinstance(e, ast.UnaryOp) and isinstance(e.op, ast.USub):
        t, ty = _expr(e.operand, params)
        return f'(-{t})', ty
    if isinstance(e, ast.BinOp) and isinstance(e.op, (ast.Add, ast.Sub, ast.Mult, ast.Div)):
        a, ta = _expr(e.left, params)
        b, tb = _expr(e.right, params)
        a = a if ta == 'Rat' else f'(({a} : {ta}) : Rat)'
        b = b if tb == 'Rat' else f'(({b} : {tb}) : Rat)'
        op = {ast.Add: '+', ast.Sub: '-', ast.Mult: '*', ast.Div: '/'}[type(e.op)]
        return f'({a} {op} {b})', 'Rat'
    if isinstance(e, ast.Call) and not e.keywords and len(e.args) == 1:
        fn = e.func
        name = fn.id if isinstance(fn, ast.Name) else (f'{fn.value.id}.{fn.attr}' if isinstance(fn, ast.Attribute) and isinstance(fn.value, ast.Name) else None)
        t, ty = _expr(e.args[0], params)
        if name in ('math.ceil', 'np.ceil', 'numpy.ceil'):
            if ty != 'Rat':
                raise Unsupported('ceil of an integer')
            return f'(Rat.ceil {t})', 'Int'
        if name in ('math.floor', 'np.floor', 'numpy.floor'):
            if ty != 'Rat':
                raise Unsupported('floor of an integer')
            return f'(Rat.floor {t})', 'Int'
        if name == 'round':
            if ty != 'Rat':
                return t, ty
            return f'(Femto.Gc.roundHalfEven {t})', 'Int'
        if name in ('abs', 'np.abs', 'np.fabs', 'math.fabs'):
            if ty == 'Int':
                return f'(Int.natAbs {t})', 'Nat'
            if ty == 'Nat':
                return t, 'Nat'
            return f'(if {t} < 0 then -{t} else {t})', 'Rat'
        if name == 'int':
            if ty in ('Int', 'Nat'):
                return t, ty
            raise Unsupported('int() of a non-integer (truncation)')
        if name == 'float':
            return t, ty
        raise Unsupported(f'call {name}')
    raise Unsupported(ast.dump(e)[:60])


def translate(src: str, cls: str, func: str) -> tuple[str, list[str], str]:
    """-> (lean body, parameters, result type)"""
    tree = ast.parse(src)
    for node in tree.body:
        if isinstance(node, ast.ClassDef) and node.name == cls:
            for f in node.body:
                if isinstance(f, ast.FunctionDef) and f.name == func:
                    body = list(f.body)
                    if body and isinstance(body[0], ast.Expr) and isinstance(body[0].value, ast.Constant) and isinstance(body[0].value.value, str):
                        body = body[1:]
                    while body and isinstance(body[0], ast.If) and all(isinstance(s, ast.Raise) for s in body[0].body) and not body[0].orelse:
                        body = body[1:]
                    if len(body) != 1 or not isinstance(body[0], ast.Return) or body[0].value is None:
                        raise Unsupported('body is not a single return')
                    params: set = set()
                    t, ty = _expr(body[0].value, params)
                    return t, sorted(params), ty
    raise Unsupported(f'{cls}.{func} not found')


HEADER = '''-- GENERATED on every run by /verif/harness/py2lean.py from the Python source of /repo (arithmetic kernels of property {pid}).
-- Do not edit: the definitions are a function of the repository working tree; the tie theorems compare them with the
-- hand-written model.  A tie that stops checking is a broken proof obligation of {pid}.
import FemtoVerif.Model.Trench
import FemtoVerif.Model.TrenchProg
import FemtoVerif.Model.Waveguide
import FemtoVerif.Model.Gcode
import Mathlib.Tactic.Ring
import Mathlib.Algebra.Order.Field.Rat

namespace Femto.Gen.{pid}
'''


def regen(_path_unused: pathlib.Path | None = None) -> dict:
    gen_dir = core.LEAN / 'FemtoVerif' / 'Gen'
    by_pid: dict[str, list] = {}
    report = {'kernels': {}, 'files': {}}
    for (lname, fn, cls, func, pid, expect, model, proof) in KERNELS:
        src = (core.REPO / 'src' / 'femto' / fn).read_text()
        try:
            body, params, ty = translate(src, cls, func)
        except (Unsupported, SyntaxError) as e:
            report['kernels'][f'{cls}.{func}'] = f'correspondence-only ({e})'
            by_pid.setdefault(pid, []).append(f'-- {cls}.{func}: not translated this run ({e}); tied by correspondence only\n')
            continue
        report['kernels'][f'{cls}.{func}'] = 'translated, tie theorem ' + lname + '_tie'
        ps = ' '.join(params)
        sig = f'({ps} : Rat) ' if params else ''
        # the tie is stated over the parameters the model expects: if the code reads other attributes the statement does not
        # elaborate, which is the intended signal
        es = ' '.join(expect)
        cast = '' if ty == 'Rat' else ''
        text = (f'/-- `{cls}.{func}` as written in `{fn}` -/\n'
                f'def {lname} {sig}: {ty} :=\n  {body}\n\n'
                f'theorem {lname}_tie ({es} : Rat) : {lname} {es} = {model} := by\n  {proof}\n')
        by_pid.setdefault(pid, []).append(text)
    import gen as gen_mod
    for pid, chunks in sorted(by_pid.items()):
        text = HEADER.format(pid=pid) + '\n' + '\n'.join(chunks) + f'\nend Femto.Gen.{pid}\n'
        changed = gen_mod._write(gen_dir / f'Tie{pid}.lean', text)
        report['files'][f'Gen/Tie{pid}.lean'] = {'sha1': hashlib.sha1(text.encode()).hexdigest()[:12], 'changed': changed}
    return report


def tie_modules(pid: str) -> list[str]:
    return [f'FemtoVerif.Gen.Tie{pid}'] if any(k[4] == pid for k in KERNELS) else []

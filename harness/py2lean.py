"""(T) Translator for arithmetic kernels: Python AST -> Lean 4 definitions, regenerated from /repo on every run, each followed by
a *tie theorem* `Gen.f … = Model.f …` that Lean re-checks against what the code says now (DESIGN 3.1, 11.1).

Scope (deliberately small): methods / properties whose body is an optional docstring, guards of the form
`if <test>: raise …` (skipped: they reject inputs, they do not compute), local assignments, the defaulting idiom
`v = self.a if p is None else p` (v becomes a parameter), `print` calls (ignored), `if / else` over numeric comparisons, and a
`return <expr>` on every path, where <expr> is built from
numeric literals, `self.<attr>`, `+ - * /`, unary minus, `abs`, `ceil`, `floor`, `round`, `int(·)` of an integer, `float(·)`.
Every `self.<attr>` becomes a rational parameter of the generated definition (parameters in alphabetical order).

A kernel the translator cannot read (new syntax) is *not* a semantic difference: its tie is dropped for this run and the
report says `correspondence-only`, the property stays tied by the differential check.  A kernel it can read whose tie no
longer proves (changed constant, sign, ceil -> round, dropped term, other inputs) is a broken proof obligation.
"""
from __future__ import annotations

import ast
import fractions
import hashlib
import pathlib

import core

# kernel -> (file, class, function, property it serves, model expression over the expected parameters, proof script)
KERNELS = [
    ('adj_bridge', 'trench.py', 'TrenchColumn', 'adj_bridge', 'C05', ['beam_waist', 'bridge', 'round_corner'],
     'Femto.Tr.adjBridge bridge beam_waist round_corner', 'unfold adj_bridge Femto.Tr.adjBridge; ring'),
    ('n_repeat', 'trench.py', 'TrenchColumn', 'n_repeat', 'C06', ['deltaz', 'h_box', 'z_off'],
     'Femto.TP.nRepeat h_box z_off deltaz', 'unfold n_repeat Femto.TP.nRepeat; rfl'),
    ('adj_pillar_width', 'trench.py', 'UTrenchColumn', 'adj_pillar_width', 'C06', ['beam_waist', 'pillar_width'],
     'pillar_width / 2 + beam_waist', 'unfold adj_pillar_width; ring'),
    ('total_height', 'trench.py', 'TrenchColumn', 'total_height', 'C06', ['h_box', 'nboxz'],
     'nboxz * h_box', 'unfold total_height; ring'),
    ('neff', 'pgmcompiler.py', 'PGMCompiler', 'neff', 'C02', ['n_environment', 'n_glass'],
     'n_glass / n_environment', 'unfold neff; ring'),
    ('dy_bend', 'waveguide.py', 'Waveguide', 'dy_bend', 'C04', ['int_dist', 'pitch'],
     'Femto.Wg.dyBend pitch int_dist', 'unfold dy_bend Femto.Wg.dyBend; ring'),
    ('dx_coupler', 'waveguide.py', 'Waveguide', 'dx_coupler', 'C04', ['dx_bend', 'int_length'],
     '2 * dx_bend + int_length', 'unfold dx_coupler; ring'),
    ('dx_mzi', 'waveguide.py', 'Waveguide', 'dx_mzi', 'C04', ['arm_length', 'dx_bend', 'int_length'],
     '4 * dx_bend + 2 * int_length + arm_length', 'unfold dx_mzi; ring'),
    ('dl', 'laserpath.py', 'LaserPath', 'dl', 'C13', ['cmd_rate_max', 'speed'],
     'speed / cmd_rate_max', 'unfold dl; ring'),
    # the point count of every curved primitive (statement form: defaulting idiom, guard, two assignments, if / else)
    ('num_subdivisions', 'laserpath.py', 'LaserPath', 'num_subdivisions', 'C13', ['cmd_rate_max', 'f', 'l_curve'],
     None, None),
    # a list builder (loop + extend): the order of the adjacent passes of a Nasu waveguide
    ('adj_scan_order', 'waveguide.py', 'NasuWaveguide', 'adj_scan_order', 'C08', ['adj_scan'], None, None),
]


class Unsupported(Exception):
    pass


def _lit(v) -> str:
    if isinstance(v, bool):
        raise Unsupported('bool literal')
    if isinstance(v, int):
        return f'({v} : Rat)'
    if isinstance(v, float):
        fr = fractions.Fraction(repr(v))
        return f'(({fr.numerator} : Rat) / {fr.denominator})'
    raise Unsupported(f'literal {v!r}')


def _expr(e, params: set, env: dict | None = None, fargs: set | None = None) -> tuple[str, str]:
    """-> (lean term, type in {'Rat', 'Int', 'Nat'})"""
    env = env or {}
    fargs = fargs or set()
    if isinstance(e, ast.Constant):
        return _lit(e.value), 'Rat'
    if isinstance(e, ast.Name):
        if e.id in env:
            return env[e.id]
        if e.id in fargs:
            params.add(e.id)
            return e.id, 'Rat'
        raise Unsupported(f'name {e.id}')
    if isinstance(e, ast.Attribute) and isinstance(e.value, ast.Name) and e.value.id == 'self':
        params.add(e.attr)
        return e.attr, 'Rat'
    if isinstance(e, ast.UnaryOp) and isinstance(e.op, ast.USub):
        t, ty = _expr(e.operand, params, env, fargs)
        return f'(-{t})', ty
    if isinstance(e, ast.BinOp) and isinstance(e.op, (ast.Add, ast.Sub, ast.Mult, ast.Div)):
        a, ta = _expr(e.left, params, env, fargs)
        b, tb = _expr(e.right, params, env, fargs)
        a = a if ta == 'Rat' else f'(({a} : {ta}) : Rat)'
        b = b if tb == 'Rat' else f'(({b} : {tb}) : Rat)'
        op = {ast.Add: '+', ast.Sub: '-', ast.Mult: '*', ast.Div: '/'}[type(e.op)]
        return f'({a} {op} {b})', 'Rat'
    if isinstance(e, ast.Call) and not e.keywords and len(e.args) == 1:
        fn = e.func
        name = fn.id if isinstance(fn, ast.Name) else (f'{fn.value.id}.{fn.attr}' if isinstance(fn, ast.Attribute) and isinstance(fn.value, ast.Name) else None)
        t, ty = _expr(e.args[0], params, env, fargs)
        if name in ('math.ceil', 'np.ceil', 'numpy.ceil'):
            if ty != 'Rat':
                raise Unsupported('ceil of an integer')
            return f'(Rat.ceil {t})', 'Int'
        if name in ('math.floor', 'np.floor', 'numpy.floor'):
            if ty != 'Rat':
                raise Unsupported('floor of an integer')
            return f'(Rat.floor {t})', 'Int'
        if name == 'round':
            if ty != 'Rat':
                return t, ty
            return f'(Femto.Gc.roundHalfEven {t})', 'Int'
        if name in ('abs', 'np.abs', 'np.fabs', 'math.fabs'):
            if ty == 'Int':
                return f'(Int.natAbs {t})', 'Nat'
            if ty == 'Nat':
                return t, 'Nat'
            return f'(if {t} < 0 then -{t} else {t})', 'Rat'
        if name == 'int':
            if ty in ('Int', 'Nat'):
                return t, ty
            raise Unsupported('int() of a non-integer (truncation)')
        if name == 'float':
            return t, ty
        raise Unsupported(f'call {name}')
    raise Unsupported(ast.dump(e)[:60])


def _stmts(body, params: set, env: dict, fargs: set) -> tuple[str, str]:
    """Translate a statement list ending in a return on every path -> (lean term, type)."""
    body = list(body)
    while body:
        st = body.pop(0)
        if isinstance(st, ast.Expr):          # docstring, print(...)
            continue
        if isinstance(st, ast.If) and all(isinstance(x, ast.Raise) for x in st.body) and not st.orelse:
            continue                          # a guard that rejects inputs
        if isinstance(st, ast.Assign) and len(st.targets) == 1 and isinstance(st.targets[0], ast.Name):
            name, val = st.targets[0].id, st.value
            # defaulting idiom `v = self.a if p is None else p`: v is whatever the caller / the attribute supplies -> a parameter
            if isinstance(val, ast.IfExp) and isinstance(val.test, ast.Compare) and len(val.test.ops) == 1 and \
                    isinstance(val.test.ops[0], ast.Is) and isinstance(val.test.comparators[0], ast.Constant) and \
                    val.test.comparators[0].value is None and isinstance(val.test.left, ast.Name) and val.test.left.id in fargs:
                params.add(name)
                env[name] = (name, 'Rat')
                continue
            env[name] = _expr(val, params, env, fargs)
            continue
        if isinstance(st, ast.Return) and st.value is not None:
            return _expr(st.value, params, env, fargs)
        if isinstance(st, ast.If):
            c = _cond(st.test, params, env, fargs)
            a, ta = _stmts(st.body, params, env, fargs)
            b, tb = _stmts(list(st.orelse) + body, params, env, fargs)
            import re as _re
            if ta != tb:
                # an integer literal in one branch takes the integer type of the other
                ma, mb = _re.fullmatch(r'\((-?\d+) : Rat\)', a), _re.fullmatch(r'\((-?\d+) : Rat\)', b)
                if ta == 'Rat' and ma and tb in ('Int', 'Nat'):
                    a, ta = f'({ma.group(1)} : {tb})', tb
                elif tb == 'Rat' and mb and ta in ('Int', 'Nat'):
                    b, tb = f'({mb.group(1)} : {ta})', ta
            if ta != tb:
                if {ta, tb} == {'Int', 'Rat'} or {ta, tb} == {'Nat', 'Rat'}:
                    raise Unsupported('branches of different numeric type')
                a, b = (a if ta == 'Int' else f'(({a} : {ta}) : Int)'), (b if tb == 'Int' else f'(({b} : {tb}) : Int)')
                ta = 'Int'
            return f'(if {c} then {a} else {b})', ta
        raise Unsupported(f'statement {type(st).__name__}')
    raise Unsupported('no return on some path')


def _cond(t, params, env, fargs) -> str:
    if isinstance(t, ast.Compare) and len(t.ops) == 1:
        a, ta = _expr(t.left, params, env, fargs)
        b, tb = _expr(t.comparators[0], params, env, fargs)
        if ta != tb:
            if ta == 'Rat' and isinstance(t.left, ast.Constant):
                a = f'({t.left.value} : {tb})'
            elif tb == 'Rat' and isinstance(t.comparators[0], ast.Constant):
                b = f'({t.comparators[0].value} : {ta})'
            else:
                raise Unsupported('comparison of different numeric types')
        op = {ast.LtE: '≤', ast.Lt: '<', ast.GtE: '≥', ast.Gt: '>', ast.Eq: '='}.get(type(t.ops[0]))
        if op is None:
            raise Unsupported('comparison operator')
        return f'{a} {op} {b}'
    raise Unsupported('condition')


def translate(src: str, cls: str, func: str) -> tuple[str, list[str], str]:
    """-> (lean body, parameters, result type)"""
    tree = ast.parse(src)
    for node in tree.body:
        if isinstance(node, ast.ClassDef) and node.name == cls:
            for f in node.body:
                if isinstance(f, ast.FunctionDef) and f.name == func:
                    params: set = set()
                    fargs = {a.arg for a in f.args.args if a.arg != 'self'}
                    t, ty = _stmts(f.body, params, {}, fargs)
                    return t, sorted(params), ty
    raise Unsupported(f'{cls}.{func} not found')



# ---- list builders: `L = []`, `L.append(e)`, `L.extend([...])`, `for i in range(a, b)`, `if / else`, `return L` ---------------
def _nat(e, nat_names: set, params: set) -> str:
    """Natural-number expression (range bounds, parities) over integer attributes and loop variables."""
    if isinstance(e, ast.Constant) and isinstance(e.value, int) and not isinstance(e.value, bool) and e.value >= 0:
        return str(e.value)
    if isinstance(e, ast.Name) and e.id in nat_names:
        return e.id
    if isinstance(e, ast.Attribute) and isinstance(e.value, ast.Name) and e.value.id == 'self':
        params.add(e.attr)
        return e.attr
    if isinstance(e, ast.BinOp) and isinstance(e.op, (ast.Add, ast.Mult, ast.FloorDiv, ast.Mod)):
        op = {ast.Add: '+', ast.Mult: '*', ast.FloorDiv: '/', ast.Mod: '%'}[type(e.op)]
        return f'({_nat(e.left, nat_names, params)} {op} {_nat(e.right, nat_names, params)})'
    raise Unsupported('natural-number expression')


def _elem(e, nat_names: set, params: set) -> str:
    """Rational list element; loop variables / integer attributes are cast."""
    if isinstance(e, ast.Constant):
        return _lit(e.value)
    if isinstance(e, ast.Name) and e.id in nat_names:
        return f'(({e.id} : Nat) : Rat)'
    if isinstance(e, ast.UnaryOp) and isinstance(e.op, ast.USub):
        return f'(-{_elem(e.operand, nat_names, params)})'
    if isinstance(e, ast.BinOp) and isinstance(e.op, (ast.Add, ast.Sub, ast.Mult, ast.Div)):
        op = {ast.Add: '+', ast.Sub: '-', ast.Mult: '*', ast.Div: '/'}[type(e.op)]
        return f'({_elem(e.left, nat_names, params)} {op} {_elem(e.right, nat_names, params)})'
    raise Unsupported('list element')


def _block(stmts, lname: str, nat_names: set, params: set) -> str:
    parts = []
    for st in stmts:
        if isinstance(st, ast.Expr) and isinstance(st.value, ast.Call) and isinstance(st.value.func, ast.Attribute) and \
                isinstance(st.value.func.value, ast.Name) and st.value.func.value.id == lname and len(st.value.args) == 1:
            meth, arg = st.value.func.attr, st.value.args[0]
            if meth == 'append':
                parts.append(f'[{_elem(arg, nat_names, params)}]')
            elif meth == 'extend' and isinstance(arg, ast.List):
                parts.append('[' + ', '.join(_elem(x, nat_names, params) for x in arg.elts) + ']')
            else:
                raise Unsupported(f'list method {meth}')
        elif isinstance(st, ast.For) and isinstance(st.target, ast.Name) and isinstance(st.iter, ast.Call) and \
                isinstance(st.iter.func, ast.Name) and st.iter.func.id == 'range' and len(st.iter.args) == 2 and not st.orelse:
            a, b = (_nat(x, nat_names, params) for x in st.iter.args)
            i = st.target.id
            body = _block(st.body, lname, nat_names | {i}, params)
            parts.append(f'((List.range\' {a} ({b} - {a})).flatMap fun ({i} : Nat) => {body})')
        elif isinstance(st, ast.If):
            t = st.test
            if isinstance(t, ast.Compare):
                raise Unsupported('comparison in a list builder')
            c = f'{_nat(t, nat_names, params)} ≠ 0'          # Python truthiness of an integer
            parts.append(f'(if {c} then {_block(st.body, lname, nat_names, params)} else {_block(st.orelse, lname, nat_names, params)})')
        elif isinstance(st, ast.Expr) and isinstance(st.value, ast.Constant):
            continue
        else:
            raise Unsupported(f'statement {type(st).__name__} in a list builder')
    return '(' + ' ++ '.join(parts) + ')' if parts else '([] : List Rat)'


def translate_list(src: str, cls: str, func: str) -> tuple[str, list[str]]:
    tree = ast.parse(src)
    for node in tree.body:
        if isinstance(node, ast.ClassDef) and node.name == cls:
            for f in node.body:
                if isinstance(f, ast.FunctionDef) and f.name == func:
                    body = [st for st in f.body if not (isinstance(st, ast.Expr) and isinstance(st.value, ast.Constant))]
                    if len(body) < 2 or not (isinstance(body[0], ast.Assign) and isinstance(body[0].value, ast.List) and not body[0].value.elts
                                             and isinstance(body[0].targets[0], ast.Name)):
                        raise Unsupported('does not start with an empty list')
                    lname = body[0].targets[0].id
                    if not (isinstance(body[-1], ast.Return) and isinstance(body[-1].value, ast.Name) and body[-1].value.id == lname):
                        raise Unsupported('does not end with returning the list')
                    params: set = set()
                    return _block(body[1:-1], lname, set(), params), sorted(params)
    raise Unsupported(f'{cls}.{func} not found')


HEADER = '''-- GENERATED on every run by /verif/harness/py2lean.py from the Python source of /repo (arithmetic kernels of property {pid}).
-- Do not edit: the definitions are a function of the repository working tree; the tie theorems compare them with the
-- hand-written model.  A tie that stops checking is a broken proof obligation of {pid}.
import FemtoVerif.Model.Trench
import FemtoVerif.Model.TrenchProg
import FemtoVerif.Model.Waveguide
import FemtoVerif.Model.Gcode
import FemtoVerif.Model.Sampling
import FemtoVerif.Model.Writers
import Mathlib.Tactic.Ring
import Mathlib.Algebra.Order.Field.Rat

set_option linter.unusedSimpArgs false
set_option linter.unusedTactic false
set_option linter.unreachableTactic false

namespace Femto.Gen.{pid}
'''


def regen(_path_unused: pathlib.Path | None = None) -> dict:
    gen_dir = core.LEAN / 'FemtoVerif' / 'Gen'
    by_pid: dict[str, list] = {}
    report = {'kernels': {}, 'files': {}}
    for (lname, fn, cls, func, pid, expect, model, proof) in KERNELS:
        src = (core.REPO / 'src' / 'femto' / fn).read_text()
        try:
            if lname == 'adj_scan_order':
                lbody, lparams = translate_list(src, cls, func)
                if lparams != ['adj_scan']:
                    raise Unsupported(f'reads {lparams}')
                text = (f'/-- `{cls}.{func}` as written in `{fn}` (loop and `extend` calls as `flatMap` over `range\'`) -/\n'
                        f'def {lname} (adj_scan : Nat) : List Rat :=\n  {lbody}\n\n'
                        f'theorem {lname}_tie (adj_scan : Nat) : {lname} adj_scan = Femto.Wr.adjScanOrder adj_scan := by\n'
                        f'  unfold {lname} Femto.Wr.adjScanOrder\n'
                        f'  rcases Nat.mod_two_eq_zero_or_one adj_scan with h | h\n'
                        f'  all_goals first\n'
                        f'    | (simp [h, List.range\'_eq_map_range, List.flatMap_map]; done)\n'
                        f'    | (simp [h, List.range\'_eq_map_range, List.flatMap_map]; congr 1; funext a; simp [add_comm]; done)\n'
                        f'    | (simp [h, List.range\'_eq_map_range, List.flatMap_map]; congr 1; funext a; simp; constructor <;> ring)\n'
                        f'    | (simp [h, List.range\'_eq_map_range, List.flatMap_map]; congr 1; funext a; simp; ring)\n'
                        f'    | (simp [h, List.range\'_eq_map_range, List.flatMap_map]; congr 1; funext a; congr 1 <;> (try congr 1) <;> ring)\n')
                by_pid.setdefault(pid, []).append(text)
                report['kernels'][f'{cls}.{func}'] = 'translated, tie theorem ' + lname + '_tie'
                continue
            body, params, ty = translate(src, cls, func)
        except (Unsupported, SyntaxError) as e:
            report['kernels'][f'{cls}.{func}'] = f'correspondence-only ({e})'
            by_pid.setdefault(pid, []).append(f'-- {cls}.{func}: not translated this run ({e}); tied by correspondence only\n')
            continue
        report['kernels'][f'{cls}.{func}'] = 'translated, tie theorem ' + lname + '_tie'
        ps = ' '.join(params)
        sig = f'({ps} : Rat) ' if params else ''
        # the tie is stated over the parameters the model expects: if the code reads other attributes the statement does not
        # elaborate, which is the intended signal
        es = ' '.join(expect)
        cast = '' if ty == 'Rat' else ''
        if lname == 'num_subdivisions':
            text = (f'/-- `{cls}.{func}` as written in `{fn}` (`f` is the speed after defaulting) -/\n'
                    f'def {lname} {sig}: {ty} :=\n  {body}\n\n'
                    f'theorem {lname}_tie ({es} : Rat) (hf : ¬ f < 1 / 1000000) :\n'
                    f'    Femto.Smp.numSubdivisions f cmd_rate_max l_curve = .ok ({lname} {es}).toNat := by\n'
                    f'  unfold {lname} Femto.Smp.numSubdivisions\n  simp only [hf, if_false]\n  split <;> simp_all\n')
            by_pid.setdefault(pid, []).append(text)
            continue
        text = (f'/-- `{cls}.{func}` as written in `{fn}` -/\n'
                f'def {lname} {sig}: {ty} :=\n  {body}\n\n'
                f'theorem {lname}_tie ({es} : Rat) : {lname} {es} = {model} := by\n  {proof}\n')
        by_pid.setdefault(pid, []).append(text)
    import gen as gen_mod
    for pid, chunks in sorted(by_pid.items()):
        text = HEADER.format(pid=pid) + '\n' + '\n'.join(chunks) + f'\nend Femto.Gen.{pid}\n'
        changed = gen_mod._write(gen_dir / f'Tie{pid}.lean', text)
        report['files'][f'Gen/Tie{pid}.lean'] = {'sha1': hashlib.sha1(text.encode()).hexdigest()[:12], 'changed': changed}
    return report


def tie_modules(pid: str) -> list[str]:
    return [f'FemtoVerif.Gen.Tie{pid}'] if any(k[4] == pid for k in KERNELS) else []

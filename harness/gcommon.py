"""Shared generators / observers for the G-code properties (C01, C03, C08, C12): compiler configurations, point
matrices, operation trees with crashes, execution on the real PGMCompiler, canonical comparison of controller traces."""
from __future__ import annotations

import fractions
import math
import os
import pathlib
import shutil
import tempfile

import core
from core import q

LASERS = ['PHAROS', 'CARBIDE', 'UWE', 'ANT', 'pharos', 'Uwe']


class UserCrash(Exception):
    pass


class Scratch:
    """Temporary working directory outside /repo and /verif, removed on exit; cwd is moved there."""

    def __enter__(self):
        self.old = os.getcwd()
        self.dir = tempfile.mkdtemp(prefix='femto-verif-')
        os.chdir(self.dir)
        return pathlib.Path(self.dir)

    def __exit__(self, *a):
        os.chdir(self.old)
        shutil.rmtree(self.dir, ignore_errors=True)


def header_text(laser: str) -> str:
    return (core.REPO / 'src' / 'femto' / 'utils' / f'header_{laser.lower()}.txt').read_text()


def gen_cfg(rng, exact: bool, neutral_ok: bool = True) -> dict:
    """Keyword arguments for PGMCompiler.  exact=True: float arithmetic of the transformation is exact."""
    dy = [0.0, 0.5, -0.25, 1.0, 2.0, -1.5, 0.125]
    cfg = {
        'filename': 'prog.pgm',
        'laser': rng.choice(LASERS),
        'shift_origin': (rng.choice(dy), rng.choice(dy)) if exact else (round(rng.uniform(-3, 3), 3), round(rng.uniform(-3, 3), 3)),
        'flip_x': rng.random() < 0.5,
        'flip_y': rng.random() < 0.5,
        'short_pause': rng.choice([0.25, 0.125, 0.5, 0.0, None, -0.25, 0.0625] if exact else [0.05, 0.1, 0.3, 0.0, None, -0.7, 0.0125]),
        'long_pause': rng.choice([0.5, 1.0, 0.25, 0.0, None, -0.5] if exact else [0.5, 0.3, 1.1, 0.0, None, -0.2]),
        'speed_pos': rng.choice([5.0, 0.5, 20.0, 2.5]),
        'output_digits': rng.choice([6, 6, 6, 3, 4, 8]),
        'home': rng.random() < 0.3,
        'aerotech_angle': rng.choice([0.0, 0.0, 0.0, 30.0, 2.0, -15.0, 400.0]),
    }
    if exact:
        cfg['rotation_angle'] = 0.0
        k = rng.choice([1, 2, 0.5, 4])
        cfg['n_environment'] = rng.choice([1.0, 1.5, 1.25])
        cfg['n_glass'] = cfg['n_environment'] * k
    else:
        cfg['rotation_angle'] = rng.choice([0.0, 1.0, -2.5, 45.0, 90.0, 180.0, 359.0, 400.0, -730.5, rng.uniform(-720, 720)])
        cfg['n_glass'] = rng.choice([1.5, 1.4625, 1.33, 2.1])
        cfg['n_environment'] = rng.choice([1.33, 1.0, 1.5])
    if neutral_ok and rng.random() < 0.1:
        cfg.update(shift_origin=(0.0, 0.0), flip_x=False, flip_y=False, rotation_angle=0.0, n_glass=1.5, n_environment=1.5)
    return cfg


def model_cfg(G) -> dict:
    """Model configuration read off a constructed PGMCompiler (so defaults / normalisation come from the code)."""
    import numpy as np
    return {
        'pso': G.pso_label,
        'header': header_text(G.laser),
        'short': q(G.short_pause), 'long': q(G.long_pause),
        'speed_pos': q(G.speed_pos), 'digits': int(G.output_digits), 'home': bool(G.home),
        'aero': q(G.aerotech_angle),
        'sx': q(np.float32(G.shift_origin[0])), 'sy': q(np.float32(G.shift_origin[1])),
        'fx': bool(G.flip_x), 'fy': bool(G.flip_y),
        'c': q(float(np.cos(G.rotation_angle))), 's': q(float(np.sin(G.rotation_angle))),
        'neff': q(float(G.neff)),
    }


# ----------------------------------------------------------------------------------------------------------------
# point matrices
# ----------------------------------------------------------------------------------------------------------------
def f32(v) -> float:
    import numpy as np
    return float(np.float32(v))


def gen_matrix(rng, exact: bool, closed: bool = True, max_pts: int = 40, digits: int | None = None, near_zero: bool = False) -> list[list[float]]:
    """Well-formed matrix (rows [x,y,z,f,s]): first point closed, s in {0,1}, feeds positive; consecutive rows either
    identical in position or clearly apart; includes shutter toggles that coincide with a displacement, feed-only changes,
    closed moves in the middle, returns to the point before the last one (A, B, A).  Returned as a list of rows of float32-representable floats."""
    n = rng.choice([1, 2, 3, 4, 6, 9, 14, rng.randint(1, max_pts)])
    step = [0.0, 0.5, -0.25, 1.0, 0.125, -2.0] if exact else [0.0, 0.731, -0.219, 1.003, 0.01, -2.17]
    feeds = [0.5, 5.0, 20.0, 1.0, 2.5] if exact else [0.5, 5.0, 20.0, 1.3, 0.1, 33.3]
    x, y, z = (rng.choice([-2.0, 0.0, 1.5]), rng.choice([0.0, 0.25, -1.0]), rng.choice([0.0, 0.5, -0.125]))
    zstep = step
    if not exact and digits is not None and rng.random() < 0.15:
        # far from the origin, with steps of a few units of the last printed digit: two rows can be "close" in relative terms and
        # still be different points at the printed precision.  The steps are at least two units (x, y; a rotation leaves at
        # least 1.41 units in one coordinate) resp. five units (z, which is divided by the index ratio), so that whether two
        # consecutive rows print differently does not depend on how a single coordinate happens to round.
        x, y = rng.choice([40.0, 100.0, -75.0]), rng.choice([20.0, -60.0])
        u = 10.0 ** -min(digits, 4)
        step = [0.0, 2 * u, 3.1 * u, 10 * u, -4 * u]
        zstep = [0.0, 5 * u, -10 * u]
    if exact and near_zero and digits is not None and rng.random() < 0.15:
        # (only without an origin shift: the float32 subtraction of a shift swallows such small values, legitimately)
        # around zero, in steps just below one unit of the last printed digit (dyadic, so that the exact regime applies): 0.98 of a
        # unit rounds to one unit, 0.49 to zero, sign included
        u = 2.0 ** -{3: 10, 4: 14, 6: 20, 8: 27}.get(digits, 20)
        x, y, z = (rng.choice([0.0, u, -u]) for _ in range(3))
        step = zstep = [0.0, u, -u, u / 2, 2 * u, -3 * u]
    s = 0.0
    rows = [[x, y, z, rng.choice(feeds), 0.0]]
    for i in range(1, n):
        r = rng.random()
        move = rng.random() < 0.7
        if r < 0.3:
            s = 1.0 - s            # toggle ...
            if rng.random() < 0.6:
                move = False       # ... on a duplicated point (what the builders do)
        f = rows[-1][3] if rng.random() < 0.5 else rng.choice(feeds)
        if move and len(rows) >= 2 and rng.random() < 0.15:
            # go back to the point before the last one (A, B, A), often with the feed A was reached with: a program that
            # remembers "the previous point" wrongly takes the second A for a repeat
            x, y, z = rows[-2][0], rows[-2][1], rows[-2][2]
            if rng.random() < 0.7:
                f = rows[-2][3]
            if rng.random() < 0.5:
                s = 1.0 - s
            move = False
        if move:
            k = rng.choice([0, 1, 2, 3])
            if k in (0, 3):
                x += rng.choice(step[1:])
            if k in (1, 3):
                y += rng.choice(step[1:])
            if k == 2:
                z += rng.choice(zstep[1:])
        row = [x, y, z, f, s]
        if row == rows[-1]:
            row[3] = rng.choice([v for v in feeds if v != row[3]])
        rows.append(row)
    if closed and rows[-1][4] != 0.0:
        rows.append([x, y, z, rows[-1][3], 0.0])
    return [[f32(v) for v in r] for r in rows]


def builder_matrix(rng) -> list[list[float]]:
    """Matrix produced by the real builders (waveguide / marker / raster)."""
    import numpy as np
    from femto.marker import Marker
    from femto.waveguide import Waveguide
    with core.quiet():
        kind = rng.choice(['wg', 'wg', 'wg_mid_closed', 'cross', 'ruler', 'meander', 'ablation', 'box', 'raster'])
        if kind.startswith('wg'):
            wg = Waveguide(speed=rng.choice([20.0, 5.0]), radius=rng.choice([15, 25]), samplesize=(10, 5),
                           speed_closed=rng.choice([5, 40]), cmd_rate_max=rng.choice([1200, 40]))
            wg.start([rng.choice([-2.0, 0.0]), rng.choice([0.0, 0.5]), 0.035])
            for _ in range(rng.randint(1, 4)):
                op = rng.choice(['lin', 'arc', 'sin', 'closedlin'] if kind == 'wg_mid_closed' else ['lin', 'arc', 'sin'])
                if op == 'lin':
                    wg.linear([rng.choice([1.0, 2.0]), 0, 0])
                elif op == 'closedlin':
                    wg.linear([rng.choice([1.0, 0.5]), rng.choice([0.5, 1.0]), 0], shutter=0)
                elif op == 'arc':
                    wg.arc_bend(rng.choice([0.04, -0.04]))
                else:
                    wg.sin_bridge(rng.choice([0.04, -0.08]), rng.choice([0.01, -0.02]))
            wg.end()
            pts = wg.points
        elif kind == 'raster':
            from PIL import Image
            from femto.rasterimage import RasterImage
            w, h = rng.randint(1, 6), rng.randint(1, 5)
            img = Image.new('1', (w, h), 1)
            for i in range(w):
                for j in range(h):
                    if rng.random() < 0.5:
                        img.putpixel((i, j), 0)
            img.putpixel((rng.randrange(w), rng.randrange(h)), 0)
            ri = RasterImage(px_to_mm=rng.choice([0.5, 0.01]), speed=rng.choice([1.0, 2.0]))
            ri.image_to_path(img)
            pts = ri.points
        else:
            mk = Marker(speed=rng.choice([1.0, 2.0]), lx=1.0, ly=0.5)
            if kind == 'cross':
                mk.cross([rng.choice([0.0, 1.0]), 1.0, 0.0])
            elif kind == 'ruler':
                mk.ruler([0.0, 1.0, 0.5, 1.0], lx=1.0, lx2=0.5)
            elif kind == 'meander':
                mk.meander([0.0, 0.0, 0.0], [1.0, rng.choice([0.3, -0.3]), 0.0], width=1.0, delta=0.1,
                           orientation=rng.choice(['x', 'y']))
            elif kind == 'ablation':
                mk.ablation([[0, 0, 0], [1, 0, 0], [1, 1, 0]], shift=rng.choice([None, 0.25]))
            else:
                mk.box([0.0, 0.0, 0.0], width=1.0, height=0.5)
            pts = mk.points
    return kind, [[float(v) for v in row] for row in np.asarray(pts).T]


def matrix_json(rows) -> list:
    return [[q(v) for v in r] for r in rows]


def to_np(rows):
    import numpy as np
    return np.array(rows, dtype=np.float32).T


# ----------------------------------------------------------------------------------------------------------------
# operation trees
# ----------------------------------------------------------------------------------------------------------------
NAMES = ['sub1.pgm', 'dir/sub2.pgm', 'wall_01.pgm', 'mzi_0.5.pgm', 'mzi_0.7.pgm', 'a/b/floor.pgm', 'bad.txt', 'noext']
# other spellings of some of the programs above (same file name, another folder): one program for compiler and controller alike
RESPELL = {'sub1.pgm': ['lib/sub1.pgm', 'x/y/sub1.pgm'], 'dir/sub2.pgm': ['sub2.pgm', 'other/sub2.pgm'], 'wall_01.pgm': ['sub/wall_01.pgm'],
           'a/b/floor.pgm': ['floor.pgm', 'b/floor.pgm'], 'mzi_0.5.pgm': ['run/mzi_0.5.pgm']}


def gen_ops(rng, exact: bool, depth: int, budget: list[int], declared: list[str], p_raise: float, in_body: bool = False) -> list[dict]:
    ops = []
    n = rng.randint(0 if in_body else 1, 6)
    # some pauses have more decimals than a coarse output_digits setting prints for coordinates (a pause is printed in full)
    pauses = [0.5, 0.25, 1.0, 0.0, None, -0.125, 2.0, 0.0625, 0.03125] if exact else [0.3, 0.1, 1.7, 0.0, None, -0.45, 0.3333, 0.0004, 0.025]
    if not in_body and rng.random() < 0.12:
        # one program under two spellings: loaded and called under one, removed under another, then called again under the first —
        # the last call is a call of a program that is no longer loaded
        base = rng.choice(sorted(RESPELL))
        s1, s2 = rng.sample([base] + RESPELL[base], 2)
        ops += [{'k': 'load', 'p': s1, 'task': 2}, {'k': rng.choice(['farcall', 'buffered']), 'p': s1, 'task': 2},
                {'k': 'remove', 'p': s2, 'task': 2},
                {'k': 'attempt', 'body': [{'k': rng.choice(['farcall', 'buffered']), 'p': s1, 'task': 2}]}]
    for _ in range(n):
        if budget[0] <= 0:
            break
        budget[0] -= 1
        k = rng.choice(['write', 'write', 'move', 'origin', 'init', 'dwell', 'dwell', 'comment', 'home', 'repeat', 'repeat', 'for', 'rot',
                        'dvar', 'load', 'farcall', 'buffered', 'remove', 'farcall_list', 'raise' if rng.random() < p_raise else 'dwell',
                        'attempt' if rng.random() < 0.5 else 'load', 'load_bad' if rng.random() < 0.3 else 'farcall'])
        if k == 'write':
            if rng.random() < 0.25:
                kind, rows = builder_matrix(rng)
            else:
                rows = gen_matrix(rng, exact, closed=True, max_pts=12)
            if rng.random() < 0.08 and len(rows) > 2:
                # a feed below the guard somewhere after the start: write() must reject the matrix before emitting anything
                rows[rng.randrange(1, len(rows))][3] = f32(rng.choice([0.0, -1.0, 1e-9]))
            op = {'k': 'write', 'm': None}
            if rng.random() < 0.05 and len(rows) > 2:
                # a feed that is not a number: the implementation gets NaN / inf, the model a feed it rejects alike (0)
                j = rng.randrange(1, len(rows))
                rows[j][3] = 0.0
                op['feed_py'] = [j, rng.choice(['nan', 'inf'])]
            op['m'] = matrix_json(rows)
            ops.append(op)
        elif k == 'move':
            p = [rng.choice([None, 0.0, 1.5, -2.0]) for _ in range(3)]
            if rng.random() < 0.9 and all(v is None for v in p):
                p[rng.randrange(3)] = 1.0
            sp = rng.choice([None, None, 2.5, 10.0, 0.0 if rng.random() < 0.2 else 4.0])
            op = {'k': 'move', 'p': [q(v) for v in p], 'speed': q(sp)}
            if rng.random() < 0.06:
                op['speed'] = q(0.0)
                op['speed_py'] = rng.choice(['nan', 'inf'])
            ops.append(op)
        elif k in ('origin', 'init', 'raise'):
            ops.append({'k': k})
        elif k == 'dwell':
            ops.append({'k': 'dwell', 'p': q(rng.choice(pauses))})
        elif k == 'comment':
            ops.append({'k': 'comment', 'nonempty': rng.random() < 0.7})
        elif k == 'home':
            p = [rng.choice([None, 0.0, 1.0]) for _ in range(3)]
            ops.append({'k': 'home', 'p': [q(v) for v in p]})
        elif k in ('repeat', 'for', 'rot') and depth > 0:
            if k == 'for' and rng.random() < 0.8 and not declared:
                v = rng.choice(['I', 'zz', 'Var'])
                ops.append({'k': 'dvar', 'vs': [v]})
                declared.append(v.lower())
            body = gen_ops(rng, exact, depth - 1, budget, declared, p_raise, True)
            if k == 'repeat':
                op = {'k': 'repeat', 'n': rng.choice([1, 2, 3, 5, 7, 0 if rng.random() < 0.15 else 4, -2 if rng.random() < 0.1 else 2]), 'body': body}
                if rng.random() < 0.12:
                    # a count that is not a whole number: the program repeats int(count) times (as FOR loops do), and so must the bookkeeping
                    op['n_py'] = rng.choice([2.5, 3.7, 1.2, 4.999])
                    op['n'] = int(op['n_py'])
                ops.append(op)
            elif k == 'for':
                v = rng.choice(declared) if declared and rng.random() < 0.9 else 'undeclared'
                v = v.upper() if rng.random() < 0.3 else v
                ops.append({'k': 'for', 'v': v, 'n': rng.choice([1, 2, 3, 4, 0 if rng.random() < 0.15 else 6]), 'body': body})
            else:
                ang = rng.choice([None, 30.0, -45.0, 370.0, 0.0, 2.5])
                ops.append({'k': 'rot', 'angle': q(None if ang is None else float(ang % 360)), 'angle_raw': ang, 'body': body})
        elif k == 'dvar':
            vs = [rng.choice(['I', 'j', 'ZCURR', 'zz', 'Var']) for _ in range(rng.randint(1, 2))]
            ops.append({'k': 'dvar', 'vs': vs})
            declared.extend(v.lower() for v in vs)
        elif k in ('load', 'buffered', 'remove'):
            ops.append({'k': k, 'p': rng.choice(NAMES), 'task': rng.choice([1, 2, 3])})
        elif k == 'farcall':
            ops.append({'k': 'farcall', 'p': rng.choice(NAMES)})
        elif k == 'load_bad':
            # a load the compiler must refuse without recording anything: the task id is not an integer
            ops.append({'k': 'load_bad', 'path': rng.choice(NAMES[:6]), 'task': rng.choice(['T2', 'nan'])})
        elif k == 'attempt':
            # the user's own try / except around some operations: an error inside is swallowed and the program goes on
            body = gen_ops(rng, exact, max(depth - 1, 0), budget, declared, max(p_raise, 0.25), True)
            if rng.random() < 0.5:
                body.append({'k': rng.choice(['raise', 'load_bad', 'farcall']), 'path': rng.choice(NAMES[:6]), 'p': rng.choice(NAMES), 'task': 'T2'})
            ops.append({'k': 'attempt', 'body': body})
        elif k == 'farcall_list':
            items = [[rng.choice(NAMES[:6] + (['bad.txt'] if rng.random() < 0.2 else [])), rng.choice([1, 2, 3])] for _ in range(rng.randint(0, 3))]
            ops.append({'k': 'farcall_list', 'items': items})
    return ops


def run_ops(G, ops) -> None:
    for op in ops:
        k = op['k']
        if k == 'write':
            rows = [[float(core.unq(v)) for v in r] for r in op['m']]
            if op.get('feed_py'):
                rows[op['feed_py'][0]][3] = float(op['feed_py'][1])
            G.write(to_np(rows))
        elif k == 'move':
            G.move_to([None if v is None else float(core.unq(v)) for v in op['p']],
                      float(op['speed_py']) if op.get('speed_py') else (None if op.get('speed') is None else float(core.unq(op['speed']))))
        elif k == 'origin':
            G.go_origin()
        elif k == 'init':
            G.go_init()
        elif k == 'dwell':
            G.dwell(None if op['p'] is None else float(core.unq(op['p'])))
        elif k == 'comment':
            G.comment('user comment' if op['nonempty'] else '')
        elif k == 'home':
            G.set_home([None if v is None else float(core.unq(v)) for v in op['p']])
        elif k == 'repeat':
            with G.repeat(op.get('n_py', op['n'])):
                run_ops(G, op['body'])
        elif k == 'for':
            with G.for_loop(op['v'], op['n']):
                run_ops(G, op['body'])
        elif k == 'rot':
            with G.axis_rotation(op['angle_raw']):
                run_ops(G, op['body'])
        elif k == 'dvar':
            G.dvar(list(op['vs']))
        elif k == 'load':
            G.load_program(op['p'], op['task'])
        elif k == 'farcall':
            G.farcall(op['p'])
        elif k == 'buffered':
            G.bufferedcall(op['p'], op['task'])
        elif k == 'remove':
            G.remove_program(op['p'], op['task'])
        elif k == 'farcall_list':
            G.farcall_list([it[0] for it in op['items']], [it[1] for it in op['items']])
        elif k == 'raise':
            raise UserCrash()
        elif k == 'load_bad':
            G.load_program(op['path'], float('nan') if op['task'] == 'nan' else op['task'])
        elif k == 'attempt':
            try:
                run_ops(G, op['body'])
            except (UserCrash, ValueError, FileNotFoundError, TypeError):
                pass
        else:
            raise AssertionError(k)


def run_session(cfg: dict, ops: list[dict]) -> dict:
    """Run the operation tree inside the real context manager; return file text and the compiler's own bookkeeping."""
    from femto.pgmcompiler import PGMCompiler
    with Scratch() as d, core.quiet():
        G = PGMCompiler(**cfg)
        mcfg = model_cfg(G)
        crashed = None
        try:
            with G:
                run_ops(G, ops)
        except UserCrash:
            crashed = 'user'
        except (ValueError, FileNotFoundError) as e:
            crashed = type(e).__name__
        path = d / 'prog.pgm'
        text = path.read_text() if path.exists() else None
        return {'text': text, 'dwell': q(float(G.dwell_time)), 'loaded': list(G._loaded_files), 'crashed': crashed,
                'mcfg': mcfg, 'shutter_on': bool(G._shutter_on)}


# ----------------------------------------------------------------------------------------------------------------
# comparison of controller traces
# ----------------------------------------------------------------------------------------------------------------
def fr(p):
    return None if p is None else fractions.Fraction(p[0], p[1])


def canon_events(evs, kinds=('m', 'd', 'call', 'buf', 'load', 'unload', 'rot', 'err', 'u')):
    out = []
    for e in evs or []:
        if e['t'] not in kinds:
            continue
        if e['t'] == 'm':
            out.append(('m', tuple(fr(v) for v in e['src']), tuple(fr(v) for v in e['dst']), fr(e['f']), e['s'], e.get('g9', False)))
        elif e['t'] == 'd':
            out.append(('d', fr(e['q']), e['s']))
        elif e['t'] == 'u':
            out.append(('u', fr(e['u']), e['s']))
        elif e['t'] in ('call',):
            out.append(('call', e['k'], e['s']))
        elif e['t'] == 'err':
            out.append(('err', e['m'].split(':')[0]))
        elif e['t'] == 'rot':
            out.append(('rot', e['on']))
        else:
            out.append((e['t'], e['k']))
    return out


def close_events(a, b, tol: fractions.Fraction) -> str | None:
    """None when the two canonical event lists agree (positions / dwells within tol), else a description."""
    if len(a) != len(b):
        return f'different number of events: impl {len(a)} vs model {len(b)}'
    for i, (x, y) in enumerate(zip(a, b)):
        if x[0] != y[0]:
            return f'event {i}: kind {x[0]} vs {y[0]}'
        if x[0] == 'm':
            for u, v in zip(x[1] + x[2], y[1] + y[2]):
                if (u is None) != (v is None) or (u is not None and abs(u - v) > tol):
                    return f'event {i}: move {x[1:3]} vs {y[1:3]}'
            if x[3:] != y[3:]:
                return f'event {i}: feed/shutter {x[3:]} vs {y[3:]}'
        elif x[0] == 'd':
            if abs(x[1] - y[1]) > tol or x[2] != y[2]:
                return f'event {i}: dwell {x[1:]} vs {y[1:]}'
        elif x != y:
            return f'event {i}: {x} vs {y}'
    return None

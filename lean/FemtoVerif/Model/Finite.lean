/-
Model of the two finiteness guards of the library: `LaserPath.add_path` (nothing but finite coordinates and positive
feeds enters a path, judged **after** the cast to single precision) and `PGMCompiler._format_args` (no non-finite number
is printed).  Values handed to the guards are extended numbers: an exact finite value, an infinity, or NaN.
Rounding inside the single-precision range is not modelled (the finite value is kept).  Import-free.
-/
import FemtoVerif.Model.Gcode
import FemtoVerif.Model.Filter

namespace Femto.Fin
open Femto

inductive Ext
  | fin (q : Rat)
  | pinf
  | ninf
  | nan
deriving DecidableEq, Repr, Inhabited

def rabs (q : Rat) : Rat := if q < 0 then -q else q

/-- values at or beyond `(2 - 2^-24)·2^127` round to infinity in `astype(np.float32)` -/
def f32Overflow : Rat := (2 - 1 / 16777216) * (2 ^ 127 : Nat)

/-- `arr.astype(np.float32)` as far as finiteness is concerned -/
def cast32 : Ext → Ext
  | .fin q => if rabs q < f32Overflow then .fin q else if 0 < q then .pinf else .ninf
  | e => e

def Ext.toRat? : Ext → Option Rat
  | .fin q => some q
  | _ => none

/-- one row handed to `add_path` -/
structure ERow where
  x : Ext
  y : Ext
  z : Ext
  f : Ext
  s : Ext
deriving Repr, Inhabited

/-- the row as stored, if every entry is finite after the cast -/
def castRow (r : ERow) : Option (Row Rat) :=
  match (cast32 r.x).toRat?, (cast32 r.y).toRat?, (cast32 r.z).toRat?, (cast32 r.f).toRat?, (cast32 r.s).toRat? with
  | some x, some y, some z, some f, some s => some ⟨x, y, z, f, s⟩
  | _, _, _, _, _ => none

inductive GErr
  | nonFinite
  | badFeed
deriving DecidableEq, Repr

/-- `add_path(x, y, z, f, s)` on an existing trajectory: all rows are checked before anything is appended -/
def addPath (t : List (Row Rat)) (rows : List ERow) : Except GErr (List (Row Rat)) :=
  match rows.mapM castRow with
  | none => .error .nonFinite
  | some rs => if rs.all (fun r => decide (0 < r.f)) then .ok (t ++ rs) else .error .badFeed

/-- a history of `add_path` calls; a rejected call leaves the path as it was (the caller sees the ValueError) -/
def history (t : List (Row Rat)) : List (List ERow) → List (Row Rat)
  | [] => t
  | rows :: rest =>
    match addPath t rows with
    | .ok t' => history t' rest
    | .error _ => history t rest

/-- `_format_args` with extended arguments: the finiteness guard first, then the feed guard and the formatting of the
compiler model -/
def formatArgsExt (d : Nat) (x y z f : Option Ext) : Except Gc.Err Ctl.G1W :=
  let fin? (o : Option Ext) : Bool := match o with | some (.fin _) => true | none => true | _ => false
  if fin? x && fin? y && fin? z && fin? f then
    Gc.formatArgs d (x.bind Ext.toRat?) (y.bind Ext.toRat?) (z.bind Ext.toRat?) (f.bind Ext.toRat?)
  else .error (.value "Try to write NaN or infinite values to the G-Code file")

end Femto.Fin

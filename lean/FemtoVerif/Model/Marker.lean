/-
Model of the marker figures of `femto.marker.Marker` as compositions of `start` / `linear` / `end`. Import-free.
-/
import FemtoVerif.Model.Path
import FemtoVerif.Model.Raster

namespace Femto.Mk
open Femto Femto.Pth

/-- insertion into a sorted list without duplicates (`np.unique` = sort + drop repeats) -/
def insertU (a : Rat) : List Rat → List Rat
  | [] => [a]
  | b :: t => if a < b then a :: b :: t else if a = b then b :: t else b :: insertU a t

def uniqueSorted (l : List Rat) : List Rat := l.foldr insertU []

/-- `cross(position, lx, ly)` on an empty path; `position` is already three-dimensional -/
def cross (a : Attrs) (x y z lx ly : Rat) : Except PErr Traj := do
  let t ← start a (x - lx / 2) y z none []
  let t ← linear a (some lx) none none false 1 none t
  let t ← linear a none none none false 0 none t
  let t ← linear a (some (-lx / 2)) (some (-ly / 2)) none false 0 none t
  let t ← linear a none none none false 1 none t
  let t ← linear a none (some ly) none false 1 none t
  let t ← linear a none none none false 0 none t
  linear a (some x) (some y) (some z) true 0 none t

/-- the tick loop of `ruler` -/
def rulerTicks (a : Attrs) (xInit depth : Rat) : List (Rat × Rat) → Traj → Except PErr Traj
  | [], t => .ok t
  | (xt, yt) :: rest, t => do
    let t ← linear a (some xInit) (some yt) (some depth) true 0 none t
    let t ← linear a none none none true 1 none t
    let t ← linear a (some xt) (some yt) none true 1 none t
    let t ← linear a none none none true 0 none t
    rulerTicks a xInit depth rest t

/-- `ruler(y_ticks, lx, lx2, x_init)` with `ticks` the sorted distinct tick positions (non-empty): the first tick
reaches `lx`, the others `lx2` -/
def ruler (a : Attrs) (depth xInit lx lx2 : Rat) (ticks : List Rat) : Except PErr Traj :=
  match ticks with
  | [] => .ok []
  | y0 :: rest => do
    let t ← start a xInit y0 depth none []
    let t ← rulerTicks a xInit depth ((lx, y0) :: rest.map fun y => (lx2, y)) t
    finish a t

/-- one line of the meander (along the orientation axis) -/
def meanderLine (a : Attrs) (alongX : Bool) (len : Rat) (t : Traj) : Except PErr Traj :=
  if alongX then linear a (some len) (some 0) (some 0) false 1 none t
  else linear a (some 0) (some len) (some 0) false 1 none t

/-- one step of the meander (across the orientation axis) -/
def meanderStep (a : Attrs) (alongX : Bool) (d : Rat) (t : Traj) : Except PErr Traj :=
  if alongX then linear a (some 0) (some d) (some 0) false 1 none t
  else linear a (some d) (some 0) (some 0) false 1 none t

/-- the loop of `meander`: `n` times (line, step), then the last line; `sgn` is `next(s)` of the `+1, -1, …` cycle -/
def meanderLines (a : Attrs) (alongX : Bool) (width delta : Rat) : Nat → Rat → Traj → Except PErr Traj
  | 0, sgn, t => meanderLine a alongX (sgn * width) t
  | n + 1, sgn, t => do
    let t ← meanderLine a alongX (sgn * width) t
    let t ← meanderStep a alongX delta t
    meanderLines a alongX width delta n (-sgn) t

def sgn (q : Rat) : Rat := if 0 < q then 1 else if q < 0 then -1 else 0

def rabs (q : Rat) : Rat := if q < 0 then -q else q

/-- number of passes: `math.floor(abs(extent) / delta)` -/
def meanderPasses (ext delta : Rat) : Nat := (rabs ext / delta).floor.toNat

/-- `meander(init_pos, final_pos, width, delta, orientation)`; positions three-dimensional -/
def meander (a : Attrs) (xi yi zi xf yf : Rat) (width delta : Rat) (alongX : Bool) : Except PErr Traj := do
  let ext := if alongX then yf - yi else xf - xi
  let t ← start a xi yi zi none []
  let t ← meanderLines a alongX width (sgn ext * delta) (meanderPasses ext delta) 1 t
  finish a t

/-- visit the vertices of one polygonal chain with the shutter open -/
def chain (a : Attrs) : List (Rat × Rat × Rat) → Traj → Except PErr Traj
  | [], t => .ok t
  | p :: rest, t => do
    let t ← linear a (some p.1) (some p.2.1) (some p.2.2) true 1 none t
    chain a rest t

def shiftBy (pts : List (Rat × Rat × Rat)) (dx dy : Rat) : List (Rat × Rat × Rat) := pts.map fun p => (p.1 + dx, p.2.1 + dy, p.2.2)

/-- one shifted copy of `ablation`: go there closed, open, trace, repeat the last vertex open then closed -/
def ablationCopy (a : Attrs) (pts : List (Rat × Rat × Rat)) (t : Traj) : Except PErr Traj :=
  match pts.head?, pts.getLast? with
  | some p0, some pl => do
    let t ← linear a (some p0.1) (some p0.2.1) (some p0.2.2) true 0 none t
    let t ← linear a (some p0.1) (some p0.2.1) (some p0.2.2) true 1 none t
    let t ← chain a pts t
    let t ← linear a (some pl.1) (some pl.2.1) (some pl.2.2) true 1 none t
    linear a (some pl.1) (some pl.2.1) (some pl.2.2) true 0 none t
  | _, _ => .ok t

def ablationCopies (a : Attrs) : List (List (Rat × Rat × Rat)) → Traj → Except PErr Traj
  | [], t => .ok t
  | c :: rest, t => do
    let t ← ablationCopy a c t
    ablationCopies a rest t

/-- the shifted copies of `ablation`: `+shift`, `-shift` along x, then `+shift`, `-shift` along y -/
def ablationShifts (pts : List (Rat × Rat × Rat)) (shift : Option Rat) : List (List (Rat × Rat × Rat)) :=
  match shift with
  | none => []
  | some s => [shiftBy pts s 0, shiftBy pts (-s) 0, shiftBy pts 0 s, shiftBy pts 0 (-s)]

/-- `ablation(points, shift)` -/
def ablation (a : Attrs) (pts : List (Rat × Rat × Rat)) (shift : Option Rat) : Except PErr Traj :=
  match pts.head?, pts.getLast? with
  | some p0, some pl => do
    let t ← start a p0.1 p0.2.1 p0.2.2 none []
    let t ← chain a pts t
    let t ← linear a (some pl.1) (some pl.2.1) (some pl.2.2) true 1 none t
    let t ← linear a (some pl.1) (some pl.2.1) (some pl.2.2) true 0 none t
    let t ← ablationCopies a (ablationShifts pts shift) t
    finish a t
  | _, _ => .ok []

/-- `box(lower_left_corner, width, height)` -/
def box (a : Attrs) (x y z width height : Rat) : Except PErr Traj :=
  let w := rabs width
  let h := rabs height
  ablation a [(x, y, z), (x + w, y, z), (x + w, y + h, z), (x, y + h, z), (x, y, z)] none

end Femto.Mk

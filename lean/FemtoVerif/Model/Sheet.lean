/-
Model of the table logic of `femto.spreadsheet.Spreadsheet`: which structures get a row and in which order, what a cell
holds, which selected columns are kept, and what is handed to the preamble.  Import-free.
-/
namespace Femto.Sh

inductive Cell
  | num (q : Rat)
  | txt (s : String)
  | missing
deriving DecidableEq, Repr, Inhabited

/-- what the structure table stores: the "undefined" placeholders are `1.1e5` for numeric columns and `''` for text -/
def tableVal (numeric : Bool) : Cell → Cell
  | .missing => if numeric then .num 110000 else .txt ""
  | c => c

/-- what ends up in the sheet: numeric values `≥ 1e5` and empty strings are written as blanks -/
def written : Cell → Cell
  | .num q => if q < 100000 then .num q else .missing
  | .txt s => if s = "" then .missing else .txt s
  | .missing => .missing

/-- a selected column: tag, whether its format is numeric, whether the preamble has a field of that name -/
structure Col where
  tag : String
  numeric : Bool
  inPreamble : Bool
deriving DecidableEq, Repr

inductive Decision
  | keep
  | omitUndefined
  | omitConstant (v : Cell)
deriving DecidableEq, Repr

def isLarge : Cell → Bool
  | .num q => decide (100000 < q)
  | _ => false

/-- the decision of `_build_struct_list` for one selected column with table values `vals` (one per structure, non-empty) -/
def decideCol (suppr : Bool) (c : Col) (vals : List Cell) : Decision :=
  if c.tag = "name" then .keep
  else if c.numeric && vals.all isLarge then .omitUndefined
  else
    match vals with
    | [] => .keep
    | v0 :: _ => if vals.all (· == v0) && suppr && v0 != .txt "" then .omitConstant v0 else .keep

/-- what happens to the preamble field of a column -/
inductive Pre
  | untouched
  | value (v : Cell)      -- an omitted constant is shown in the preamble
  | variable              -- static preamble: the field stays with the word "variable"
  | removed               -- the column has its own place in the table
deriving DecidableEq, Repr

def preambleOf (suppr static : Bool) (c : Col) (vals : List Cell) : Pre :=
  if c.tag = "name" then .untouched
  else
    match decideCol suppr c vals with
    | .omitUndefined => .untouched
    | .omitConstant v => if c.inPreamble then .value v else .untouched
    | .keep => if c.inPreamble then (if static then .variable else .removed) else .untouched

/-- the structure list: waveguides sorted (stably) by their input y, then the markers in their own order -/
def rows {α : Type} (wgs : List (Rat × α)) (mks : List α) : List α :=
  ((wgs.mergeSort fun a b => decide (a.1 ≤ b.1)).map (·.2)) ++ mks

end Femto.Sh

/-
Model of the aliasing behind C09: numpy array cells with a dtype on a heap, `np.asarray(a, dtype=float32)` (returns the
SAME cell when the dtype already matches), the translation of `transform_points` (former in-place version and repaired
version), and the two estimates that used to accumulate.  Import-free.
-/
namespace Femto.Pur

inductive DT | f32 | f64 | i64
deriving DecidableEq, Repr

structure Arr where
  dtype : DT
  data : List Rat
deriving DecidableEq, Repr

abbrev AHeap := List Arr

def AHeap.cell (h : AHeap) (l : Nat) : Arr := h.getD l ⟨.f64, []⟩

/-- `np.asarray(a, dtype=np.float32)`: no copy when `a` already is a float32 array -/
def asF32 (h : AHeap) (l : Nat) : AHeap × Nat :=
  if (h.cell l).dtype = .f32 then (h, l) else (h ++ [⟨.f32, (h.cell l).data⟩], h.length)

/-- `x -= s` : writes into the cell -/
def subInPlace (h : AHeap) (l : Nat) (s : Rat) : AHeap × Nat :=
  (h.set l ⟨(h.cell l).dtype, (h.cell l).data.map (· - s)⟩, l)

/-- `x = x - s` : a new cell -/
def subNew (h : AHeap) (l : Nat) (s : Rat) : AHeap × Nat :=
  (h ++ [⟨(h.cell l).dtype, (h.cell l).data.map (· - s)⟩], h.length)

/-- the translation step of the former `transform_points` -/
def shiftOld (h : AHeap) (l : Nat) (s : Rat) : AHeap × Nat :=
  let a := asF32 h l
  subInPlace a.1 a.2 s

/-- the translation step of the repaired `transform_points` -/
def shiftNew (h : AHeap) (l : Nat) (s : Rat) : AHeap × Nat :=
  let a := asF32 h l
  subNew a.1 a.2 s

/-- an estimate that is recomputed (reset, then accumulated over one traversal of `parts`) -/
def recompute (_old : Rat) (parts : List Rat) : Rat := parts.foldl (· + ·) 0

/-- an estimate that is accumulated on top of the previous value (former behaviour) -/
def accumulate (old : Rat) (parts : List Rat) : Rat := parts.foldl (· + ·) old

def iter {α : Type} (f : α → α) : Nat → α → α
  | 0, a => a
  | n + 1, a => iter f n (f a)

end Femto.Pur

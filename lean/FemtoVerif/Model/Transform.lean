/-
Model of `PGMCompiler.transform_points` (with `flip`, `t_matrix`, `compensate`), written once over an arbitrary
scalar type `K` with just the operations it uses ("one definition, three interpretations", DESIGN 2.2):
executed at `Rat` by the driver, proved at any field (in particular `ℝ` with the real cosine and sine).
Import-free.
-/
namespace Femto

section
variable {K : Type} [Add K] [Sub K] [Mul K] [Div K] [Neg K] [OfNat K 0] [OfNat K 1] [OfNat K 2]

/-- `fx = int(flip) * 2 - 1` -/
def flipSign (flip : Bool) : K := (if flip then 1 else 0) * 2 - 1

/-- `transform_points` for one point.
* `wz` is the value of the warp function at the **untransformed** `(x, y)` (`0` when compensation is off);
* `x -= shift_origin[0]`, `y -= shift_origin[1]`;
* `flip`: `mirror_matrix = [[-fx, 0], [0, -fy]]` applied to `(x, y)`;
* `np.matmul((x, y, z), t_matrix)` with `t_matrix = (SM · RM)ᵀ`,
  `RM = [[c, -s, 0], [s, c, 0], [0, 0, 1]]`, `SM = diag(1, 1, 1 / neff)`, i.e. the matrix `[[c, s, 0], [-s, c, 0], [0, 0, 1/neff]]`. -/
def transformK (shiftX shiftY : K) (flipX flipY : Bool) (c s neff : K) (wz : K) (x y z : K) : K × K × K :=
  let z0 := z + wz
  let x1 := x - shiftX
  let y1 := y - shiftY
  let x2 := (-(flipSign flipX : K)) * x1 + 0 * y1
  let y2 := 0 * x1 + (-(flipSign flipY : K)) * y1
  (x2 * c + y2 * (-s) + z0 * 0,
   x2 * s + y2 * c + z0 * 0,
   x2 * 0 + y2 * 0 + z0 * (1 / neff))

end

end Femto

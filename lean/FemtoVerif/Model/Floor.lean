/-
Model of the queue logic of `femto.trench.Trench.toolpath`: which polygons become contours, which are hatched, in which
order.  The polygons themselves (GEOS insets) enter as an *inset tree*.  Import-free.
-/
namespace Femto.Floor

/-- the inset tree GEOS would return: `kids` is the result of `buffer_polygon(shape, -delta_floor)` — the parts of the inset
(a vanished inset is one empty polygon) -/
inductive Shape where
  | mk (id : Nat) (empty : Bool) (kids : List Shape)

def Shape.id : Shape → Nat | .mk i _ _ => i
def Shape.empty : Shape → Bool | .mk _ e _ => e
def Shape.kids : Shape → List Shape | .mk _ _ k => k

inductive Yield where
  | contour (s : Shape)   -- the exterior ring of `s`
  | hatch (s : Shape)     -- the zig-zag clipped to `s` grown by 1.05 * delta_floor

structure St where
  queue : List Shape
  out : List Yield

/-- one turn of the `for _ in range(num_insets)` loop; `break` on an empty list is modelled by doing nothing (every later
turn then does nothing as well) -/
def popStep (st : St) : St :=
  match st.queue with
  | [] => st
  | c :: q => if c.empty then { queue := q, out := st.out } else { queue := q ++ c.kids, out := st.out ++ [.contour c] }

def loop : Nat → St → St
  | 0, st => st
  | n + 1, st => loop n (popStep st)

/-- the closing loop: every remaining non-empty polygon is hatched (`drawn s = false` stands for a hatching that came out
empty and is not yielded) -/
def hatchAll (drawn : Shape → Bool) (q : List Shape) : List Yield :=
  (q.filter fun s => !s.empty && drawn s).map .hatch

def toolpath (drawn : Shape → Bool) (n : Nat) (block : Shape) : List Yield :=
  let st := loop n { queue := [block], out := [] }
  st.out ++ hatchAll drawn st.queue

/-- the loop as it was before the repair: popping from an empty list is an `IndexError` -/
def popStepOld (st : St) : Option St :=
  match st.queue with
  | [] => none
  | c :: q => some (if c.empty then { queue := q, out := st.out } else { queue := q ++ c.kids, out := st.out ++ [.contour c] })

def loopOld : Nat → St → Option St
  | 0, st => some st
  | n + 1, st => (popStepOld st).bind (loopOld n)

/-- `orientation`: vertical hatching iff the block is at least as tall as wide -/
def vertical (w h : Rat) : Bool := decide (w ≤ h)

/-- number of mask lines of `zigzag_mask` for an extent `w` (it always uses the x extent) and spacing `d`, rounded up to the
pairs the loop generates -/
def maskLines (w d : Rat) : Nat := let n := 2 + (w / d).floor.toNat; n + n % 2

end Femto.Floor

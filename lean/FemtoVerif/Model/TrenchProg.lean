/-
Model of the depth schedule of a trench column: number of wall passes and the depth (in glass) of each pass.  Import-free (core only).
Second part: compile-side model of `TrenchWriter._farcall_trench_column` (the call file of a plain trench column).
-/
import FemtoVerif.Model.Gcode

namespace Femto.TP

/-- `n_repeat = int(abs(ceil((h_box - z_off) / deltaz)))` -/
def nRepeat (h zoff dz : Rat) : Nat := ((h - zoff) / dz).ceil.natAbs

/-- depth in glass of wall pass `k` of level `L`: the call file starts the level at `L * h_box + z_off` and raises the
focus by `deltaz` after every pass -/
def passZ (h zoff dz : Rat) (L k : Nat) : Rat := L * h + zoff + k * dz

/-- depth at which the floor of level `L` is cut: after the `n` increments of the wall loop -/
def floorZ (h zoff dz : Rat) (L : Nat) : Rat := passZ h zoff dz L (nRepeat h zoff dz)

/-- the depths of all wall passes of a column, in fabrication order (level by level) -/
def schedule (h zoff dz : Rat) (nboxz : Nat) : List Rat :=
  (List.range nboxz).flatMap fun L => (List.range (nRepeat h zoff dz)).map fun k => passZ h zoff dz L k

/-! ### compile-side model of the call file of a trench column -/

open Femto.Ctl Femto.Gc

/-- what `TrenchWriter._farcall_trench_column` reads off a trench column -/
structure Col where
  index : Nat                      -- 0-based column index
  nboxz : Nat
  nRep : Int                       -- `column.n_repeat`
  baseFolder : String
  inits : List (Rat × Rat)         -- `(xborder[0], yborder[0])` of every trench, in column order
  hBox : Rat
  zOff : Rat
  deltaz : Rat
  speedClosed : Rat
  u : Option (Rat × Rat)           -- `(u[0], u[-1])` when the column has a `u` list
  upper : Bool := false            -- `UTrenchWriter` spells the sub-programs `_WALL.pgm` / `_FLOOR.pgm`
  beds : List (Rat × Rat) := []    -- `UTrenchColumn.trenchbed`: first exterior vertex of every bed block
deriving Repr, Inhabited

/-- `f'{n:03}'` -/
def pad3 (n : Nat) : String :=
  let s := toString n
  String.ofList (List.replicate (3 - s.length) '0') ++ s

def wallName (i : Nat) : String := "trench" ++ pad3 (i + 1) ++ "_wall.pgm"
def floorName (i : Nat) : String := "trench" ++ pad3 (i + 1) ++ "_floor.pgm"
def wallNameU (i : Nat) : String := "trench" ++ pad3 (i + 1) ++ "_WALL.pgm"
def floorNameU (i : Nat) : String := "trench" ++ pad3 (i + 1) ++ "_FLOOR.pgm"
def bedName (k : Nat) : String := "trench_BED_" ++ pad3 (k + 1) ++ ".pgm"
/-- the name under which the call file of column `c` refers to the wall / floor program of trench `i` -/
def Col.wall (c : Col) (i : Nat) : String := if c.upper then wallNameU i else wallName i
def Col.floor (c : Col) (i : Nat) : String := if c.upper then floorNameU i else floorName i
def colDir (c : Col) : String := "trenchCol" ++ pad3 (c.index + 1)
/-- `str(pathlib.Path(base_folder) / colDir / name)` for a non-empty base folder without trailing separator -/
def inCol (c : Col) (name : String) : String :=
  if c.baseFolder = "" then colDir c ++ "/" ++ name else c.baseFolder ++ "/" ++ colDir c ++ "/" ++ name

def instrR (is : List Instr) (cs : CS) : Res := Res.ofOut (emit is, cs)
def shutterR (cfg : Cfg) (on : Bool) (cs : CS) : Res := Res.ofOut (shutter cfg on cs)
def dwellR (p : Option Rat) (cs : CS) : Res := Res.ofOut (dwell p cs)
def moveToR (cfg : Cfg) (x y z sp : Option Rat) (cs : CS) : Res :=
  let r := moveTo cfg x y z sp cs; { out := r.1.1, cs := r.1.2, err := r.2 }

/-- `G1 U{u:.6f}` -/
def g1U (u : Rat) : Instr := .g1 { u := some (fmt 6 u), decs := [6] }

/-- the U move (with or without the pause that follows it) -/
def uMove (cfg : Cfg) (u : Option Rat) (pause : Bool) (cs : CS) : Res :=
  match u with
  | none => { cs := cs }
  | some v => if pause then (instrR [g1U v] cs).andThen (dwellR cfg.longPause) else instrR [g1U v] cs

/-- the wall loop: `with G.repeat(n): farcall(wall); $ZCURR += dz; G1 Z$ZCURR` -/
def wallLoop (cfg : Cfg) (c : Col) (i : Nat) (cs : CS) : Res :=
  if c.nRep ≤ 0 then { cs := cs, err := some (.value "Number of iterations is 0") }
  else
    let r := (farcallOp cfg (c.wall i) cs).andThen
      (instrR [.incVar "zcurr" (fmt 6 (c.deltaz / cfg.neff)), .g1 { zvar := some "ZCURR" }])
    { out := [Stmt.rep c.nRep.toNat r.out, Stmt.atom .blank], pre := r.pre,
      cs := { r.cs with dwellTotal := r.cs.dwellTotal + loopIncr c.nRep cs.dwellTotal r.cs.dwellTotal }, err := r.err }

/-- one (level, trench) block of the call file -/
def trenchBlock (cfg : Cfg) (c : Col) (nbox i : Nat) (xy : Rat × Rat) (cs : CS) : Res :=
  let p := transform cfg xy.1 xy.2 ((nbox : Rat) * c.hBox + c.zOff)
  ((((((((((((((((Res.ofOut (comment true cs)).andThen
    (loadOp (inCol c (c.wall i)) 2)).andThen
    (instrR [.msg])).andThen
    (shutterR cfg false)).andThen
    (uMove cfg (c.u.map (·.1)) true)).andThen
    (moveToR cfg (some p.1) (some p.2.1) (some p.2.2) (some c.speedClosed))).andThen
    (instrR [.setVar "zcurr" (fmt 6 p.2.2)])).andThen
    (shutterR cfg true)).andThen
    (wallLoop cfg c i)).andThen
    (removeOp (c.wall i) 2)).andThen
    (shutterR cfg false)).andThen
    (loadOp (inCol c (c.floor i)) 2)).andThen
    (instrR [.msg])).andThen
    (uMove cfg (c.u.map (·.2)) true)).andThen
    (shutterR cfg true)).andThen
    (farcallOp cfg (c.floor i))).andThen fun cs =>
  (((shutterR cfg false cs).andThen
    (uMove cfg (c.u.map (·.1)) false)).andThen
    (removeOp (c.floor i) 2))

/-- all blocks: `itertools.product(range(nboxz), enumerate(column))` — levels outermost -/
def blocksFrom (cfg : Cfg) (c : Col) : List (Nat × Nat × (Rat × Rat)) → CS → Res
  | [], cs => { cs := cs }
  | (nbox, i, xy) :: rest, cs => (trenchBlock cfg c nbox i xy cs).andThen (blocksFrom cfg c rest)

def blockList (c : Col) : List (Nat × Nat × (Rat × Rat)) :=
  (List.range c.nboxz).flatMap fun nbox => c.inits.zipIdx.map fun (xy, i) => (nbox, i, xy)

/-- one bed block of a U-trench call file (`UTrenchWriter._farcall_trench_column`, second loop): positioned in x / y only -/
def bedBlock (cfg : Cfg) (c : Col) (k : Nat) (xy : Rat × Rat) (cs : CS) : Res :=
  let p := transform cfg xy.1 xy.2 0
  ((((((((((Res.ofOut (comment true cs)).andThen
    (shutterR cfg false)).andThen
    (loadOp (inCol c (bedName k)) 2)).andThen
    (instrR [.msg])).andThen
    (uMove cfg (c.u.map (·.2)) true)).andThen
    (moveToR cfg (some p.1) (some p.2.1) none (some c.speedClosed))).andThen
    (shutterR cfg true)).andThen
    (farcallOp cfg (bedName k))).andThen
    (shutterR cfg false)).andThen
    (uMove cfg (c.u.map (·.1)) false)).andThen
    (removeOp (bedName k) 2)

def bedsFrom (cfg : Cfg) (c : Col) : List (Nat × (Rat × Rat)) → CS → Res
  | [], cs => { cs := cs }
  | (k, xy) :: rest, cs => (bedBlock cfg c k xy cs).andThen (bedsFrom cfg c rest)

def bedList (c : Col) : List (Nat × (Rat × Rat)) := c.beds.zipIdx.map fun (xy, k) => (k, xy)

/-- the body of `_farcall_trench_column` (both writers): `dvar(['ZCURR'])`, the (level, trench) blocks, the bed blocks of a
U-trench column, `MSGCLEAR -1` -/
def farcallBody (cfg : Cfg) (c : Col) (cs : CS) : Res :=
  let d : Res := { pre := emit [.dvar ["zcurr"], .blank], cs := { cs with dvars := cs.dvars ++ ["zcurr"] } }
  ((d.andThen (blocksFrom cfg c (blockList c))).andThen (bedsFrom cfg c (bedList c))).andThen (instrR [.msg])

/-- a whole compiler session around an arbitrary body (the shape of `Gc.session`) -/
def sessionWith (cfg : Cfg) (body : CS → Res) : List Stmt × CS :=
  let cs0 : CS := {}
  let h := seq (seq (emit (cfg.header ++ [.blank]), cs0) (dwell (some 1))) fun cs => (emit [.blank], cs)
  let h := if cfg.aeroAngle = 0 then h else seq h (enterRot cfg (some cfg.aeroAngle))
  let r := body h.2
  let x := if cfg.aeroAngle = 0 then (([] : List Stmt), r.cs) else seq (exitRot cfg r.cs) fun cs => (emit [.blank], cs)
  let g : Out :=
    if cfg.home then
      let m := moveTo cfg (some (-2)) (some 0) (some 0) none x.2
      (m.1.1, m.1.2)
    else ([], x.2)
  (r.pre ++ h.1 ++ r.out ++ x.1 ++ g.1, g.2)

def farcallFile (cfg : Cfg) (c : Col) : List Stmt × CS := sessionWith cfg (farcallBody cfg c)


/-! ### the leaf files: `export_array2d` -/

/-- one line of `export_array2d`: the transformed point printed as `G1 X… Y… [F…]`, with `G9` when the deceleration flag is set -/
def leafLine (cfg : Cfg) (xy : Rat × Rat) (f : Option Rat) (g9 : Bool) : Except Err Instr :=
  let p := transform cfg xy.1 xy.2 0
  (formatArgs cfg.digits (some p.1) (some p.2.1) none f).map fun w => .g1 { w with g9 := g9 }

/-- `export_array2d(x, y, speed, forced_deceleration)` for a scalar speed: the feed is printed on the first line only
(`zip_longest` against the one-element speed list), flags beyond the end of the flag list count as unset -/
def leafLines (cfg : Cfg) (speed : Rat) (decel : List Bool) : Nat → List (Rat × Rat) → Except Err (List Instr)
  | _, [] => .ok []
  | k, xy :: rest =>
    match leafLine cfg xy (if k = 0 then some speed else none) (decel.getD k false) with
    | .error e => .error e
    | .ok i => match leafLines cfg speed decel (k + 1) rest with
      | .error e => .error e
      | .ok is => .ok (i :: is)

def leafFile (cfg : Cfg) (pts : List (Rat × Rat)) (speed : Rat) (decel : List Bool) : Except Err (List Instr) :=
  leafLines cfg speed decel 0 pts

end Femto.TP

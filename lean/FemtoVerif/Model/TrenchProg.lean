/-
Model of the depth schedule of a trench column: number of wall passes and the depth (in glass) of each pass.  Import-free.
-/
namespace Femto.TP

/-- `n_repeat = int(abs(ceil((h_box - z_off) / deltaz)))` -/
def nRepeat (h zoff dz : Rat) : Nat := ((h - zoff) / dz).ceil.natAbs

/-- depth in glass of wall pass `k` of level `L`: the call file starts the level at `L * h_box + z_off` and raises the
focus by `deltaz` after every pass -/
def passZ (h zoff dz : Rat) (L k : Nat) : Rat := L * h + zoff + k * dz

/-- depth at which the floor of level `L` is cut: after the `n` increments of the wall loop -/
def floorZ (h zoff dz : Rat) (L : Nat) : Rat := passZ h zoff dz L (nRepeat h zoff dz)

/-- the depths of all wall passes of a column, in fabrication order (level by level) -/
def schedule (h zoff dz : Rat) (nboxz : Nat) : List Rat :=
  (List.range nboxz).flatMap fun L => (List.range (nRepeat h zoff dz)).map fun k => passZ h zoff dz L k

end Femto.TP

/-
Model of the list logic of `femto.trench.TrenchColumn._dig` (the geometry itself is GEOS and enters as data):
the adjusted bridge, the numbering of the raw blocks, and removal by index.  Import-free.
-/
namespace Femto.Tr

/-- `adj_bridge = bridge / 2 + beam_waist + round_corner` -/
def adjBridge {K : Type} [Add K] [Div K] [OfNat K 2] (bridge waist rc : K) : K := bridge / 2 + waist + rc

/-- `sorted(blocks, key=lambda b: b.bounds[1])` — stable, by the lowest y of the raw block -/
def orderBlocks {α : Type} (bs : List (Rat × α)) : List (Rat × α) := bs.mergeSort fun a b => decide (a.1 ≤ b.1)

/-- insertion into a strictly descending list without duplicates -/
def insertDesc (x : Nat) : List Nat → List Nat
  | [] => [x]
  | y :: ys => if y < x then x :: y :: ys else if y = x then y :: ys else y :: insertDesc x ys

/-- `sorted(set(remove), reverse=True)` -/
def sortedSetDesc (l : List Nat) : List Nat := l.foldr insertDesc []

/-- `del l[index]` for a non-negative index; `none` is Python's `IndexError` -/
def delAt? {α : Type} (l : List α) (i : Nat) : Option (List α) := if i < l.length then some (l.eraseIdx i) else none

/-- `for index in sorted(set(remove), reverse=True): del l[index]` -/
def removeIdx? {α : Type} (l : List α) (idx : List Nat) : Option (List α) := (sortedSetDesc idx).foldlM delAt? l

/-- the elements of `l` (numbered from `k`) whose number is not in `ds` -/
def keepFrom {α : Type} (k : Nat) (ds : List Nat) : List α → List α
  | [] => []
  | a :: as => if k ∈ ds then keepFrom (k + 1) ds as else a :: keepFrom (k + 1) ds as

/-- `_dig` after GEOS produced the raw blocks `raw` (each with its lowest y): number, round, remove -/
def dig {α β : Type} (raw : List (Rat × α)) (round : α → β) (remove : List Nat) : Option (List β) :=
  removeIdx? ((orderBlocks raw).map fun p => round p.2) remove

end Femto.Tr

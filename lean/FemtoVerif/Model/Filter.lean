/-
Model of `femto.helpers.unique_filter`, `femto.helpers.split_mask` and of the `LaserPath` views built on
them (`points`, `x`, `y`, `z`, `lastx/y/z`, `lastpt`, `path3d`).  Import-free (core only) so that the
driver can execute it.  Rows are lists of exact rationals (every finite float32 is a rational; `-0.0`
and `0.0` are the same rational, which is also how numpy's `diff(...) != 0` treats them).
-/
namespace Femto

/-- numpy: `mask = insert(sum(diff(data, axis=0), axis=1, dtype=bool), 0, True)`:
entry `i+1` of the mask says whether row `i+1` differs from row `i` **of the raw data** in any column. -/
def diffMask {α : Type} [DecidableEq α] : List α → List Bool
  | [] => []
  | x :: xs => true :: go x xs
where
  go : α → List α → List Bool
    | _, [] => []
    | p, y :: ys => (decide (y ≠ p)) :: go y ys

/-- `data[mask]` -/
def applyMask {α : Type} : List α → List Bool → List α
  | x :: xs, b :: bs => if b then x :: applyMask xs bs else applyMask xs bs
  | _, _ => []

/-- `unique_filter` on the list of rows (the transposition to columns is done by the caller). -/
def uniqueFilter {α : Type} [DecidableEq α] (rows : List α) : List α :=
  applyMask rows (diffMask rows)

/-- The recorded trajectory of a `LaserPath`: the five private arrays `_x,_y,_z,_f,_s`, row-wise. -/
structure Row (K : Type) where
  x : K
  y : K
  z : K
  f : K
  s : K
deriving DecidableEq, Repr

/-- `LaserPath.points` (as rows) -/
def points {K : Type} [DecidableEq K] (raw : List (Row K)) : List (Row K) := uniqueFilter raw

def xs {K : Type} [DecidableEq K] (raw : List (Row K)) : List K := (points raw).map (·.x)
def ys {K : Type} [DecidableEq K] (raw : List (Row K)) : List K := (points raw).map (·.y)
def zs {K : Type} [DecidableEq K] (raw : List (Row K)) : List K := (points raw).map (·.z)

def lastx {K : Type} [DecidableEq K] (raw : List (Row K)) : Option K := (xs raw).getLast?
def lasty {K : Type} [DecidableEq K] (raw : List (Row K)) : Option K := (ys raw).getLast?
def lastz {K : Type} [DecidableEq K] (raw : List (Row K)) : Option K := (zs raw).getLast?

/-- `LaserPath.lastpt` reads the **raw** arrays (`self._x[-1]` ...). -/
def lastpt {K : Type} (raw : List (Row K)) : Option (K × K × K) :=
  raw.getLast?.map fun r => (r.x, r.y, r.z)

/-- the four columns `path3d` filters on: `unique_filter([_x,_y,_z,_s])` — no feed column. -/
def proj4 {K : Type} (r : Row K) : K × K × K × K := (r.x, r.y, r.z, r.s)

/-- `LaserPath.path3d`: filter the four-column matrix, then delete the rows whose shutter value is zero. -/
def path3d {K : Type} [DecidableEq K] [OfNat K 0] (raw : List (Row K)) : List (K × K × K) :=
  ((uniqueFilter (raw.map proj4)).filter (fun r => decide (r.2.2.2 ≠ 0))).map fun r => (r.1, r.2.1, r.2.2.1)

/-! ### split_mask -/

/-- Decomposition of a flagged list into maximal runs of equal flag (right fold).  This is what
`np.split(arr, nonzero(mask[1:] != mask[:-1]) + 1)` computes, each piece tagged with its flag. -/
def pieces {α : Type} : List (α × Bool) → List (Bool × List α)
  | [] => []
  | (a, b) :: t =>
    match pieces t with
    | (b', run) :: rest => if b = b' then (b, a :: run) :: rest else (b, [a]) :: (b', run) :: rest
    | [] => [(b, [a])]

/-- `l[0::2]` -/
def everyOther {β : Type} : List β → List β
  | [] => []
  | [a] => [a]
  | a :: _ :: t => a :: everyOther t

/-- `split_mask(arr, mask)`; `none` is Python's `IndexError` on an empty mask (`mask[0]`).
Arrays of different length are outside the model (the callers always pass equal lengths). -/
def splitMask {α : Type} (arr : List α) (mask : List Bool) : Option (List (List α)) :=
  match mask with
  | [] => none
  | m0 :: _ =>
    let sp := (pieces (arr.zip mask)).map (·.2)
    some (if m0 then everyOther sp else everyOther sp.tail)

end Femto

/-
Model of `femto.pgmcompiler.PGMCompiler`: number formatting, coordinate transformation, dwell / shutter /
move_to / write / set_home / loops / axis rotation / sub-program bookkeeping, and the session
(`__enter__` … user operations, possibly raising … `__exit__`).

The model emits **loop-structured statements** (`Ctl.Stmt`); the text the implementation writes corresponds to
`Ctl.flattenStmts`.  Python control flow is reproduced: a validation error or a user exception stops the
sequence, every enclosing `repeat` / `for_loop` / `axis_rotation` still runs its `finally`.
Import-free (core only).
-/
import FemtoVerif.Spec.Controller
import FemtoVerif.Model.Transform

namespace Femto.Gc
open Femto Femto.Ctl

def rabs (q : Rat) : Rat := if q < 0 then -q else q

/-- round half to even (what CPython's `format(x, '.{d}f')` does on the exact value of the float) -/
def roundHalfEven (q : Rat) : Int :=
  let f := q.floor
  let r := q - f
  if r < 1/2 then f else if 1/2 < r then f + 1 else if f % 2 = 0 then f else f + 1

def pow10 (d : Nat) : Rat := ((10 ^ d : Nat) : Rat)

/-- the value printed by `f'{q:.{d}f}'` -/
def fmt (d : Nat) (q : Rat) : Rat := (roundHalfEven (q * pow10 d) : Rat) / pow10 d

inductive Err
  | value (msg : String)        -- ValueError
  | fileNotFound (msg : String) -- FileNotFoundError
  | user                         -- exception raised by user code inside the context
deriving DecidableEq, Repr

/-- `_format_args`: `none` arguments are skipped; the feed guard raises *before* anything is printed -/
def formatArgs (d : Nat) (x y z f : Option Rat) : Except Err G1W :=
  match f with
  | some fv =>
    if fv < 1 / pow10 d then .error (.value "Try to move with F <= 0.0 mm/s")
    else .ok { x := x.map (fmt d), y := y.map (fmt d), z := z.map (fmt d), f := some (fmt d fv),
               decs := (([x, y, z, f].filter Option.isSome).map fun _ => d) }
  | none => .ok { x := x.map (fmt d), y := y.map (fmt d), z := z.map (fmt d), f := none,
                  decs := (([x, y, z].filter Option.isSome).map fun _ => d) }

structure Cfg where
  psoAxis : String := "X"
  header : List Instr := []
  shortPause : Option Rat := some (1/10)
  longPause : Option Rat := some (1/2)
  speedPos : Rat := 5
  digits : Nat := 6
  home : Bool := false
  /-- `aerotech_angle` after `__post_init__` (0 = no G84 in the session) -/
  aeroAngle : Rat := 0
  shiftX : Rat := 0
  shiftY : Rat := 0
  flipX : Bool := false
  flipY : Bool := false
  cosA : Rat := 1
  sinA : Rat := 0
  /-- n_glass / n_environment -/
  neff : Rat := 1
deriving Repr, Inhabited

/-- `transform_points` for one point, warp compensation switched off (the generic model of `Model/Transform.lean`
instantiated at the exact rationals and at this configuration) -/
def transform (cfg : Cfg) (x y z : Rat) : Rat × Rat × Rat :=
  transformK cfg.shiftX cfg.shiftY cfg.flipX cfg.flipY cfg.cosA cfg.sinA cfg.neff 0 x y z

/-- compiler state (everything except the instruction deque) -/
structure CS where
  shutterOn : Bool := false
  dwellTotal : Rat := 0
  loaded : List String := []
  dvars : List String := []
deriving Repr, Inhabited, DecidableEq

abbrev Out := List Stmt × CS

def emit (is : List Instr) : List Stmt := is.map Stmt.atom

def dwell (p : Option Rat) (cs : CS) : Out :=
  match p with
  | none => ([], cs)
  | some t => if t = 0 then ([], cs) else (emit [.dwell (rabs t)], { cs with dwellTotal := cs.dwellTotal + rabs t })

def shutter (cfg : Cfg) (on : Bool) (cs : CS) : Out :=
  if on && !cs.shutterOn then (emit [.pso cfg.psoAxis true], { cs with shutterOn := true })
  else if !on && cs.shutterOn then (emit [.pso cfg.psoAxis false], { cs with shutterOn := false })
  else ([], cs)

/-- sequencing of two emitting steps -/
def seq (a : Out) (f : CS → Out) : Out :=
  let b := f a.2
  (a.1 ++ b.1, b.2)

/-- the five-entry block `\n, DWELL short, PSOCONTROL, DWELL long, \n` of `write` -/
def toggle (cfg : Cfg) (on : Bool) (cs : CS) : Out :=
  seq (seq (seq (emit [.blank], cs) (dwell cfg.shortPause)) (shutter cfg on)) fun cs =>
    seq (dwell cfg.longPause cs) fun cs => (emit [.blank], cs)

/-- one row of a point matrix -/
structure Pt where
  x : Rat
  y : Rat
  z : Rat
  f : Rat
  s : Rat
deriving DecidableEq, Repr, Inhabited

/-- the shutter part of one iteration of the point loop of `write`: the five-entry block when the point's shutter
value asks for a change; the flag says whether a toggle happened -/
def toggleStep (cfg : Cfg) (s : Rat) (cs : CS) : Out × Bool :=
  if s = 0 ∧ cs.shutterOn = true then (toggle cfg false cs, true)
  else if s = 1 ∧ cs.shutterOn = false then (toggle cfg true cs, true)
  else (([], cs), false)

/-- the motion part (repaired loop): the `G1` is emitted unless a toggle happened on a repeated point -/
def maybeG1 (toggled : Bool) (prev : Option G1W) (w : G1W) : List Stmt :=
  if toggled = false ∨ some w ≠ prev then emit [.g1 w] else []

/-- the point loop of `write` -/
def writeLoop (cfg : Cfg) : Option G1W → List (G1W × Rat) → CS → Out
  | _, [], cs => ([], cs)
  | prev, (w, s) :: rest, cs =>
    let t := toggleStep cfg s cs
    let r := writeLoop cfg (some w) rest t.1.2
    (t.1.1 ++ maybeG1 t.2 prev w ++ r.1, r.2)

def formatPt (cfg : Cfg) (p : Pt) : Except Err (G1W × Rat) :=
  let t := transform cfg p.x p.y p.z
  (formatArgs cfg.digits (some t.1) (some t.2.1) (some t.2.2) (some p.f)).map fun w => (w, p.s)

/-- `PGMCompiler.write`: every point is formatted (and its feed validated) before anything is emitted -/
def write (cfg : Cfg) (m : List Pt) (cs : CS) : Except Err Out :=
  (m.mapM (formatPt cfg)).map fun ws =>
    seq (seq (writeLoop cfg none ws cs) (dwell cfg.longPause)) fun cs => (emit [.blank], cs)

def closeIfOpen (cfg : Cfg) (cs : CS) : Out := if cs.shutterOn = true then shutter cfg false cs else ([], cs)

/-- `move_to` (three coordinates, each possibly `None`; optional speed) -/
def moveTo (cfg : Cfg) (x y z : Option Rat) (speed : Option Rat) (cs : CS) : Out × Option Err :=
  match formatArgs cfg.digits x y z (some (speed.getD cfg.speedPos)) with
  | .error e => (closeIfOpen cfg cs, some e)
  | .ok w =>
    (seq (seq (closeIfOpen cfg cs) fun cs => (emit [.g1 w], cs)) fun cs =>
      seq (dwell cfg.longPause cs) fun cs => (emit [.blank], cs), none)

def comment (nonEmpty : Bool) (cs : CS) : Out :=
  if nonEmpty then (emit [.blank, .comment "; user comment"], cs) else (emit [.blank], cs)

def originW (cfg : Cfg) : G1W :=
  { x := some 0, y := some 0, z := some 0, f := some (fmt 6 cfg.speedPos), decs := [6, 6, 6, 6] }

/-- `_enter_axis_rotation(angle)`; `angle` already reduced modulo 360 by the caller of the model -/
def enterRot (cfg : Cfg) (angle : Option Rat) (cs : CS) : Out :=
  let a := seq (seq (comment true cs) fun cs => (emit [.g1 (originW cfg), .g84 none], cs)) (dwell cfg.shortPause)
  if angle.isNone && cfg.aeroAngle = 0 then a
  else
    let ang := match angle with | none => cfg.aeroAngle | some q => q
    seq (seq a fun cs => (emit [.g84 (some ang), .blank], cs)) (dwell cfg.shortPause)

def exitRot (cfg : Cfg) (cs : CS) : Out :=
  seq (seq (comment true cs) fun cs => (emit [.g1 (originW cfg), .g84 none], cs)) (dwell cfg.shortPause)

/-! pathlib fragment used by the sub-program bookkeeping -/
def posixName (p : String) : String := String.ofList ((p.toList.reverse.takeWhile (· != '/')).reverse)

/-- index of the last dot that makes a suffix (not first, not last character) -/
def suffixOf (name : String) : String :=
  let cs := name.toList
  let tail := (cs.reverse.takeWhile (· != '.')).reverse
  if tail.length = cs.length then ""            -- no dot
  else if tail.isEmpty then ""                  -- trailing dot
  else if tail.length + 1 = cs.length then ""   -- leading dot only
  else String.ofList ('.' :: tail)

def stemOf (p : String) : String :=
  let n := posixName p
  String.ofList (n.toList.take (n.length - (suffixOf n).length))

def isPgm (p : String) : Bool := suffixOf (posixName p) == ".pgm"

inductive Op
  | write (m : List Pt)
  | moveTo (x y z : Option Rat) (speed : Option Rat)
  | goOrigin
  | goInit
  | dwell (p : Option Rat)
  | comment (nonEmpty : Bool)
  | setHome (x y z : Option Rat)
  | rep (n : Int) (body : List Op)
  | forr (v : String) (n : Int) (body : List Op)
  | axisRot (angle : Option Rat) (body : List Op)
  | dvar (vs : List String)
  | load (path : String) (task : Nat)
  | farcall (path : String)
  | buffered (path : String) (task : Nat)
  | remove (path : String) (task : Nat)
  | farcallList (items : List (String × Nat))
  | raise
  /-- `try: <body> except Exception: pass` in the user's code: an error inside is swallowed, what was emitted stays -/
  | attempt (body : List Op)
  /-- `load_program(path, task_id=<something int() rejects>)`: refused before anything is emitted or recorded -/
  | loadBad (path : String)
deriving Repr, Inhabited

/-- result of running operations: emitted statements, hoisted `DVAR` lines (latest first, as `appendleft`
puts them), state, and the error that stopped the sequence (if any) -/
structure Res where
  out : List Stmt := []
  pre : List Stmt := []
  cs : CS := {}
  err : Option Err := none
deriving Repr, Inhabited

def Res.ofOut (o : Out) : Res := { out := o.1, cs := o.2 }

def loadOp (path : String) (task : Nat) (cs : CS) : Res :=
  if !isPgm path then { cs := cs, err := some (.value "wrong extension") }
  else { out := emit [.load task path],
         cs := { cs with loaded := if cs.loaded.contains (stemOf path) then cs.loaded else cs.loaded ++ [stemOf path] } }

def removeOp (path : String) (task : Nat) (cs : CS) : Res :=
  if !isPgm path then { cs := cs, err := some (.value "wrong extension") }
  else if !cs.loaded.contains (stemOf path) then { cs := cs, err := some (.fileNotFound "not loaded") }
  else { out := emit [.stop task, .waitIdle task, .remove (posixName path)],
         cs := { cs with loaded := cs.loaded.erase (stemOf path) } }

def farcallOp (cfg : Cfg) (path : String) (cs : CS) : Res :=
  if !isPgm path then { cs := cs, err := some (.value "wrong extension") }
  else if !cs.loaded.contains (stemOf path) then { cs := cs, err := some (.fileNotFound "not loaded") }
  else Res.ofOut (seq (dwell cfg.shortPause cs) fun cs => (emit [.farcall path], cs))

def bufferedOp (cfg : Cfg) (path : String) (task : Nat) (cs : CS) : Res :=
  if !isPgm path then { cs := cs, err := some (.value "wrong extension") }
  else if !cs.loaded.contains (stemOf path) then { cs := cs, err := some (.fileNotFound "not loaded") }
  else Res.ofOut (seq (dwell cfg.shortPause cs) fun cs => (emit [.blank, .buffered task path], cs))

/-- continue with `f` unless `a` stopped with an error -/
def Res.andThen (a : Res) (f : CS → Res) : Res :=
  match a.err with
  | some _ => a
  | none => let b := f a.cs; { out := a.out ++ b.out, pre := b.pre ++ a.pre, cs := b.cs, err := b.err }

def farcallListOp (cfg : Cfg) : List (String × Nat) → CS → Res
  | [], cs => { cs := cs }
  | (p, t) :: rest, cs =>
    ((((loadOp p t cs).andThen (farcallOp cfg (posixName p))).andThen fun cs => Res.ofOut (dwell cfg.shortPause cs)).andThen
      (removeOp (posixName p) t)).andThen fun cs =>
        (Res.ofOut (seq (dwell cfg.shortPause cs) fun cs => (emit [.blank, .blank], cs))).andThen (farcallListOp cfg rest)

/-- increment added by the `finally` of `repeat` / `for_loop`: `int(num - 1) * (total - temp)` -/
def loopIncr (n : Int) (before after : Rat) : Rat := ((n - 1 : Int) : Rat) * (after - before)

mutual
  def execOp (cfg : Cfg) : Op → CS → Res
    | .write m, cs =>
      match write cfg m cs with
      | .ok o => Res.ofOut o
      | .error e => { cs := cs, err := some e }
    | .moveTo x y z sp, cs => let r := moveTo cfg x y z sp cs; { out := r.1.1, cs := r.1.2, err := r.2 }
    | .goOrigin, cs =>
      (Res.ofOut (comment true cs)).andThen fun cs =>
        let r := moveTo cfg (some 0) (some 0) (some 0) none cs; { out := r.1.1, cs := r.1.2, err := r.2 }
    | .goInit, cs => let r := moveTo cfg (some (-2)) (some 0) (some 0) none cs; { out := r.1.1, cs := r.1.2, err := r.2 }
    | .dwell p, cs => Res.ofOut (dwell p cs)
    | .comment b, cs => Res.ofOut (comment b cs)
    | .setHome x y z, cs =>
      if x.isNone && y.isNone && z.isNone then { cs := cs, err := some (.value "home position is (None, None, None)") }
      else { out := emit [.g92 (x.map (fmt cfg.digits)) (y.map (fmt cfg.digits)) (z.map (fmt cfg.digits))], cs := cs }
    | .rep n body, cs =>
      if n ≤ 0 then { cs := cs, err := some (.value "Number of iterations is 0") }
      else
        let r := execOps cfg body cs
        { out := [Stmt.rep n.toNat r.out, Stmt.atom .blank], pre := r.pre,
          cs := { r.cs with dwellTotal := r.cs.dwellTotal + loopIncr n cs.dwellTotal r.cs.dwellTotal }, err := r.err }
    | .forr v n body, cs =>
      if n ≤ 0 then { cs := cs, err := some (.value "Number of iterations is 0") }
      else if !cs.dvars.contains (lower v) then { cs := cs, err := some (.value "variable not declared") }
      else
        let r := execOps cfg body cs
        { out := [Stmt.forr (lower v) 0 (n - 1) r.out, Stmt.atom .blank], pre := r.pre,
          cs := { r.cs with dwellTotal := r.cs.dwellTotal + loopIncr n cs.dwellTotal r.cs.dwellTotal }, err := r.err }
    | .axisRot angle body, cs =>
      let a := enterRot cfg angle cs
      let r := execOps cfg body a.2
      let x := exitRot cfg r.cs
      { out := a.1 ++ r.out ++ x.1, pre := r.pre, cs := x.2, err := r.err }
    | .dvar vs, cs =>
      { pre := emit [.dvar (vs.map lower), .blank], cs := { cs with dvars := cs.dvars ++ vs.map lower } }
    | .load p t, cs => loadOp p t cs
    | .farcall p, cs => farcallOp cfg p cs
    | .buffered p t, cs => bufferedOp cfg p t cs
    | .remove p t, cs => removeOp p t cs
    | .farcallList items, cs => farcallListOp cfg items cs
    | .raise, cs => { cs := cs, err := some .user }
    | .attempt body, cs => let r := execOps cfg body cs; { r with err := none }
    | .loadBad _, cs => { cs := cs, err := some (.value "task id is not an integer") }
  def execOps (cfg : Cfg) : List Op → CS → Res
    | [], cs => { cs := cs }
    | op :: ops, cs =>
      let a := execOp cfg op cs
      match a.err with
      | some _ => a
      | none => let b := execOps cfg ops a.cs; { out := a.out ++ b.out, pre := b.pre ++ a.pre, cs := b.cs, err := b.err }
end

/-- the whole `with PGMCompiler(...) as G: <ops>` session: what is written to the file, and the final state -/
def session (cfg : Cfg) (ops : List Op) : List Stmt × CS :=
  let cs0 : CS := {}
  let h := seq (seq (emit (cfg.header ++ [.blank]), cs0) (dwell (some 1))) fun cs => (emit [.blank], cs)
  let h := if cfg.aeroAngle = 0 then h else seq h (enterRot cfg (some cfg.aeroAngle))
  let r := execOps cfg ops h.2
  let x := if cfg.aeroAngle = 0 then (([] : List Stmt), r.cs) else seq (exitRot cfg r.cs) fun cs => (emit [.blank], cs)
  let g : Out :=
    if cfg.home then
      let m := moveTo cfg (some (-2)) (some 0) (some 0) none x.2
      (m.1.1, m.1.2)
    else ([], x.2)
  (r.pre ++ h.1 ++ r.out ++ x.1 ++ g.1, g.2)

end Femto.Gc

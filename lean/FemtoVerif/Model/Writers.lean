/-
Model of the three single-file writers (`WaveguideWriter.pgm`, `NasuWriter.pgm`, `MarkerWriter.pgm`) as
operation lists for the compiler model, of `NasuWaveguide.adj_scan_order`, and of the output file naming.
Import-free.
-/
import FemtoVerif.Model.Gcode

namespace Femto.Wr
open Femto.Gc Femto.Ctl

/-- `NasuWaveguide.adj_scan_order` for `adj_scan = n`:
odd: `[0, 1, -1, 2, -2, …]`, even: `[1/2, -1/2, 3/2, -3/2, …]` -/
def adjScanOrder (n : Nat) : List Rat :=
  if n % 2 = 1 then
    (0 : Rat) :: ((List.range (n / 2)).flatMap fun (i : Nat) => [((i + 1 : Nat) : Rat), -((i + 1 : Nat) : Rat)])
  else
    (List.range (n / 2)).flatMap fun (i : Nat) => [(i : Rat) + 1 / 2, -(i : Rat) - 1 / 2]

/-- `nwg.points + shift * coord_shift`: only x, y, z move; feed and shutter columns are untouched -/
def shiftPts (m : List Pt) (k dx dy dz : Rat) : List Pt :=
  m.map fun p => { p with x := p.x + k * dx, y := p.y + k * dy, z := p.z + k * dz }

/-- a waveguide as the writer sees it: its point matrix and its number of scans -/
structure WG where
  pts : List Pt
  scan : Int
deriving Repr, Inhabited

/-- `WaveguideWriter.pgm`: one `REPEAT first.scan` block per bunch, every member written inside it; then `go_init` -/
def wgOps (bunches : List (List WG)) : List Op :=
  (bunches.map fun b => Op.rep (match b with | w :: _ => w.scan | [] => 0) (b.map fun w => Op.write w.pts)) ++ [Op.goInit]

structure Nasu where
  pts : List Pt
  adjScan : Nat
  dx : Rat
  dy : Rat
  dz : Rat
deriving Repr, Inhabited

/-- `NasuWriter.pgm`: one `write` of the shifted copy per adjacent pass, in `adj_scan_order`; then `go_init` -/
def nasuOps (ws : List Nasu) : List Op :=
  (ws.flatMap fun w => (adjScanOrder w.adjScan).map fun k => Op.write (shiftPts w.pts k w.dx w.dy w.dz)) ++ [Op.goInit]

/-- `MarkerWriter.pgm`: `REPEAT mk.scan { comment, write, blank }` per marker; then `go_origin` -/
def mkOps (ms : List WG) : List Op :=
  (ms.map fun m => Op.rep m.scan [Op.comment true, Op.write m.pts, Op.comment false]) ++ [Op.goOrigin]

/-- output file of a writer: `export_dir / (stem(filename) + suffix + ".pgm")`, or nothing for an empty writer -/
def outFile (exportDir : String) (filename : String) (suffix : String) (empty : Bool) : Option String :=
  if empty then none
  else
    let name := stemOf filename ++ suffix ++ ".pgm"
    some (if exportDir = "" then name else exportDir ++ "/" ++ name)

end Femto.Wr

/-
Model of the file-name and parameter-dictionary logic: `LaserPath.export` target, `helpers.load_parameters` file name
and DEFAULT merge, the key filter of `from_dict`, the output path of `PGMCompiler.close`.
Paths are POSIX strings as `pathlib` prints them (no trailing or doubled separators).  Import-free.
-/
import FemtoVerif.Model.Gcode

namespace Femto.Fl
open Femto.Gc (suffixOf posixName stemOf)

/-- `Path(p).parent` as a string ending in "/" (empty for a bare name) -/
def dirOf (p : String) : String :=
  String.ofList (p.toList.reverse.dropWhile (· != '/')).reverse

/-- `LaserPath.export(filename)`: where the pickle is written -/
def exportTarget (filename : String) : String :=
  let sfx := suffixOf (posixName filename)
  if sfx == ".pickle" || sfx == ".pkl" then filename else filename ++ ".pkl"

/-- `Path(p).with_suffix(ext)`: replace the last suffix of the name, or append one -/
def withSuffix (p : String) (ext : String) : String :=
  dirOf p ++ stemOf p ++ ext

/-- `load_parameters(param_file)`: the file that is opened -/
def paramsTarget (p : String) : String := withSuffix p ".yaml"

/-- `PGMCompiler.close()`: `export_dir / Path(filename).with_suffix('.pgm')` -/
def pgmTarget (exportDir filename : String) : String :=
  (if exportDir = "" then "" else exportDir ++ "/") ++ withSuffix filename ".pgm"

section dicts
variable {V : Type}

def lookup (k : String) : List (String × V) → Option V
  | [] => none
  | (k', v) :: rest => if k' = k then some v else lookup k rest

/-- `{**default, **section}` as an association list: the DEFAULT entries the section does not define, then the section -/
def mergeDict (dflt sect : List (String × V)) : List (String × V) :=
  dflt.filter (fun e => (lookup e.1 sect).isNone) ++ sect

/-- `load_parameters` on a parsed document (sections in file order): DEFAULT is removed and merged into every other section -/
def loadParams (doc : List (String × List (String × V))) : List (List (String × V)) :=
  let dflt := (lookup "DEFAULT" doc).getD []
  (doc.filter (fun s => s.1 != "DEFAULT")).map fun s => mergeDict dflt s.2

/-- `{k: v for k, v in param.items() if k in signature(cls).parameters}` -/
def filterKeys (names : List String) (param : List (String × V)) : List (String × V) :=
  param.filter fun e => names.contains e.1

end dicts

end Femto.Fl

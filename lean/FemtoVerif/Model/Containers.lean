/-
Model of `Device.append / extend / parse_objects` and of the five writers' `extend`, at the level of object identities
and list structure (a value is an object `obj id type` or a group — a Python list — of values).
A second, small part models list cells on a heap with the primitives the code uses (copy, splice, extend), to state
that the caller's lists are left as they were.  Import-free.
-/
namespace Femto.Cont

inductive Ty
  | wg | nasu | tc | utc | mk
  | foreign (n : Nat)
deriving DecidableEq, Repr

inductive Item
  | obj (id : Nat) (ty : Ty)
  | grp (items : List Item)
deriving Repr

inductive CErr
  | typeError
  | valueError
  | indexError
deriving DecidableEq, Repr

mutual
  /-- `flatten([item])`: the objects in order -/
  def flatItem : Item → List (Nat × Ty)
    | .obj i t => [(i, t)]
    | .grp l => flatList l
  def flatList : List Item → List (Nat × Ty)
    | [] => []
    | a :: t => flatItem a ++ flatList t
end

mutual
  /-- `nest_level` of a value (0 for an object) -/
  def levelItem : Item → Nat
    | .obj _ _ => 0
    | .grp l => levelList l + 1
  /-- `max(nest_level(item) for item in lst)` (0 for the empty list) -/
  def levelList : List Item → Nat
    | [] => 0
    | a :: t => max (levelItem a) (levelList t)
end

/-- `nest_level(lst)` of a Python list -/
def nestLevel (l : List Item) : Nat := levelList l + 1

/-- `isinstance(object of type t, class k)`: `NasuWaveguide` derives from `Waveguide`, `UTrenchColumn` from `TrenchColumn` -/
def isInst (k t : Ty) : Bool :=
  match k, t with
  | .wg, .wg | .wg, .nasu | .nasu, .nasu | .tc, .tc | .tc, .utc | .utc, .utc | .mk, .mk => true
  | _, _ => false

/-- the five collections of a device (the writers' `obj_list`) -/
structure Dev where
  wg : List Item := []
  nasu : List Item := []
  tc : List Item := []
  utc : List Item := []
  mkr : List Item := []
deriving Repr

def Dev.get (d : Dev) : Ty → List Item
  | .wg => d.wg | .nasu => d.nasu | .tc => d.tc | .utc => d.utc | .mk => d.mkr
  | .foreign _ => []

def Dev.set (d : Dev) (k : Ty) (l : List Item) : Dev :=
  match k with
  | .wg => { d with wg := l } | .nasu => { d with nasu := l } | .tc => { d with tc := l }
  | .utc => { d with utc := l } | .mk => { d with mkr := l }
  | .foreign _ => d

/-- the `for x in flatten(obj): self.append(x)` loop of the trench / U-trench / marker writers: objects are appended one
by one until one fails the `isinstance` check (what was appended before stays) -/
def appendLoop (k : Ty) (w : List Item) : List (Nat × Ty) → List Item × Option CErr
  | [] => (w, none)
  | (i, t) :: rest => if isInst k t then appendLoop k (w ++ [.obj i t]) rest else (w, some .typeError)

/-- `writer.extend(e)` for the writer registered under `k` -/
def writerExtend (k : Ty) (w : List Item) (e : List Item) : List Item × Option CErr :=
  match k with
  | .wg =>
    if nestLevel e > 2 then (w, some .valueError)
    else if (flatList e).all (fun o => isInst .wg o.2) then (w ++ e, none) else (w, some .typeError)
  | .nasu => if (flatList e).all (fun o => isInst .nasu o.2) then (w ++ e, none) else (w, some .typeError)
  | .foreign _ => (w, some .typeError)
  | k => appendLoop k w (flatList e)

/-- the dictionary key `parse_objects` files a value under: the exact type of an object, or of the first member of a group
whose members all have exactly that type -/
def keyOf : Item → Except CErr Ty
  | .obj _ t => .ok t
  | .grp [] => .error .indexError
  | .grp (.obj _ t :: rest) => if (flatList rest).all (fun o => o.2 = t) then .ok t else .error .typeError
  | .grp (.grp _ :: _) => .error .typeError

/-- insertion into the insertion-ordered `defaultdict(list)` -/
def dictAdd (d : List (Ty × List Item)) (k : Ty) (v : Item) : List (Ty × List Item) :=
  match d with
  | [] => [(k, [v])]
  | (k', l) :: rest => if k' = k then (k', l ++ [v]) :: rest else (k', l) :: dictAdd rest k v

/-- first loop of `parse_objects`: split the values by key (raises before any writer is touched) -/
def groupByKey : List Item → List (Ty × List Item) → Except CErr (List (Ty × List Item))
  | [], d => .ok d
  | v :: rest, d =>
    match keyOf v with
    | .error e => .error e
    | .ok k => groupByKey rest (dictAdd d k v)

/-- second loop: `self.writers[k].extend(e)` for every key in insertion order; an unsupported key or a writer's rejection
stops the loop (collections extended before stay extended) -/
def applyGroups (dev : Dev) : List (Ty × List Item) → Dev × Option CErr
  | [] => (dev, none)
  | (k, e) :: rest =>
    match k with
    | .foreign _ => (dev, some .typeError)
    | k =>
      let r := writerExtend k (dev.get k) e
      match r.2 with
      | some err => (dev.set k r.1, some err)
      | none => applyGroups (dev.set k r.1) rest

/-- `Device.extend(items)` (the argument is a list) -/
def devExtend (dev : Dev) (items : List Item) : Dev × Option CErr :=
  match groupByKey items [] with
  | .error e => (dev, some e)
  | .ok d => applyGroups dev d

/-- `Device.append(v)`: `parse_objects(copy(flatten([v])))` — the objects of `v`, ungrouped -/
def devAppend (dev : Dev) (v : Item) : Dev × Option CErr :=
  devExtend dev ((flatItem v).map fun o => .obj o.1 o.2)

inductive Call
  | append (v : Item)
  | extend (items : List Item)
deriving Repr

def apply (dev : Dev) : Call → Dev × Option CErr
  | .append v => devAppend dev v
  | .extend l => devExtend dev l

/-- a history of calls; a raising call leaves what it had already stored -/
def runCalls (dev : Dev) : List Call → Dev
  | [] => dev
  | c :: rest => runCalls (apply dev c).1 rest

/-! ### list cells on a heap: the caller's lists -/

/-- a reference: an object or the address of a list cell -/
inductive Ref
  | obj (id : Nat)
  | lst (loc : Nat)
deriving DecidableEq, Repr

abbrev Heap := List (List Ref)

def Heap.cell (h : Heap) (l : Nat) : List Ref := h.getD l []

/-- `list(items)` / `copy.copy(items)`: a new cell with the same references -/
def hCopy (h : Heap) (l : Nat) : Heap × Nat := (h ++ [h.cell l], h.length)

/-- one pass of the splice loop of `flatten` over the cell `l`, reading inner lists but writing only `l`
(`fuel` bounds the nesting) -/
def spliceAll (h : Heap) : Nat → List Ref → List Ref
  | 0, rs => rs
  | fuel + 1, rs => rs.flatMap fun r => match r with
    | .obj i => [.obj i]
    | .lst m => spliceAll h fuel (h.cell m)

/-- the repaired `flatten(items)`: copy, then splice in the copy -/
def hFlatten (h : Heap) (l : Nat) : Heap × Nat :=
  let c := hCopy h l
  (c.1.set c.2 (spliceAll h h.length (h.cell l)), c.2)

/-- the former `flatten(items)`: splice in the argument's own cell -/
def hFlattenInPlace (h : Heap) (l : Nat) : Heap × Nat := (h.set l (spliceAll h h.length (h.cell l)), l)

/-- `w.extend(items)` on list cells: only the writer's cell `w` is written -/
def hExtend (h : Heap) (w l : Nat) : Heap := h.set w (h.cell w ++ h.cell l)

end Femto.Cont

/-
Model of the path-building primitives of `LaserPath`: `start`, `linear` (ABS / INC, `None` entries), `end`.
The state is the recorded trajectory (`_x,_y,_z,_f,_s` row-wise); warp subdivision off. Import-free.
-/
import FemtoVerif.Model.Filter

namespace Femto.Pth
open Femto

abbrev Traj := List (Row Rat)

inductive PErr
  | notEmpty      -- start() on a non-empty path (ValueError)
  | empty         -- end()/linear() on an empty path (IndexError)
  | badArg        -- wrong number of entries etc. (ValueError)
deriving DecidableEq, Repr

/-- attributes of the path object the primitives read -/
structure Attrs where
  speed : Rat := 1
  speedClosed : Rat := 5
  speedPos : Rat := 1 / 2
deriving Repr, Inhabited

/-- `start([x, y, z], speed_pos)`: the point twice, first shutter-closed then shutter-open -/
def start (a : Attrs) (x y z : Rat) (speedPos : Option Rat) (t : Traj) : Except PErr Traj :=
  if !t.isEmpty then .error .notEmpty
  else
    let f := speedPos.getD a.speedPos
    .ok [⟨x, y, z, f, 0⟩, ⟨x, y, z, f, 1⟩]

/-- `linear(increment, mode, shutter, speed)` without warp subdivision: one new row -/
def linear (a : Attrs) (dx dy dz : Option Rat) (abs : Bool) (shutter : Rat) (speed : Option Rat) (t : Traj) : Except PErr Traj :=
  match t.getLast? with
  | none => .error .empty
  | some l =>
    let f := speed.getD a.speed
    let p : Rat × Rat × Rat :=
      if abs then (dx.getD l.x, dy.getD l.y, dz.getD l.z)
      else (l.x + dx.getD 0, l.y + dy.getD 0, l.z + dz.getD 0)
    .ok (t ++ [⟨p.1, p.2.1, p.2.2, f, shutter⟩])

/-- `end()`: close the shutter where we are (same feed), go back to the first point at `speed_closed` -/
def finish (a : Attrs) (t : Traj) : Except PErr Traj :=
  match t.head?, t.getLast? with
  | some h, some l => .ok (t ++ [⟨l.x, l.y, l.z, l.f, 0⟩, ⟨h.x, h.y, h.z, a.speedClosed, 0⟩])
  | _, _ => .error .empty

end Femto.Pth

/-
Model of `LaserPath.num_subdivisions` and of `np.linspace` as the curve builders use it. Import-free.
-/
namespace Femto.Smp

/-- per-call speed overrides the attribute: `f = self.speed if speed is None else speed` -/
def callSpeed (speed : Option Rat) (attr : Rat) : Rat := speed.getD attr

/-- `num_subdivisions(l_curve = L, speed = f)` with `cmd_rate_max = rate`; the error is the `ValueError`
"Speed set to 0.0 mm/s" -/
def numSubdivisions (f rate L : Rat) : Except Unit Nat :=
  if f < 1 / 1000000 then .error ()
  else
    let num := (L / (f / rate)).ceil
    if num ≤ 1 then .ok 3 else .ok num.toNat

/-- `np.linspace(a, b, n)`: `a + i * step` with `step = (b - a) / (n - 1)` -/
def linspace (a b : Rat) (n : Nat) : List Rat :=
  (List.range n).map fun (i : Nat) => a + (i : Rat) * ((b - a) / ((n : Rat) - 1))

end Femto.Smp

/-
Model of the curved segment builders of `femto.waveguide.Waveguide`, written once over an arbitrary scalar type
`K` with the operations it uses and a record `Trig K` of the transcendental functions (DESIGN 2.2):
executed at `Float` by the driver, proved at `ℝ` with the real functions.  Import-free.
-/
namespace Femto.Wg

structure Trig (K : Type) where
  cos : K → K
  sin : K → K
  arccos : K → K
  sqrt : K → K
  abs : K → K
  pi : K

structure P (K : Type) where
  x : K
  y : K
  z : K
deriving Repr

section
variable {K : Type} [Add K] [Sub K] [Mul K] [Div K] [Neg K] [OfNat K 0] [OfNat K 1] [OfNat K 2] [OfNat K 3] [NatCast K]

/-- `get_sbend_parameter(dy, radius)[0]`: `arccos(1 - |dy/2| / radius)` -/
def sbendAngle (T : Trig K) (dy r : K) : K := T.arccos (1 - (T.abs (dy / 2) / r))

/-- `get_sbend_parameter(dy, radius)[1]`: `2 r sin(a)` -/
def sbendLength (T : Trig K) (dy r : K) : K := 2 * r * T.sin (sbendAngle T dy r)

/-- `np.linspace(a, b, n)` -/
def linspaceK (a b : K) (n : Nat) : List K :=
  (List.range n).map fun (i : Nat) => a + (i : K) * ((b - a) / ((n : K) - 1))

/-- one sample of `circ` at parameter `t`, for an arc that starts at the point `p` with angle `a0` -/
def circAt (T : Trig K) (p : P K) (r a0 t : K) : P K :=
  ⟨p.x + T.abs r * (-(T.cos a0) + T.cos t), p.y + T.abs r * (-(T.sin a0) + T.sin t), p.z⟩

/-- the points `circ(a0, a1, radius = r)` appends to a path whose last point is `p` -/
def circSamples (T : Trig K) (p : P K) (r a0 a1 : K) (n : Nat) : List (P K) :=
  (linspaceK a0 a1 n).map (circAt T p r a0)

/-- the last point after `circ(a0, a1, r)` -/
def circEnd (T : Trig K) (p : P K) (r a0 a1 : K) : P K := circAt T p r a0 a1

/-- the last point after `arc_bend(dy, r)`; `up` is the branch `dy > 0` -/
def arcBendEnd (T : Trig K) (p : P K) (dy r : K) (up : Bool) : P K :=
  let a := sbendAngle T dy r
  if up then
    circEnd T (circEnd T p r (T.pi * (3 / 2)) (T.pi * (3 / 2) + a)) r (T.pi * (1 / 2) + a) (T.pi * (1 / 2))
  else
    circEnd T (circEnd T p r (T.pi * (1 / 2)) (T.pi * (1 / 2) - a)) r (T.pi * (3 / 2) - a) (T.pi * (3 / 2))

/-- `linear([d, 0, 0], mode='INC')` -/
def advance (p : P K) (d : K) : P K := ⟨p.x + d, p.y + 0, p.z + 0⟩

/-- the last point after `arc_coupler(dy, r, int_length)`; `up` is `dy > 0` (the second bend takes the other branch
unless `dy = 0`, when both calls take the `else` branch) -/
def arcCouplerEnd (T : Trig K) (p : P K) (dy r intLength : K) (up upBack : Bool) : P K :=
  arcBendEnd T (advance (arcBendEnd T p dy r up) (T.abs intLength)) (-dy) r upBack

/-- the last point after `arc_mzi(dy, r, int_length, arm_length)` -/
def arcMziEnd (T : Trig K) (p : P K) (dy r intLength armLength : K) (up upBack : Bool) : P K :=
  arcCouplerEnd T (advance (arcCouplerEnd T p dy r intLength up upBack) (T.abs armLength)) dy r intLength up upBack

/-- one sample of `sin_bridge` at abscissa `x` (the segment starts at `p`, spans `dx`) -/
def sinAt (T : Trig K) (p : P K) (dx dy dz fp wy wz : K) (x : K) : P K :=
  let c := T.cos (wy * T.pi / dx * (x - p.x))
  ⟨x,
   p.y + 1 / 2 * dy * (1 - T.sqrt ((1 + fp * fp) / (1 + fp * fp * (c * c))) * c),
   p.z + 1 / 2 * dz * (1 - T.cos (wz * T.pi / dx * (x - p.x)))⟩

def sinSamples (T : Trig K) (p : P K) (dx dy dz fp wy wz : K) (n : Nat) : List (P K) :=
  (linspaceK p.x (p.x + dx) n).map (sinAt T p dx dy dz fp wy wz)

/-- the last point after `sin_bridge` -/
def sinEnd (T : Trig K) (p : P K) (dx dy dz fp wy wz : K) : P K := sinAt T p dx dy dz fp wy wz (p.x + dx)

/-- `Waveguide.dy_bend` -/
def dyBend (pitch intDist : K) : K := 1 / 2 * (pitch - intDist)

end

end Femto.Wg

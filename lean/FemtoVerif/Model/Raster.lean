/-
Model of `RasterImage.image_to_path`. Import-free.
An image is a list of rows of booleans, `true` = black pixel (the implementation works on `~row` of the
mode-'1' matrix, where black is `False`).
-/
import FemtoVerif.Model.Filter
import FemtoVerif.Model.Sampling

namespace Femto.Ras
open Femto

/-- put an element in front of the first run -/
def consRun {α : Type} (a : α) : List (List α) → List (List α)
  | r :: rs => (a :: r) :: rs
  | [] => [[a]]

/-- maximal runs of flagged elements, as a direct recursion (equal to the `true` pieces of `Femto.pieces`) -/
def trueRuns {α : Type} : List (α × Bool) → List (List α)
  | [] => []
  | (_, false) :: t => trueRuns t
  | [(a, true)] => [[a]]
  | (a, true) :: (_, false) :: t => [a] :: trueRuns t
  | (a, true) :: (b, true) :: t => consRun a (trueRuns ((b, true) :: t))

/-- `np.linspace(0, n * px, num = n)` -/
def scan (n : Nat) (px : Rat) : List Rat := Smp.linspace 0 ((n : Rat) * px) n

/-- the five points written for one run of black pixels `[xa .. xb]` at height `y` -/
def block (xa xb y z speed speedClosed : Rat) : List (Row Rat) :=
  [⟨xa, y, z, speedClosed, 0⟩, ⟨xa, y, z, speed, 1⟩, ⟨xb, y, z, speed, 1⟩, ⟨xb, y, z, speedClosed, 0⟩, ⟨xa, y, z, speedClosed, 0⟩]

def runBlock (y z speed speedClosed : Rat) (run : List Rat) : List (Row Rat) :=
  match run.head?, run.getLast? with
  | some a, some b => block a b y z speed speedClosed
  | _, _ => []

/-- one image row: `split_mask(x_scan, ~row)` then one block per run -/
def rowBlocks (xs : List Rat) (black : List Bool) (y z speed speedClosed : Rat) : List (Row Rat) :=
  match splitMask xs black with
  | none => []
  | some runs => runs.flatMap (runBlock y z speed speedClosed)

/-- `image_to_path` (the trajectory appended to an empty path) -/
def imagePath (img : List (List Bool)) (px z speed speedClosed : Rat) : List (Row Rat) :=
  let w := (img.head?.map List.length).getD 0
  let xs := scan w px
  let ys := scan img.length px
  (img.zip ys).flatMap fun ry => rowBlocks xs ry.1 ry.2 z speed speedClosed

/-- a stroke: consecutive distinct positions visited with the shutter open -/
abbrev P3 := Rat × Rat × Rat

def p3 (r : Row Rat) : P3 := (r.x, r.y, r.z)

/-- remove consecutive repeats (positions of a stroke) -/
def dedup : List P3 → List P3
  | [] => []
  | [a] => [a]
  | a :: b :: t => if a = b then dedup (b :: t) else a :: dedup (b :: t)

/-- the open-shutter strokes of a trajectory: maximal runs of rows with non-zero shutter value -/
def strokes (raw : List (Row Rat)) : List (List P3) :=
  (trueRuns (raw.map fun r => (p3 r, decide (r.s ≠ 0)))).map dedup

/-- **specification**: rows in image order; in each row one stroke per maximal run of black pixels, from the first to
the last pixel of the run at that row's height -/
def expectedStrokes (img : List (List Bool)) (px z : Rat) : List (List P3) :=
  let w := (img.head?.map List.length).getD 0
  let xs := scan w px
  let ys := scan img.length px
  (img.zip ys).flatMap fun ry =>
    (trueRuns (xs.zip ry.1)).map fun run =>
      match run.head?, run.getLast? with
      | some a, some b => dedup [(a, ry.2, z), (b, ry.2, z)]
      | _, _ => []

end Femto.Ras

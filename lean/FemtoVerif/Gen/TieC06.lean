-- GENERATED on every run by /verif/harness/py2lean.py from the Python source of /repo (arithmetic kernels of property C06).
-- Do not edit: the definitions are a function of the repository working tree; the tie theorems compare them with the
-- hand-written model.  A tie that stops checking is a broken proof obligation of C06.
import FemtoVerif.Model.Trench
import FemtoVerif.Model.TrenchProg
import FemtoVerif.Model.Waveguide
import FemtoVerif.Model.Gcode
import FemtoVerif.Model.Sampling
import FemtoVerif.Model.Writers
import Mathlib.Tactic.Ring
import Mathlib.Algebra.Order.Field.Rat

set_option linter.unusedSimpArgs false
set_option linter.unusedTactic false
set_option linter.unreachableTactic false

namespace Femto.Gen.C06

/-- `TrenchColumn.n_repeat` as written in `trench.py` -/
def n_repeat (deltaz h_box z_off : Rat) : Nat :=
  (Int.natAbs (Rat.ceil ((h_box - z_off) / deltaz)))

theorem n_repeat_tie (deltaz h_box z_off : Rat) : n_repeat deltaz h_box z_off = Femto.TP.nRepeat h_box z_off deltaz := by
  unfold n_repeat Femto.TP.nRepeat; rfl

/-- `UTrenchColumn.adj_pillar_width` as written in `trench.py` -/
def adj_pillar_width (beam_waist pillar_width : Rat) : Rat :=
  ((pillar_width / (2 : Rat)) + beam_waist)

theorem adj_pillar_width_tie (beam_waist pillar_width : Rat) : adj_pillar_width beam_waist pillar_width = pillar_width / 2 + beam_waist := by
  unfold adj_pillar_width; ring

/-- `TrenchColumn.total_height` as written in `trench.py` -/
def total_height (h_box nboxz : Rat) : Rat :=
  (nboxz * h_box)

theorem total_height_tie (h_box nboxz : Rat) : total_height h_box nboxz = nboxz * h_box := by
  unfold total_height; ring

end Femto.Gen.C06

-- GENERATED on every run by /verif/harness/py2lean.py from the Python source of /repo (arithmetic kernels of property C04).
-- Do not edit: the definitions are a function of the repository working tree; the tie theorems compare them with the
-- hand-written model.  A tie that stops checking is a broken proof obligation of C04.
import FemtoVerif.Model.Trench
import FemtoVerif.Model.TrenchProg
import FemtoVerif.Model.Waveguide
import FemtoVerif.Model.Gcode
import FemtoVerif.Model.Sampling
import FemtoVerif.Model.Writers
import Mathlib.Tactic.Ring
import Mathlib.Algebra.Order.Field.Rat

set_option linter.unusedSimpArgs false
set_option linter.unusedTactic false
set_option linter.unreachableTactic false

namespace Femto.Gen.C04

/-- `Waveguide.dy_bend` as written in `waveguide.py` -/
def dy_bend (int_dist pitch : Rat) : Rat :=
  (((1 : Rat) / 2) * (pitch - int_dist))

theorem dy_bend_tie (int_dist pitch : Rat) : dy_bend int_dist pitch = Femto.Wg.dyBend pitch int_dist := by
  unfold dy_bend Femto.Wg.dyBend; ring

/-- `Waveguide.dx_coupler` as written in `waveguide.py` -/
def dx_coupler (dx_bend int_length : Rat) : Rat :=
  (((2 : Rat) * dx_bend) + int_length)

theorem dx_coupler_tie (dx_bend int_length : Rat) : dx_coupler dx_bend int_length = 2 * dx_bend + int_length := by
  unfold dx_coupler; ring

/-- `Waveguide.dx_mzi` as written in `waveguide.py` -/
def dx_mzi (arm_length dx_bend int_length : Rat) : Rat :=
  ((((4 : Rat) * dx_bend) + ((2 : Rat) * int_length)) + arm_length)

theorem dx_mzi_tie (arm_length dx_bend int_length : Rat) : dx_mzi arm_length dx_bend int_length = 4 * dx_bend + 2 * int_length + arm_length := by
  unfold dx_mzi; ring

end Femto.Gen.C04

-- GENERATED on every run by /verif/harness/py2lean.py from the Python source of /repo (arithmetic kernels of property C13).
-- Do not edit: the definitions are a function of the repository working tree; the tie theorems compare them with the
-- hand-written model.  A tie that stops checking is a broken proof obligation of C13.
import FemtoVerif.Model.Trench
import FemtoVerif.Model.TrenchProg
import FemtoVerif.Model.Waveguide
import FemtoVerif.Model.Gcode
import FemtoVerif.Model.Sampling
import FemtoVerif.Model.Writers
import Mathlib.Tactic.Ring
import Mathlib.Algebra.Order.Field.Rat

set_option linter.unusedSimpArgs false
set_option linter.unusedTactic false
set_option linter.unreachableTactic false

namespace Femto.Gen.C13

/-- `LaserPath.dl` as written in `laserpath.py` -/
def dl (cmd_rate_max speed : Rat) : Rat :=
  (speed / cmd_rate_max)

theorem dl_tie (cmd_rate_max speed : Rat) : dl cmd_rate_max speed = speed / cmd_rate_max := by
  unfold dl; ring

/-- `LaserPath.num_subdivisions` as written in `laserpath.py` (`f` is the speed after defaulting) -/
def num_subdivisions (cmd_rate_max f l_curve : Rat) : Int :=
  (if (Rat.ceil (l_curve / (f / cmd_rate_max))) ≤ (1 : Int) then (3 : Int) else (Rat.ceil (l_curve / (f / cmd_rate_max))))

theorem num_subdivisions_tie (cmd_rate_max f l_curve : Rat) (hf : ¬ f < 1 / 1000000) :
    Femto.Smp.numSubdivisions f cmd_rate_max l_curve = .ok (num_subdivisions cmd_rate_max f l_curve).toNat := by
  unfold num_subdivisions Femto.Smp.numSubdivisions
  simp only [hf, if_false]
  split <;> simp_all

end Femto.Gen.C13

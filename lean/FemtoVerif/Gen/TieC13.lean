-- GENERATED on every run by /verif/harness/py2lean.py from the Python source of /repo (arithmetic kernels of property C13).
-- Do not edit: the definitions are a function of the repository working tree; the tie theorems compare them with the
-- hand-written model.  A tie that stops checking is a broken proof obligation of C13.
import FemtoVerif.Model.Trench
import FemtoVerif.Model.TrenchProg
import FemtoVerif.Model.Waveguide
import FemtoVerif.Model.Gcode
import Mathlib.Tactic.Ring
import Mathlib.Algebra.Order.Field.Rat

namespace Femto.Gen.C13

/-- `LaserPath.dl` as written in `laserpath.py` -/
def dl (cmd_rate_max speed : Rat) : Rat :=
  (speed / cmd_rate_max)

theorem dl_tie (cmd_rate_max speed : Rat) : dl cmd_rate_max speed = speed / cmd_rate_max := by
  unfold dl; ring

end Femto.Gen.C13

-- GENERATED on every run by /verif/harness/py2lean.py from the Python source of /repo (arithmetic kernels of property C05).
-- Do not edit: the definitions are a function of the repository working tree; the tie theorems compare them with the
-- hand-written model.  A tie that stops checking is a broken proof obligation of C05.
import FemtoVerif.Model.Trench
import FemtoVerif.Model.TrenchProg
import FemtoVerif.Model.Waveguide
import FemtoVerif.Model.Gcode
import FemtoVerif.Model.Sampling
import FemtoVerif.Model.Writers
import Mathlib.Tactic.Ring
import Mathlib.Algebra.Order.Field.Rat

set_option linter.unusedSimpArgs false
set_option linter.unusedTactic false
set_option linter.unreachableTactic false

namespace Femto.Gen.C05

/-- `TrenchColumn.adj_bridge` as written in `trench.py` -/
def adj_bridge (beam_waist bridge round_corner : Rat) : Rat :=
  (((bridge / (2 : Rat)) + beam_waist) + round_corner)

theorem adj_bridge_tie (beam_waist bridge round_corner : Rat) : adj_bridge beam_waist bridge round_corner = Femto.Tr.adjBridge bridge beam_waist round_corner := by
  unfold adj_bridge Femto.Tr.adjBridge; ring

end Femto.Gen.C05

-- GENERATED on every run by /verif/harness/py2lean.py from the Python source of /repo (arithmetic kernels of property C08).
-- Do not edit: the definitions are a function of the repository working tree; the tie theorems compare them with the
-- hand-written model.  A tie that stops checking is a broken proof obligation of C08.
import FemtoVerif.Model.Trench
import FemtoVerif.Model.TrenchProg
import FemtoVerif.Model.Waveguide
import FemtoVerif.Model.Gcode
import FemtoVerif.Model.Sampling
import FemtoVerif.Model.Writers
import Mathlib.Tactic.Ring
import Mathlib.Algebra.Order.Field.Rat

set_option linter.unusedSimpArgs false
set_option linter.unusedTactic false
set_option linter.unreachableTactic false

namespace Femto.Gen.C08

/-- `NasuWaveguide.adj_scan_order` as written in `waveguide.py` (loop and `extend` calls as `flatMap` over `range'`) -/
def adj_scan_order (adj_scan : Nat) : List Rat :=
  ((if (adj_scan % 2) ≠ 0 then ([((0 : Rat) / 1)] ++ ((List.range' 1 (((adj_scan / 2) + 1) - 1)).flatMap fun (i : Nat) => ([((i : Nat) : Rat), (-((i : Nat) : Rat))]))) else (((List.range' 0 ((adj_scan / 2) - 0)).flatMap fun (i : Nat) => ([(((i : Nat) : Rat) + ((1 : Rat) / 2)), ((-((i : Nat) : Rat)) - ((1 : Rat) / 2))])))))

theorem adj_scan_order_tie (adj_scan : Nat) : adj_scan_order adj_scan = Femto.Wr.adjScanOrder adj_scan := by
  unfold adj_scan_order Femto.Wr.adjScanOrder
  rcases Nat.mod_two_eq_zero_or_one adj_scan with h | h
  all_goals first
    | (simp [h, List.range'_eq_map_range, List.flatMap_map]; done)
    | (simp [h, List.range'_eq_map_range, List.flatMap_map]; congr 1; funext a; simp [add_comm]; done)
    | (simp [h, List.range'_eq_map_range, List.flatMap_map]; congr 1; funext a; simp; constructor <;> ring)
    | (simp [h, List.range'_eq_map_range, List.flatMap_map]; congr 1; funext a; simp; ring)
    | (simp [h, List.range'_eq_map_range, List.flatMap_map]; congr 1; funext a; congr 1 <;> (try congr 1) <;> ring)

end Femto.Gen.C08

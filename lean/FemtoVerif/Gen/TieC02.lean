-- GENERATED on every run by /verif/harness/py2lean.py from the Python source of /repo (arithmetic kernels of property C02).
-- Do not edit: the definitions are a function of the repository working tree; the tie theorems compare them with the
-- hand-written model.  A tie that stops checking is a broken proof obligation of C02.
import FemtoVerif.Model.Trench
import FemtoVerif.Model.TrenchProg
import FemtoVerif.Model.Waveguide
import FemtoVerif.Model.Gcode
import FemtoVerif.Model.Sampling
import FemtoVerif.Model.Writers
import Mathlib.Tactic.Ring
import Mathlib.Algebra.Order.Field.Rat

set_option linter.unusedSimpArgs false
set_option linter.unusedTactic false
set_option linter.unreachableTactic false

namespace Femto.Gen.C02

/-- `PGMCompiler.neff` as written in `pgmcompiler.py` -/
def neff (n_environment n_glass : Rat) : Rat :=
  (n_glass / n_environment)

theorem neff_tie (n_environment n_glass : Rat) : neff n_environment n_glass = n_glass / n_environment := by
  unfold neff; ring

end Femto.Gen.C02

-- GENERATED on every run by /verif/harness/gen.py from src/femto/utils/header_*.txt and PGMCompiler.pso_label.
-- Do not edit: the content is a function of the repository working tree.
import FemtoVerif.Spec.Controller

namespace Femto.Gen
open Femto.Ctl

def lasers : List String := ["ant", "carbide", "pharos", "uwe"]

def header_ant : List Instr :=
    [.comment "; SETUP ANT - DIAMOND LAB",
   .blank,
   .setup "ENABLE X Y Z",
   .setup "METRIC",
   .setup "SECONDS",
   .setup "G359",
   .setup "VELOCITY ON",
   .setup "PSOCONTROL Z RESET",
   .setup "PSOOUTPUT Z CONTROL 0 1",
   .pso "Z" false,
   .absolute,
   .setup "G17",
   .blank,
   .comment "; NSCOPETRIG",
   .comment "; MSGCLEAR -1"]

def header_carbide : List Instr :=
    [.comment "; SETUP CARBIDE - CAPABLE LAB",
   .blank,
   .setup "ENABLE X Y Z",
   .setup "METRIC",
   .setup "SECONDS",
   .setup "G359",
   .setup "VELOCITY ON",
   .setup "PSOCONTROL X RESET",
   .setup "PSOOUTPUT X CONTROL 2 0",
   .pso "X" false,
   .absolute,
   .setup "G17",
   .blank,
   .comment "; NSCOPETRIG",
   .comment "; MSGCLEAR -1"]

def header_pharos : List Instr :=
    [.comment "; SETUP PHAROS - CAPABLE LAB",
   .blank,
   .setup "ENABLE X Y Z",
   .setup "METRIC",
   .setup "SECONDS",
   .setup "G359",
   .setup "VELOCITY ON",
   .setup "PSOCONTROL X RESET",
   .setup "PSOOUTPUT X CONTROL 3 0",
   .pso "X" false,
   .absolute,
   .setup "G17",
   .blank,
   .comment "; NSCOPETRIG",
   .comment "; MSGCLEAR -1"]

def header_uwe : List Instr :=
    [.comment "; SETUP UWE - FIRE LAB",
   .blank,
   .setup "ENABLE X Y Z",
   .setup "METRIC",
   .setup "SECONDS",
   .setup "WAIT MODE NOWAIT",
   .setup "VELOCITY ON",
   .setup "PSOCONTROL X RESET",
   .pso "X" false,
   .absolute,
   .setup "G17",
   .blank,
   .comment "; NSCOPETRIG",
   .comment "; MSGCLEAR -1"]

/-- laser name, PSO axis label used by the compiler for that laser, parsed header file -/
def headers : List (String × String × List Instr) := [("ant", "Z", header_ant), ("carbide", "X", header_carbide), ("pharos", "X", header_pharos), ("uwe", "X", header_uwe)]

end Femto.Gen

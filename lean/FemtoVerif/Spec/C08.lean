/-
Specification terms of C08 ("every structure is written its number of scans times") at the level of the machine's moves.
Import-free apart from the model; `Props/C08.lean` proves that the compiled writer programs perform exactly these moves.
-/
import FemtoVerif.Spec.C01

namespace Femto.Gc
open Femto.Ctl

/-- one pass over the printed matrices of a group, from position `prev`: every matrix replayed point for point (C01), each
starting where the previous one ended -/
def passFrom (prev : Pos) : List (List (G1W × Rat)) → List Move
  | [] => []
  | ws :: rest => expectedFrom prev ws ++ passFrom (lastPos prev ws) rest

/-- where a pass ends -/
def passEnd (prev : Pos) : List (List (G1W × Rat)) → Pos
  | [] => prev
  | ws :: rest => passEnd (lastPos prev ws) rest

/-- `n` scans of a group: `n` passes, each starting where the previous one ended -/
def scansFrom (prev : Pos) (wss : List (List (G1W × Rat))) : Nat → List Move
  | 0 => []
  | k + 1 => passFrom prev wss ++ scansFrom (passEnd prev wss) wss k

/-- where `n` scans end -/
def scansEnd (prev : Pos) (wss : List (List (G1W × Rat))) : Nat → Pos
  | 0 => prev
  | k + 1 => scansEnd (passEnd prev wss) wss k

/-- a whole list of groups `(printed matrices, scans)`, one after the other -/
def groupsFrom (prev : Pos) : List (List (List (G1W × Rat)) × Nat) → List Move
  | [] => []
  | (wss, n) :: rest => scansFrom prev wss n ++ groupsFrom (scansEnd prev wss n) rest

end Femto.Gc

/-
REFERENCE CONTROLLER FOR A TREE OF PROGRAM FILES: `FARCALL` is executed by running the called file in place (same task,
same modal state), its events nested under a `sub` node.  Plus the static shutter discipline of calling files.
Import-free.
-/
import FemtoVerif.Spec.Controller

namespace Femto.Ctl

/-- events of a program tree: own events, and the events of a called file nested under the call -/
inductive TEv where
  | ev (e : Ev)
  | sub (key : String) (shutterAtCall : Bool) (inner : List TEv)

/-- an atom handler: how one non-loop instruction is executed -/
abbrev Handler := St → Instr → St × List TEv

/- the loop-structured interpreter, generic in the atom handler (same recursion as `execStmts`) -/
mutual
  def execStmtG (h : Handler) : Stmt → St → St × List TEv
    | .atom i, σ => h σ i
    | .rep n body, σ => execRepG h n body σ
    | .forr v lo hi body, σ =>
      let r := execRepG h (hi - lo + 1).toNat body σ
      if σ.declared.contains v then r else (r.1, .ev (.err s!"FOR variable ${v} not declared") :: r.2)
  termination_by s _ => (sizeOf s, 0)
  def execRepG (h : Handler) : Nat → List Stmt → St → St × List TEv
    | 0, _, σ => (σ, [])
    | k + 1, body, σ =>
      let r := execStmtsG h body σ
      let r' := execRepG h k body r.1
      (r'.1, r.2 ++ r'.2)
  termination_by k body _ => (sizeOf body, k + 1)
  def execStmtsG (h : Handler) : List Stmt → St → St × List TEv
    | [], σ => (σ, [])
    | s :: ss, σ =>
      let r := execStmtG h s σ
      let r' := execStmtsG h ss r.1
      (r'.1, r.2 ++ r'.2)
  termination_by ss _ => (sizeOf ss, 0)
end

/-- the exported tree: each file under its relative path (lower case, `/` separated, no extension) -/
abbrev Tree := List (String × List Stmt)

def Tree.find (t : Tree) (id : String) : Option (List Stmt) := (t.find? (·.1 == id)).map (·.2)

/-- path components, lower case, without the extension of the last one -/
def pathComps (p : String) : List String :=
  let cs := (lower p).toList.splitBy (fun a b => (a == '/' || a == '\\') == (b == '/' || b == '\\'))
  let cs := (cs.filter fun g => match g with | c :: _ => !(c == '/' || c == '\\') | [] => false).map String.ofList
  match cs.reverse with
  | [] => []
  | l :: r => (progKey l :: r).reverse

def isSuffixOf (a b : List String) : Bool := a.length ≤ b.length && b.drop (b.length - a.length) == a

/-- the file of the tree a `PROGRAM LOAD` path refers to: the components of one are a suffix of the other (the lab path may
carry a base folder the export directory does not have); the longest match wins -/
def resolve (t : Tree) (p : String) : Option String :=
  let pc := pathComps p
  let cands := t.filter fun f => let fc := pathComps f.1; !fc.isEmpty && (isSuffixOf fc pc || isSuffixOf pc fc)
  (cands.foldl (fun best f => match best with
    | none => some f.1
    | some b => if (pathComps f.1).length > (pathComps b).length && isSuffixOf (pathComps f.1) pc then some f.1 else some b) none)

def lookupBound (b : List (String × String)) (k : String) : Option String := (b.find? (·.1 == k)).map (·.2)

/-- the single-file handler: `step`, a `FARCALL` is just recorded -/
def stepFlat : Handler := fun σ i => let r := step σ i; (r.1, r.2.map .ev)

/-- the tree handler with call depth `fuel`: `PROGRAM LOAD` binds the program name to a file of the tree, a `FARCALL` of a
loaded program runs that file in place -/
def stepT (t : Tree) : Nat → Handler
  | 0, σ, i =>
    match i with
    | .farcall _ => (σ, [.ev (.err "call depth exceeded")])
    | i => stepFlat σ i
  | f + 1, σ, i =>
    match i with
    | .farcall p =>
      if σ.loaded.contains (progKey p) then
        match (lookupBound σ.bound (progKey p)).bind fun id => (t.find id).map fun b => (id, b) with
        | some (id, body) =>
          if progKey id = progKey p then
            let r := execStmtsG (stepT t f) body σ
            (r.1, [.sub (progKey p) σ.shutter r.2])
          else (σ, [.ev (.err s!"FARCALL resolved to a file of another name: {p}")])
        | none => (σ, [.ev (.err s!"FARCALL of a program that is not in the exported tree: {p}")])
      else (σ, [.ev (.err s!"FARCALL of a program that is not loaded: {p}")])
    | .load k p =>
      let r := stepFlat σ (.load k p)
      match resolve t p with
      | some id => ({ r.1 with bound := (progKey p, id) :: r.1.bound.filter (·.1 != progKey p) }, r.2)
      | none => ({ r.1 with bound := r.1.bound.filter (·.1 != progKey p) },
                 r.2 ++ [.ev (.err s!"PROGRAM LOAD of a file that is not in the exported tree: {p}")])
    | i => stepFlat σ i

/-- run file `main` of the tree -/
def runTree (t : Tree) (fuel : Nat) (main : String) : Option (St × List TEv) :=
  (t.find main).map fun body => execStmtsG (stepT t fuel) body {}

/-- files of the tree known by program name `k` -/
def Tree.named (t : Tree) (k : String) : Tree := t.filter fun f => progKey f.1 == k

/-! ### static shutter discipline of a calling file -/

/-- a leaf sub-program: nothing but linear moves (what `export_array2d` writes) -/
def isLeafBody (body : List Stmt) : Bool :=
  body.all fun s => match s with | .atom (.g1 w) => w.zvar.isNone && w.u.isNone | .atom .blank => true | _ => false

/-- can this `G1` change x or y? -/
def G1W.xy (w : G1W) : Bool := w.x.isSome || w.y.isSome

/-- abstract execution of one instruction: shutter state before → after; `none` = the discipline is broken:
an x/y move with the shutter open, or a call of a non-leaf file with the shutter open -/
def discAtom (leaf : String → Bool) (s : Bool) : Instr → Option Bool
  | .pso _ on => some on
  | .g1 w => if s && w.xy then none else some s
  | .farcall p => if leaf (progKey p) then some s else if s then none else some false
  | _ => some s

mutual
  def discStmt (leaf : String → Bool) (s : Bool) : Stmt → Option Bool
    | .atom i => discAtom leaf s i
    | .rep _ body => match discStmts leaf s body with
      | some s' => if s' = s then some s else none
      | none => none
    | .forr _ _ _ body => match discStmts leaf s body with
      | some s' => if s' = s then some s else none
      | none => none
  def discStmts (leaf : String → Bool) (s : Bool) : List Stmt → Option Bool
    | [] => some s
    | st :: ss => match discStmt leaf s st with
      | some s' => discStmts leaf s' ss
      | none => none
end

/-- a calling file is disciplined when, entered with the shutter closed, it never moves in x/y with the shutter open,
calls other calling files only with the shutter closed, and ends with the shutter closed -/
def disciplined (leaf : String → Bool) (body : List Stmt) : Bool := discStmts leaf false body == some false

/-- which program names of the tree are leaf sub-programs: some file has that name and all files of that name are leaves
(files of different columns share names) -/
def treeLeaf (t : Tree) : String → Bool := fun k => !(t.named k).isEmpty && (t.named k).all fun f => isLeafBody f.2

/-- the whole tree: every file is a leaf sub-program or a disciplined calling file, and a name never stands for both kinds -/
def treeDisciplined (t : Tree) : Bool :=
  t.all fun f => (isLeafBody f.2 && treeLeaf t (progKey f.1)) || (!isLeafBody f.2 && !treeLeaf t (progKey f.1) && disciplined (treeLeaf t) f.2)

/-- moves made directly by a file (not by the files it calls) -/
def ownMoves : List TEv → List Move
  | [] => []
  | .ev (.move m) :: r => m :: ownMoves r
  | _ :: r => ownMoves r

/-- flattened trace with call / return markers (for printing and for the single-file view) -/
def flattenT : List TEv → List Ev
  | [] => []
  | .ev e :: r => e :: flattenT r
  | .sub k s inner :: r => (.call k s :: flattenT inner) ++ (.ret k :: flattenT r)

/-! ### the wall loop of a trench call file -/

/-- a leaf sub-program that moves in x / y only (what `export_array2d` writes: `G1 X… Y… [F…]`) -/
def isLeafXY (body : List Stmt) : Bool :=
  body.all fun s => match s with
    | .atom (.g1 w) => w.z.isNone && w.zvar.isNone && w.u.isNone
    | .atom .blank => true
    | _ => false

/-- the body of the wall loop as the reference controller parses it -/
def wallLoopBody (p : String) (dz : Rat) : List Stmt :=
  [.atom (.farcall p), .atom (.incVar "zcurr" dz), .atom (.g1 { zvar := some "ZCURR" })]

/-- the loop body with the pause the compiler puts before every call when `short_pause` is not zero -/
def wallLoopBodyD (q : Rat) (p : String) (dz : Rat) : List Stmt := .atom (.dwell q) :: wallLoopBody p dz

/-- recognise a wall loop body in a parsed file: `[DWELL q]? FARCALL p; $ZCURR = $ZCURR + dz; G1 Z$ZCURR` -/
def matchWallLoop (body : List Stmt) : Option (Option Rat × String × Rat) :=
  match flattenStmts body with
  | [.farcall p, .incVar "zcurr" dz, .g1 w] => if w = { zvar := some "ZCURR" } then some (none, p, dz) else none
  | [.dwell q, .farcall p, .incVar "zcurr" dz, .g1 w] => if w = { zvar := some "ZCURR" } then some (some q, p, dz) else none
  | _ => none


end Femto.Ctl

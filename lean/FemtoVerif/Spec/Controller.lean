/-
REFERENCE MODEL OF THE AEROTECH CONTROLLER (the "reference controller" the properties speak about).

* `Instr`      – abstract syntax of one PGM line (what the femto compiler can emit, plus `bad` for anything else);
* `parseLine`  – text → `Instr` (run on the real bytes written by the implementation);
* `Stmt`       – loop-structured program; `structure?` builds it with a stack (failure = unbalanced / badly nested);
* `step`/`execStmts` – interpreter producing a trace of events (moves with feed and shutter, dwells, calls);
* `dwellOf`    – executed dwell time, loop bodies counted once per iteration.

Interpretive choices (DESIGN.md 2.3): a `G1` to the current position is not motion; program names are compared
case-insensitively by stem and loading is a set; an unknown instruction is ill-formed, never skipped.
Import-free (core only): this file is executed by the driver and mentioned by the theorems.
-/
namespace Femto.Ctl

/-- position: an axis is `none` until it has been commanded (or set with G92) -/
structure Pos where
  x : Option Rat := none
  y : Option Rat := none
  z : Option Rat := none
deriving DecidableEq, Repr, Inhabited

/-- the words of a `G1` / `LINEAR` line -/
structure G1W where
  x : Option Rat := none
  y : Option Rat := none
  z : Option Rat := none
  zvar : Option String := none
  u : Option Rat := none
  f : Option Rat := none
  g9 : Bool := false
  /-- number of printed decimals of every numeric word, in order of appearance -/
  decs : List Nat := []
deriving DecidableEq, Repr, Inhabited

inductive Instr
  | blank
  | comment (s : String)
  | setup (s : String)                 -- ENABLE.., METRIC, SECONDS, G359, G17, VELOCITY ON, WAIT MODE NOWAIT, PSOOUTPUT.., PSOCONTROL a RESET
  | g1 (w : G1W)
  | pso (axis : String) (on : Bool)
  | dwell (t : Rat)
  | rep (n : Nat)
  | endrep
  | forr (v : String) (lo hi : Int)
  | next (v : String)
  | dvar (vs : List String)
  | setVar (v : String) (q : Rat)
  | incVar (v : String) (q : Rat)
  | load (task : Nat) (path : String)
  | stop (task : Nat)
  | waitIdle (task : Nat)
  | remove (name : String)
  | farcall (path : String)
  | buffered (task : Nat) (path : String)
  | g84 (angle : Option Rat)
  | g92 (x y z : Option Rat)
  | absolute
  | incremental
  | msg
  | bad (line : String)
deriving DecidableEq, Repr, Inhabited

/-! ### lexical level -/

def isDigit (c : Char) : Bool := '0' ≤ c && c ≤ '9'

def digitsVal (cs : List Char) : Nat := cs.foldl (fun a c => a * 10 + (c.toNat - '0'.toNat)) 0

/-- decimal / scientific literal → exact value and number of digits after the point.
`none` for anything else (in particular `nan`, `inf`). -/
def parseNum (s : String) : Option (Rat × Nat) :=
  let cs := s.toList
  let (neg, cs) := match cs with
    | '-' :: t => (true, t)
    | '+' :: t => (false, t)
    | t => (false, t)
  let ip := cs.takeWhile isDigit
  let rest := cs.dropWhile isDigit
  let (fp, rest, hasDot) := match rest with
    | '.' :: t => (t.takeWhile isDigit, t.dropWhile isDigit, true)
    | t => ([], t, false)
  if ip.isEmpty && fp.isEmpty then none else
  let mant : Rat := (digitsVal ip : Nat) + (digitsVal fp : Nat) / (10 ^ fp.length : Nat)
  let _ := hasDot
  let ex : Option Int := match rest with
    | [] => some 0
    | e :: t =>
      if e == 'e' || e == 'E' then
        let (eneg, t) := match t with
          | '-' :: u => (true, u)
          | '+' :: u => (false, u)
          | u => (false, u)
        if t.isEmpty || !(t.all isDigit) then none
        else some (if eneg then -(digitsVal t : Int) else (digitsVal t : Int))
      else none
  match ex with
  | none => none
  | some e =>
    let scale : Rat := if e ≥ 0 then ((10 ^ e.toNat : Nat) : Rat) else 1 / ((10 ^ (-e).toNat : Nat) : Rat)
    let v := mant * scale
    some (if neg then -v else v, fp.length)

def splitWs (s : String) : List String :=
  ((s.toList.splitBy (fun a b => (a == ' ' || a == '\t') == (b == ' ' || b == '\t'))).filter
    (fun g => match g with | c :: _ => !(c == ' ' || c == '\t') | [] => false)).map String.ofList

def unquote (s : String) : String :=
  String.ofList ((s.toList.dropWhile (· == '"')).reverse.dropWhile (· == '"')).reverse

def lower (s : String) : String := String.ofList (s.toList.map Char.toLower)

/-- last path component (both separators) -/
def baseName (p : String) : String :=
  String.ofList ((p.toList.reverse.takeWhile (fun c => c != '/' && c != '\\')).reverse)

/-- name a program is known by on the controller: lower-cased base name without its last extension -/
def progKey (p : String) : String :=
  let b := (lower (baseName p)).toList
  match b.reverse.dropWhile (· != '.') with
  | [] => String.ofList b
  | _ :: r => if r.isEmpty then String.ofList b else String.ofList r.reverse

def parseG1Words (ws : List String) (g9 : Bool) : Option G1W :=
  ws.foldlM (init := ({ g9 := g9 } : G1W)) fun w t =>
    match t.toList with
    | 'Z' :: '$' :: v => if w.z.isNone && w.zvar.isNone then some { w with zvar := some (String.ofList v) } else none
    | c :: v =>
      match parseNum (String.ofList v) with
      | none => none
      | some (q, d) =>
        if c == 'X' && w.x.isNone then some { w with x := some q, decs := w.decs ++ [d] }
        else if c == 'Y' && w.y.isNone then some { w with y := some q, decs := w.decs ++ [d] }
        else if c == 'Z' && w.z.isNone && w.zvar.isNone then some { w with z := some q, decs := w.decs ++ [d] }
        else if c == 'U' && w.u.isNone then some { w with u := some q, decs := w.decs ++ [d] }
        else if c == 'F' && w.f.isNone then some { w with f := some q, decs := w.decs ++ [d] }
        else none
    | [] => none

def parseInt? (s : String) : Option Int :=
  match s.toList with
  | '-' :: t => if !t.isEmpty && t.all isDigit then some (-(digitsVal t : Int)) else none
  | t => if !t.isEmpty && t.all isDigit then some (digitsVal t : Int) else none

def parseNat? (s : String) : Option Nat := (parseInt? s).bind fun i => if i < 0 then none else some i.toNat

def varName? (s : String) : Option String :=
  match s.toList with
  | '$' :: v => if v.isEmpty then none else some (lower (String.ofList v))
  | _ => none

def parseLine (line : String) : Instr :=
  let bad := Instr.bad line
  match splitWs line with
  | [] => .blank
  | t0 :: ts =>
    if t0.startsWith ";" then .comment line else
    match t0, ts with
    | "G1", ws => match parseG1Words ws false with | some w => .g1 w | none => bad
    | "LINEAR", ws => match parseG1Words ws false with | some w => .g1 w | none => bad
    | "G9", "G1" :: ws => match parseG1Words ws true with | some w => .g1 w | none => bad
    | "PSOCONTROL", [a, "ON"] => .pso a true
    | "PSOCONTROL", [a, "OFF"] => .pso a false
    | "PSOCONTROL", [_, "RESET"] => .setup line
    | "PSOOUTPUT", _ => .setup line
    | "ENABLE", _ => .setup line
    | "METRIC", [] => .setup line
    | "SECONDS", [] => .setup line
    | "G359", [] => .setup line
    | "G17", [] => .setup line
    | "VELOCITY", ["ON"] => .setup line
    | "WAIT", ["MODE", "NOWAIT"] => .setup line
    | "WAIT", [a, _, "==", b, "-1"] =>
      -- WAIT (TASKSTATUS(t, DATAITEM_TaskState) == TASKSTATE_Idle) -1
      if a.startsWith "(TASKSTATUS(" && b == "TASKSTATE_Idle)" then
        match parseNat? (String.ofList ((a.toList.drop 12).takeWhile isDigit)) with
        | some t => .waitIdle t
        | none => bad
      else bad
    | "DWELL", [t] => match parseNum t with | some (q, _) => .dwell q | none => bad
    | "REPEAT", [n] => match parseNat? n with | some k => .rep k | none => bad
    | "ENDREPEAT", [] => .endrep
    | "FOR", [v, "=", lo, "TO", hi] =>
      match varName? v, parseInt? lo, parseInt? hi with
      | some v, some lo, some hi => .forr v lo hi
      | _, _, _ => bad
    | "NEXT", [v] => match varName? v with | some v => .next v | none => bad
    | "DVAR", vs =>
      match vs.mapM varName? with
      | some l => if l.isEmpty then bad else .dvar l
      | none => bad
    | "PROGRAM", [t, "LOAD", p] => match parseNat? t with | some k => .load k (unquote p) | none => bad
    | "PROGRAM", [t, "STOP"] => match parseNat? t with | some k => .stop k | none => bad
    | "PROGRAM", [t, "BUFFEREDRUN", p] => match parseNat? t with | some k => .buffered k (unquote p) | none => bad
    | "REMOVEPROGRAM", [p] => .remove (unquote p)
    | "FARCALL", [p] => .farcall (unquote p)
    | "G84", ["X", "Y"] => .g84 none
    | "G84", ["X", "Y", f] =>
      match f.toList with
      | 'F' :: v => match parseNum (String.ofList v) with | some (q, _) => .g84 (some q) | none => bad
      | _ => bad
    | "G92", ws =>
      match parseG1Words ws false with
      | some w => if w.f.isNone && w.u.isNone && w.zvar.isNone && !(w.x.isNone && w.y.isNone && w.z.isNone)
                  then .g92 w.x w.y w.z else bad
      | none => bad
    | "ABSOLUTE", [] => .absolute
    | "INCREMENTAL", [] => .incremental
    | "MSGDISPLAY", _ => .msg
    | "MSGCLEAR", _ => .msg
    | "MSGLAMP", _ => .msg
    | _, _ =>
      -- a bare feed word (`F5.000000`) sets the modal feed: a `G1` without axis words
      if t0.startsWith "F" && ts.isEmpty && (parseNum (String.ofList (t0.toList.drop 1))).isSome then
        match parseG1Words [t0] false with | some w => .g1 w | none => bad
      else
      match varName? t0, ts with
      | some v, ["=", q] => match parseNum q with | some (q, _) => .setVar v q | none => bad
      | some v, ["=", v', "+", q] =>
        match varName? v', parseNum q with
        | some v', some (q, _) => if v == v' then .incVar v q else bad
        | _, _ => bad
      | _, _ => bad

def parseProgram (text : String) : List Instr :=
  let lines := text.splitOn "\n"
  -- a final newline produces one empty trailing piece which is not a line
  let lines := match lines.reverse with
    | "" :: r => r.reverse
    | _ => lines
  lines.map parseLine

/-! ### loop structure -/

inductive Stmt
  | atom (i : Instr)
  | rep (n : Nat) (body : List Stmt)
  | forr (v : String) (lo hi : Int) (body : List Stmt)
deriving Repr, Inhabited

inductive Hdr
  | rep (n : Nat)
  | forr (v : String) (lo hi : Int)
deriving DecidableEq, Repr

/-- is this instruction one of the four loop delimiters? -/
def Instr.isDelim : Instr → Bool
  | .rep _ | .endrep | .forr .. | .next _ => true
  | _ => false

/-- stack parser: `cur` is the reversed list of statements of the innermost open block, `stk` the enclosing
headers with their reversed statement lists. -/
def structGo : List Instr → List Stmt → List (Hdr × List Stmt) → Option (List Stmt)
  | [], cur, [] => some cur.reverse
  | [], _, _ :: _ => none
  | .rep n :: is, cur, stk => structGo is [] ((.rep n, cur) :: stk)
  | .forr v lo hi :: is, cur, stk => structGo is [] ((.forr v lo hi, cur) :: stk)
  | .endrep :: is, cur, (.rep n, par) :: stk => structGo is (.rep n cur.reverse :: par) stk
  | .endrep :: _, _, _ => none
  | .next v :: is, cur, (.forr v' lo hi, par) :: stk =>
    if v = v' then structGo is (.forr v' lo hi cur.reverse :: par) stk else none
  | .next _ :: _, _, _ => none
  | i :: is, cur, stk => structGo is (.atom i :: cur) stk

/-- loop-structured program of a flat instruction list; `none` = unbalanced or badly nested loops -/
def structure? (is : List Instr) : Option (List Stmt) := structGo is [] []

mutual
  def flattenStmt : Stmt → List Instr
    | .atom i => [i]
    | .rep n body => .rep n :: (flattenStmts body ++ [.endrep])
    | .forr v lo hi body => .forr v lo hi :: (flattenStmts body ++ [.next v])
  def flattenStmts : List Stmt → List Instr
    | [] => []
    | s :: ss => flattenStmt s ++ flattenStmts ss
end

/-! ### interpreter -/

structure Move where
  src : Pos
  dst : Pos
  feed : Option Rat
  shutter : Bool
  g9 : Bool := false
deriving DecidableEq, Repr

inductive Ev
  | move (m : Move)
  | dwell (t : Rat) (shutter : Bool)
  | pso (on : Bool)
  | umove (u : Rat) (shutter : Bool)
  | call (key : String) (shutter : Bool)
  | ret (key : String)
  | bufrun (key : String)
  | load (key : String)
  | unload (key : String)
  | rot (on : Bool)
  | err (msg : String)
deriving DecidableEq, Repr

structure St where
  pos : Pos := {}
  feed : Option Rat := none
  shutter : Bool := false
  absMode : Bool := true
  declared : List String := []
  vals : List (String × Rat) := []
  loaded : List String := []
  rot : Bool := false
  dwell : Rat := 0
  /-- tree interpreter only: which file of the exported tree a loaded program name stands for -/
  bound : List (String × String) := []
deriving Repr, Inhabited

def lookupVar (vals : List (String × Rat)) (v : String) : Option Rat := (vals.find? (·.1 == v)).map (·.2)

def setVal (vals : List (String × Rat)) (v : String) (q : Rat) : List (String × Rat) :=
  (v, q) :: vals.filter (·.1 != v)

def axisTarget (absMode : Bool) (cur : Option Rat) (w : Option Rat) : Option Rat :=
  match w with
  | none => cur
  | some q => if absMode then some q else (cur.map (· + q))

/-- target of the Z word of a `G1`: a number, or the value of a variable (`G1 Z$ZCURR`) -/
def zTarget (σ : St) (w : G1W) : Option Rat × List Ev :=
  match w.zvar with
  | some v => match lookupVar σ.vals (lower v) with
    | some q => (some q, [])
    | none => (none, [.err s!"variable ${v} has no value"])
  | none => (w.z, [])

def uEvents (σ : St) (w : G1W) : List Ev := match w.u with | some u => [.umove u σ.shutter] | none => []

/-- a `G1` to the current position is not motion -/
def moveEvents (σ : St) (dst : Pos) (feed : Option Rat) (g9 : Bool) : List Ev :=
  if dst = σ.pos then [] else [.move { src := σ.pos, dst := dst, feed := feed, shutter := σ.shutter, g9 := g9 }]

/-- one instruction -/
def step (σ : St) : Instr → St × List Ev
  | .blank | .comment _ | .setup _ | .msg | .stop _ | .waitIdle _ => (σ, [])
  | .bad l => (σ, [.err s!"unknown instruction: {l}"])
  | .g1 w =>
    let zt := zTarget σ w
    let dst : Pos := { x := axisTarget σ.absMode σ.pos.x w.x, y := axisTarget σ.absMode σ.pos.y w.y,
                       z := axisTarget σ.absMode σ.pos.z zt.1 }
    let feed := match w.f with | some f => some f | none => σ.feed
    ({ σ with pos := dst, feed := feed }, zt.2 ++ uEvents σ w ++ moveEvents σ dst feed w.g9)
  | .pso _ on => ({ σ with shutter := on }, [.pso on])
  | .dwell t => ({ σ with dwell := σ.dwell + t }, [.dwell t σ.shutter])
  | .rep _ | .endrep | .forr .. | .next _ => (σ, [.err "loop delimiter outside the loop structure"])
  | .dvar vs => ({ σ with declared := vs.map lower ++ σ.declared }, [])
  | .setVar v q =>
    if σ.declared.contains v then ({ σ with vals := setVal σ.vals v q }, []) else (σ, [.err s!"variable ${v} not declared"])
  | .incVar v q =>
    match lookupVar σ.vals v with
    | some c => ({ σ with vals := setVal σ.vals v (c + q) }, [])
    | none => (σ, [.err s!"variable ${v} has no value"])
  | .load _ p => ({ σ with loaded := if σ.loaded.contains (progKey p) then σ.loaded else progKey p :: σ.loaded }, [.load (progKey p)])
  | .remove p =>
    if σ.loaded.contains (progKey p) then ({ σ with loaded := σ.loaded.filter (· != progKey p) }, [.unload (progKey p)])
    else (σ, [.err s!"REMOVEPROGRAM of a program that is not loaded: {p}"])
  | .farcall p =>
    if σ.loaded.contains (progKey p) then (σ, [.call (progKey p) σ.shutter]) else (σ, [.err s!"FARCALL of a program that is not loaded: {p}"])
  | .buffered _ p =>
    if σ.loaded.contains (progKey p) then (σ, [.bufrun (progKey p)]) else (σ, [.err s!"BUFFEREDRUN of a program that is not loaded: {p}"])
  | .g84 none => ({ σ with rot := false }, [.rot false])
  | .g84 (some _) => ({ σ with rot := true }, [.rot true])
  | .g92 x y z =>
    ({ σ with pos := { x := match x with | some q => some q | none => σ.pos.x,
                       y := match y with | some q => some q | none => σ.pos.y,
                       z := match z with | some q => some q | none => σ.pos.z } }, [])
  | .absolute => ({ σ with absMode := true }, [])
  | .incremental => ({ σ with absMode := false }, [])

/-- loop-free instruction lists -/
def execFlat : List Instr → St → St × List Ev
  | [], σ => (σ, [])
  | i :: is, σ =>
    let r := step σ i
    let r' := execFlat is r.1
    (r'.1, r.2 ++ r'.2)

mutual
  def execStmt : Stmt → St → St × List Ev
    | .atom i, σ => step σ i
    | .rep n body, σ => execRep n body σ
    | .forr v lo hi body, σ =>
      -- an undeclared loop variable is reported, the body is still interpreted
      let r := execRep (hi - lo + 1).toNat body σ
      if σ.declared.contains v then r else (r.1, .err s!"FOR variable ${v} not declared" :: r.2)
  termination_by s _ => (sizeOf s, 0)
  def execRep : Nat → List Stmt → St → St × List Ev
    | 0, _, σ => (σ, [])
    | k + 1, body, σ =>
      let r := execStmts body σ
      let r' := execRep k body r.1
      (r'.1, r.2 ++ r'.2)
  termination_by k body _ => (sizeOf body, k + 1)
  def execStmts : List Stmt → St → St × List Ev
    | [], σ => (σ, [])
    | s :: ss, σ =>
      let r := execStmt s σ
      let r' := execStmts ss r.1
      (r'.1, r.2 ++ r'.2)
  termination_by ss _ => (sizeOf ss, 0)
end

/- executed dwell time of a structured program: bodies counted once per iteration, at any depth -/
mutual
  def dwellOf : Stmt → Rat
    | .atom (.dwell t) => t
    | .atom _ => 0
    | .rep n body => n * dwellOfList body
    | .forr _ lo hi body => ((hi - lo + 1).toNat : Nat) * dwellOfList body
  def dwellOfList : List Stmt → Rat
    | [] => 0
    | s :: ss => dwellOf s + dwellOfList ss
end

/-- the dwell carried by one instruction -/
def instrDwell : Instr → Rat
  | .dwell t => t
  | _ => 0

/-- a header file is acceptable when it contains no loop delimiter, no DWELL (the compiler does not account for
header lines) and no line the controller does not know -/
def headerClean (h : List Instr) : Bool :=
  h.all fun i => !i.isDelim && decide (instrDwell i = 0) && (match i with | .bad _ => false | _ => true)

/-- total dwell of a program text; `none` when the loops are not balanced -/
def totalDwell (is : List Instr) : Option Rat := (structure? is).map dwellOfList

def movesOf (evs : List Ev) : List Move := evs.filterMap fun e => match e with | .move m => some m | _ => none
def errsOf (evs : List Ev) : List String := evs.filterMap fun e => match e with | .err m => some m | _ => none

end Femto.Ctl

/-
Well-formedness of a PGM program for the reference controller (property C03), as executable checks over the
flat instruction list in **program order** (loops are not unrolled here: "was loaded before" means an earlier
LOAD in the text without an intervening REMOVEPROGRAM; see DESIGN.md section 6, C03).
Each check returns the list of problems found (empty = fine).
-/
import FemtoVerif.Spec.Controller

namespace Femto.Ctl

/-- lines the controller does not know -/
def badLines (is : List Instr) : List String := is.filterMap fun i => match i with | .bad l => some l | _ => none

/-- program-order scan of the loaded set; `none` when a call / buffered run / remove names a program that is not loaded -/
def scanLoaded : List Instr → List String → Option (List String)
  | [], L => some L
  | .load _ p :: is, L => scanLoaded is (if L.contains (progKey p) then L else progKey p :: L)
  | .remove p :: is, L => if L.contains (progKey p) then scanLoaded is (L.filter (· != progKey p)) else none
  | .farcall p :: is, L => if L.contains (progKey p) then scanLoaded is L else none
  | .buffered _ p :: is, L => if L.contains (progKey p) then scanLoaded is L else none
  | _ :: is, L => scanLoaded is L

/-- program-order scan: every FOR / NEXT / assigned variable has been declared by a DVAR earlier in the text -/
def scanVars : List Instr → List String → Bool
  | [], _ => true
  | .dvar vs :: is, D => scanVars is (vs.map lower ++ D)
  | .forr v _ _ :: is, D => D.contains v && scanVars is D
  | .setVar v _ :: is, D => D.contains v && scanVars is D
  | .incVar v _ :: is, D => D.contains v && scanVars is D
  | _ :: is, D => scanVars is D

/-- the G84 state after the program in program order (`true` = a rotation is still active) -/
def scanRot : List Instr → Bool → Bool
  | [], r => r
  | .g84 none :: is, _ => scanRot is false
  | .g84 (some _) :: is, _ => scanRot is true
  | _ :: is, r => scanRot is r

/-- shutter state after the program in program order -/
def scanShutter : List Instr → Bool → Bool
  | [], s => s
  | .pso _ on :: is, _ => scanShutter is on
  | _ :: is, s => scanShutter is s

/-- every feed word is positive -/
def feedsPositive (is : List Instr) : Bool :=
  is.all fun i => match i with
    | .g1 w => (match w.f with | some f => decide (0 < f) | none => true)
    | _ => true

/-- no loop runs zero or a negative number of times -/
def loopCountsPositive (is : List Instr) : Bool :=
  is.all fun i => match i with
    | .rep n => decide (0 < n)
    | .forr _ lo hi => decide (lo ≤ hi)
    | _ => true

structure WFReport where
  bad : List String
  balanced : Bool
  varsDeclared : Bool
  callsLoaded : Bool
  rotationOff : Bool
  shutterClosedAtEnd : Bool
  feedsPositive : Bool
  loopCounts : Bool
deriving Repr

def wfReport (is : List Instr) : WFReport :=
  { bad := badLines is,
    balanced := (structure? is).isSome,
    varsDeclared := scanVars is [],
    callsLoaded := (scanLoaded is []).isSome,
    rotationOff := !scanRot is false,
    shutterClosedAtEnd := !scanShutter is false,
    feedsPositive := feedsPositive is,
    loopCounts := loopCountsPositive is }

def WFReport.ok (r : WFReport) : Bool :=
  r.bad.isEmpty && r.balanced && r.varsDeclared && r.callsLoaded && r.rotationOff && r.shutterClosedAtEnd
    && r.feedsPositive && r.loopCounts

/-- **Well-formed program** (static part of C03) -/
def WF (is : List Instr) : Prop := (wfReport is).ok = true

end Femto.Ctl

namespace Femto.Ctl

/-- shutter state (program order) at every `G1` of the text, in order -/
def g1Shutter : List Instr → Bool → List Bool
  | [], _ => []
  | .pso _ on :: is, _ => g1Shutter is on
  | .g1 _ :: is, s => s :: g1Shutter is s
  | _ :: is, s => g1Shutter is s

/-- loaded set after the text in program order (`none` if a call/remove names an unloaded program) -/
def staticLoaded (is : List Instr) : Option (List String) := scanLoaded is []

end Femto.Ctl

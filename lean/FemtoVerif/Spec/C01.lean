/-
Executable form of the C01 predicate, evaluated on the bytes the implementation wrote (spec-on-implementation).
`expectedFrom` is the specification used by theorem `C01.write_replays`; it lives here (import-free) so that
the driver can run it; `Props/C01.lean` re-exports it.
-/
import FemtoVerif.Model.Gcode

namespace Femto.Gc
open Femto.Ctl

def posOf (w : G1W) : Pos := { x := w.x, y := w.y, z := w.z }

/-- **What the machine must do** for a list of printed points `(words, shutter value)` starting from position `prev`:
one move per point whose printed position differs from the previous one, from that previous position, at the
point's own feed, with the shutter open exactly when the point is marked `1` — in order, nothing else. -/
def expectedFrom (prev : Pos) : List (G1W × Rat) → List Move
  | [] => []
  | (w, s) :: rest =>
    (if posOf w = prev then [] else [{ src := prev, dst := posOf w, feed := w.f, shutter := decide (s = 1), g9 := false }])
      ++ expectedFrom (posOf w) rest

/-- where the machine stands after the points of a matrix have been visited from `prev`: the last printed position -/
def lastPos (prev : Pos) : List (G1W × Rat) → Pos
  | [] => prev
  | (w, _) :: rest => lastPos (posOf w) rest

/-- the printed words of the points of a matrix (what `_format_args` produces for each transformed point) -/
def printed (cfg : Cfg) (m : List Pt) : Except Err (List (G1W × Rat)) := m.mapM (formatPt cfg)

def closeOpt (tol : Rat) (a b : Option Rat) : Bool :=
  match a, b with
  | none, none => true
  | some p, some q => decide (rabs (p - q) ≤ tol)
  | _, _ => false

def closePos (tol : Rat) (a b : Pos) : Bool := closeOpt tol a.x b.x && closeOpt tol a.y b.y && closeOpt tol a.z b.z

/-- two moves agree: positions within `tol` (0 = exactly), feed exactly, shutter exactly -/
def closeMove (tol : Rat) (a b : Move) : Bool :=
  closePos tol a.src b.src && closePos tol a.dst b.dst && decide (a.feed = b.feed) && a.shutter == b.shutter && a.g9 == b.g9

def closeMoves (tol : Rat) : List Move → List Move → Bool
  | [], [] => true
  | a :: as, b :: bs => closeMove tol a b && closeMoves tol as bs
  | _, _ => false

/-- index of the first disagreement (for the replay file) -/
def firstDiff (tol : Rat) : List Move → List Move → Nat → Option Nat
  | [], [], _ => none
  | a :: as, b :: bs, k => if closeMove tol a b then firstDiff tol as bs (k + 1) else some k
  | _, _, k => some k

end Femto.Gc

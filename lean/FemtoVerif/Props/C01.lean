/-
C01 — emitted G-code replays the compiled path point for point.
-/
import FemtoVerif.Proofs.WriteLemmas
import FemtoVerif.Proofs.Fmt

set_option linter.unusedSimpArgs false
set_option linter.unusedVariables false

namespace Femto.C01
open Femto.Ctl Femto.Gc

-- `expectedFrom`, `printed` (the specification) are defined in `Spec/C01.lean` so that the driver can execute them.

private theorem toggleStep_exec (cfg : Cfg) (s : Rat) (cs : CS) (σ : St) (hs : s = 0 ∨ s = 1)
    (hsh : σ.shutter = cs.shutterOn) :
    (execFlat (flattenStmts (toggleStep cfg s cs).1.1) σ).1.pos = σ.pos ∧
    (execFlat (flattenStmts (toggleStep cfg s cs).1.1) σ).1.absMode = σ.absMode ∧
    (execFlat (flattenStmts (toggleStep cfg s cs).1.1) σ).1.shutter = decide (s = 1) ∧
    movesOf (execFlat (flattenStmts (toggleStep cfg s cs).1.1) σ).2 = [] ∧
    (toggleStep cfg s cs).1.2.shutterOn = decide (s = 1) := by
  rcases hs with rfl | rfl
  · cases hc : cs.shutterOn
    · have e0 : toggleStep cfg 0 cs = (([], cs), false) := by simp [toggleStep, hc]
      rw [e0]; simp [flattenStmts, execFlat, movesOf, hsh, hc]
    · have e0 : toggleStep cfg 0 cs = (toggle cfg false cs, true) := by simp [toggleStep, hc]
      rw [e0]
      obtain ⟨a, b, c, d, e⟩ := toggle_exec cfg false cs (by simp [hc]) σ
      exact ⟨a, b, by simpa using c, d, by simpa using e⟩
  · cases hc : cs.shutterOn
    · have e0 : toggleStep cfg 1 cs = (toggle cfg true cs, true) := by simp [toggleStep, hc]
      rw [e0]
      obtain ⟨a, b, c, d, e⟩ := toggle_exec cfg true cs (by simp [hc]) σ
      exact ⟨a, b, by simpa using c, d, by simpa using e⟩
    · have e0 : toggleStep cfg 1 cs = (([], cs), false) := by simp [toggleStep, hc]
      rw [e0]; simp [flattenStmts, execFlat, movesOf, hsh, hc]

private theorem maybeG1_exec (b : Bool) (prev : Option G1W) (w : G1W) (σ : St) (hw : fullW w = true)
    (habs : σ.absMode = true) (hprev : b = true → ∀ w', prev = some w' → σ.pos = posOf w') :
    (execFlat (flattenStmts (maybeG1 b prev w)) σ).1.pos = posOf w ∧
    (execFlat (flattenStmts (maybeG1 b prev w)) σ).1.absMode = true ∧
    (execFlat (flattenStmts (maybeG1 b prev w)) σ).1.shutter = σ.shutter ∧
    movesOf (execFlat (flattenStmts (maybeG1 b prev w)) σ).2 =
      (if posOf w = σ.pos then [] else [{ src := σ.pos, dst := posOf w, feed := w.f, shutter := σ.shutter, g9 := false }]) := by
  unfold maybeG1
  by_cases h : b = false ∨ some w ≠ prev
  · simp only [h, if_true, flattenStmts_emit, execFlat, List.append_nil]
    exact step_g1_full σ w hw habs
  · simp only [h, if_false, flattenStmts, execFlat, movesOf, List.filterMap_nil]
    push Not at h
    have hb : b = true := by cases b <;> simp_all
    have := hprev hb w h.2.symm
    simp [this, habs]

/-- the point loop of `write`, interpreted by the reference controller, performs exactly the expected moves -/
theorem writeLoop_replays (cfg : Cfg) (ws : List (G1W × Rat)) :
    ∀ (prev : Option G1W) (cs : CS) (σ : St),
      (∀ p ∈ ws, fullW p.1 = true) → (∀ p ∈ ws, p.2 = 0 ∨ p.2 = 1) → σ.absMode = true →
      σ.shutter = cs.shutterOn → (∀ w', prev = some w' → σ.pos = posOf w') →
      movesOf (execFlat (flattenStmts (writeLoop cfg prev ws cs).1) σ).2 = expectedFrom σ.pos ws ∧
      (execFlat (flattenStmts (writeLoop cfg prev ws cs).1) σ).1.shutter = (writeLoop cfg prev ws cs).2.shutterOn ∧
      (execFlat (flattenStmts (writeLoop cfg prev ws cs).1) σ).1.absMode = true ∧
      (execFlat (flattenStmts (writeLoop cfg prev ws cs).1) σ).1.pos = lastPos σ.pos ws := by
  induction ws with
  | nil =>
    intro prev cs σ _ _ habs hsh _
    simp [writeLoop, flattenStmts, execFlat, movesOf, expectedFrom, lastPos, hsh, habs]
  | cons hd rest ih =>
    obtain ⟨w, s⟩ := hd
    intro prev cs σ hfull hs habs hsh hprev
    have hw : fullW w = true := hfull (w, s) (by simp)
    have hs0 : s = 0 ∨ s = 1 := hs (w, s) (by simp)
    obtain ⟨t1, t2, t3, t4, t5⟩ := toggleStep_exec cfg s cs σ hs0 hsh
    set σ1 := (execFlat (flattenStmts (toggleStep cfg s cs).1.1) σ).1 with hσ1
    obtain ⟨g1, g2, g3, g4⟩ := maybeG1_exec (toggleStep cfg s cs).2 prev w σ1 hw (by rw [t2]; exact habs)
      (fun _ w' hw' => by rw [t1]; exact hprev w' hw')
    set σ2 := (execFlat (flattenStmts (maybeG1 (toggleStep cfg s cs).2 prev w)) σ1).1 with hσ2
    obtain ⟨r1, r2, r3, r4⟩ := ih (some w) (toggleStep cfg s cs).1.2 σ2
      (fun p hp => hfull p (by simp [hp])) (fun p hp => hs p (by simp [hp])) g2 (by rw [g3, t3, t5])
      (fun w' hw' => by injection hw' with hw'; rw [g1, hw'])
    simp only [writeLoop, flattenStmts_append, execFlat_append, movesOf_append]
    refine ⟨?_, r2, r3, by rw [r4, g1]; simp [lastPos]⟩
    rw [t4, g4, r1, t1, t3, g1]
    simp [expectedFrom]

theorem formatArgs_full (d : Nat) (x y z f : Rat) (w : G1W)
    (h : formatArgs d (some x) (some y) (some z) (some f) = .ok w) :
    fullW w = true ∧ w.decs = [d, d, d, d] ∧ w.x = some (fmt d x) ∧ w.y = some (fmt d y) ∧ w.z = some (fmt d z)
      ∧ w.f = some (fmt d f) := by
  unfold formatArgs at h
  simp only at h
  split at h
  · cases h
  · injection h with h; subst h; simp [fullW]

theorem printed_full (cfg : Cfg) (m : List Pt) (ws : List (G1W × Rat)) (h : printed cfg m = .ok ws) :
    (∀ p ∈ ws, fullW p.1 = true ∧ p.1.decs = [cfg.digits, cfg.digits, cfg.digits, cfg.digits]) ∧
      ws.map Prod.snd = m.map (·.s) := by
  unfold printed at h
  induction m generalizing ws with
  | nil => simp [List.mapM_nil, pure, Except.pure] at h; subst h; simp
  | cons p m ih =>
    rw [List.mapM_cons] at h
    cases hp : formatPt cfg p with
    | error e => rw [hp] at h; simp [bind, Except.bind] at h
    | ok a =>
      rw [hp] at h
      cases hm : m.mapM (formatPt cfg) with
      | error e => rw [hm] at h; simp [bind, Except.bind] at h
      | ok as =>
        rw [hm] at h
        simp only [bind, Except.bind, pure, Except.pure] at h
        injection h with h; subst h
        obtain ⟨ih1, ih2⟩ := ih as hm
        simp only [formatPt] at hp
        cases hf : formatArgs cfg.digits (some (transform cfg p.x p.y p.z).1) (some (transform cfg p.x p.y p.z).2.1)
            (some (transform cfg p.x p.y p.z).2.2) (some p.f) with
        | error e => rw [hf] at hp; simp [Except.map] at hp
        | ok w =>
          rw [hf] at hp; simp only [Except.map] at hp
          injection hp with hp; subst hp
          obtain ⟨f1, f2, _⟩ := formatArgs_full _ _ _ _ _ _ hf
          refine ⟨?_, by simp [ih2]⟩
          intro q hq
          rcases List.mem_cons.mp hq with rfl | hq
          · exact ⟨f1, f2⟩
          · exact ih1 q hq

/-- **C01, main theorem.** For every configuration, every point matrix whose shutter column holds only 0 and 1 and
that `write` accepts, every compiler state and every controller state in absolute mode whose shutter agrees with the
compiler's belief: interpreting what `write` emitted performs exactly `expectedFrom` of the printed points —
no point skipped, no motion added, in order, each at its own feed, shutter open iff the point is marked open —
and leaves the controller's shutter equal to the compiler's belief. -/
theorem write_replays (cfg : Cfg) (m : List Pt) (cs : CS) (o : Out) (σ : St) (ws : List (G1W × Rat))
    (hw : write cfg m cs = .ok o) (hp : printed cfg m = .ok ws) (hs : ∀ p ∈ m, p.s = 0 ∨ p.s = 1)
    (habs : σ.absMode = true) (hsh : σ.shutter = cs.shutterOn) :
    movesOf (execFlat (flattenStmts o.1) σ).2 = expectedFrom σ.pos ws ∧
      (execFlat (flattenStmts o.1) σ).1.shutter = o.2.shutterOn := by
  obtain ⟨hf, hsnd⟩ := printed_full cfg m ws hp
  have hs' : ∀ p ∈ ws, p.2 = 0 ∨ p.2 = 1 := by
    intro p hp'
    have : p.2 ∈ ws.map Prod.snd := List.mem_map_of_mem hp'
    rw [hsnd] at this
    obtain ⟨pt, hpt, he⟩ := List.mem_map.mp this
    rw [← he]; exact hs pt hpt
  unfold write at hw
  unfold printed at hp
  rw [hp] at hw
  simp only [Except.map] at hw
  injection hw with hw; subst hw
  obtain ⟨r1, r2, r3, _⟩ := writeLoop_replays cfg ws none cs σ (fun p h => (hf p h).1) hs' habs hsh (by simp)
  obtain ⟨q1, s1⟩ := dwell_quiet cfg.longPause (writeLoop cfg none ws cs).2
  simp only [seq, flattenStmts_append, execFlat_append, movesOf_append, flattenStmts_emit]
  obtain ⟨a1, a2, a3, a4⟩ := execFlat_quiet _ q1 (execFlat (flattenStmts (writeLoop cfg none ws cs).1) σ).1
  obtain ⟨b1, b2, b3, b4⟩ := execFlat_quiet [Instr.blank] (by simp [quiet])
    (execFlat (flattenStmts (dwell cfg.longPause (writeLoop cfg none ws cs).2).1)
      (execFlat (flattenStmts (writeLoop cfg none ws cs).1) σ).1).1
  refine ⟨?_, ?_⟩
  · rw [r1, a4, b4]; simp
  · rw [b3, a3, r2, s1]

/-- after `write`, the controller stands on the last printed point, still in absolute mode -/
theorem write_final_state (cfg : Cfg) (m : List Pt) (cs : CS) (o : Out) (σ : St) (ws : List (G1W × Rat))
    (hw : write cfg m cs = .ok o) (hp : printed cfg m = .ok ws) (hs : ∀ p ∈ m, p.s = 0 ∨ p.s = 1)
    (habs : σ.absMode = true) (hsh : σ.shutter = cs.shutterOn) :
    (execFlat (flattenStmts o.1) σ).1.pos = lastPos σ.pos ws ∧ (execFlat (flattenStmts o.1) σ).1.absMode = true := by
  obtain ⟨hf, hsnd⟩ := printed_full cfg m ws hp
  have hs' : ∀ p ∈ ws, p.2 = 0 ∨ p.2 = 1 := by
    intro p hp'
    have : p.2 ∈ ws.map Prod.snd := List.mem_map_of_mem hp'
    rw [hsnd] at this
    obtain ⟨pt, hpt, he⟩ := List.mem_map.mp this
    rw [← he]; exact hs pt hpt
  unfold write at hw
  unfold printed at hp
  rw [hp] at hw
  simp only [Except.map] at hw
  injection hw with hw; subst hw
  obtain ⟨r1, r2, r3, r4⟩ := writeLoop_replays cfg ws none cs σ (fun p h => (hf p h).1) hs' habs hsh (by simp)
  obtain ⟨q1, s1⟩ := dwell_quiet cfg.longPause (writeLoop cfg none ws cs).2
  simp only [seq, flattenStmts_append, execFlat_append, flattenStmts_emit]
  obtain ⟨a1, a2, a3, a4⟩ := execFlat_quiet _ q1 (execFlat (flattenStmts (writeLoop cfg none ws cs).1) σ).1
  obtain ⟨b1, b2, b3, b4⟩ := execFlat_quiet [Instr.blank] (by simp [quiet])
    (execFlat (flattenStmts (dwell cfg.longPause (writeLoop cfg none ws cs).2).1)
      (execFlat (flattenStmts (writeLoop cfg none ws cs).1) σ).1).1
  exact ⟨by rw [b1, a1, r4], by rw [b2, a2, r3]⟩

/-- the compiler's shutter belief after the point loop: the mark of the last row (rows marked 0 / 1) -/
theorem writeLoop_final_shutter (cfg : Cfg) (ws : List (G1W × Rat)) :
    ∀ (prev : Option G1W) (cs : CS), (∀ p ∈ ws, p.2 = 0 ∨ p.2 = 1) →
      (writeLoop cfg prev ws cs).2.shutterOn = (match ws.getLast? with | some p => decide (p.2 = 1) | none => cs.shutterOn) := by
  induction ws with
  | nil => intro prev cs _; simp [writeLoop]
  | cons hd rest ih =>
    obtain ⟨w, s⟩ := hd
    intro prev cs hs
    have hs0 : s = 0 ∨ s = 1 := hs (w, s) (by simp)
    have t5 : (toggleStep cfg s cs).1.2.shutterOn = decide (s = 1) := by
      rcases hs0 with rfl | rfl
      · cases hc : cs.shutterOn
        · simp [toggleStep, hc]
        · have := (toggle_shape cfg false cs (by simp [hc])).choose_spec.choose_spec.2.2.2
          simp [toggleStep, hc, this]
      · cases hc : cs.shutterOn
        · have := (toggle_shape cfg true cs (by simp [hc])).choose_spec.choose_spec.2.2.2
          simp [toggleStep, hc, this]
        · simp [toggleStep, hc]
    simp only [writeLoop]
    rw [ih (some w) _ (fun p hp => hs p (by simp [hp]))]
    cases rest with
    | nil => simp [t5]
    | cons a b =>
      rw [List.getLast?_cons_cons]
      cases h : (a :: b).getLast? with
      | none => simp at h
      | some p => rfl

/-- the compiler's shutter belief after `write`: the mark of the last row -/
theorem write_final_shutter (cfg : Cfg) (m : List Pt) (cs : CS) (o : Out)
    (hw : write cfg m cs = .ok o) (hs : ∀ p ∈ m, p.s = 0 ∨ p.s = 1) :
    o.2.shutterOn = (match m.getLast? with | some p => decide (p.s = 1) | none => cs.shutterOn) := by
  cases hp : printed cfg m with
  | error e => unfold write at hw; unfold printed at hp; rw [hp] at hw; simp [Except.map] at hw
  | ok ws =>
    obtain ⟨hf, hsnd⟩ := printed_full cfg m ws hp
    have hs' : ∀ p ∈ ws, p.2 = 0 ∨ p.2 = 1 := by
      intro p hp'
      have : p.2 ∈ ws.map Prod.snd := List.mem_map_of_mem hp'
      rw [hsnd] at this
      obtain ⟨pt, hpt, he⟩ := List.mem_map.mp this
      rw [← he]; exact hs pt hpt
    unfold write at hw
    unfold printed at hp
    rw [hp] at hw
    simp only [Except.map] at hw
    injection hw with hw; subst hw
    simp only [seq]
    rw [(dwell_quiet cfg.longPause (writeLoop cfg none ws cs).2).2, writeLoop_final_shutter cfg ws none cs hs']
    have h1 : (ws.getLast?).map Prod.snd = (m.getLast?).map (·.s) := by
      rw [← List.getLast?_map, ← List.getLast?_map, hsnd]
    cases hl : ws.getLast? with
    | none => cases hm : m.getLast? with
      | none => rfl
      | some q => rw [hl, hm] at h1; simp at h1
    | some p => cases hm : m.getLast? with
      | none => rw [hl, hm] at h1; simp at h1
      | some q => rw [hl, hm] at h1; simp at h1; simp [h1]
/-- the first point is reached with the shutter closed: if the first row is marked closed, the first move (if the
machine is not already there) is made with the shutter closed — whatever the shutter state was before -/
theorem first_point_closed (prev : Pos) (w : G1W) (rest : List (G1W × Rat)) (mv : Move)
    (h : (expectedFrom prev ((w, 0) :: rest)).head? = some mv) (hne : posOf w ≠ prev) : mv.shutter = false := by
  simp [expectedFrom, hne] at h
  rw [← h]

/-- every number word of every emitted `G1` is printed with the configured number of decimals -/
theorem write_digits (cfg : Cfg) (m : List Pt) (ws : List (G1W × Rat)) (hp : printed cfg m = .ok ws) :
    ∀ p ∈ ws, p.1.decs = [cfg.digits, cfg.digits, cfg.digits, cfg.digits] :=
  fun p h => ((printed_full cfg m ws hp).1 p h).2

/-- a feed below the guard makes `write` raise, and a raising `write` emits nothing and leaves the state alone
(the result type of the model has no output in the error case; this is what C03's crash argument uses) -/
theorem write_error (cfg : Cfg) (m : List Pt) (cs : CS) (p : Pt) (hp : p ∈ m) (hf : p.f < 1 / pow10 cfg.digits) :
    ∃ e, write cfg m cs = .error e := by
  unfold write
  have : ∃ e, m.mapM (formatPt cfg) = .error e := by
    induction m with
    | nil => simp at hp
    | cons q m ih =>
      rw [List.mapM_cons]
      rcases List.mem_cons.mp hp with rfl | h
      · have : ∃ e, formatPt cfg p = .error e := by
          simp only [formatPt, formatArgs, hf, if_true, Except.map]; exact ⟨_, rfl⟩
        obtain ⟨e, he⟩ := this
        exact ⟨e, by simp [he, bind, Except.bind]⟩
      · obtain ⟨e, he⟩ := ih h
        cases hq : formatPt cfg q with
        | error e' => exact ⟨e', by simp [bind, Except.bind]⟩
        | ok a => exact ⟨e, by simp [he, bind, Except.bind]⟩
  obtain ⟨e, he⟩ := this
  exact ⟨e, by simp [he, Except.map]⟩

/-! ### rounding of printed numbers -/

/-- the printed value is within half a unit of the last printed decimal of the exact value -/
theorem printed_value_error (d : Nat) (q : Rat) : |fmt d q - q| ≤ 1 / (2 * pow10 d) := fmt_error d q

/-! ### non-vacuity: a path with a closed move in the middle (the case the unrepaired loop lost) -/

private def demoCfg : Cfg := { shiftX := 1/2, flipX := true, neff := 2 }
private def demoM : List Pt :=
  [⟨0, 0, 0, 5, 0⟩, ⟨0, 0, 0, 5, 1⟩, ⟨1, 0, 0, 20, 1⟩, ⟨2, 1, 0, 20, 0⟩, ⟨2, 1, 0, 20, 1⟩, ⟨3, 1, 0, 20, 1⟩, ⟨3, 1, 0, 20, 0⟩,
   ⟨0, 0, 0, 5, 0⟩]

example : (match write demoCfg demoM {}, printed demoCfg demoM with
    | .ok o, .ok ws => decide (movesOf (execFlat (flattenStmts o.1) {}).2 = expectedFrom {} ws) && (expectedFrom {} ws).length == 5
    | _, _ => false) = true := by decide +kernel

end Femto.C01

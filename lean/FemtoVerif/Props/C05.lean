/-
C05 — trench blocks keep their clearance from the waveguides and are numbered bottom-up.
PARTIAL: the metric consequences of the construction (what `buffer` / `difference` mean as point sets) and the list
logic (numbering, removal) are proved; that GEOS meets the point-set contract up to the polygonisation error is sampled.
-/
import FemtoVerif.Model.Trench
import Mathlib.Topology.MetricSpace.Pseudo.Defs
import Mathlib.Tactic.Linarith
import Mathlib.Tactic.Ring
import Mathlib.Analysis.Normed.Affine.Convex
import Mathlib.Analysis.Convex.Segment
import Mathlib.Tactic.FieldSimp
import Mathlib.Algebra.Order.Field.Rat

set_option linter.unusedSimpArgs false
set_option linter.unusedVariables false

namespace Femto.C05
open Femto.Tr

/-! ### clearance, containment, coverage, separation — in any (pseudo-)metric space -/
section metric
variable {E : Type} [PseudoMetricSpace E]

/-- what `buffer(r)` means as a point set: everything within `r` of the shape -/
def dilate (A : Set E) (r : ℝ) : Set E := {p | ∃ a ∈ A, dist p a ≤ r}

/-- the adjusted bridge is the required clearance plus the corner radius -/
theorem adj_split (bridge waist rc : ℝ) : adjBridge bridge waist rc - rc = bridge / 2 + waist := by
  unfold adjBridge; ring

/-- **clearance**: if every point of the raw block is at least `adj − ε` from the waveguide set `W` (it lies outside the
waveguides dilated by `adj`, `ε` being the polygonisation error of the round shapes), then every point of the block
rounded by `rc` is at least `bridge/2 + waist − ε` from `W` -/
theorem clearance {W B : Set E} {bridge waist rc ε : ℝ}
    (hraw : ∀ b ∈ B, ∀ w ∈ W, adjBridge bridge waist rc - ε ≤ dist b w) :
    ∀ p ∈ dilate B rc, ∀ w ∈ W, bridge / 2 + waist - ε ≤ dist p w := by
  rintro p ⟨b, hb, hpb⟩ w hw
  have h1 := hraw b hb w hw
  have h2 : dist b w ≤ dist b p + dist p w := dist_triangle b p w
  have h3 : dist b p = dist p b := dist_comm b p
  unfold adjBridge at h1
  linarith

/-- **inside the column rectangle grown by the corner radius** -/
theorem inside_grown {R B : Set E} {rc : ℝ} (hB : B ⊆ R) : dilate B rc ⊆ dilate R rc := by
  rintro p ⟨b, hb, h⟩
  exact ⟨b, hB hb, h⟩

/-- a shape is contained in its own rounding -/
theorem subset_dilate {B : Set E} {rc : ℝ} (hrc : 0 ≤ rc) : B ⊆ dilate B rc := by
  intro b hb
  exact ⟨b, hb, by simpa using hrc⟩

/-- **coverage**: the raw blocks are the pieces of `rect \ mold`; hence every point of the rectangle that is at least `adj`
from every waveguide lies in some rounded block — however many blocks there are (`blocks` may be a singleton) -/
theorem coverage {R W : Set E} {blocks : List (Set E)} {adj rc : ℝ} (hrc : 0 ≤ rc)
    (hpieces : ∀ p ∈ R, (∀ w ∈ W, adj ≤ dist p w) → ∃ B ∈ blocks, p ∈ B) :
    ∀ p ∈ R, (∀ w ∈ W, adj ≤ dist p w) → ∃ B ∈ blocks, p ∈ dilate B rc := by
  intro p hp hfar
  obtain ⟨B, hB, hpB⟩ := hpieces p hp hfar
  exact ⟨B, hB, subset_dilate hrc hpB⟩

/-- **no overlap** — under the separation hypothesis `Hsep`: between any point of one raw block and any point of another
there is a waveguide point `m` *on the way* (`dist b₀ m + dist m b₁ = dist b₀ b₁`).  Then the two rounded blocks stay
`bridge + 2·waist − 2ε` apart, in particular they are disjoint when that is positive.  (Two blocks separated only by the
round end cap of a waveguide that stops inside the column do **not** satisfy `Hsep`: known finding F7.) -/
theorem rounded_apart {W B₀ B₁ : Set E} {bridge waist rc ε : ℝ}
    (hraw₀ : ∀ b ∈ B₀, ∀ w ∈ W, adjBridge bridge waist rc - ε ≤ dist b w)
    (hraw₁ : ∀ b ∈ B₁, ∀ w ∈ W, adjBridge bridge waist rc - ε ≤ dist b w)
    (Hsep : ∀ b₀ ∈ B₀, ∀ b₁ ∈ B₁, ∃ m ∈ W, dist b₀ m + dist m b₁ = dist b₀ b₁) :
    ∀ p ∈ dilate B₀ rc, ∀ q ∈ dilate B₁ rc, bridge + 2 * waist - 2 * ε ≤ dist p q := by
  rintro p ⟨b₀, hb₀, hp⟩ q ⟨b₁, hb₁, hq⟩
  obtain ⟨m, hm, hsum⟩ := Hsep b₀ hb₀ b₁ hb₁
  have h0 := hraw₀ b₀ hb₀ m hm
  have h1 := hraw₁ b₁ hb₁ m hm
  have h1' : dist b₁ m = dist m b₁ := dist_comm b₁ m
  have t1 : dist b₀ b₁ ≤ dist b₀ p + dist p b₁ := dist_triangle b₀ p b₁
  have t2 : dist p b₁ ≤ dist p q + dist q b₁ := dist_triangle p q b₁
  have c1 : dist b₀ p = dist p b₀ := dist_comm b₀ p
  unfold adjBridge at h0 h1
  linarith

theorem rounded_disjoint {W B₀ B₁ : Set E} {bridge waist rc ε : ℝ}
    (hraw₀ : ∀ b ∈ B₀, ∀ w ∈ W, adjBridge bridge waist rc - ε ≤ dist b w)
    (hraw₁ : ∀ b ∈ B₁, ∀ w ∈ W, adjBridge bridge waist rc - ε ≤ dist b w)
    (Hsep : ∀ b₀ ∈ B₀, ∀ b₁ ∈ B₁, ∃ m ∈ W, dist b₀ m + dist m b₁ = dist b₀ b₁)
    (hpos : 2 * ε < bridge + 2 * waist) : Disjoint (dilate B₀ rc) (dilate B₁ rc) := by
  rw [Set.disjoint_left]
  intro p hp0 hp1
  have := rounded_apart hraw₀ hraw₁ Hsep p hp0 p hp1
  simp at this
  linarith

end metric

/-! ### the separation hypothesis across a straight guide -/
section line
variable {E : Type} [NormedAddCommGroup E] [NormedSpace ℝ E]

/-- **the separation hypothesis holds across a straight guide**: if the guide contains the whole line `φ = c` (a straight
guide that crosses the neighbourhood of both blocks) and the two raw blocks lie on opposite sides of it, then between any
point of one and any point of the other there is a guide point on the way -/
theorem hsep_of_line (φ : E →ₗ[ℝ] ℝ) (c : ℝ) {W B₀ B₁ : Set E} (hW : {p | φ p = c} ⊆ W)
    (h0 : ∀ b ∈ B₀, c < φ b) (h1 : ∀ b ∈ B₁, φ b < c) :
    ∀ b₀ ∈ B₀, ∀ b₁ ∈ B₁, ∃ m ∈ W, dist b₀ m + dist m b₁ = dist b₀ b₁ := by
  intro b₀ hb₀ b₁ hb₁
  have p0 := h0 b₀ hb₀
  have p1 := h1 b₁ hb₁
  have hden : 0 < φ b₀ - φ b₁ := by linarith
  set t : ℝ := (φ b₀ - c) / (φ b₀ - φ b₁) with ht
  have ht0 : 0 ≤ t := div_nonneg (by linarith) hden.le
  have ht1 : t ≤ 1 := by rw [ht, div_le_one hden]; linarith
  refine ⟨AffineMap.lineMap b₀ b₁ t, hW ?_, ?_⟩
  · show φ (AffineMap.lineMap b₀ b₁ t) = c
    rw [AffineMap.lineMap_apply_module]
    simp only [map_add, map_smul, smul_eq_mul]
    rw [ht]; field_simp; ring
  · exact dist_add_dist_of_mem_segment (lineMap_mem_segment ℝ b₀ b₁ ⟨ht0, ht1⟩)

/-- **blocks on opposite sides of a straight guide do not overlap**: they stay `bridge + 2·waist − 2ε` apart -/
theorem straight_guide_blocks_apart (φ : E →ₗ[ℝ] ℝ) (c : ℝ) {W B₀ B₁ : Set E} {bridge waist rc ε : ℝ}
    (hW : {p | φ p = c} ⊆ W)
    (hraw₀ : ∀ b ∈ B₀, ∀ w ∈ W, adjBridge bridge waist rc - ε ≤ dist b w)
    (hraw₁ : ∀ b ∈ B₁, ∀ w ∈ W, adjBridge bridge waist rc - ε ≤ dist b w)
    (h0 : ∀ b ∈ B₀, c < φ b) (h1 : ∀ b ∈ B₁, φ b < c) :
    ∀ p ∈ dilate B₀ rc, ∀ q ∈ dilate B₁ rc, bridge + 2 * waist - 2 * ε ≤ dist p q :=
  rounded_apart hraw₀ hraw₁ (hsep_of_line φ c hW h0 h1)

end line

/-! ### numbering -/
section order
variable {α : Type}

private theorem le_props :
    (∀ a b c : Rat × α, decide (a.1 ≤ b.1) = true → decide (b.1 ≤ c.1) = true → decide (a.1 ≤ c.1) = true) ∧
    (∀ a b : Rat × α, (decide (a.1 ≤ b.1) || decide (b.1 ≤ a.1)) = true) := by
  constructor
  · intro a b c h1 h2
    simp only [decide_eq_true_eq] at *
    exact Rat.le_trans h1 h2
  · intro a b
    simp only [Bool.or_eq_true, decide_eq_true_eq]
    exact Rat.le_total

/-- every raw block gets exactly one number -/
theorem order_perm (bs : List (Rat × α)) : (orderBlocks bs).Perm bs := List.mergeSort_perm bs _

/-- **numbered bottom-to-top**: lowest y is non-decreasing along the numbering -/
theorem order_sorted (bs : List (Rat × α)) : (orderBlocks bs).Pairwise fun a b => a.1 ≤ b.1 := by
  have := List.pairwise_mergeSort (le := fun a b : Rat × α => decide (a.1 ≤ b.1)) le_props.1 le_props.2 bs
  exact this.imp (by intro a b h; simpa using h)

/-- rounding lowers every lowest y by the same `rc`, so the rounded blocks are in bottom-to-top order as well -/
theorem order_sorted_rounded (bs : List (Rat × α)) (rc : Rat) :
    ((orderBlocks bs).map fun p => p.1 - rc).Pairwise (· ≤ ·) := by
  rw [List.pairwise_map]
  exact (order_sorted bs).imp (by intro a b h; linarith)

theorem order_length (bs : List (Rat × α)) : (orderBlocks bs).length = bs.length := List.length_mergeSort bs

end order

/-! ### removal by index -/
section removal
variable {α : Type}

theorem mem_insertDesc (x y : Nat) (l : List Nat) : y ∈ insertDesc x l ↔ y = x ∨ y ∈ l := by
  induction l with
  | nil => simp [insertDesc]
  | cons z zs ih =>
    unfold insertDesc
    split
    · simp
    · split
      · rename_i h; subst h; simp
      · simp [ih]; tauto

theorem mem_sortedSetDesc (y : Nat) (l : List Nat) : y ∈ sortedSetDesc l ↔ y ∈ l := by
  induction l with
  | nil => simp [sortedSetDesc]
  | cons x xs ih =>
    have : sortedSetDesc (x :: xs) = insertDesc x (sortedSetDesc xs) := rfl
    rw [this, mem_insertDesc, ih]; simp

theorem insertDesc_desc (x : Nat) (l : List Nat) (h : l.Pairwise (· > ·)) : (insertDesc x l).Pairwise (· > ·) := by
  induction l with
  | nil => simp [insertDesc]
  | cons z zs ih =>
    unfold insertDesc
    rw [List.pairwise_cons] at h
    split
    · rename_i hz
      refine List.pairwise_cons.mpr ⟨?_, List.pairwise_cons.mpr h⟩
      intro a ha
      rcases List.mem_cons.mp ha with rfl | ha
      · exact hz
      · have := h.1 a ha; omega
    · split
      · exact List.pairwise_cons.mpr h
      · rename_i h1 h2
        refine List.pairwise_cons.mpr ⟨?_, ih h.2⟩
        intro a ha
        rcases (mem_insertDesc x a zs).mp ha with rfl | ha
        · omega
        · exact h.1 a ha

/-- the indices are processed highest first, each once -/
theorem sortedSetDesc_desc (l : List Nat) : (sortedSetDesc l).Pairwise (· > ·) := by
  induction l with
  | nil => simp [sortedSetDesc]
  | cons x xs ih => exact insertDesc_desc x _ ih

theorem keepFrom_congr (k : Nat) (ds ds' : List Nat) (h : ∀ x, x ∈ ds ↔ x ∈ ds') (l : List α) :
    keepFrom k ds l = keepFrom k ds' l := by
  induction l generalizing k with
  | nil => rfl
  | cons a as ih => simp only [keepFrom, h k, ih]

theorem keepFrom_below (k : Nat) (ds : List Nat) (h : ∀ x ∈ ds, x < k) (l : List α) : keepFrom k ds l = l := by
  induction l generalizing k with
  | nil => rfl
  | cons a as ih =>
    have hk : k ∉ ds := fun hk => by have := h k hk; omega
    simp only [keepFrom, hk, if_false]
    rw [ih (k + 1) (fun x hx => by have := h x hx; omega)]

theorem keepFrom_eraseIdx (k d : Nat) (ds : List Nat) (l : List α) (h : ∀ x ∈ ds, x < k + d) :
    keepFrom k ds (l.eraseIdx d) = keepFrom k ((k + d) :: ds) l := by
  induction l generalizing k d with
  | nil => simp [keepFrom]
  | cons a as ih =>
    cases d with
    | zero =>
      simp only [List.eraseIdx_zero, List.tail_cons, Nat.add_zero, keepFrom, List.mem_cons, true_or, if_true]
      rw [keepFrom_below k ds (by simpa using h), keepFrom_below (k + 1) (k :: ds)]
      intro x hx
      rcases List.mem_cons.mp hx with rfl | hx
      · omega
      · have := h x hx; omega
    | succ d' =>
      simp only [List.eraseIdx_cons_succ, keepFrom, List.mem_cons]
      have hne : ¬ k = k + (d' + 1) := by omega
      have e : k + (d' + 1) = (k + 1) + d' := by omega
      have ih' := ih (k + 1) d' (fun x hx => by have := h x hx; omega)
      simp only [hne, false_or]
      rw [ih', e]

theorem foldlM_delAt (ds : List Nat) (l : List α) (hdesc : ds.Pairwise (· > ·)) (hin : ∀ d ∈ ds, d < l.length) :
    ds.foldlM delAt? l = some (keepFrom 0 ds l) := by
  induction ds generalizing l with
  | nil => simp [keepFrom_below]
  | cons d ds ih =>
    rw [List.pairwise_cons] at hdesc
    have hd : d < l.length := hin d (by simp)
    simp only [List.foldlM_cons, delAt?, hd, if_true]
    show (ds.foldlM delAt? (l.eraseIdx d)) = _
    rw [ih (l.eraseIdx d) hdesc.2 (by
      intro x hx
      have h1 := hdesc.1 x hx
      rw [List.length_eraseIdx]; simp only [hd, if_true]; omega)]
    rw [keepFrom_eraseIdx 0 d ds l (by intro x hx; have := hdesc.1 x hx; omega)]
    simp

/-- **removal deletes exactly the blocks with the listed numbers** (any order, repetitions allowed): for in-range
indices the survivors are the blocks whose number is not listed, in their order -/
theorem remove_exact (l : List α) (idx : List Nat) (hin : ∀ i ∈ idx, i < l.length) :
    removeIdx? l idx = some (keepFrom 0 idx l) := by
  unfold removeIdx?
  rw [foldlM_delAt _ l (sortedSetDesc_desc idx) (fun d hd => hin d ((mem_sortedSetDesc d idx).mp hd))]
  rw [keepFrom_congr 0 _ idx (fun x => mem_sortedSetDesc x idx)]

/-- what `keepFrom` keeps, said with positions: element `i` survives iff `i` is not listed -/
theorem keepFrom_eq_filter (k : Nat) (ds : List Nat) (l : List α) :
    keepFrom k ds l = ((l.zipIdx k).filter fun p => decide (p.2 ∉ ds)).map (·.1) := by
  induction l generalizing k with
  | nil => rfl
  | cons a as ih =>
    simp only [keepFrom, List.zipIdx_cons, List.filter_cons]
    by_cases hk : k ∈ ds <;> simp [hk, ih]

theorem remove_length (l : List α) (idx : List Nat) (hin : ∀ i ∈ idx, i < l.length) (hnd : idx.Nodup) :
    ∃ r, removeIdx? l idx = some r ∧ r.length + idx.length = l.length := by
  refine ⟨_, remove_exact l idx hin, ?_⟩
  rw [keepFrom_eq_filter]
  simp only [List.length_map]
  have key : ∀ (k : Nat) (l : List α) (ds : List Nat), ds.Nodup → (∀ i ∈ ds, k ≤ i ∧ i < k + l.length) →
      ((l.zipIdx k).filter fun p => decide (p.2 ∉ ds)).length + ds.length = l.length := by
    intro k l
    induction l generalizing k with
    | nil =>
      intro ds _ h
      cases ds with
      | nil => simp
      | cons d ds => have := h d (by simp); simp at this; omega
    | cons a as ih =>
      intro ds hnd h
      simp only [List.zipIdx_cons, List.filter_cons]
      by_cases hk : k ∈ ds
      · simp only [hk, not_true_eq_false, decide_false, Bool.false_eq_true, if_false]
        have hper := List.perm_cons_erase hk
        have hnd' : (ds.erase k).Nodup := hnd.erase k
        have hl : ds.length = (ds.erase k).length + 1 := by rw [hper.length_eq]; simp
        have hmem : ∀ x, x ∈ ds.erase k ↔ x ∈ ds ∧ x ≠ k := by
          intro x; rw [hnd.mem_erase_iff]; tauto
        have hf : (as.zipIdx (k + 1)).filter (fun p => decide (p.2 ∉ ds)) =
                  (as.zipIdx (k + 1)).filter (fun p => decide (p.2 ∉ ds.erase k)) := by
          apply List.filter_congr
          intro p hp
          have hp2 : k + 1 ≤ p.2 := by
            have := List.le_snd_of_mem_zipIdx hp
            exact this
          have : p.2 ≠ k := by omega
          simp [hmem, this]
        rw [hf]
        have := ih (k + 1) (ds.erase k) hnd' (by
          intro i hi
          have hi' := (hmem i).mp hi
          have := h i hi'.1
          simp only [List.length_cons] at this
          omega)
        simp only [List.length_cons]; omega
      · simp only [hk, not_false_eq_true, decide_true, if_true, List.length_cons]
        have := ih (k + 1) ds hnd (by
          intro i hi
          have := h i hi
          simp only [List.length_cons] at this
          have hne : i ≠ k := fun e => hk (e ▸ hi)
          omega)
        omega
  exact key 0 l idx hnd (by intro i hi; have := hin i hi; omega)

/-- an index that is not a block number is an error (Python's `IndexError`), nothing is returned -/
theorem remove_out_of_range (l : List α) (idx : List Nat) (h : ∃ i ∈ idx, l.length ≤ i) : removeIdx? l idx = none := by
  unfold removeIdx?
  obtain ⟨i, hi, hle⟩ := h
  have hmem : i ∈ sortedSetDesc idx := (mem_sortedSetDesc i idx).mpr hi
  have hdesc := sortedSetDesc_desc idx
  generalize sortedSetDesc idx = ds at hmem hdesc
  cases ds with
  | nil => simp at hmem
  | cons d ds =>
    have hd : l.length ≤ d := by
      rcases List.mem_cons.mp hmem with rfl | hm
      · exact hle
      · have := (List.pairwise_cons.mp hdesc).1 i hm; omega
    have : ¬ d < l.length := by omega
    simp [List.foldlM_cons, delAt?, this]

/-- the whole list logic of `_dig`: with in-range indices the result is the rounded blocks in bottom-to-top order minus the
listed numbers -/
theorem dig_spec {β : Type} (raw : List (Rat × α)) (round : α → β) (remove : List Nat)
    (hin : ∀ i ∈ remove, i < raw.length) :
    dig raw round remove = some (keepFrom 0 remove ((orderBlocks raw).map fun p => round p.2)) := by
  unfold dig
  exact remove_exact _ _ (by simpa [order_length] using hin)

end removal

/-- non-vacuity / regression witnesses -/
example : removeIdx? ["b0", "b1", "b2", "b3"] [1, 1] = some ["b0", "b2", "b3"] := by decide
example : removeIdx? ["b0", "b1", "b2", "b3"] [0, 3, 1] = some ["b2"] := by decide
example : removeIdx? ["b0", "b1"] [2] = none := by decide
/-- what the unrepaired loop (`sorted(remove, reverse=True)` without `set`) did with a repeated index -/
example : ([1, 1] : List Nat).foldlM delAt? ["b0", "b1", "b2", "b3"] = some ["b0", "b3"] := by decide

end Femto.C05

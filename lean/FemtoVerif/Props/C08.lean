/-
C08 — writers repeat each structure the configured number of times.
-/
import FemtoVerif.Model.Writers
import FemtoVerif.Proofs.Session
import FemtoVerif.Props.C01
import FemtoVerif.Spec.C08
import FemtoVerif.Props.C03
import FemtoVerif.Gen.Data
import FemtoVerif.Props.C11
import FemtoVerif.Proofs.PathLemmas
import Mathlib.Tactic.Ring
import Mathlib.Tactic.Linarith
import Mathlib.Tactic.NormNum
import Mathlib.Tactic.Positivity
import Mathlib.Data.Rat.Defs
import Mathlib.Algebra.Order.AbsoluteValue.Basic
import Mathlib.Data.List.Chain

set_option linter.unusedSimpArgs false
set_option linter.unusedVariables false

namespace Femto.C08
open Femto.Wr Femto.Gc Femto.Ctl Femto.Pth

/-! ### the order of the adjacent passes -/

/-- one pass per adjacent scan -/
theorem adjOrder_length (n : Nat) : (adjScanOrder n).length = n := by
  unfold adjScanOrder
  split
  · rename_i h
    simp only [List.length_cons, List.length_flatMap, List.length_cons, List.length_nil]
    simp
    omega
  · rename_i h
    simp only [List.length_flatMap, List.length_cons, List.length_nil]
    simp
    omega

/-- which offsets occur: for an odd count `0, ±1, …, ±(n-1)/2`; for an even count `±1/2, ±3/2, …, ±(n-1)/2` -/
theorem adjOrder_mem (n : Nat) (k : Rat) :
    k ∈ adjScanOrder n ↔
      (n % 2 = 1 ∧ (k = 0 ∨ ∃ i : Nat, i < n / 2 ∧ (k = ((i + 1 : Nat) : Rat) ∨ k = -((i + 1 : Nat) : Rat)))) ∨
      (n % 2 ≠ 1 ∧ ∃ i : Nat, i < n / 2 ∧ (k = (i : Rat) + 1 / 2 ∨ k = -(i : Rat) - 1 / 2)) := by
  unfold adjScanOrder
  split
  · rename_i h
    simp only [h, true_and, ne_eq, not_true_eq_false, false_and, or_false, List.mem_cons, List.mem_flatMap, List.mem_range,
      List.not_mem_nil]
  · rename_i h
    simp only [h, false_and, false_or, ne_eq, not_false_eq_true, true_and, List.mem_flatMap, List.mem_range, List.mem_cons,
      List.not_mem_nil, or_false]

/-- **symmetric about the nominal path**: with every offset its opposite occurs -/
theorem adjOrder_symmetric (n : Nat) (k : Rat) (h : k ∈ adjScanOrder n) : -k ∈ adjScanOrder n := by
  rw [adjOrder_mem] at h ⊢
  rcases h with ⟨ho, h⟩ | ⟨he, i, hi, h⟩
  · left; refine ⟨ho, ?_⟩
    rcases h with rfl | ⟨i, hi, h⟩
    · left; simp
    · right; refine ⟨i, hi, ?_⟩
      rcases h with rfl | rfl
      · right; rfl
      · left; simp
  · right; refine ⟨he, i, hi, ?_⟩
    rcases h with rfl | rfl
    · right; ring
    · left; ring

/-- **spaced by the configured shift**: the offsets are exactly the `n` values `j - (n-1)/2`, `j = 0 … n-1`
(an arithmetic progression of step one pass, centred on 0) -/
theorem adjOrder_values (n : Nat) (k : Rat) :
    k ∈ adjScanOrder n ↔ ∃ j : Nat, j < n ∧ k = (j : Rat) - ((n : Rat) - 1) / 2 := by
  rw [adjOrder_mem]
  constructor
  · rintro (⟨ho, h⟩ | ⟨he, i, hi, h⟩)
    · -- n = 2m+1
      obtain ⟨m, rfl⟩ : ∃ m, n = 2 * m + 1 := ⟨n / 2, by omega⟩
      have hm : (2 * m + 1) / 2 = m := by omega
      rw [hm] at h
      rcases h with rfl | ⟨i, hi, rfl | rfl⟩
      · exact ⟨m, by omega, by push_cast; ring⟩
      · exact ⟨m + (i + 1), by omega, by push_cast; ring⟩
      · exact ⟨m - (i + 1), by omega, by
          have : i + 1 ≤ m := by omega
          push_cast [Nat.cast_sub this]; ring⟩
    · obtain ⟨m, rfl⟩ : ∃ m, n = 2 * m := ⟨n / 2, by omega⟩
      have hm : (2 * m) / 2 = m := by omega
      rw [hm] at hi
      rcases h with rfl | rfl
      · exact ⟨m + i, by omega, by push_cast; ring⟩
      · exact ⟨m - (i + 1), by omega, by
          have : i + 1 ≤ m := by omega
          push_cast [Nat.cast_sub this]; ring⟩
  · rintro ⟨j, hj, rfl⟩
    by_cases ho : n % 2 = 1
    · left; refine ⟨ho, ?_⟩
      obtain ⟨m, rfl⟩ : ∃ m, n = 2 * m + 1 := ⟨n / 2, by omega⟩
      have hm : (2 * m + 1) / 2 = m := by omega
      rw [hm]
      rcases Nat.lt_trichotomy j m with hlt | rfl | hgt
      · right; refine ⟨m - j - 1, by omega, Or.inr ?_⟩
        have : j + 1 ≤ m := by omega
        have e : m - j - 1 + 1 = m - j := by omega
        rw [e]; push_cast [Nat.cast_sub (by omega : j ≤ m)]; ring
      · left; push_cast; ring
      · right; refine ⟨j - m - 1, by omega, Or.inl ?_⟩
        have e : j - m - 1 + 1 = j - m := by omega
        rw [e]; push_cast [Nat.cast_sub (by omega : m ≤ j)]; ring
    · right; refine ⟨ho, ?_⟩
      obtain ⟨m, rfl⟩ : ∃ m, n = 2 * m := ⟨n / 2, by omega⟩
      have hm : (2 * m) / 2 = m := by omega
      rw [hm]
      by_cases hlt : j < m
      · refine ⟨m - j - 1, by omega, Or.inr ?_⟩
        have : j + 1 ≤ m := by omega
        push_cast [Nat.cast_sub (by omega : j ≤ m), Nat.cast_sub (by omega : 1 ≤ m - j)]; ring
      · refine ⟨j - m, by omega, Or.inl ?_⟩
        push_cast [Nat.cast_sub (by omega : m ≤ j)]; ring

/-- **ordered outward from the centre**: the distances from the nominal path never decrease along the order -/
theorem adjOrder_outward (n : Nat) : ((adjScanOrder n).map fun k => |k|).IsChain (· ≤ ·) := by
  have key : ∀ (m : Nat) (f : Nat → Rat), (∀ i, f i ≤ f (i + 1)) →
      ((List.range m).flatMap fun i => [f i, f i]).IsChain (· ≤ ·) := by
    intro m f hf
    induction m with
    | zero => simp
    | succ m ih =>
      rw [List.range_succ, List.flatMap_append]
      simp only [List.flatMap_cons, List.flatMap_nil, List.append_nil]
      rw [List.isChain_append]
      refine ⟨ih, by simp, ?_⟩
      intro a ha b hb
      simp at hb
      -- a is the last element of the previous block: f i for some i < m
      have : a ∈ (List.range m).flatMap fun i => [f i, f i] := List.mem_of_mem_getLast? ha
      simp only [List.mem_flatMap, List.mem_range, List.mem_cons, List.not_mem_nil, or_false, or_self] at this
      obtain ⟨i, hi, rfl⟩ := this
      have mono : ∀ d, f i ≤ f (i + d) := by
        intro d; induction d with
        | zero => simp
        | succ d ihd => exact le_trans ihd (by rw [← Nat.add_assoc]; exact hf _)
      have := mono (m - i)
      rw [show i + (m - i) = m by omega] at this
      rw [← hb]; exact this
  unfold adjScanOrder
  split
  · simp only [List.map_cons, abs_zero, List.map_flatMap, List.map_cons, List.map_nil, abs_neg]
    have := key (n / 2) (fun i => |((i + 1 : Nat) : Rat)|) (by
      intro i; rw [abs_of_nonneg (by positivity), abs_of_nonneg (by positivity)]; push_cast; linarith)
    cases hl : ((List.range (n / 2)).flatMap fun i => [|((i + 1 : Nat) : Rat)|, |((i + 1 : Nat) : Rat)|]) with
    | nil => simp
    | cons a t =>
      rw [hl] at this
      rw [List.isChain_cons_cons]
      refine ⟨?_, this⟩
      have : a ∈ ((List.range (n / 2)).flatMap fun i => [|((i + 1 : Nat) : Rat)|, |((i + 1 : Nat) : Rat)|]) := by rw [hl]; simp
      simp only [List.mem_flatMap, List.mem_cons, List.not_mem_nil, or_false, or_self] at this
      obtain ⟨i, _, rfl⟩ := this
      positivity
  · simp only [List.map_flatMap, List.map_cons, List.map_nil]
    have e : ∀ i : Nat, |-(i : Rat) - 1 / 2| = |(i : Rat) + 1 / 2| := by
      intro i; rw [show -(i : Rat) - 1 / 2 = -((i : Rat) + 1 / 2) by ring, abs_neg]
    simp only [e]
    exact key (n / 2) (fun i => |(i : Rat) + 1 / 2|) (by
      intro i; rw [abs_of_nonneg (by positivity), abs_of_nonneg (by positivity)]; push_cast; linarith)

/-- the first pass is the one closest to the nominal path -/
theorem adjOrder_head (n : Nat) (hn : 0 < n) :
    (adjScanOrder n).head? = some (if n % 2 = 1 then 0 else 1 / 2) := by
  unfold adjScanOrder
  split
  · simp
  · rename_i h
    obtain ⟨m, rfl⟩ : ∃ m, n = 2 * (m + 1) := ⟨n / 2 - 1, by omega⟩
    have : (2 * (m + 1)) / 2 = m + 1 := by omega
    rw [this, List.range_succ_eq_map]
    simp

/-! ### shifted copies -/

/-- feed and shutter are untouched by the adjacent-pass shift, the coordinates move by `k·(dx, dy, dz)` -/
theorem shiftPts_spec (m : List Pt) (k dx dy dz : Rat) :
    (shiftPts m k dx dy dz).map (fun p => (p.f, p.s)) = m.map (fun p => (p.f, p.s)) ∧
    (shiftPts m k dx dy dz).map (fun p => (p.x, p.y, p.z)) = m.map (fun p => (p.x + k * dx, p.y + k * dy, p.z + k * dz)) := by
  simp [shiftPts, List.map_map, Function.comp_def]

/-- the Nasu program contains exactly one `write` per adjacent pass of every waveguide, in `adj_scan_order`, then `go_init` -/
theorem nasuOps_count (ws : List Nasu) : (nasuOps ws).length = (ws.map (·.adjScan)).sum + 1 := by
  simp only [nasuOps, List.length_append, List.length_flatMap, List.length_map, adjOrder_length, List.length_cons,
    List.length_nil]

/-! ### the programs the writers emit are sessions of the compiler model -/

/-- everything proved about sessions (balance C03, dwell accounting C12) applies to the three writer files: here the
loop structure of the waveguide file — one REPEAT per bunch, nothing else at top level of the operations — is read
back by the reference controller's parser from the flattened text -/
theorem wg_file_structure (cfg : Cfg) (bunches : List (List WG)) (hh : headerClean cfg.header = true) :
    structure? (flattenStmts (session cfg (wgOps bunches)).1) = some (session cfg (wgOps bunches)).1 :=
  structure?_flattenStmts _ (session_ok cfg _ hh).1

/-- a bunch whose scan count is positive and whose paths are accepted compiles to exactly one `REPEAT scan` statement
(followed by the blank line) whose body is the concatenation of the members' `write` outputs, in order -/
theorem wg_bunch_compiles (cfg : Cfg) (b : List WG) (w : WG) (rest : List WG) (cs : CS) (hb : b = w :: rest)
    (hs : 0 < w.scan) :
    ∃ body, (execOp cfg (Op.rep w.scan (b.map fun w => Op.write w.pts)) cs).out = [Stmt.rep w.scan.toNat body, Stmt.atom .blank] ∧
      body = (execOps cfg (b.map fun w => Op.write w.pts) cs).out := by
  refine ⟨_, ?_, rfl⟩
  simp only [execOp]
  rw [if_neg (by omega)]


/-! ### the machine's moves: every structure written its number of scans times -/

/-- statement lists without loops -/
def atomsOnly (ss : List Stmt) : Prop := ∀ s ∈ ss, ∃ i, s = Stmt.atom i

theorem atomsOnly_emit (is : List Instr) : atomsOnly (emit is) := by
  intro s hs; simp only [emit, List.mem_map] at hs; obtain ⟨i, _, rfl⟩ := hs; exact ⟨i, rfl⟩

theorem atomsOnly_append {a b : List Stmt} (ha : atomsOnly a) (hb : atomsOnly b) : atomsOnly (a ++ b) := by
  intro s hs; rcases List.mem_append.mp hs with h | h
  · exact ha s h
  · exact hb s h

theorem atomsOnly_nil : atomsOnly [] := by intro s hs; simp at hs

/-- a loop-free statement list is interpreted like its flat instruction list -/
theorem execStmts_atoms (ss : List Stmt) (h : atomsOnly ss) (σ : St) :
    execStmts ss σ = execFlat (flattenStmts ss) σ := by
  induction ss generalizing σ with
  | nil => simp [execStmts, flattenStmts, execFlat]
  | cons s ss ih =>
    obtain ⟨i, rfl⟩ := h s (by simp)
    rw [execStmts, ih (fun t ht => h t (by simp [ht]))]
    simp [flattenStmts, flattenStmt, execFlat, execStmt]

theorem dwell_atoms (p : Option Rat) (cs : CS) : atomsOnly (dwell p cs).1 := by
  unfold dwell
  cases p with
  | none => exact atomsOnly_nil
  | some t => by_cases h : t = 0 <;> simp [h, atomsOnly_nil, atomsOnly_emit]

theorem shutter_atoms (cfg : Cfg) (on : Bool) (cs : CS) : atomsOnly (shutter cfg on cs).1 := by
  unfold shutter
  split
  · exact atomsOnly_emit _
  · split
    · exact atomsOnly_emit _
    · exact atomsOnly_nil

theorem toggle_atoms (cfg : Cfg) (on : Bool) (cs : CS) : atomsOnly (toggle cfg on cs).1 := by
  unfold toggle
  simp only [seq]
  exact atomsOnly_append (atomsOnly_append (atomsOnly_append (atomsOnly_emit _) (dwell_atoms _ _)) (shutter_atoms _ _ _))
    (atomsOnly_append (dwell_atoms _ _) (atomsOnly_emit _))

theorem writeLoop_atoms (cfg : Cfg) (ws : List (G1W × Rat)) : ∀ prev cs, atomsOnly (writeLoop cfg prev ws cs).1 := by
  induction ws with
  | nil => intro _ _; exact atomsOnly_nil
  | cons hd rest ih =>
    obtain ⟨w, s⟩ := hd
    intro prev cs
    simp only [writeLoop]
    refine atomsOnly_append (atomsOnly_append ?_ ?_) (ih _ _)
    · unfold toggleStep; split
      · exact toggle_atoms _ _ _
      · split
        · exact toggle_atoms _ _ _
        · exact atomsOnly_nil
    · unfold maybeG1; split
      · exact atomsOnly_emit _
      · exact atomsOnly_nil

/-- what `write` emits contains no loop -/
theorem write_atoms (cfg : Cfg) (m : List Pt) (cs : CS) (o : Out) (hw : write cfg m cs = .ok o) : atomsOnly o.1 := by
  unfold write at hw
  cases hm : m.mapM (formatPt cfg) with
  | error e => rw [hm] at hw; simp [Except.map] at hw
  | ok ws =>
    rw [hm] at hw; simp only [Except.map] at hw
    injection hw with hw; subst hw
    simp only [seq]
    exact atomsOnly_append (atomsOnly_append (writeLoop_atoms _ _ _ _) (dwell_atoms _ _)) (atomsOnly_emit _)


/-- the paths of a group are *closed*: a non-empty matrix ends with the shutter marked closed -/
def endsClosed (m : List Pt) : Prop := ∀ p, m.getLast? = some p → p.s = 0

/-- **one pass**: the writes of a group, compiled one after the other from a closed-shutter state, are loop-free, succeed, leave
the compiler's belief closed, and — interpreted from any controller state in absolute mode with the shutter closed — perform
`passFrom`: every member replayed point for point, in order, each from where the previous one ended -/
theorem writes_pass (cfg : Cfg) (ms : List (List Pt)) (wss : List (List (G1W × Rat)))
    (hp : List.Forall₂ (fun m ws => printed cfg m = .ok ws) ms wss)
    (hs : ∀ m ∈ ms, ∀ p ∈ m, p.s = 0 ∨ p.s = 1) (hc : ∀ m ∈ ms, endsClosed m) :
    ∀ (cs : CS) (σ : St), cs.shutterOn = false → σ.absMode = true → σ.shutter = false →
      let r := execOps cfg (ms.map Op.write) cs
      r.err = none ∧ r.pre = [] ∧ atomsOnly r.out ∧ r.cs.shutterOn = false ∧
        movesOf (execFlat (flattenStmts r.out) σ).2 = passFrom σ.pos wss ∧
        (execFlat (flattenStmts r.out) σ).1.pos = passEnd σ.pos wss ∧
        (execFlat (flattenStmts r.out) σ).1.absMode = true ∧ (execFlat (flattenStmts r.out) σ).1.shutter = false := by
  induction hp with
  | nil =>
    intro cs σ hcs habs hsh
    simp [execOps, atomsOnly_nil, flattenStmts, execFlat, movesOf, passFrom, passEnd, hcs, habs, hsh]
  | @cons m ws ms wss hmw _ ih =>
    intro cs σ hcs habs hsh
    have hw : ∃ o, write cfg m cs = .ok o := by
      unfold printed at hmw; unfold write; rw [hmw]; exact ⟨_, rfl⟩
    obtain ⟨o, hw⟩ := hw
    have hsm := hs m (by simp)
    obtain ⟨w1, w2⟩ := Femto.C01.write_replays cfg m cs o σ ws hw hmw hsm habs (by rw [hsh, hcs])
    obtain ⟨f1, f2⟩ := Femto.C01.write_final_state cfg m cs o σ ws hw hmw hsm habs (by rw [hsh, hcs])
    have f3 : o.2.shutterOn = false := by
      rw [Femto.C01.write_final_shutter cfg m cs o hw hsm]
      cases hl : m.getLast? with
      | none => exact hcs
      | some p => have := hc m (by simp) p hl; simp [this]
    obtain ⟨i1, i2, i3, i4, i5, i6, i7, i8⟩ := ih (fun m' hm' => hs m' (by simp [hm'])) (fun m' hm' => hc m' (by simp [hm']))
      o.2 (execFlat (flattenStmts o.1) σ).1 f3 f2 (by rw [w2, f3])
    simp only [List.map_cons, execOps, execOp, hw, Res.ofOut]
    rw [i1]
    refine ⟨rfl, by simp [i2], atomsOnly_append (write_atoms cfg m cs o hw) i3, i4, ?_, ?_, ?_, ?_⟩
    · simp only [flattenStmts_append, execFlat_append, movesOf_append, w1, i5, f1, passFrom]
    · simp only [flattenStmts_append, execFlat_append, i6, f1, passEnd]
    · simp only [flattenStmts_append, execFlat_append, i7]
    · simp only [flattenStmts_append, execFlat_append, i8]


/-- the behaviour `writes_pass` establishes for one compiled pass, as a predicate on a statement list -/
def IsPass (body : List Stmt) (wss : List (List (G1W × Rat))) : Prop :=
  ∀ σ : St, σ.absMode = true → σ.shutter = false →
    movesOf (execStmts body σ).2 = passFrom σ.pos wss ∧ (execStmts body σ).1.pos = passEnd σ.pos wss ∧
      (execStmts body σ).1.absMode = true ∧ (execStmts body σ).1.shutter = false

/-- **`REPEAT n` performs the pass `n` times**: the moves of `n` turns are `scansFrom` — `n` copies of the pass, each starting
where the previous one ended (so the first turn starts from wherever the machine was, the others from the end of the path) -/
theorem execRep_scans (body : List Stmt) (wss : List (List (G1W × Rat))) (hb : IsPass body wss) (n : Nat) :
    ∀ σ : St, σ.absMode = true → σ.shutter = false →
      movesOf (execRep n body σ).2 = scansFrom σ.pos wss n ∧ (execRep n body σ).1.pos = scansEnd σ.pos wss n ∧
        (execRep n body σ).1.absMode = true ∧ (execRep n body σ).1.shutter = false := by
  induction n with
  | zero => intro σ habs hsh; simp [execRep, movesOf, scansFrom, scansEnd, habs, hsh]
  | succ k ih =>
    intro σ habs hsh
    obtain ⟨b1, b2, b3, b4⟩ := hb σ habs hsh
    obtain ⟨r1, r2, r3, r4⟩ := ih (execStmts body σ).1 b3 b4
    rw [execRep]
    simp only [movesOf_append, b1, r1, b2, r2, r3, r4, scansFrom, scansEnd, and_self]

/-- **C08, a group of waveguides.** `with G.repeat(n): for wg in group: G.write(wg.points)` for closed paths that `write`
accepts and `n ≥ 1`, compiled from a closed-shutter state: no error, exactly one `REPEAT n` statement, and the reference
controller — from any state in absolute mode with the shutter closed — performs `scansFrom`: the whole group, member by member
and point for point, exactly `n` times. -/
theorem group_scans_replayed (cfg : Cfg) (ms : List (List Pt)) (wss : List (List (G1W × Rat))) (n : Int) (hn : 0 < n)
    (hp : List.Forall₂ (fun m ws => printed cfg m = .ok ws) ms wss)
    (hs : ∀ m ∈ ms, ∀ p ∈ m, p.s = 0 ∨ p.s = 1) (hc : ∀ m ∈ ms, endsClosed m)
    (cs : CS) (σ : St) (hcs : cs.shutterOn = false) (habs : σ.absMode = true) (hsh : σ.shutter = false) :
    let r := execOp cfg (Op.rep n (ms.map Op.write)) cs
    r.err = none ∧ r.pre = [] ∧ r.cs.shutterOn = false ∧ (∃ body, r.out = [Stmt.rep n.toNat body, Stmt.atom .blank]) ∧
      movesOf (execStmts r.out σ).2 = scansFrom σ.pos wss n.toNat ∧ (execStmts r.out σ).1.pos = scansEnd σ.pos wss n.toNat ∧
      (execStmts r.out σ).1.absMode = true ∧ (execStmts r.out σ).1.shutter = false := by
  have hpass : IsPass (execOps cfg (ms.map Op.write) cs).out wss := by
    intro σ' habs' hsh'
    obtain ⟨_, _, a3, _, a5, a6, a7, a8⟩ := writes_pass cfg ms wss hp hs hc cs σ' hcs habs' hsh'
    rw [execStmts_atoms _ a3]
    exact ⟨a5, a6, a7, a8⟩
  obtain ⟨a1, a2, _, a4, _⟩ := writes_pass cfg ms wss hp hs hc cs σ hcs habs hsh
  obtain ⟨s1, s2, s3, s4⟩ := execRep_scans _ wss hpass n.toNat σ habs hsh
  simp only [execOp]
  rw [if_neg (by omega)]
  refine ⟨a1, a2, a4, ⟨_, rfl⟩, ?_, ?_, ?_, ?_⟩
  · have e : movesOf ([] : List Ev) = [] := rfl
    simp only [execStmts, execStmt, step, movesOf_append, s1, e, List.append_nil]
  · simp [execStmts, execStmt, step, s2]
  · simp [execStmts, execStmt, step, s3]
  · simp [execStmts, execStmt, step, s4]


theorem execStmts_append (a b : List Stmt) (σ : St) :
    execStmts (a ++ b) σ = ((execStmts b (execStmts a σ).1).1, (execStmts a σ).2 ++ (execStmts b (execStmts a σ).1).2) := by
  induction a generalizing σ with
  | nil => simp [execStmts]
  | cons s a ih => simp only [List.cons_append, execStmts, ih, List.append_assoc]

/-- the operations of `WaveguideWriter.pgm` before the final `go_init`: one `repeat` block per group -/
def bunchOps (bunches : List (List WG)) : List Op :=
  bunches.map fun b => Op.rep (match b with | w :: _ => w.scan | [] => 0) (b.map fun w => Op.write w.pts)

theorem wgOps_eq (bunches : List (List WG)) : wgOps bunches = bunchOps bunches ++ [Op.goInit] := rfl

/-- a group the writer can compile, with its printed matrices and its scan count: non-empty, scan count of the first
member `n ≥ 1`, every member accepted by `write`, shutter marks 0 / 1, paths closed -/
def GroupOK (cfg : Cfg) (b : List WG) (g : List (List (G1W × Rat)) × Nat) : Prop :=
  (∃ w rest, b = w :: rest ∧ w.scan = (g.2 : Int) ∧ 0 < g.2) ∧
    List.Forall₂ (fun m ws => printed cfg m = .ok ws) (b.map (·.pts)) g.1 ∧
    (∀ m ∈ b.map (·.pts), ∀ p ∈ m, p.s = 0 ∨ p.s = 1) ∧ (∀ m ∈ b.map (·.pts), endsClosed m)

/-- **C08, the waveguide file.** The operations of `WaveguideWriter.pgm` for any list of compilable groups: the reference
controller performs `groupsFrom` — group after group, each written exactly its number of scans times, every scan replaying
every member point for point; nothing else moves the machine. -/
theorem wg_groups_replayed (cfg : Cfg) (bunches : List (List WG)) (specs : List (List (List (G1W × Rat)) × Nat))
    (h : List.Forall₂ (GroupOK cfg) bunches specs) :
    ∀ (cs : CS) (σ : St), cs.shutterOn = false → σ.absMode = true → σ.shutter = false →
      let r := execOps cfg (bunchOps bunches) cs
      r.err = none ∧ r.pre = [] ∧ r.cs.shutterOn = false ∧ movesOf (execStmts r.out σ).2 = groupsFrom σ.pos specs ∧
        (execStmts r.out σ).1.absMode = true ∧ (execStmts r.out σ).1.shutter = false := by
  induction h with
  | nil =>
    intro cs σ hcs habs hsh
    simp [bunchOps, execOps, execStmts, movesOf, groupsFrom, hcs, habs, hsh]
  | @cons b g bunches specs hg _ ih =>
    intro cs σ hcs habs hsh
    obtain ⟨⟨w, rest, hb, hscan, hpos⟩, hp, hs, hc⟩ := hg
    have hmap : (b.map fun w => Op.write w.pts) = (b.map (·.pts)).map Op.write := by simp [List.map_map]
    have hn : (0 : Int) < w.scan := by rw [hscan]; exact_mod_cast hpos
    obtain ⟨g1, g2, g3, _, g5, g6, g7, g8⟩ := group_scans_replayed cfg (b.map (·.pts)) g.1 w.scan hn hp hs hc cs σ hcs habs hsh
    have hop : (match b with | w :: _ => w.scan | [] => 0) = w.scan := by rw [hb]
    obtain ⟨i1, i2, i3, i4, i5, i6⟩ := ih (execOp cfg (Op.rep w.scan ((b.map (·.pts)).map Op.write)) cs).cs
      (execStmts (execOp cfg (Op.rep w.scan ((b.map (·.pts)).map Op.write)) cs).out σ).1 g3 g7 g8
    simp only [bunchOps, List.map_cons, execOps, hop, hmap, g1]
    simp only [bunchOps] at i1 i2 i3 i4 i5 i6
    rw [i1]
    refine ⟨rfl, by rw [i2, g2]; rfl, i3, ?_, ?_, ?_⟩
    · obtain ⟨wss, n⟩ := g
      have hn' : w.scan.toNat = n := by simp at hscan; omega
      simp only [execStmts_append, movesOf_append, g5, i4, g6, groupsFrom, hn']
    · simp only [execStmts_append, i5]
    · simp only [execStmts_append, i6]

/-- **C08, Nasu waveguides.** One Nasu waveguide with `adj_scan = n`: the writer compiles `n` writes (`adjOrder_length`), the
`k`-th being the path shifted by `adjScanOrder n [k]` times the shift vector (`shiftPts_spec`: feed and shutter untouched), and
the controller replays each of them point for point, in that order, each pass starting where the previous one ended. -/
theorem nasu_passes_replayed (cfg : Cfg) (w : Nasu) (wss : List (List (G1W × Rat)))
    (hp : List.Forall₂ (fun m ws => printed cfg m = .ok ws)
      ((adjScanOrder w.adjScan).map fun k => shiftPts w.pts k w.dx w.dy w.dz) wss)
    (hs : ∀ p ∈ w.pts, p.s = 0 ∨ p.s = 1) (hc : endsClosed w.pts)
    (cs : CS) (σ : St) (hcs : cs.shutterOn = false) (habs : σ.absMode = true) (hsh : σ.shutter = false) :
    let r := execOps cfg ((adjScanOrder w.adjScan).map fun k => Op.write (shiftPts w.pts k w.dx w.dy w.dz)) cs
    wss.length = w.adjScan ∧ r.err = none ∧ r.cs.shutterOn = false ∧
      movesOf (execStmts r.out σ).2 = passFrom σ.pos wss ∧ (execStmts r.out σ).1.shutter = false := by
  have hmap : ((adjScanOrder w.adjScan).map fun k => Op.write (shiftPts w.pts k w.dx w.dy w.dz)) =
      ((adjScanOrder w.adjScan).map fun k => shiftPts w.pts k w.dx w.dy w.dz).map Op.write := by simp [List.map_map]
  have hs' : ∀ m ∈ (adjScanOrder w.adjScan).map (fun k => shiftPts w.pts k w.dx w.dy w.dz), ∀ p ∈ m, p.s = 0 ∨ p.s = 1 := by
    intro m hm p hp'
    obtain ⟨k, _, rfl⟩ := List.mem_map.mp hm
    simp only [shiftPts, List.mem_map] at hp'
    obtain ⟨q, hq, rfl⟩ := hp'
    exact hs q hq
  have hc' : ∀ m ∈ (adjScanOrder w.adjScan).map (fun k => shiftPts w.pts k w.dx w.dy w.dz), endsClosed m := by
    intro m hm p hp'
    obtain ⟨k, _, rfl⟩ := List.mem_map.mp hm
    simp only [shiftPts, List.getLast?_map, Option.map_eq_some_iff] at hp'
    obtain ⟨q, hq, rfl⟩ := hp'
    exact hc q hq
  obtain ⟨a1, _, a3, a4, a5, _, _, a8⟩ := writes_pass cfg _ wss hp hs' hc' cs σ hcs habs hsh
  refine ⟨?_, ?_, ?_, ?_, ?_⟩
  · rw [← hp.length_eq, List.length_map]; exact adjOrder_length _
  · rw [hmap]; exact a1
  · rw [hmap]; exact a4
  · rw [hmap, execStmts_atoms _ a3]; exact a5
  · rw [hmap, execStmts_atoms _ a3]; exact a8


theorem comment_quiet (b : Bool) (cs : CS) :
    (∀ i ∈ flattenStmts (comment b cs).1, quiet i = true) ∧ atomsOnly (comment b cs).1 ∧ (comment b cs).2 = cs := by
  unfold comment
  cases b <;> simp [flattenStmts_emit, quiet, atomsOnly_emit]

/-- **C08, a marker.** `with G.repeat(n): G.comment(..); G.write(mk.points); G.comment('')` for a closed figure that `write`
accepts and `n ≥ 1`: the controller performs the figure, point for point, exactly `n` times -/
theorem mk_scans_replayed (cfg : Cfg) (m : List Pt) (ws : List (G1W × Rat)) (n : Int) (hn : 0 < n)
    (hp : printed cfg m = .ok ws) (hs : ∀ p ∈ m, p.s = 0 ∨ p.s = 1) (hc : endsClosed m)
    (cs : CS) (σ : St) (hcs : cs.shutterOn = false) (habs : σ.absMode = true) (hsh : σ.shutter = false) :
    let r := execOp cfg (Op.rep n [Op.comment true, Op.write m, Op.comment false]) cs
    r.err = none ∧ r.cs.shutterOn = false ∧
      movesOf (execStmts r.out σ).2 = scansFrom σ.pos [ws] n.toNat ∧ (execStmts r.out σ).1.pos = scansEnd σ.pos [ws] n.toNat ∧
      (execStmts r.out σ).1.absMode = true ∧ (execStmts r.out σ).1.shutter = false := by
  have hw : ∃ o, write cfg m cs = .ok o := by
    unfold printed at hp; unfold write; rw [hp]; exact ⟨_, rfl⟩
  obtain ⟨o, hw⟩ := hw
  obtain ⟨qa, aa, ea⟩ := comment_quiet true cs
  obtain ⟨qb, ab, eb⟩ := comment_quiet false o.2
  have f3 : o.2.shutterOn = false := by
    rw [Femto.C01.write_final_shutter cfg m cs o hw hs]
    cases hl : m.getLast? with
    | none => exact hcs
    | some p => have := hc p hl; simp [this]
  have hbody : execOps cfg [Op.comment true, Op.write m, Op.comment false] cs =
      { out := (comment true cs).1 ++ (o.1 ++ (comment false o.2).1), pre := [], cs := o.2, err := none } := by
    simp [execOps, execOp, Res.ofOut, ea, hw, eb]
  have hat : atomsOnly ((comment true cs).1 ++ (o.1 ++ (comment false o.2).1)) :=
    atomsOnly_append aa (atomsOnly_append (write_atoms cfg m cs o hw) ab)
  have hpass : IsPass ((comment true cs).1 ++ (o.1 ++ (comment false o.2).1)) [ws] := by
    intro σ' habs' hsh'
    rw [execStmts_atoms _ hat]
    simp only [flattenStmts_append, execFlat_append, movesOf_append]
    obtain ⟨a1, a2, a3, a4⟩ := execFlat_quiet _ qa σ'
    set σ1 := (execFlat (flattenStmts (comment true cs).1) σ').1
    obtain ⟨w1, w2⟩ := Femto.C01.write_replays cfg m cs o σ1 ws hw hp hs (by rw [a2, habs']) (by rw [a3, hsh', hcs])
    obtain ⟨g1, g2⟩ := Femto.C01.write_final_state cfg m cs o σ1 ws hw hp hs (by rw [a2, habs']) (by rw [a3, hsh', hcs])
    obtain ⟨b1, b2, b3, b4⟩ := execFlat_quiet _ qb (execFlat (flattenStmts o.1) σ1).1
    refine ⟨?_, ?_, ?_, ?_⟩
    · rw [a4, w1, b4, a1]; simp [passFrom]
    · rw [b1, g1, a1]; simp [passEnd]
    · rw [b2, g2]
    · rw [b3, w2, f3]
  obtain ⟨s1, s2, s3, s4⟩ := execRep_scans _ [ws] hpass n.toNat σ habs hsh
  simp only [execOp]
  rw [if_neg (by omega), hbody]
  have e : movesOf ([] : List Ev) = [] := rfl
  refine ⟨rfl, f3, ?_, ?_, ?_, ?_⟩
  · simp only [execStmts, execStmt, step, movesOf_append, s1, e, List.append_nil]
  · simp [execStmts, execStmt, step, s2]
  · simp [execStmts, execStmt, step, s3]
  · simp [execStmts, execStmt, step, s4]

/-! ### what the builders hand to the writers -/

/-- one straight segment of a builder chain: target / increment (entries may be `None`), mode, shutter 0 / 1, optional speed -/
structure Seg where
  dx : Option Rat
  dy : Option Rat
  dz : Option Rat
  abs : Bool
  opened : Bool
  speed : Option Rat

def runSegs (a : Attrs) : List Seg → Traj → Except PErr Traj
  | [], t => .ok t
  | s :: ss, t => match linear a s.dx s.dy s.dz s.abs (if s.opened then 1 else 0) s.speed t with
    | .ok t' => runSegs a ss t'
    | .error e => .error e

/-- `start(p); linear(…) …; end()` on a fresh path -/
def build (a : Attrs) (x y z : Rat) (sp : Option Rat) (segs : List Seg) : Except PErr Traj :=
  match start a x y z sp [] with
  | .ok t => match runSegs a segs t with
    | .ok t' => finish a t'
    | .error e => .error e
  | .error e => .error e

/-- the rows as the compiler model takes them -/
def toPt (r : Row Rat) : Pt := ⟨r.x, r.y, r.z, r.f, r.s⟩

theorem uf_head? {α : Type} [DecidableEq α] (l : List α) : (uniqueFilter l).head? = l.head? := by
  cases l with
  | nil => rfl
  | cons x xs => simp [uniqueFilter, diffMask, applyMask]

/-- invariant of a chain: non-empty, first row closed, marks 0 / 1 -/
def ChainOK (t : Traj) : Prop := (∃ h rest, t = h :: rest ∧ h.s = 0) ∧ ∀ r ∈ t, r.s = 0 ∨ r.s = 1

theorem linear_chainOK (a : Attrs) (s : Seg) (t t' : Traj) (h : ChainOK t)
    (hl : linear a s.dx s.dy s.dz s.abs (if s.opened then 1 else 0) s.speed t = .ok t') : ChainOK t' := by
  unfold linear at hl
  cases hg : t.getLast? with
  | none => rw [hg] at hl; cases hl
  | some l =>
    rw [hg] at hl
    simp only at hl
    injection hl with hl
    subst hl
    obtain ⟨⟨h0, rest, rfl, hs0⟩, hm⟩ := h
    refine ⟨⟨h0, rest ++ [_], List.cons_append, hs0⟩, ?_⟩
    intro r hr
    rcases List.mem_append.mp hr with hr | hr
    · exact hm r hr
    · simp only [List.mem_singleton] at hr
      subst hr
      cases s.opened <;> simp

theorem runSegs_chainOK (a : Attrs) (segs : List Seg) : ∀ t t', ChainOK t → runSegs a segs t = .ok t' → ChainOK t' := by
  induction segs with
  | nil => intro t t' h hr; simp only [runSegs] at hr; injection hr with hr; subst hr; exact h
  | cons s ss ih =>
    intro t t' h hr
    simp only [runSegs] at hr
    cases hl : linear a s.dx s.dy s.dz s.abs (if s.opened then 1 else 0) s.speed t with
    | error e => rw [hl] at hr; cases hr
    | ok t1 => rw [hl] at hr; exact ih t1 t' (linear_chainOK a s t t1 h hl) hr

/-- **what the builders hand to the writers.** Every path built by `start`, any number of straight segments (absolute or
incremental, entries left out, shutter open or closed, any speeds) and `end` reports a point matrix that is non-empty, starts
with the shutter closed, carries only the marks 0 / 1 and ends with the shutter closed — the hypotheses of `write_replays`
(C01: marks; first point reached closed) and of `group_scans_replayed` / `wg_file_replayed` (`endsClosed`). -/
theorem built_closed (a : Attrs) (x y z : Rat) (sp : Option Rat) (segs : List Seg) (t : Traj)
    (hb : build a x y z sp segs = .ok t) :
    let m := (points t).map toPt
    m ≠ [] ∧ (∀ p ∈ m, p.s = 0 ∨ p.s = 1) ∧ (∃ p, m.head? = some p ∧ p.s = 0) ∧ (∃ p, m.getLast? = some p ∧ p.s = 0) := by
  unfold build at hb
  have hs : start a x y z sp [] = .ok [⟨x, y, z, sp.getD a.speedPos, 0⟩, ⟨x, y, z, sp.getD a.speedPos, 1⟩] := by simp [start]
  rw [hs] at hb
  simp only at hb
  cases hr : runSegs a segs [⟨x, y, z, sp.getD a.speedPos, 0⟩, ⟨x, y, z, sp.getD a.speedPos, 1⟩] with
  | error e => rw [hr] at hb; cases hb
  | ok t1 =>
    rw [hr] at hb
    simp only at hb
    have h0 : ChainOK [⟨x, y, z, sp.getD a.speedPos, 0⟩, (⟨x, y, z, sp.getD a.speedPos, 1⟩ : Row Rat)] :=
      ⟨⟨_, _, rfl, rfl⟩, by intro r hr; simp at hr; rcases hr with rfl | rfl <;> simp⟩
    obtain ⟨⟨h, rest, rfl, hs0⟩, hm⟩ := runSegs_chainOK a segs _ t1 h0 hr
    unfold finish at hb
    cases hl : (h :: rest).getLast? with
    | none => simp at hl
    | some l =>
      rw [hl] at hb
      simp only [List.head?_cons] at hb
      injection hb with hb
      subst hb
      intro m
      have hmem : ∀ r ∈ h :: rest ++ [⟨l.x, l.y, l.z, l.f, 0⟩, (⟨h.x, h.y, h.z, a.speedClosed, 0⟩ : Row Rat)], r.s = 0 ∨ r.s = 1 := by
        intro r hr
        rcases List.mem_append.mp hr with hr | hr
        · exact hm r hr
        · simp at hr; rcases hr with rfl | rfl <;> simp
      have hhead : m.head? = some (toPt h) := by
        simp only [m, points, List.head?_map, uf_head?]; rfl
      have hlast : m.getLast? = some (toPt ⟨h.x, h.y, h.z, a.speedClosed, 0⟩) := by
        simp only [m, points, List.getLast?_map, Femto.C11.uf_getLast?]
        rw [List.getLast?_append]
        rfl
      refine ⟨?_, ?_, ⟨_, hhead, hs0⟩, ⟨_, hlast, rfl⟩⟩
      · intro he; rw [he] at hhead; simp at hhead
      · intro p hp
        simp only [m, List.mem_map] at hp
        obtain ⟨r, hr, rfl⟩ := hp
        exact hmem r ((Femto.C11.uf_sublist _).subset hr)


/-- any builder that appends rows marked 0 / 1 to a chain keeps the chain invariant (every curved primitive appends its samples
through `add_path` with the shutter value of the call) -/
theorem append_chainOK (t : Traj) (rs : List (Row Rat)) (h : ChainOK t) (hr : ∀ r ∈ rs, r.s = 0 ∨ r.s = 1) : ChainOK (t ++ rs) := by
  obtain ⟨⟨h0, rest, rfl, hs0⟩, hm⟩ := h
  refine ⟨⟨h0, rest ++ rs, by simp, hs0⟩, ?_⟩
  intro r hr'
  rcases List.mem_append.mp hr' with h1 | h1
  · exact hm r h1
  · exact hr r h1

/-- **`end()` closes whatever chain it is given**: for any trajectory that starts closed and carries marks 0 / 1 — however it
was built — the reported matrix after `end()` is non-empty, starts closed, carries marks 0 / 1 and ends closed -/
theorem finish_closed (a : Attrs) (t t' : Traj) (h : ChainOK t) (hf : finish a t = .ok t') :
    let m := (points t').map toPt
    m ≠ [] ∧ (∀ p ∈ m, p.s = 0 ∨ p.s = 1) ∧ (∃ p, m.head? = some p ∧ p.s = 0) ∧ (∃ p, m.getLast? = some p ∧ p.s = 0) := by
  obtain ⟨⟨h0, rest, rfl, hs0⟩, hm⟩ := h
  unfold finish at hf
  cases hl : (h0 :: rest).getLast? with
  | none => simp at hl
  | some l =>
    rw [hl] at hf
    simp only [List.head?_cons] at hf
    injection hf with hf
    subst hf
    intro m
    have hmem : ∀ r ∈ h0 :: rest ++ [⟨l.x, l.y, l.z, l.f, 0⟩, (⟨h0.x, h0.y, h0.z, a.speedClosed, 0⟩ : Row Rat)], r.s = 0 ∨ r.s = 1 := by
      intro r hr
      rcases List.mem_append.mp hr with hr | hr
      · exact hm r hr
      · simp at hr; rcases hr with rfl | rfl <;> simp
    have hhead : m.head? = some (toPt h0) := by
      simp only [m, points, List.head?_map, uf_head?]; rfl
    have hlast : m.getLast? = some (toPt ⟨h0.x, h0.y, h0.z, a.speedClosed, 0⟩) := by
      simp only [m, points, List.getLast?_map, Femto.C11.uf_getLast?]
      rw [List.getLast?_append]
      rfl
    refine ⟨?_, ?_, ⟨_, hhead, hs0⟩, ⟨_, hlast, rfl⟩⟩
    · intro he; rw [he] at hhead; simp at hhead
    · intro p hp
      simp only [m, List.mem_map] at hp
      obtain ⟨r, hr, rfl⟩ := hp
      exact hmem r ((Femto.C11.uf_sublist _).subset hr)

/-- the hypotheses of `group_scans_replayed` on the members of a group hold for every path the builders produce -/
theorem built_group_hyps (a : Attrs) (x y z : Rat) (sp : Option Rat) (segs : List Seg) (t : Traj)
    (hb : build a x y z sp segs = .ok t) :
    (∀ p ∈ (points t).map toPt, p.s = 0 ∨ p.s = 1) ∧ endsClosed ((points t).map toPt) := by
  obtain ⟨_, h2, _, ⟨p, h4, h5⟩⟩ := built_closed a x y z sp segs t hb
  refine ⟨h2, ?_⟩
  intro q hq
  rw [h4] at hq
  injection hq with hq
  rw [← hq]; exact h5

/-! ### the whole file -/

theorem execOps_append_ok (cfg : Cfg) (a b : List Op) (cs : CS) (h : (execOps cfg a cs).err = none) :
    execOps cfg (a ++ b) cs =
      { out := (execOps cfg a cs).out ++ (execOps cfg b (execOps cfg a cs).cs).out,
        pre := (execOps cfg b (execOps cfg a cs).cs).pre ++ (execOps cfg a cs).pre,
        cs := (execOps cfg b (execOps cfg a cs).cs).cs, err := (execOps cfg b (execOps cfg a cs).cs).err } := by
  induction a generalizing cs with
  | nil => simp [execOps]
  | cons op ops ih =>
    simp only [List.cons_append, execOps] at h ⊢
    cases he : (execOp cfg op cs).err with
    | some e => exfalso; rw [he] at h; simp only at h; rw [he] at h; cases h
    | none =>
      rw [he] at h
      simp only at h ⊢
      rw [ih _ h]
      simp [List.append_assoc]

/-- a header after which the machine has not moved, is in absolute mode and has the shutter closed -/
def headerStill (h : List Instr) : Bool :=
  let r := execFlat h {}
  r.1.absMode && !r.1.shutter && (movesOf r.2).isEmpty && decide (r.1.pos = {})

/-- the four shipped headers are such headers (re-checked on the regenerated data on every run) -/
theorem shipped_headers_still : ∀ h ∈ Femto.Gen.headers, headerStill h.2.2 = true := by decide +kernel


/-- a positioning move compiled and run with the shutter closed: loop-free, every motion closed, shutter still closed -/
theorem moveTo_run (cfg : Cfg) (x y z sp : Option Rat) (cs : CS) (σ : St) (hcs : cs.shutterOn = false) (hsh : σ.shutter = false) :
    atomsOnly (moveTo cfg x y z sp cs).1.1 ∧ (moveTo cfg x y z sp cs).1.2.shutterOn = false ∧
      (∀ m ∈ movesOf (execFlat (flattenStmts (moveTo cfg x y z sp cs).1.1) σ).2, m.shutter = false) ∧
      (execFlat (flattenStmts (moveTo cfg x y z sp cs).1.1) σ).1.shutter = false := by
  have hmc := Femto.C03.moveTo_closed cfg x y z sp cs σ (by rw [hsh, hcs])
  refine ⟨?_, ?_, hmc, ?_⟩
  all_goals
    unfold moveTo closeIfOpen
    cases formatArgs cfg.digits x y z (some (sp.getD cfg.speedPos)) with
    | error e => simp [hcs, atomsOnly_nil, flattenStmts, execFlat, hsh]
    | ok w => ?_
  · simp only [hcs, seq, Bool.false_eq_true, if_false, List.nil_append]
    exact atomsOnly_append (atomsOnly_emit _) (atomsOnly_append (dwell_atoms _ _) (atomsOnly_emit _))
  · simp only [hcs, seq, Bool.false_eq_true, if_false]
    exact ((dwell_quiet cfg.longPause cs).2).trans hcs
  · simp only [hcs, seq, Bool.false_eq_true, if_false, List.nil_append, flattenStmts_append, flattenStmts_emit, execFlat_append]
    obtain ⟨q1, _⟩ := dwell_quiet cfg.longPause cs
    rw [(execFlat_quiet [Instr.blank] (by simp [quiet]) _).2.2.1, (execFlat_quiet _ q1 _).2.2.1]
    simp [execFlat, step, hsh]


/-- the head of every session (`__enter__` without a session-wide rotation), on a still header: loop-free, no motion, machine
position still unknown, absolute mode, shutter closed on both sides -/
theorem head_run (cfg : Cfg) (hh : headerStill cfg.header = true) :
    let hd : Out := seq (seq (emit (cfg.header ++ [.blank]), ({} : CS)) (dwell (some 1))) fun cs => (emit [.blank], cs)
    atomsOnly hd.1 ∧ hd.2.shutterOn = false ∧ movesOf (execStmts hd.1 {}).2 = [] ∧ (execStmts hd.1 {}).1.pos = {} ∧
      (execStmts hd.1 {}).1.absMode = true ∧ (execStmts hd.1 {}).1.shutter = false := by
  intro hd
  have hat : atomsOnly hd.1 := by
    simp only [hd, seq]
    exact atomsOnly_append (atomsOnly_append (atomsOnly_emit _) (dwell_atoms _ _)) (atomsOnly_emit _)
  simp only [headerStill, Bool.and_eq_true, Bool.not_eq_true', List.isEmpty_iff, decide_eq_true_eq] at hh
  obtain ⟨⟨⟨h1, h2⟩, h3⟩, h4⟩ := hh
  obtain ⟨q1, s1⟩ := dwell_quiet (some 1) ({} : CS)
  refine ⟨hat, by simp only [hd, seq]; exact s1, ?_⟩
  rw [execStmts_atoms _ hat]
  simp only [hd, seq, flattenStmts_append, flattenStmts_emit, execFlat_append, movesOf_append]
  obtain ⟨a1, a2, a3, a4⟩ := execFlat_quiet [Instr.blank] (by simp [quiet]) (execFlat cfg.header {}).1
  obtain ⟨b1, b2, b3, b4⟩ := execFlat_quiet _ q1 (execFlat [Instr.blank] (execFlat cfg.header {}).1).1
  obtain ⟨c1, c2, c3, c4⟩ := execFlat_quiet [Instr.blank] (by simp [quiet])
    (execFlat (flattenStmts (dwell (some 1) ({} : CS)).1) (execFlat [Instr.blank] (execFlat cfg.header {}).1).1).1
  refine ⟨by rw [h3, a4, b4, c4]; rfl, by rw [c1, b1, a1, h4], by rw [c2, b2, a2, h1], by rw [c3, b3, a3, h2]⟩

/-- **C08, the whole waveguide file.** For every configuration without a session-wide rotation whose header is still (the
shipped ones are: `shipped_headers_still`) and every list of compilable groups, the reference controller running the file
`WaveguideWriter.pgm` writes — header, `DWELL`, one `REPEAT` block per group, `go_init`, the optional homing move — performs
`groupsFrom` from the unknown start position: every group exactly its number of scans times, every scan every member point for
point; whatever moves follow (at most the two positioning moves) are made with the shutter closed, and the program ends with
the shutter closed. -/
theorem wg_file_replayed (cfg : Cfg) (bunches : List (List WG)) (specs : List (List (List (G1W × Rat)) × Nat))
    (hrot : cfg.aeroAngle = 0) (hh : headerStill cfg.header = true) (h : List.Forall₂ (GroupOK cfg) bunches specs) :
    ∃ tail, movesOf (execStmts (session cfg (wgOps bunches)).1 {}).2 = groupsFrom {} specs ++ tail ∧
      (∀ m ∈ tail, m.shutter = false) ∧ (execStmts (session cfg (wgOps bunches)).1 {}).1.shutter = false := by
  obtain ⟨d1, d2, d3, d4, d5, d6⟩ := head_run cfg hh
  set hd : Out := seq (seq (emit (cfg.header ++ [.blank]), ({} : CS)) (dwell (some 1))) fun cs => (emit [.blank], cs) with hhd
  obtain ⟨g1, g2, g3, g4, g5, g6⟩ := wg_groups_replayed cfg bunches specs h hd.2 (execStmts hd.1 {}).1 d2 d5 d6
  set rg := execOps cfg (bunchOps bunches) hd.2 with hrg
  set σg := (execStmts rg.out (execStmts hd.1 {}).1).1 with hσg
  -- go_init
  obtain ⟨m1, m2, m3, m4⟩ := moveTo_run cfg (some (-2)) (some 0) (some 0) none rg.cs σg g3 g6
  set mo := moveTo cfg (some (-2)) (some 0) (some 0) none rg.cs with hmo
  set σm := (execStmts mo.1.1 σg).1 with hσm
  have m4' : σm.shutter = false := by rw [hσm, execStmts_atoms _ m1]; exact m4
  -- homing
  obtain ⟨n1, n2, n3, n4⟩ := moveTo_run cfg (some (-2)) (some 0) (some 0) none mo.1.2 σm m2 m4'
  set ho := moveTo cfg (some (-2)) (some 0) (some 0) none mo.1.2 with hho
  have hr : execOps cfg (wgOps bunches) hd.2 = { out := rg.out ++ mo.1.1, pre := [], cs := mo.1.2, err := mo.2 } := by
    rw [wgOps_eq, execOps_append_ok cfg _ _ _ g1]
    simp [execOps, execOp, g2, ← hrg, ← hmo]
    cases mo.2 <;> simp
  refine ⟨movesOf (execStmts mo.1.1 σg).2 ++ (if cfg.home = true then movesOf (execStmts ho.1.1 σm).2 else []), ?_, ?_, ?_⟩
  · unfold session
    simp only [hrot, if_true, ← hhd, hr]
    cases hhome : cfg.home
    · simp only [Bool.false_eq_true, if_false, List.nil_append, List.append_nil, execStmts_append, movesOf_append, d3, d4, g4,
        ← hσg]
    · simp only [if_true, List.nil_append, List.append_nil, execStmts_append, movesOf_append, d3, d4, g4, ← hσg, ← hho, ← hσm,
        List.append_assoc]
  · intro m hm
    rcases List.mem_append.mp hm with hm | hm
    · rw [execStmts_atoms _ m1] at hm; exact m3 m hm
    · split at hm
      · rw [execStmts_atoms _ n1] at hm; exact n3 m hm
      · simp at hm
  · unfold session
    simp only [hrot, if_true, ← hhd, hr]
    cases hhome : cfg.home
    · simp only [Bool.false_eq_true, if_false, List.nil_append, List.append_nil, execStmts_append, ← hσg, ← hσm, m4']
    · simp only [if_true, List.nil_append, List.append_nil, execStmts_append, ← hσg, ← hσm, ← hho]
      rw [execStmts_atoms _ n1]; exact n4

/-! ### the whole Nasu and marker files -/

/-- the behaviour the move-level theorems establish for the structure part of a writer program -/
def BodyMoves (cfg : Cfg) (body : List Op) (M : Pos → List Move) : Prop :=
  ∀ (cs : CS) (σ : St), cs.shutterOn = false → σ.absMode = true → σ.shutter = false →
    (execOps cfg body cs).err = none ∧ (execOps cfg body cs).pre = [] ∧ (execOps cfg body cs).cs.shutterOn = false ∧
      movesOf (execStmts (execOps cfg body cs).out σ).2 = M σ.pos ∧
      (execStmts (execOps cfg body cs).out σ).1.absMode = true ∧ (execStmts (execOps cfg body cs).out σ).1.shutter = false

/-- the positioning operation that ends a writer program: `go_init` (waveguides, Nasu) or `go_origin` (markers) -/
theorem lastOp_run (cfg : Cfg) (last : Op) (hl : last = .goInit ∨ last = .goOrigin) (cs : CS) (σ : St)
    (hcs : cs.shutterOn = false) (hsh : σ.shutter = false) :
    atomsOnly (execOp cfg last cs).out ∧ (execOp cfg last cs).pre = [] ∧ (execOp cfg last cs).cs.shutterOn = false ∧
      (∀ m ∈ movesOf (execStmts (execOp cfg last cs).out σ).2, m.shutter = false) ∧
      (execStmts (execOp cfg last cs).out σ).1.shutter = false := by
  rcases hl with rfl | rfl
  · obtain ⟨m1, m2, m3, m4⟩ := moveTo_run cfg (some (-2)) (some 0) (some 0) none cs σ hcs hsh
    simp only [execOp]
    refine ⟨m1, trivial, m2, ?_, ?_⟩
    · rw [execStmts_atoms _ m1]; exact m3
    · rw [execStmts_atoms _ m1]; exact m4
  · obtain ⟨qa, aa, ea⟩ := comment_quiet true cs
    obtain ⟨a1, a2, a3, a4⟩ := execFlat_quiet _ qa σ
    obtain ⟨m1, m2, m3, m4⟩ := moveTo_run cfg (some 0) (some 0) (some 0) none cs
      (execFlat (flattenStmts (comment true cs).1) σ).1 hcs (by rw [a3, hsh])
    have hat : atomsOnly ((comment true cs).1 ++ (moveTo cfg (some 0) (some 0) (some 0) none cs).1.1) := atomsOnly_append aa m1
    simp only [execOp, Res.andThen, Res.ofOut, ea]
    refine ⟨hat, rfl, m2, ?_, ?_⟩
    · rw [execStmts_atoms _ hat]
      simp only [flattenStmts_append, execFlat_append, movesOf_append, a4, List.nil_append]
      exact m3
    · rw [execStmts_atoms _ hat]
      simp only [flattenStmts_append, execFlat_append]
      exact m4

/-- **a whole writer file**: header, `DWELL`, the structures, the final positioning operation, the optional homing move. If the
structure part performs `M` (from the position it is entered at), the file performs `M {}` from the unknown start position, and
every other move of the program is made with the shutter closed; the program ends with the shutter closed. -/
theorem file_replayed (cfg : Cfg) (body : List Op) (last : Op) (M : Pos → List Move) (hl : last = .goInit ∨ last = .goOrigin)
    (hrot : cfg.aeroAngle = 0) (hh : headerStill cfg.header = true) (hb : BodyMoves cfg body M) :
    ∃ tail, movesOf (execStmts (session cfg (body ++ [last])).1 {}).2 = M {} ++ tail ∧
      (∀ m ∈ tail, m.shutter = false) ∧ (execStmts (session cfg (body ++ [last])).1 {}).1.shutter = false := by
  obtain ⟨d1, d2, d3, d4, d5, d6⟩ := head_run cfg hh
  set hd : Out := seq (seq (emit (cfg.header ++ [.blank]), ({} : CS)) (dwell (some 1))) fun cs => (emit [.blank], cs) with hhd
  obtain ⟨g1, g2, g3, g4, g5, g6⟩ := hb hd.2 (execStmts hd.1 {}).1 d2 d5 d6
  set rg := execOps cfg body hd.2 with hrg
  set σg := (execStmts rg.out (execStmts hd.1 {}).1).1 with hσg
  obtain ⟨m1, mp, m2, m3, m4⟩ := lastOp_run cfg last hl rg.cs σg g3 g6
  set mo := execOp cfg last rg.cs with hmo
  set σm := (execStmts mo.out σg).1 with hσm
  obtain ⟨n1, n2, n3, n4⟩ := moveTo_run cfg (some (-2)) (some 0) (some 0) none mo.cs σm m2 m4
  set ho := moveTo cfg (some (-2)) (some 0) (some 0) none mo.cs with hho
  have hr : execOps cfg (body ++ [last]) hd.2 = { out := rg.out ++ mo.out, pre := [], cs := mo.cs, err := mo.err } := by
    rw [execOps_append_ok cfg _ _ _ g1]
    simp only [execOps, ← hrg, ← hmo, g2, mp]
    cases he : mo.err <;> simp [he, mp]
  refine ⟨movesOf (execStmts mo.out σg).2 ++ (if cfg.home = true then movesOf (execStmts ho.1.1 σm).2 else []), ?_, ?_, ?_⟩
  · unfold session
    simp only [hrot, if_true, ← hhd, hr]
    rw [d4] at g4
    cases hhome : cfg.home
    · simp only [Bool.false_eq_true, if_false, List.nil_append, List.append_nil, execStmts_append, movesOf_append, d3, g4,
        ← hσg]
    · simp only [if_true, List.nil_append, List.append_nil, execStmts_append, movesOf_append, d3, g4, ← hσg, ← hho, ← hσm,
        List.append_assoc]
  · intro m hm
    rcases List.mem_append.mp hm with hm | hm
    · exact m3 m hm
    · split at hm
      · rw [execStmts_atoms _ n1] at hm; exact n3 m hm
      · simp at hm
  · unfold session
    simp only [hrot, if_true, ← hhd, hr]
    cases hhome : cfg.home
    · simp only [Bool.false_eq_true, if_false, List.nil_append, List.append_nil, execStmts_append, ← hσg, ← hσm, m4]
    · simp only [if_true, List.nil_append, List.append_nil, execStmts_append, ← hσg, ← hσm, ← hho]
      rw [execStmts_atoms _ n1]; exact n4


/-- the matrices the Nasu program writes, in order: for every waveguide its shifted copies in `adj_scan_order` -/
def nasuMats (ws : List Nasu) : List (List Pt) :=
  ws.flatMap fun w => (adjScanOrder w.adjScan).map fun k => shiftPts w.pts k w.dx w.dy w.dz

theorem nasuOps_eq (ws : List Nasu) : nasuOps ws = (nasuMats ws).map Op.write ++ [Op.goInit] := by
  simp [nasuOps, nasuMats, List.map_flatMap, List.map_map, Function.comp_def]

/-- **C08, the whole Nasu file.** For every list of Nasu waveguides whose shifted copies `write` accepts (closed 0 / 1 paths), the
file `NasuWriter.pgm` writes performs `passFrom` over `nasuMats`: every waveguide once per adjacent pass, in `adj_scan_order`
(`adjOrder_*`: symmetric, unit spacing, outward), point for point; the remaining moves are closed positioning moves. -/
theorem nasu_file_replayed (cfg : Cfg) (ws : List Nasu) (wss : List (List (G1W × Rat)))
    (hrot : cfg.aeroAngle = 0) (hh : headerStill cfg.header = true)
    (hp : List.Forall₂ (fun m w => printed cfg m = .ok w) (nasuMats ws) wss)
    (hs : ∀ m ∈ nasuMats ws, ∀ p ∈ m, p.s = 0 ∨ p.s = 1) (hc : ∀ m ∈ nasuMats ws, endsClosed m) :
    ∃ tail, movesOf (execStmts (session cfg (nasuOps ws)).1 {}).2 = passFrom {} wss ++ tail ∧
      (∀ m ∈ tail, m.shutter = false) ∧ (execStmts (session cfg (nasuOps ws)).1 {}).1.shutter = false := by
  rw [nasuOps_eq]
  refine file_replayed cfg _ .goInit (fun p => passFrom p wss) (Or.inl rfl) hrot hh ?_
  intro cs σ hcs habs hsh
  obtain ⟨a1, a2, a3, a4, a5, _, a7, a8⟩ := writes_pass cfg (nasuMats ws) wss hp hs hc cs σ hcs habs hsh
  refine ⟨a1, a2, a4, ?_, ?_, ?_⟩
  · rw [execStmts_atoms _ a3]; exact a5
  · rw [execStmts_atoms _ a3]; exact a7
  · rw [execStmts_atoms _ a3]; exact a8

theorem mk_rep_pre (cfg : Cfg) (m : List Pt) (n : Int) (cs : CS) :
    (execOp cfg (Op.rep n [Op.comment true, Op.write m, Op.comment false]) cs).pre = [] := by
  simp only [execOp]
  split
  · rfl
  · simp only [execOps, execOp, Res.ofOut]
    cases hw : write cfg m (comment true cs).2 <;> simp [hw]

/-- a marker the writer can compile, with its printed matrix and scan count -/
def MkOK (cfg : Cfg) (m : WG) (g : List (List (G1W × Rat)) × Nat) : Prop :=
  (∃ ws, printed cfg m.pts = .ok ws ∧ g.1 = [ws]) ∧ m.scan = (g.2 : Int) ∧ 0 < g.2 ∧
    (∀ p ∈ m.pts, p.s = 0 ∨ p.s = 1) ∧ endsClosed m.pts

theorem mk_body_moves (cfg : Cfg) (ms : List WG) (specs : List (List (List (G1W × Rat)) × Nat))
    (h : List.Forall₂ (MkOK cfg) ms specs) :
    BodyMoves cfg (ms.map fun m => Op.rep m.scan [Op.comment true, Op.write m.pts, Op.comment false]) (fun p => groupsFrom p specs) := by
  induction h with
  | nil => intro cs σ hcs habs hsh; simp [execOps, execStmts, movesOf, groupsFrom, hcs, habs, hsh]
  | @cons m g ms specs hg _ ih =>
    intro cs σ hcs habs hsh
    obtain ⟨⟨ws, hp, hg1⟩, hscan, hpos, hs, hc⟩ := hg
    have hn : (0 : Int) < m.scan := by rw [hscan]; exact_mod_cast hpos
    obtain ⟨g1, g3, g5, g6, g7, g8⟩ := mk_scans_replayed cfg m.pts ws m.scan hn hp hs hc cs σ hcs habs hsh
    have g2 := mk_rep_pre cfg m.pts m.scan cs
    obtain ⟨i1, i2, i3, i4, i5, i6⟩ := ih (execOp cfg (Op.rep m.scan [Op.comment true, Op.write m.pts, Op.comment false]) cs).cs
      (execStmts (execOp cfg (Op.rep m.scan [Op.comment true, Op.write m.pts, Op.comment false]) cs).out σ).1 g3 g7 g8
    simp only [List.map_cons, execOps, g1]
    rw [i1]
    refine ⟨rfl, by rw [i2, g2]; rfl, i3, ?_, ?_, ?_⟩
    · obtain ⟨wss, n⟩ := g
      simp only at hg1 hscan
      have hn' : m.scan.toNat = n := by omega
      subst hg1
      simp only [execStmts_append, movesOf_append, g5, i4, g6, groupsFrom, hn']
    · simp only [execStmts_append, i5]
    · simp only [execStmts_append, i6]

/-- **C08, the whole marker file.** Every marker is drawn exactly its number of scans times, point for point, one after the other;
the remaining moves (`go_origin`, homing) are made with the shutter closed. -/
theorem mk_file_replayed (cfg : Cfg) (ms : List WG) (specs : List (List (List (G1W × Rat)) × Nat))
    (hrot : cfg.aeroAngle = 0) (hh : headerStill cfg.header = true) (h : List.Forall₂ (MkOK cfg) ms specs) :
    ∃ tail, movesOf (execStmts (session cfg (mkOps ms)).1 {}).2 = groupsFrom {} specs ++ tail ∧
      (∀ m ∈ tail, m.shutter = false) ∧ (execStmts (session cfg (mkOps ms)).1 {}).1.shutter = false :=
  file_replayed cfg _ .goOrigin (fun p => groupsFrom p specs) (Or.inr rfl) hrot hh (mk_body_moves cfg ms specs h)

/-! non-vacuity: two closed waveguides in one group, three scans, mirrored and shifted configuration; the hypotheses of
`wg_groups_replayed` are met and the trace has 3 × (moves of one pass) moves -/
private def demoCfg : Cfg := { shiftX := 1/2, flipX := true, neff := 2 }
private def demoA : List Pt := [⟨0, 0, 0, 5, 0⟩, ⟨0, 0, 0, 5, 1⟩, ⟨1, 0, 0, 20, 1⟩, ⟨2, 1, 0, 20, 1⟩, ⟨2, 1, 0, 20, 0⟩, ⟨0, 0, 0, 5, 0⟩]
private def demoB : List Pt := [⟨0, 1, 0, 5, 0⟩, ⟨0, 1, 0, 5, 1⟩, ⟨3, 1, 0, 20, 1⟩, ⟨3, 1, 0, 20, 0⟩, ⟨0, 1, 0, 5, 0⟩]

example : (match printed demoCfg demoA, printed demoCfg demoB with
    | .ok wa, .ok wb => (groupsFrom {} [([wa, wb], 3)]).length == 21 && (passFrom {} [wa, wb]).length == 7
    | _, _ => false) = true := by decide +kernel
example : (∀ p ∈ demoA, p.s = 0 ∨ p.s = 1) ∧ (∀ p ∈ demoB, p.s = 0 ∨ p.s = 1) := by decide
example : headerStill ({ demoCfg with header := Femto.Gen.header_uwe } : Cfg).header = true := by decide +kernel
example : endsClosed demoA ∧ endsClosed demoB := by
  constructor <;> (intro p h; simp [demoA, demoB] at h; subst h; rfl)

/-! ### file names -/

theorem outFile_empty (d f s : String) : outFile d f s true = none := rfl

theorem outFile_name (d f s : String) :
    outFile d f s false = some (if d = "" then stemOf f ++ s ++ ".pgm" else d ++ "/" ++ (stemOf f ++ s ++ ".pgm")) := rfl

/-! non-vacuity -/
example : adjScanOrder 5 = [0, 1, -1, 2, -2] := by decide +kernel
example : adjScanOrder 4 = [1/2, -1/2, 3/2, -3/2] := by decide +kernel
example : adjScanOrder 1 = [0] := by decide +kernel

/-! ### loop semantics -/

open Femto.Ctl in
/-- number of shutter openings in a trace -/
def countOpen (evs : List Ev) : Nat := (evs.filter fun e => e == .pso true).length

theorem countOpen_append (a b : List Ev) : countOpen (a ++ b) = countOpen a + countOpen b := by
  simp [countOpen, List.filter_append]

/-- **a `REPEAT n` block performs its body `n` times**: if one execution of the body opens the shutter `k` times from any
state (a write block opens it once per open-shutter piece of the path), the loop opens it `n * k` times -/
theorem repeat_multiplies (body : List Stmt) (k : Nat) (hk : ∀ σ, countOpen (execStmts body σ).2 = k) (n : Nat) (σ : St) :
    countOpen (execStmt (.rep n body) σ).2 = n * k := by
  rw [execStmt]
  induction n generalizing σ with
  | zero => simp [execRep, countOpen]
  | succ n ih =>
    rw [execRep]
    simp only [countOpen_append, hk, ih]
    ring

end Femto.C08

/-
C08 — writers repeat each structure the configured number of times.
-/
import FemtoVerif.Model.Writers
import FemtoVerif.Proofs.Session
import Mathlib.Tactic.Ring
import Mathlib.Tactic.Linarith
import Mathlib.Tactic.NormNum
import Mathlib.Tactic.Positivity
import Mathlib.Data.Rat.Defs
import Mathlib.Algebra.Order.AbsoluteValue.Basic
import Mathlib.Data.List.Chain

set_option linter.unusedSimpArgs false
set_option linter.unusedVariables false

namespace Femto.C08
open Femto.Wr Femto.Gc Femto.Ctl

/-! ### the order of the adjacent passes -/

/-- one pass per adjacent scan -/
theorem adjOrder_length (n : Nat) : (adjScanOrder n).length = n := by
  unfold adjScanOrder
  split
  · rename_i h
    simp only [List.length_cons, List.length_flatMap, List.length_cons, List.length_nil]
    simp
    omega
  · rename_i h
    simp only [List.length_flatMap, List.length_cons, List.length_nil]
    simp
    omega

/-- which offsets occur: for an odd count `0, ±1, …, ±(n-1)/2`; for an even count `±1/2, ±3/2, …, ±(n-1)/2` -/
theorem adjOrder_mem (n : Nat) (k : Rat) :
    k ∈ adjScanOrder n ↔
      (n % 2 = 1 ∧ (k = 0 ∨ ∃ i : Nat, i < n / 2 ∧ (k = ((i + 1 : Nat) : Rat) ∨ k = -((i + 1 : Nat) : Rat)))) ∨
      (n % 2 ≠ 1 ∧ ∃ i : Nat, i < n / 2 ∧ (k = (i : Rat) + 1 / 2 ∨ k = -(i : Rat) - 1 / 2)) := by
  unfold adjScanOrder
  split
  · rename_i h
    simp only [h, true_and, ne_eq, not_true_eq_false, false_and, or_false, List.mem_cons, List.mem_flatMap, List.mem_range,
      List.not_mem_nil]
  · rename_i h
    simp only [h, false_and, false_or, ne_eq, not_false_eq_true, true_and, List.mem_flatMap, List.mem_range, List.mem_cons,
      List.not_mem_nil, or_false]

/-- **symmetric about the nominal path**: with every offset its opposite occurs -/
theorem adjOrder_symmetric (n : Nat) (k : Rat) (h : k ∈ adjScanOrder n) : -k ∈ adjScanOrder n := by
  rw [adjOrder_mem] at h ⊢
  rcases h with ⟨ho, h⟩ | ⟨he, i, hi, h⟩
  · left; refine ⟨ho, ?_⟩
    rcases h with rfl | ⟨i, hi, h⟩
    · left; simp
    · right; refine ⟨i, hi, ?_⟩
      rcases h with rfl | rfl
      · right; rfl
      · left; simp
  · right; refine ⟨he, i, hi, ?_⟩
    rcases h with rfl | rfl
    · right; ring
    · left; ring

/-- **spaced by the configured shift**: the offsets are exactly the `n` values `j - (n-1)/2`, `j = 0 … n-1`
(an arithmetic progression of step one pass, centred on 0) -/
theorem adjOrder_values (n : Nat) (k : Rat) :
    k ∈ adjScanOrder n ↔ ∃ j : Nat, j < n ∧ k = (j : Rat) - ((n : Rat) - 1) / 2 := by
  rw [adjOrder_mem]
  constructor
  · rintro (⟨ho, h⟩ | ⟨he, i, hi, h⟩)
    · -- n = 2m+1
      obtain ⟨m, rfl⟩ : ∃ m, n = 2 * m + 1 := ⟨n / 2, by omega⟩
      have hm : (2 * m + 1) / 2 = m := by omega
      rw [hm] at h
      rcases h with rfl | ⟨i, hi, rfl | rfl⟩
      · exact ⟨m, by omega, by push_cast; ring⟩
      · exact ⟨m + (i + 1), by omega, by push_cast; ring⟩
      · exact ⟨m - (i + 1), by omega, by
          have : i + 1 ≤ m := by omega
          push_cast [Nat.cast_sub this]; ring⟩
    · obtain ⟨m, rfl⟩ : ∃ m, n = 2 * m := ⟨n / 2, by omega⟩
      have hm : (2 * m) / 2 = m := by omega
      rw [hm] at hi
      rcases h with rfl | rfl
      · exact ⟨m + i, by omega, by push_cast; ring⟩
      · exact ⟨m - (i + 1), by omega, by
          have : i + 1 ≤ m := by omega
          push_cast [Nat.cast_sub this]; ring⟩
  · rintro ⟨j, hj, rfl⟩
    by_cases ho : n % 2 = 1
    · left; refine ⟨ho, ?_⟩
      obtain ⟨m, rfl⟩ : ∃ m, n = 2 * m + 1 := ⟨n / 2, by omega⟩
      have hm : (2 * m + 1) / 2 = m := by omega
      rw [hm]
      rcases Nat.lt_trichotomy j m with hlt | rfl | hgt
      · right; refine ⟨m - j - 1, by omega, Or.inr ?_⟩
        have : j + 1 ≤ m := by omega
        have e : m - j - 1 + 1 = m - j := by omega
        rw [e]; push_cast [Nat.cast_sub (by omega : j ≤ m)]; ring
      · left; push_cast; ring
      · right; refine ⟨j - m - 1, by omega, Or.inl ?_⟩
        have e : j - m - 1 + 1 = j - m := by omega
        rw [e]; push_cast [Nat.cast_sub (by omega : m ≤ j)]; ring
    · right; refine ⟨ho, ?_⟩
      obtain ⟨m, rfl⟩ : ∃ m, n = 2 * m := ⟨n / 2, by omega⟩
      have hm : (2 * m) / 2 = m := by omega
      rw [hm]
      by_cases hlt : j < m
      · refine ⟨m - j - 1, by omega, Or.inr ?_⟩
        have : j + 1 ≤ m := by omega
        push_cast [Nat.cast_sub (by omega : j ≤ m), Nat.cast_sub (by omega : 1 ≤ m - j)]; ring
      · refine ⟨j - m, by omega, Or.inl ?_⟩
        push_cast [Nat.cast_sub (by omega : m ≤ j)]; ring

/-- **ordered outward from the centre**: the distances from the nominal path never decrease along the order -/
theorem adjOrder_outward (n : Nat) : ((adjScanOrder n).map fun k => |k|).IsChain (· ≤ ·) := by
  have key : ∀ (m : Nat) (f : Nat → Rat), (∀ i, f i ≤ f (i + 1)) →
      ((List.range m).flatMap fun i => [f i, f i]).IsChain (· ≤ ·) := by
    intro m f hf
    induction m with
    | zero => simp
    | succ m ih =>
      rw [List.range_succ, List.flatMap_append]
      simp only [List.flatMap_cons, List.flatMap_nil, List.append_nil]
      rw [List.isChain_append]
      refine ⟨ih, by simp, ?_⟩
      intro a ha b hb
      simp at hb
      -- a is the last element of the previous block: f i for some i < m
      have : a ∈ (List.range m).flatMap fun i => [f i, f i] := List.mem_of_mem_getLast? ha
      simp only [List.mem_flatMap, List.mem_range, List.mem_cons, List.not_mem_nil, or_false, or_self] at this
      obtain ⟨i, hi, rfl⟩ := this
      have mono : ∀ d, f i ≤ f (i + d) := by
        intro d; induction d with
        | zero => simp
        | succ d ihd => exact le_trans ihd (by rw [← Nat.add_assoc]; exact hf _)
      have := mono (m - i)
      rw [show i + (m - i) = m by omega] at this
      rw [← hb]; exact this
  unfold adjScanOrder
  split
  · simp only [List.map_cons, abs_zero, List.map_flatMap, List.map_cons, List.map_nil, abs_neg]
    have := key (n / 2) (fun i => |((i + 1 : Nat) : Rat)|) (by
      intro i; rw [abs_of_nonneg (by positivity), abs_of_nonneg (by positivity)]; push_cast; linarith)
    cases hl : ((List.range (n / 2)).flatMap fun i => [|((i + 1 : Nat) : Rat)|, |((i + 1 : Nat) : Rat)|]) with
    | nil => simp
    | cons a t =>
      rw [hl] at this
      rw [List.isChain_cons_cons]
      refine ⟨?_, this⟩
      have : a ∈ ((List.range (n / 2)).flatMap fun i => [|((i + 1 : Nat) : Rat)|, |((i + 1 : Nat) : Rat)|]) := by rw [hl]; simp
      simp only [List.mem_flatMap, List.mem_cons, List.not_mem_nil, or_false, or_self] at this
      obtain ⟨i, _, rfl⟩ := this
      positivity
  · simp only [List.map_flatMap, List.map_cons, List.map_nil]
    have e : ∀ i : Nat, |-(i : Rat) - 1 / 2| = |(i : Rat) + 1 / 2| := by
      intro i; rw [show -(i : Rat) - 1 / 2 = -((i : Rat) + 1 / 2) by ring, abs_neg]
    simp only [e]
    exact key (n / 2) (fun i => |(i : Rat) + 1 / 2|) (by
      intro i; rw [abs_of_nonneg (by positivity), abs_of_nonneg (by positivity)]; push_cast; linarith)

/-- the first pass is the one closest to the nominal path -/
theorem adjOrder_head (n : Nat) (hn : 0 < n) :
    (adjScanOrder n).head? = some (if n % 2 = 1 then 0 else 1 / 2) := by
  unfold adjScanOrder
  split
  · simp
  · rename_i h
    obtain ⟨m, rfl⟩ : ∃ m, n = 2 * (m + 1) := ⟨n / 2 - 1, by omega⟩
    have : (2 * (m + 1)) / 2 = m + 1 := by omega
    rw [this, List.range_succ_eq_map]
    simp

/-! ### shifted copies -/

/-- feed and shutter are untouched by the adjacent-pass shift, the coordinates move by `k·(dx, dy, dz)` -/
theorem shiftPts_spec (m : List Pt) (k dx dy dz : Rat) :
    (shiftPts m k dx dy dz).map (fun p => (p.f, p.s)) = m.map (fun p => (p.f, p.s)) ∧
    (shiftPts m k dx dy dz).map (fun p => (p.x, p.y, p.z)) = m.map (fun p => (p.x + k * dx, p.y + k * dy, p.z + k * dz)) := by
  simp [shiftPts, List.map_map, Function.comp_def]

/-- the Nasu program contains exactly one `write` per adjacent pass of every waveguide, in `adj_scan_order`, then `go_init` -/
theorem nasuOps_count (ws : List Nasu) : (nasuOps ws).length = (ws.map (·.adjScan)).sum + 1 := by
  simp only [nasuOps, List.length_append, List.length_flatMap, List.length_map, adjOrder_length, List.length_cons,
    List.length_nil]

/-! ### the programs the writers emit are sessions of the compiler model -/

/-- everything proved about sessions (balance C03, dwell accounting C12) applies to the three writer files: here the
loop structure of the waveguide file — one REPEAT per bunch, nothing else at top level of the operations — is read
back by the reference controller's parser from the flattened text -/
theorem wg_file_structure (cfg : Cfg) (bunches : List (List WG)) (hh : headerClean cfg.header = true) :
    structure? (flattenStmts (session cfg (wgOps bunches)).1) = some (session cfg (wgOps bunches)).1 :=
  structure?_flattenStmts _ (session_ok cfg _ hh).1

/-- a bunch whose scan count is positive and whose paths are accepted compiles to exactly one `REPEAT scan` statement
(followed by the blank line) whose body is the concatenation of the members' `write` outputs, in order -/
theorem wg_bunch_compiles (cfg : Cfg) (b : List WG) (w : WG) (rest : List WG) (cs : CS) (hb : b = w :: rest)
    (hs : 0 < w.scan) :
    ∃ body, (execOp cfg (Op.rep w.scan (b.map fun w => Op.write w.pts)) cs).out = [Stmt.rep w.scan.toNat body, Stmt.atom .blank] ∧
      body = (execOps cfg (b.map fun w => Op.write w.pts) cs).out := by
  refine ⟨_, ?_, rfl⟩
  simp only [execOp]
  rw [if_neg (by omega)]

/-! ### file names -/

theorem outFile_empty (d f s : String) : outFile d f s true = none := rfl

theorem outFile_name (d f s : String) :
    outFile d f s false = some (if d = "" then stemOf f ++ s ++ ".pgm" else d ++ "/" ++ (stemOf f ++ s ++ ".pgm")) := rfl

/-! non-vacuity -/
example : adjScanOrder 5 = [0, 1, -1, 2, -2] := by decide +kernel
example : adjScanOrder 4 = [1/2, -1/2, 3/2, -3/2] := by decide +kernel
example : adjScanOrder 1 = [0] := by decide +kernel

/-! ### loop semantics -/

open Femto.Ctl in
/-- number of shutter openings in a trace -/
def countOpen (evs : List Ev) : Nat := (evs.filter fun e => e == .pso true).length

theorem countOpen_append (a b : List Ev) : countOpen (a ++ b) = countOpen a + countOpen b := by
  simp [countOpen, List.filter_append]

/-- **a `REPEAT n` block performs its body `n` times**: if one execution of the body opens the shutter `k` times from any
state (a write block opens it once per open-shutter piece of the path), the loop opens it `n * k` times -/
theorem repeat_multiplies (body : List Stmt) (k : Nat) (hk : ∀ σ, countOpen (execStmts body σ).2 = k) (n : Nat) (σ : St) :
    countOpen (execStmt (.rep n body) σ).2 = n * k := by
  rw [execStmt]
  induction n generalizing σ with
  | zero => simp [execRep, countOpen]
  | succ n ih =>
    rw [execRep]
    simp only [countOpen_append, hk, ih]
    ring

end Femto.C08

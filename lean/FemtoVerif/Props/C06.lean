/-
C06 — trench programs fire only inside trench footprints and cut the full depth.
PARTIAL.  Proved: (1) soundness of the static shutter discipline for the reference controller with FARCALL inlining —
a tree whose calling files pass the check never moves in x / y with the shutter open outside the leaf sub-programs
(wall / floor / bed), for every loop count and call depth; the check itself is run on the real exported files on every run
(translation validation).  (2) the depth schedule: passes `deltaz` apart from the starting offset through the full height of
every stacked box, floor after the wall at or above the top of the box.  Sampled: that the leaf sub-programs stay inside the
transformed block footprints (shapely).
-/
import FemtoVerif.Proofs.TreeLemmas
import FemtoVerif.Model.TrenchProg
import FemtoVerif.Proofs.Session
import FemtoVerif.Proofs.Fmt
import FemtoVerif.Gen.Data
import Mathlib.Tactic.Linarith
import Mathlib.Tactic.Set
import Mathlib.Tactic.Ring
import Mathlib.Tactic.FieldSimp
import Mathlib.Algebra.Order.Field.Rat

set_option linter.unusedSimpArgs false
set_option linter.unusedVariables false

namespace Femto.C06
open Femto.Ctl Femto.TP Femto.Gc

/-! ### shutter discipline -/

theorem treeOK_of_disciplined (t : Tree) (h : treeDisciplined t = true) : TreeOK (treeLeaf t) t := by
  intro id body hfind
  unfold Tree.find at hfind
  cases hf : t.find? (·.1 == id) with
  | none => simp [hf] at hfind
  | some e =>
    simp only [hf, Option.map_some, Option.some.injEq] at hfind
    have hmem : e ∈ t := List.mem_of_find?_eq_some hf
    have hid : e.1 = id := by simpa using List.find?_some hf
    have := (List.all_eq_true.mp h) e hmem
    rw [hfind, hid] at this
    simp only [Bool.or_eq_true, Bool.and_eq_true, Bool.not_eq_eq_eq_not, Bool.not_true] at this
    rcases this with ⟨h1, h2⟩ | ⟨⟨h1, h2⟩, h3⟩
    · exact ⟨by rw [h1, h2], Or.inl h1⟩
    · exact ⟨by rw [h1, h2], Or.inr h3⟩

/-- **the shutter is never open while travelling**: in a tree that passes the static check, running any calling file from a
closed shutter (any call depth `fuel`, any loop counts) gives a trace in which every shutter-open move made by a calling file
keeps x and y (it is a pure z step), every other calling file is entered with the shutter closed and satisfies the same, and
the file ends with the shutter closed.  Shutter-open x/y motion therefore happens only inside leaf sub-programs. -/
theorem tree_discipline (t : Tree) (h : treeDisciplined t = true) (fuel : Nat) (main : String) (body : List Stmt)
    (hm : t.find main = some body) (hnl : isLeafBody body = false) (σ : St) (hσ : σ.shutter = false) :
    (execStmtsG (stepT t fuel) body σ).1.shutter = false ∧ Good (treeLeaf t) (execStmtsG (stepT t fuel) body σ).2 := by
  have hok := treeOK_of_disciplined t h
  obtain ⟨_, hd⟩ := hok main body hm
  have hdisc : disciplined (treeLeaf t) body = true := by
    rcases hd with hl | hd
    · rw [hnl] at hl; simp at hl
    · exact hd
  have hd2 : discStmts (treeLeaf t) σ.shutter body = some false := by
    rw [hσ]; simpa [disciplined] using hdisc
  exact execStmtsG_sound (stepT_ok (treeLeaf t) t hok fuel) body σ false hd2

/-- the same for the whole run of the main file -/
theorem run_discipline (t : Tree) (h : treeDisciplined t = true) (fuel : Nat) (main : String) (body : List Stmt)
    (hm : t.find main = some body) (hnl : isLeafBody body = false) :
    ∃ r, runTree t fuel main = some r ∧ r.1.shutter = false ∧ Good (treeLeaf t) r.2 := by
  exact ⟨execStmtsG (stepT t fuel) body {}, by simp [runTree, hm], tree_discipline t h fuel main body hm hnl {} rfl⟩

/-- a leaf sub-program leaves the shutter as it found it (it contains no shutter command) -/
theorem leaf_call_keeps_shutter (t : Tree) (fuel : Nat) (body : List Stmt) (hl : isLeafBody body = true) (σ : St) :
    (execStmtsG (stepT t fuel) body σ).1.shutter = σ.shutter :=
  leaf_keeps_shutter _ (fun σ w => stepT_flat t fuel σ _ (by intro p hp; cases hp) (by intro k p hp; cases hp))
    (fun σ => stepT_flat t fuel σ _ (by intro p hp; cases hp) (by intro k p hp; cases hp)) body hl σ

/-- the tree controller is a conservative extension of the single-file reference controller of C01 / C03 / C12: with calls
recorded instead of executed it produces exactly that controller's state and events -/
theorem single_file_view (ss : List Stmt) (σ : St) :
    execStmtsG stepFlat ss σ = ((execStmts ss σ).1, (execStmts ss σ).2.map .ev) := execStmtsG_flat ss σ

theorem flatten_own_events (l : List Ev) : flattenT (l.map .ev) = l := by
  induction l with
  | nil => simp [flattenT]
  | cons e r ih => simp [flattenT, ih]

/-- non-vacuity: a calling file of the shape the trench writer emits passes the check, a positioning move under an open
shutter does not -/
example : disciplined (fun k => k == "w") [.atom (.load 2 "d/w.pgm"), .atom (.g1 { x := some 1, y := some 2, z := some 0, f := some 5 }),
    .atom (.pso "X" true), .rep 3 [.atom (.farcall "w.pgm"), .atom (.g1 { zvar := some "ZCURR" })], .atom (.pso "X" false),
    .atom (.g1 { x := some 3 })] = true := by decide
example : disciplined (fun k => k == "w") [.atom (.pso "X" true), .atom (.g1 { x := some 3 }), .atom (.pso "X" false)] = false := by decide
example : disciplined (fun k => k == "w") [.rep 2 [.atom (.pso "X" true)], .atom (.pso "X" false)] = false := by decide

/-! ### depth schedule -/

theorem nRepeat_bounds (h zoff dz : ℚ) (hdz : 0 < dz) (hpos : 0 < h - zoff) :
    1 ≤ nRepeat h zoff dz ∧ ((nRepeat h zoff dz : ℚ) - 1) * dz < h - zoff ∧ h - zoff ≤ (nRepeat h zoff dz : ℚ) * dz := by
  have hq : 0 < (h - zoff) / dz := div_pos hpos hdz
  have hc0 : 0 < ((h - zoff) / dz).ceil := by
    have := (Rat.lt_ceil_iff (x := (h - zoff) / dz) (y := 0)).mpr (by simpa using hq)
    simpa using this
  have hcast : ((nRepeat h zoff dz : ℕ) : ℤ) = ((h - zoff) / dz).ceil := by
    unfold nRepeat
    exact Int.natAbs_of_nonneg hc0.le
  have hcastq : (nRepeat h zoff dz : ℚ) = (((h - zoff) / dz).ceil : ℚ) := by
    have : ((nRepeat h zoff dz : ℤ) : ℚ) = (((h - zoff) / dz).ceil : ℚ) := by rw [hcast]
    simpa using this
  refine ⟨?_, ?_, ?_⟩
  · have : (1 : ℤ) ≤ (nRepeat h zoff dz : ℤ) := by rw [hcast]; omega
    exact_mod_cast this
  · have hlt : ((((h - zoff) / dz).ceil - 1 : ℤ) : ℚ) < (h - zoff) / dz :=
      (Rat.lt_ceil_iff (x := (h - zoff) / dz) (y := ((h - zoff) / dz).ceil - 1)).mp (by omega)
    rw [hcastq]
    have : ((((h - zoff) / dz).ceil : ℚ) - 1) < (h - zoff) / dz := by push_cast at hlt; exact hlt
    calc ((((h - zoff) / dz).ceil : ℚ) - 1) * dz < (h - zoff) / dz * dz := mul_lt_mul_of_pos_right this hdz
      _ = h - zoff := by field_simp
  · have hle : (h - zoff) / dz ≤ (((h - zoff) / dz).ceil : ℚ) := Rat.le_ceil
    rw [hcastq]
    calc h - zoff = (h - zoff) / dz * dz := by field_simp
      _ ≤ (((h - zoff) / dz).ceil : ℚ) * dz := mul_le_mul_of_nonneg_right hle hdz.le

/-- **from the starting offset, consecutive passes `deltaz` apart** -/
theorem pass_first (h zoff dz : ℚ) (L : ℕ) : passZ h zoff dz L 0 = L * h + zoff := by simp [passZ]

theorem pass_step (h zoff dz : ℚ) (L k : ℕ) : passZ h zoff dz L (k + 1) - passZ h zoff dz L k = dz := by
  simp [passZ]; ring

/-- **through the full height of every box**: the last pass of level `L` is within `deltaz` of the top of box `L` (and below
it), and the floor, cut after the wall, lies at or above the top of the box -/
theorem pass_last (h zoff dz : ℚ) (hdz : 0 < dz) (hpos : 0 < h - zoff) (L : ℕ) :
    ((L : ℚ) + 1) * h - dz ≤ passZ h zoff dz L (nRepeat h zoff dz - 1) ∧
    passZ h zoff dz L (nRepeat h zoff dz - 1) < ((L : ℚ) + 1) * h ∧
    ((L : ℚ) + 1) * h ≤ floorZ h zoff dz L := by
  obtain ⟨h1, h2, h3⟩ := nRepeat_bounds h zoff dz hdz hpos
  have hc : ((nRepeat h zoff dz - 1 : ℕ) : ℚ) = (nRepeat h zoff dz : ℚ) - 1 := by
    rw [Nat.cast_sub h1]; simp
  simp only [passZ, floorZ, hc]
  refine ⟨by nlinarith, by nlinarith, by nlinarith⟩

/-- **also across a level boundary**: the first pass of the next level is at most `deltaz` above the last pass of this one
(it may lie below it: the boxes overlap by the starting offset `z_off ≤ 0`) -/
theorem pass_across (h zoff dz : ℚ) (hdz : 0 < dz) (hpos : 0 < h - zoff) (hz : zoff ≤ 0) (L : ℕ) :
    passZ h zoff dz (L + 1) 0 - passZ h zoff dz L (nRepeat h zoff dz - 1) ≤ dz ∧
    zoff < passZ h zoff dz (L + 1) 0 - passZ h zoff dz L (nRepeat h zoff dz - 1) := by
  obtain ⟨h1, h2, h3⟩ := nRepeat_bounds h zoff dz hdz hpos
  have hc : ((nRepeat h zoff dz - 1 : ℕ) : ℚ) = (nRepeat h zoff dz : ℚ) - 1 := by
    rw [Nat.cast_sub h1]; simp
  simp only [passZ, hc]
  push_cast
  constructor <;> nlinarith

/-- **the wall loop of the call file realises the schedule**: entered ready at the starting depth of level `L`
(`(L h + z_off) / neff` in controller coordinates, `$ZCURR` set to it, the wall program loaded and bound to an x/y-only file),
`k` turns of `REPEAT { [DWELL] FARCALL wall; $ZCURR = $ZCURR + deltaz/neff; G1 Z$ZCURR }` leave the controller ready at glass
depth `passZ L k` — so pass number `k` (counted from 0) is traced at exactly that depth, for every `k`, call depth and
pause setting.  The harness checks on every run that every `REPEAT` of every real call file has this shape. -/
theorem wall_loop_depths (t : Tree) (f : ℕ) (p : String) (h zoff dz neff : ℚ) (hneff : neff ≠ 0) (L k : ℕ) (σ : St)
    (hr : Ready t p ((L * h + zoff) / neff) σ) :
    Ready t p (passZ h zoff dz L k / neff) (execRepG (stepT t (f + 1)) k (wallLoopBody p (dz / neff)) σ).1 ∧
    ∀ q, Ready t p (passZ h zoff dz L k / neff) (execRepG (stepT t (f + 1)) k (wallLoopBodyD q p (dz / neff)) σ).1 := by
  have e : (L * h + zoff) / neff + (k : ℚ) * (dz / neff) = passZ h zoff dz L k / neff := by
    unfold passZ; field_simp
  refine ⟨?_, fun q => ?_⟩
  · have := execRepG_wall t f p (dz / neff) k _ σ hr
    rwa [e] at this
  · have := execRepG_wallD t f q p (dz / neff) k _ σ hr
    rwa [e] at this

/-- the whole column: `nboxz * n_repeat` passes -/
theorem schedule_length (h zoff dz : ℚ) (nboxz : ℕ) : (schedule h zoff dz nboxz).length = nboxz * nRepeat h zoff dz := by
  unfold schedule
  induction nboxz with
  | zero => simp
  | succ n ih => simp [List.range_succ, List.flatMap_append, ih]; ring


/-! ### the compile-side model of the call file (`Model/TrenchProg.lean`, `farcallFile`) is disciplined for every column

The model is compared instruction by instruction with the real `FARCALLnnn.pgm` of every plain column on every run (`c06.farcall`);
these theorems are about that model: whatever the number of levels and trenches, the `u` list, the pauses, the transformation. -/

theorem discStmts_append (leaf : String → Bool) (s : Bool) (a b : List Stmt) :
    discStmts leaf s (a ++ b) = (discStmts leaf s a).bind fun s' => discStmts leaf s' b := by
  induction a generalizing s with
  | nil => simp [discStmts]
  | cons st a ih =>
    simp only [List.cons_append, discStmts]
    cases discStmt leaf s st with
    | none => simp
    | some s' => simp [ih]

/-- a compile step that takes the shutter from `s` to `s'` on both sides: if the compiler believes `s` and the step succeeds,
the emitted statements are disciplined from `s`, end in `s'`, and the compiler believes `s'` -/
def Takes (leaf : String → Bool) (s s' : Bool) (f : CS → Res) : Prop :=
  ∀ cs : CS, cs.shutterOn = s → (f cs).err = none → discStmts leaf s (f cs).out = some s' ∧ (f cs).cs.shutterOn = s'

theorem Takes.andThen {leaf : String → Bool} {s s1 s2 : Bool} {f g : CS → Res} (hf : Takes leaf s s1 f) (hg : Takes leaf s1 s2 g) :
    Takes leaf s s2 (fun cs => (f cs).andThen g) := by
  intro cs hcs herr
  simp only [Res.andThen] at herr ⊢
  cases he : (f cs).err with
  | some e => rw [he] at herr; simp only at herr; rw [he] at herr; cases herr
  | none =>
    rw [he] at herr
    simp only at herr ⊢
    obtain ⟨a1, a2⟩ := hf cs hcs he
    obtain ⟨b1, b2⟩ := hg (f cs).cs a2 herr
    exact ⟨by rw [discStmts_append, a1]; exact b1, b2⟩

theorem takes_ofOut_quiet (leaf : String → Bool) (s : Bool) (f : CS → Out)
    (h : ∀ cs, discStmts leaf s (f cs).1 = some s ∧ (f cs).2.shutterOn = cs.shutterOn) :
    Takes leaf s s (fun cs => Res.ofOut (f cs)) := by
  intro cs hcs _
  exact ⟨(h cs).1, by simp [Res.ofOut, (h cs).2, hcs]⟩


theorem discStmts_emit_quiet (leaf : String → Bool) (s : Bool) (is : List Instr) (h : ∀ i ∈ is, discAtom leaf s i = some s) :
    discStmts leaf s (emit is) = some s := by
  induction is with
  | nil => simp [emit, discStmts]
  | cons i is ih =>
    have h1 := h i (by simp)
    have h2 := ih (fun j hj => h j (by simp [hj]))
    simp only [emit, List.map_cons, discStmts, discStmt, h1] at h2 ⊢
    exact h2

theorem takes_instr (leaf : String → Bool) (s : Bool) (is : List Instr) (h : ∀ i ∈ is, discAtom leaf s i = some s) :
    Takes leaf s s (instrR is) := by
  intro cs hcs _
  exact ⟨discStmts_emit_quiet leaf s is h, hcs⟩

theorem takes_comment (leaf : String → Bool) (s : Bool) (b : Bool) : Takes leaf s s (fun cs => Res.ofOut (comment b cs)) := by
  intro cs hcs _
  unfold comment
  cases b <;> exact ⟨discStmts_emit_quiet leaf s _ (by intro i hi; simp at hi; rcases hi with rfl | rfl <;> rfl), hcs⟩

theorem takes_dwell (leaf : String → Bool) (s : Bool) (p : Option Rat) : Takes leaf s s (dwellR p) := by
  intro cs hcs _
  unfold dwellR dwell
  cases p with
  | none => exact ⟨rfl, hcs⟩
  | some t =>
    by_cases h : t = 0
    · simp only [h, if_true]; exact ⟨rfl, hcs⟩
    · simp only [h, if_false, Res.ofOut]
      exact ⟨discStmts_emit_quiet leaf s _ (by intro i hi; simp at hi; subst hi; rfl), hcs⟩

theorem takes_shutter (leaf : String → Bool) (cfg : Cfg) (s on : Bool) : Takes leaf s on (shutterR cfg on) := by
  intro cs hcs _
  unfold shutterR shutter
  cases on <;> cases s <;> simp [hcs, Res.ofOut, emit, discStmts, discStmt, discAtom]

theorem takes_load (leaf : String → Bool) (s : Bool) (p : String) (t : Nat) : Takes leaf s s (loadOp p t) := by
  intro cs hcs herr
  unfold loadOp at herr ⊢
  split
  · exact ⟨rfl, hcs⟩
  · exact ⟨discStmts_emit_quiet leaf s _ (by intro i hi; simp at hi; subst hi; rfl), hcs⟩

theorem takes_remove (leaf : String → Bool) (s : Bool) (p : String) (t : Nat) : Takes leaf s s (removeOp p t) := by
  intro cs hcs herr
  unfold removeOp at herr ⊢
  split
  · exact ⟨rfl, hcs⟩
  · split
    · exact ⟨rfl, hcs⟩
    · exact ⟨discStmts_emit_quiet leaf s _ (by intro i hi; simp at hi; rcases hi with rfl | rfl | rfl <;> rfl), hcs⟩

theorem takes_farcall (leaf : String → Bool) (cfg : Cfg) (s : Bool) (p : String) (hl : leaf (progKey p) = true) :
    Takes leaf s s (farcallOp cfg p) := by
  intro cs hcs herr
  unfold farcallOp at herr ⊢
  split
  · exact ⟨rfl, hcs⟩
  · split
    · exact ⟨rfl, hcs⟩
    · simp only [Res.ofOut, seq]
      obtain ⟨d1, d2⟩ := takes_dwell leaf s cfg.shortPause cs hcs rfl
      simp only [dwellR, Res.ofOut] at d1 d2
      refine ⟨?_, d2⟩
      rw [discStmts_append, d1]
      exact discStmts_emit_quiet leaf s _ (by intro i hi; simp at hi; subst hi; simp [discAtom, hl])

theorem takes_uMove (leaf : String → Bool) (cfg : Cfg) (s : Bool) (u : Option Rat) (pause : Bool) : Takes leaf s s (uMove cfg u pause) := by
  unfold uMove
  cases u with
  | none => intro cs hcs _; exact ⟨rfl, hcs⟩
  | some v =>
    have hg : Takes leaf s s (instrR [g1U v]) :=
      takes_instr leaf s _ (by intro i hi; simp at hi; subst hi; simp [g1U, discAtom, G1W.xy])
    cases pause
    · simpa using hg
    · simpa using Takes.andThen hg (takes_dwell leaf s cfg.longPause)

theorem moveTo_disc (leaf : String → Bool) (cfg : Cfg) (x y z sp : Option Rat) (cs : CS) (hcs : cs.shutterOn = false) :
    discStmts leaf false (moveTo cfg x y z sp cs).1.1 = some false ∧ (moveTo cfg x y z sp cs).1.2.shutterOn = false := by
  unfold moveTo closeIfOpen
  cases hf : formatArgs cfg.digits x y z (some (sp.getD cfg.speedPos)) with
  | error e => simp only [hcs, Bool.false_eq_true, if_false]; exact ⟨rfl, trivial⟩
  | ok w =>
    simp only [hcs, Bool.false_eq_true, if_false, seq, List.nil_append]
    obtain ⟨d1, d2⟩ := takes_dwell leaf false cfg.longPause cs hcs rfl
    simp only [dwellR, Res.ofOut] at d1 d2
    refine ⟨?_, d2⟩
    rw [discStmts_append, discStmts_emit_quiet leaf false [.g1 w] (by intro i hi; simp at hi; subst hi; simp [discAtom])]
    simp only [Option.bind_some]
    rw [discStmts_append, d1]
    exact discStmts_emit_quiet leaf false _ (by intro i hi; simp at hi; subst hi; rfl)

theorem takes_moveTo (leaf : String → Bool) (cfg : Cfg) (x y z sp : Option Rat) : Takes leaf false false (moveToR cfg x y z sp) := by
  intro cs hcs _
  exact moveTo_disc leaf cfg x y z sp cs hcs

/-- the wall loop keeps the shutter open across its turns: its body calls a leaf program, bumps `$ZCURR` and moves in z only -/
theorem takes_wallLoop (leaf : String → Bool) (cfg : Cfg) (c : Col) (i : Nat) (hl : leaf (progKey (c.wall i)) = true) :
    Takes leaf true true (wallLoop cfg c i) := by
  intro cs hcs herr
  unfold wallLoop at herr ⊢
  generalize fmt 6 (c.deltaz / cfg.neff) = q at herr ⊢
  by_cases hn : c.nRep ≤ 0
  · simp only [hn, if_true]; exact ⟨rfl, hcs⟩
  · simp only [hn, if_false] at herr ⊢
    have hb : Takes leaf true true (fun cs => (farcallOp cfg (c.wall i) cs).andThen
        (instrR [.incVar "zcurr" q, .g1 { zvar := some "ZCURR" }])) :=
      Takes.andThen (takes_farcall leaf cfg true _ hl)
        (takes_instr leaf true _ (by intro j hj; simp at hj; rcases hj with rfl | rfl <;> simp [discAtom, G1W.xy]))
    obtain ⟨b1, b2⟩ := hb cs hcs herr
    dsimp only at b1 b2
    constructor
    · simp only [discStmts, discStmt, b1, if_true, discAtom]
    · exact b2

/-- **one (level, trench) block of the call file is disciplined**: compiled with the shutter believed closed, whenever it
compiles without error it moves in x / y only with the shutter closed, opens it exactly around the wall loop and around the
floor call — both calls of leaf programs —, and ends closed, for every configuration, column, level and trench -/
theorem trenchBlock_disciplined (leaf : String → Bool) (cfg : Cfg) (c : Col) (nbox i : Nat) (xy : Rat × Rat)
    (hw : leaf (progKey (c.wall i)) = true) (hf : leaf (progKey (c.floor i)) = true) :
    Takes leaf false false (trenchBlock cfg c nbox i xy) := by
  unfold trenchBlock
  exact
    Takes.andThen (Takes.andThen (Takes.andThen (Takes.andThen (Takes.andThen (Takes.andThen (Takes.andThen (Takes.andThen
    (Takes.andThen (Takes.andThen (Takes.andThen (Takes.andThen (Takes.andThen (Takes.andThen (Takes.andThen (Takes.andThen
      (takes_comment leaf false true)
      (takes_load leaf false _ 2))
      (takes_instr leaf false [.msg] (by intro j hj; simp at hj; subst hj; rfl)))
      (takes_shutter leaf cfg false false))
      (takes_uMove leaf cfg false _ true))
      (takes_moveTo leaf cfg _ _ _ _))
      (takes_instr leaf false _ (by intro j hj; simp at hj; subst hj; rfl)))
      (takes_shutter leaf cfg false true))
      (takes_wallLoop leaf cfg c i hw))
      (takes_remove leaf true _ 2))
      (takes_shutter leaf cfg true false))
      (takes_load leaf false _ 2))
      (takes_instr leaf false [.msg] (by intro j hj; simp at hj; subst hj; rfl)))
      (takes_uMove leaf cfg false _ true))
      (takes_shutter leaf cfg false true))
      (takes_farcall leaf cfg true _ hf))
      (Takes.andThen (Takes.andThen (takes_shutter leaf cfg true false) (takes_uMove leaf cfg false _ false)) (takes_remove leaf false _ 2))


/-- every block of a column, one after the other -/
theorem blocksFrom_disciplined (leaf : String → Bool) (cfg : Cfg) (c : Col)
    (hw : ∀ i, leaf (progKey (c.wall i)) = true) (hf : ∀ i, leaf (progKey (c.floor i)) = true)
    (l : List (Nat × Nat × (Rat × Rat))) : Takes leaf false false (blocksFrom cfg c l) := by
  induction l with
  | nil => intro cs hcs _; exact ⟨rfl, hcs⟩
  | cons b l ih =>
    obtain ⟨nbox, i, xy⟩ := b
    exact Takes.andThen (trenchBlock_disciplined leaf cfg c nbox i xy (hw i) (hf i)) ih

/-- a bed block of a U-trench call file: positioned in x / y with the shutter closed, open only across the call of the bed program -/
theorem bedBlock_disciplined (leaf : String → Bool) (cfg : Cfg) (c : Col) (k : Nat) (xy : Rat × Rat)
    (hb : leaf (progKey (bedName k)) = true) : Takes leaf false false (bedBlock cfg c k xy) := by
  unfold bedBlock
  exact
    Takes.andThen (Takes.andThen (Takes.andThen (Takes.andThen (Takes.andThen (Takes.andThen (Takes.andThen (Takes.andThen
    (Takes.andThen (Takes.andThen
      (takes_comment leaf false true)
      (takes_shutter leaf cfg false false))
      (takes_load leaf false _ 2))
      (takes_instr leaf false [.msg] (by intro j hj; simp at hj; subst hj; rfl)))
      (takes_uMove leaf cfg false _ true))
      (takes_moveTo leaf cfg _ _ _ _))
      (takes_shutter leaf cfg false true))
      (takes_farcall leaf cfg true _ hb))
      (takes_shutter leaf cfg true false))
      (takes_uMove leaf cfg false _ false))
      (takes_remove leaf false _ 2)

theorem bedsFrom_disciplined (leaf : String → Bool) (cfg : Cfg) (c : Col) (hb : ∀ k, leaf (progKey (bedName k)) = true)
    (l : List (Nat × (Rat × Rat))) : Takes leaf false false (bedsFrom cfg c l) := by
  induction l with
  | nil => intro cs hcs _; exact ⟨rfl, hcs⟩
  | cons b l ih => obtain ⟨k, xy⟩ := b; exact Takes.andThen (bedBlock_disciplined leaf cfg c k xy (hb k)) ih

/-- **the body of the call file is disciplined** for every column (any number of levels and trenches, with or without `u`),
every configuration and every pause setting -/
theorem farcallBody_disciplined (leaf : String → Bool) (cfg : Cfg) (c : Col)
    (hw : ∀ i, leaf (progKey (c.wall i)) = true) (hf : ∀ i, leaf (progKey (c.floor i)) = true)
    (hb : ∀ k, leaf (progKey (bedName k)) = true) :
    Takes leaf false false (farcallBody cfg c) := by
  unfold farcallBody
  have hd : Takes leaf false false (fun cs : CS =>
      ({ pre := emit [.dvar ["zcurr"], .blank], cs := { cs with dvars := cs.dvars ++ ["zcurr"] } } : Res)) := by
    intro cs hcs _; exact ⟨rfl, hcs⟩
  exact Takes.andThen (Takes.andThen (Takes.andThen hd (blocksFrom_disciplined leaf cfg c hw hf _)) (bedsFrom_disciplined leaf cfg c hb _))
    (takes_instr leaf false [.msg] (by intro j hj; simp at hj; subst hj; rfl))



/-! the hoisted lines: only `dvar` puts anything before the header -/

def NoPre (f : CS → Res) : Prop := ∀ cs, (f cs).pre = []

theorem NoPre.andThen {f g : CS → Res} (hf : NoPre f) (hg : NoPre g) : NoPre (fun cs => (f cs).andThen g) := by
  intro cs
  simp only [Res.andThen]
  cases (f cs).err with
  | some e => exact hf cs
  | none => simp [hf cs, hg (f cs).cs]

theorem noPre_instr (is : List Instr) : NoPre (instrR is) := fun _ => rfl
theorem noPre_comment (b : Bool) : NoPre (fun cs => Res.ofOut (comment b cs)) := fun _ => rfl
theorem noPre_shutter (cfg : Cfg) (on : Bool) : NoPre (shutterR cfg on) := fun _ => rfl
theorem noPre_dwell (p : Option Rat) : NoPre (dwellR p) := fun _ => rfl
theorem noPre_moveTo (cfg : Cfg) (x y z sp : Option Rat) : NoPre (moveToR cfg x y z sp) := fun _ => rfl
theorem noPre_load (p : String) (t : Nat) : NoPre (loadOp p t) := by intro cs; unfold loadOp; split <;> rfl
theorem noPre_remove (p : String) (t : Nat) : NoPre (removeOp p t) := by
  intro cs; unfold removeOp; split
  · rfl
  · split <;> rfl
theorem noPre_farcall (cfg : Cfg) (p : String) : NoPre (farcallOp cfg p) := by
  intro cs; unfold farcallOp; split
  · rfl
  · split <;> rfl
theorem noPre_uMove (cfg : Cfg) (u : Option Rat) (pause : Bool) : NoPre (uMove cfg u pause) := by
  unfold uMove
  cases u with
  | none => exact fun _ => rfl
  | some v =>
    cases pause
    · simpa using noPre_instr [g1U v]
    · simpa using NoPre.andThen (noPre_instr [g1U v]) (noPre_dwell cfg.longPause)
theorem noPre_wallLoop (cfg : Cfg) (c : Col) (i : Nat) : NoPre (wallLoop cfg c i) := by
  intro cs
  unfold wallLoop
  generalize fmt 6 (c.deltaz / cfg.neff) = q
  by_cases hn : c.nRep ≤ 0
  · simp only [hn, if_true]
  · simp only [hn, if_false]
    have := NoPre.andThen (noPre_farcall cfg (c.wall i)) (noPre_instr [.incVar "zcurr" q, .g1 { zvar := some "ZCURR" }]) cs
    dsimp only at this
    exact this

theorem noPre_trenchBlock (cfg : Cfg) (c : Col) (nbox i : Nat) (xy : Rat × Rat) : NoPre (trenchBlock cfg c nbox i xy) := by
  unfold trenchBlock
  exact
    NoPre.andThen (NoPre.andThen (NoPre.andThen (NoPre.andThen (NoPre.andThen (NoPre.andThen (NoPre.andThen (NoPre.andThen
    (NoPre.andThen (NoPre.andThen (NoPre.andThen (NoPre.andThen (NoPre.andThen (NoPre.andThen (NoPre.andThen (NoPre.andThen
      (noPre_comment true) (noPre_load _ 2)) (noPre_instr _)) (noPre_shutter cfg false)) (noPre_uMove cfg _ true))
      (noPre_moveTo cfg _ _ _ _)) (noPre_instr _)) (noPre_shutter cfg true)) (noPre_wallLoop cfg c i)) (noPre_remove _ 2))
      (noPre_shutter cfg false)) (noPre_load _ 2)) (noPre_instr _)) (noPre_uMove cfg _ true)) (noPre_shutter cfg true))
      (noPre_farcall cfg _))
      (NoPre.andThen (NoPre.andThen (noPre_shutter cfg false) (noPre_uMove cfg _ false)) (noPre_remove _ 2))

theorem noPre_blocksFrom (cfg : Cfg) (c : Col) (l : List (Nat × Nat × (Rat × Rat))) : NoPre (blocksFrom cfg c l) := by
  induction l with
  | nil => exact fun _ => rfl
  | cons b l ih => obtain ⟨nbox, i, xy⟩ := b; exact NoPre.andThen (noPre_trenchBlock cfg c nbox i xy) ih

theorem noPre_bedBlock (cfg : Cfg) (c : Col) (k : Nat) (xy : Rat × Rat) : NoPre (bedBlock cfg c k xy) := by
  unfold bedBlock
  exact
    NoPre.andThen (NoPre.andThen (NoPre.andThen (NoPre.andThen (NoPre.andThen (NoPre.andThen (NoPre.andThen (NoPre.andThen
    (NoPre.andThen (NoPre.andThen
      (noPre_comment true) (noPre_shutter cfg false)) (noPre_load _ 2)) (noPre_instr _)) (noPre_uMove cfg _ true))
      (noPre_moveTo cfg _ _ _ _)) (noPre_shutter cfg true)) (noPre_farcall cfg _)) (noPre_shutter cfg false)) (noPre_uMove cfg _ false))
      (noPre_remove _ 2)

theorem noPre_bedsFrom (cfg : Cfg) (c : Col) (l : List (Nat × (Rat × Rat))) : NoPre (bedsFrom cfg c l) := by
  induction l with
  | nil => exact fun _ => rfl
  | cons b l ih => obtain ⟨k, xy⟩ := b; exact NoPre.andThen (noPre_bedBlock cfg c k xy) ih

/-- the only hoisted lines of the call file are the declaration of `$ZCURR` -/
theorem farcallBody_pre (cfg : Cfg) (c : Col) (cs : CS) : (farcallBody cfg c cs).pre = emit [.dvar ["zcurr"], .blank] := by
  unfold farcallBody
  have hrest : NoPre (fun cs' => ((blocksFrom cfg c (blockList c) cs').andThen (bedsFrom cfg c (bedList c))).andThen (instrR [.msg])) :=
    NoPre.andThen (NoPre.andThen (noPre_blocksFrom cfg c _) (noPre_bedsFrom cfg c _)) (noPre_instr _)
  have hb := hrest { cs with dvars := cs.dvars ++ ["zcurr"] }
  simp only [Res.andThen] at hb ⊢
  cases he : (blocksFrom cfg c (blockList c) { cs with dvars := cs.dvars ++ ["zcurr"] }).err with
  | some e =>
    have h1 := noPre_blocksFrom cfg c (blockList c) { cs with dvars := cs.dvars ++ ["zcurr"] }
    simp [he, h1]
  | none =>
    rw [he] at hb
    simp only at hb ⊢
    have h1 := noPre_blocksFrom cfg c (blockList c) { cs with dvars := cs.dvars ++ ["zcurr"] }
    have h2 := noPre_bedsFrom cfg c (bedList c) (blocksFrom cfg c (blockList c) { cs with dvars := cs.dvars ++ ["zcurr"] }).cs
    cases he2 : (bedsFrom cfg c (bedList c) (blocksFrom cfg c (blockList c) { cs with dvars := cs.dvars ++ ["zcurr"] }).cs).err with
    | some e => simp [he2, h1, h2]
    | none => simp [he2, h1, h2, instrR, Res.ofOut]

/-- **the whole call file is a disciplined calling file** (`Ctl.disciplined`, the hypothesis of `tree_discipline` /
`run_discipline` for every non-leaf file of an exported tree): for every configuration without a session-wide rotation whose
header is disciplined from a closed shutter, every column whose wall and floor programs are leaves of the tree, whenever the
body compiles without error — header, `DVAR $ZCURR`, all (level, trench) blocks, `MSGCLEAR`, optional homing move -/
theorem farcallFile_disciplined (leaf : String → Bool) (cfg : Cfg) (c : Col) (hrot : cfg.aeroAngle = 0)
    (hh : discStmts leaf false (emit cfg.header) = some false)
    (hw : ∀ i, leaf (progKey (c.wall i)) = true) (hf : ∀ i, leaf (progKey (c.floor i)) = true)
    (hb : ∀ k, leaf (progKey (bedName k)) = true)
    (hok : (farcallBody cfg c (seq (seq (emit (cfg.header ++ [.blank]), ({} : CS)) (dwell (some 1))) fun cs => (emit [.blank], cs)).2).err = none) :
    disciplined leaf (farcallFile cfg c).1 = true := by
  set hd : Out := seq (seq (emit (cfg.header ++ [.blank]), ({} : CS)) (dwell (some 1))) fun cs => (emit [.blank], cs) with hhd
  have hd2 : hd.2.shutterOn = false := by
    simp only [hhd, seq]
    obtain ⟨_, d2⟩ := takes_dwell leaf false (some 1) ({} : CS) rfl rfl
    simpa [dwellR, Res.ofOut] using d2
  have hd1 : discStmts leaf false hd.1 = some false := by
    simp only [hhd, seq]
    obtain ⟨d1, _⟩ := takes_dwell leaf false (some 1) ({} : CS) rfl rfl
    simp only [dwellR, Res.ofOut] at d1
    have e : emit (cfg.header ++ [Instr.blank]) = emit cfg.header ++ emit [.blank] := by simp [emit]
    rw [discStmts_append, discStmts_append, e, discStmts_append, hh]
    simp only [Option.bind_some]
    rw [discStmts_emit_quiet leaf false [.blank] (by intro i hi; simp at hi; subst hi; rfl)]
    simp only [Option.bind_some, d1]
    exact discStmts_emit_quiet leaf false [.blank] (by intro i hi; simp at hi; subst hi; rfl)
  obtain ⟨b1, b2⟩ := farcallBody_disciplined leaf cfg c hw hf hb hd.2 hd2 hok
  have hpre : discStmts leaf false (farcallBody cfg c hd.2).pre = some false := by
    have : (farcallBody cfg c hd.2).pre = emit [.dvar ["zcurr"], .blank] := farcallBody_pre cfg c hd.2
    rw [this]
    exact discStmts_emit_quiet leaf false _ (by intro i hi; simp at hi; rcases hi with rfl | rfl <;> rfl)
  unfold disciplined farcallFile sessionWith
  simp only [hrot, if_true, ← hhd]
  have hg : discStmts leaf false (if cfg.home = true then
        ((moveTo cfg (some (-2)) (some 0) (some 0) none (farcallBody cfg c hd.2).cs).1.1,
          (moveTo cfg (some (-2)) (some 0) (some 0) none (farcallBody cfg c hd.2).cs).1.2)
      else (([] : List Stmt), (farcallBody cfg c hd.2).cs)).1 = some false := by
    split
    · exact (moveTo_disc leaf cfg _ _ _ _ _ b2).1
    · rfl
  rw [discStmts_append, discStmts_append, discStmts_append, discStmts_append, hpre]
  simp only [Option.bind_some, hd1, b1, discStmts, hg]
  rfl


/-! ### every loop of the call file is a wall loop of the depth schedule -/

/-- a statement of a call file: a plain instruction, or the wall loop of some trench with `n` turns and increment `q` -/
def WallRep (c : Col) (n : Nat) (q : Rat) (st : Stmt) : Prop :=
  (∃ i, st = .atom i) ∨ ∃ j, st = .rep n (wallLoopBody (c.wall j) q) ∨ ∃ t, st = .rep n (wallLoopBodyD t (c.wall j) q)

def Loops (c : Col) (n : Nat) (q : Rat) (f : CS → Res) : Prop := ∀ cs, (f cs).err = none → ∀ st ∈ (f cs).out, WallRep c n q st

theorem Loops.andThen {c : Col} {n : Nat} {q : Rat} {f g : CS → Res} (hf : Loops c n q f) (hg : Loops c n q g) :
    Loops c n q (fun cs => (f cs).andThen g) := by
  intro cs herr st hst
  simp only [Res.andThen] at herr hst
  cases he : (f cs).err with
  | some e => rw [he] at herr; simp only at herr; rw [he] at herr; cases herr
  | none =>
    rw [he] at herr hst
    simp only at herr hst
    rcases List.mem_append.mp hst with h | h
    · exact hf cs he st h
    · exact hg (f cs).cs herr st h

/-- steps that emit plain instructions only -/
def Plain (f : CS → Res) : Prop := ∀ cs, ∀ st ∈ (f cs).out, ∃ i, st = Stmt.atom i

theorem Plain.loops {c : Col} {n : Nat} {q : Rat} {f : CS → Res} (h : Plain f) : Loops c n q f :=
  fun cs _ st hst => Or.inl (h cs st hst)

theorem plain_emit (is : List Instr) : ∀ st ∈ emit is, ∃ i, st = Stmt.atom i := by
  intro st h; simp only [emit, List.mem_map] at h; obtain ⟨i, _, rfl⟩ := h; exact ⟨i, rfl⟩

theorem Plain.andThen {f g : CS → Res} (hf : Plain f) (hg : Plain g) : Plain (fun cs => (f cs).andThen g) := by
  intro cs st hst
  simp only [Res.andThen] at hst
  cases he : (f cs).err with
  | some e => rw [he] at hst; exact hf cs st hst
  | none =>
    rw [he] at hst
    rcases List.mem_append.mp hst with h | h
    · exact hf cs st h
    · exact hg _ st h

theorem plain_instr (is : List Instr) : Plain (instrR is) := fun _ => plain_emit is
theorem plain_comment (b : Bool) : Plain (fun cs => Res.ofOut (comment b cs)) := by
  intro cs; unfold comment; cases b <;> exact plain_emit _
theorem plain_dwell (p : Option Rat) : Plain (dwellR p) := by
  intro cs st h
  unfold dwellR dwell at h
  cases p with
  | none => simp [Res.ofOut] at h
  | some t => by_cases h0 : t = 0
              · simp [h0, Res.ofOut] at h
              · simp only [h0, if_false, Res.ofOut] at h; exact plain_emit _ st h
theorem plain_shutter (cfg : Cfg) (on : Bool) : Plain (shutterR cfg on) := by
  intro cs st h
  unfold shutterR shutter at h
  split at h
  · exact plain_emit _ st h
  · split at h
    · exact plain_emit _ st h
    · simp [Res.ofOut] at h
theorem plain_load (p : String) (t : Nat) : Plain (loadOp p t) := by
  intro cs st h; unfold loadOp at h; split at h
  · simp at h
  · exact plain_emit _ st h
theorem plain_remove (p : String) (t : Nat) : Plain (removeOp p t) := by
  intro cs st h; unfold removeOp at h; split at h
  · simp at h
  · split at h
    · simp at h
    · exact plain_emit _ st h
theorem plain_farcall (cfg : Cfg) (p : String) : Plain (farcallOp cfg p) := by
  intro cs st h; unfold farcallOp at h; split at h
  · simp at h
  · split at h
    · simp at h
    · simp only [Res.ofOut, seq] at h
      rcases List.mem_append.mp h with h | h
      · exact plain_dwell cfg.shortPause cs st h
      · exact plain_emit _ st h
theorem plain_moveTo (cfg : Cfg) (x y z sp : Option Rat) : Plain (moveToR cfg x y z sp) := by
  intro cs st h
  unfold moveToR moveTo closeIfOpen at h
  have hs := plain_shutter cfg false cs
  simp only [shutterR, Res.ofOut] at hs
  cases hf : formatArgs cfg.digits x y z (some (sp.getD cfg.speedPos)) with
  | error e =>
    rw [hf] at h; simp only at h
    split at h
    · exact hs st h
    · simp at h
  | ok w =>
    rw [hf] at h; simp only [seq] at h
    rcases List.mem_append.mp h with h | h
    · rcases List.mem_append.mp h with h | h
      · split at h
        · exact hs st h
        · simp at h
      · exact plain_emit _ st h
    · rcases List.mem_append.mp h with h | h
      · exact plain_dwell cfg.longPause _ st h
      · exact plain_emit _ st h
theorem plain_uMove (cfg : Cfg) (u : Option Rat) (pause : Bool) : Plain (uMove cfg u pause) := by
  unfold uMove
  cases u with
  | none => intro cs st h; simp at h
  | some v =>
    cases pause
    · simpa using plain_instr [g1U v]
    · simpa using Plain.andThen (plain_instr [g1U v]) (plain_dwell cfg.longPause)


/-- the only loop a block emits: `REPEAT n_repeat { [DWELL] FARCALL wall_i; $ZCURR = $ZCURR + q; G1 Z$ZCURR }`, `q` the printed
`deltaz / neff` — exactly the shape `wall_loop_depths` is about -/
theorem loops_wallLoop (cfg : Cfg) (c : Col) (i : Nat) :
    Loops c c.nRep.toNat (fmt 6 (c.deltaz / cfg.neff)) (wallLoop cfg c i) := by
  intro cs herr st hst
  unfold wallLoop at herr hst
  generalize fmt 6 (c.deltaz / cfg.neff) = q at herr hst ⊢
  by_cases hn : c.nRep ≤ 0
  · simp [hn] at herr
  · simp only [hn, if_false] at herr hst
    simp only [List.mem_cons, List.mem_nil_iff, or_false] at hst
    rcases hst with rfl | rfl
    · right
      refine ⟨i, ?_⟩
      simp only [Res.andThen] at herr ⊢
      cases he : (farcallOp cfg (c.wall i) cs).err with
      | some e => rw [he] at herr; simp only at herr; rw [he] at herr; cases herr
      | none =>
        simp only [instrR, Res.ofOut, emit, List.map_cons, List.map_nil]
        unfold farcallOp at he ⊢
        split at he
        · simp at he
        · split at he
          · simp at he
          · rename_i h1 h2
            simp only [h1, h2, if_false, Res.ofOut, seq, dwell]
            cases cfg.shortPause with
            | none => left; simp [emit, wallLoopBody]
            | some t =>
              by_cases h0 : t = 0
              · left; simp [h0, emit, wallLoopBody]
              · right; exact ⟨rabs t, by simp [h0, emit, wallLoopBodyD, wallLoopBody]⟩
    · exact Or.inl ⟨_, rfl⟩

theorem loops_trenchBlock (cfg : Cfg) (c : Col) (nbox i : Nat) (xy : Rat × Rat) :
    Loops c c.nRep.toNat (fmt 6 (c.deltaz / cfg.neff)) (trenchBlock cfg c nbox i xy) := by
  unfold trenchBlock
  exact
    Loops.andThen (Loops.andThen (Loops.andThen (Loops.andThen (Loops.andThen (Loops.andThen (Loops.andThen (Loops.andThen
    (Loops.andThen (Loops.andThen (Loops.andThen (Loops.andThen (Loops.andThen (Loops.andThen (Loops.andThen (Loops.andThen
      (plain_comment true).loops (plain_load _ 2).loops) (plain_instr _).loops) (plain_shutter cfg false).loops)
      (plain_uMove cfg _ true).loops) (plain_moveTo cfg _ _ _ _).loops) (plain_instr _).loops) (plain_shutter cfg true).loops)
      (loops_wallLoop cfg c i)) (plain_remove _ 2).loops) (plain_shutter cfg false).loops) (plain_load _ 2).loops)
      (plain_instr _).loops) (plain_uMove cfg _ true).loops) (plain_shutter cfg true).loops) (plain_farcall cfg _).loops)
      (Loops.andThen (Loops.andThen (plain_shutter cfg false).loops (plain_uMove cfg _ false).loops) (plain_remove _ 2).loops)

theorem loops_blocksFrom (cfg : Cfg) (c : Col) (l : List (Nat × Nat × (Rat × Rat))) :
    Loops c c.nRep.toNat (fmt 6 (c.deltaz / cfg.neff)) (blocksFrom cfg c l) := by
  induction l with
  | nil => intro cs _ st h; simp [blocksFrom] at h
  | cons b l ih => obtain ⟨nbox, i, xy⟩ := b; exact Loops.andThen (loops_trenchBlock cfg c nbox i xy) ih

theorem plain_bedBlock (cfg : Cfg) (c : Col) (k : Nat) (xy : Rat × Rat) : Plain (bedBlock cfg c k xy) := by
  unfold bedBlock
  exact
    Plain.andThen (Plain.andThen (Plain.andThen (Plain.andThen (Plain.andThen (Plain.andThen (Plain.andThen (Plain.andThen
    (Plain.andThen (Plain.andThen
      (plain_comment true) (plain_shutter cfg false)) (plain_load _ 2)) (plain_instr _)) (plain_uMove cfg _ true))
      (plain_moveTo cfg _ _ _ _)) (plain_shutter cfg true)) (plain_farcall cfg _)) (plain_shutter cfg false)) (plain_uMove cfg _ false))
      (plain_remove _ 2)

theorem plain_bedsFrom (cfg : Cfg) (c : Col) (l : List (Nat × (Rat × Rat))) : Plain (bedsFrom cfg c l) := by
  induction l with
  | nil => intro cs st h; simp [bedsFrom] at h
  | cons b l ih => obtain ⟨k, xy⟩ := b; exact Plain.andThen (plain_bedBlock cfg c k xy) ih

/-- **every loop of the call file is a wall loop of the schedule**: whenever the body compiles without error, each of its
statements is a plain instruction or `REPEAT n_repeat { [DWELL] FARCALL trench<j>_wall; $ZCURR += fmt₆(deltaz / neff); G1 Z$ZCURR }`
for some trench `j` — the loop shape `wall_loop_depths` proves to realise the depth schedule; no other loop, no `FOR`, for every
column and configuration -/
theorem farcallBody_loops (cfg : Cfg) (c : Col) : Loops c c.nRep.toNat (fmt 6 (c.deltaz / cfg.neff)) (farcallBody cfg c) := by
  unfold farcallBody
  have hd : Loops c c.nRep.toNat (fmt 6 (c.deltaz / cfg.neff)) (fun cs : CS =>
      ({ pre := emit [.dvar ["zcurr"], .blank], cs := { cs with dvars := cs.dvars ++ ["zcurr"] } } : Res)) := by
    intro cs _ st h; simp at h
  exact Loops.andThen (Loops.andThen (Loops.andThen hd (loops_blocksFrom cfg c _)) (plain_bedsFrom cfg c _).loops) (plain_instr [.msg]).loops


/-- the recogniser the check runs on every loop of every real call file accepts exactly these bodies -/
theorem matchWallLoop_body (p : String) (q : Rat) : matchWallLoop (wallLoopBody p q) = some (none, p, q) := by
  simp [matchWallLoop, wallLoopBody, flattenStmts, flattenStmt]

theorem matchWallLoop_bodyD (t : Rat) (p : String) (q : Rat) : matchWallLoop (wallLoopBodyD t p q) = some (some t, p, q) := by
  simp [matchWallLoop, wallLoopBodyD, wallLoopBody, flattenStmts, flattenStmt]

/-! ### balance and dwell accounting of the call file (C03 / C12 for the trench programs) -/

/-- `session_ok` for a session around any body that keeps the compiler's bookkeeping (`ResOK`) -/
theorem sessionWith_ok (cfg : Cfg) (body : CS → Res) (hbody : ∀ cs, ResOK cs (body cs)) (hh : headerClean cfg.header = true) :
    cleanList (sessionWith cfg body).1 = true ∧ dwellOfList (sessionWith cfg body).1 = (sessionWith cfg body).2.dwellTotal := by
  have hhd : ∀ i ∈ cfg.header ++ [Instr.blank], i.isDelim = false ∧ instrDwell i = 0 := by
    intro i hi
    rcases List.mem_append.mp hi with h | h
    · have := (List.all_eq_true.mp hh) i h
      simp only [Bool.and_eq_true, Bool.not_eq_true', decide_eq_true_eq] at this
      exact ⟨this.1.1, this.1.2⟩
    · simp at h; subst h; simp [Instr.isDelim, instrDwell]
  have h0 : OutOK ({} : CS) (seq (seq (emit (cfg.header ++ [.blank]), ({} : CS)) (dwell (some 1))) fun cs => (emit [.blank], cs)) :=
    seq_ok (seq_ok (pure_ok _ _ (fun i hi => (hhd i hi).1) (fun i hi => (hhd i hi).2)) (dwell_ok _))
      (fun c => pure_ok c [.blank] (by simp [Instr.isDelim]) (by simp [instrDwell]))
  simp only [sessionWith]
  generalize hH : (seq (seq (emit (cfg.header ++ [.blank]), ({} : CS)) (dwell (some 1))) fun cs => (emit [.blank], cs)) = H at h0
  have h1 : OutOK ({} : CS) (if cfg.aeroAngle = 0 then H else seq H (enterRot cfg (some cfg.aeroAngle))) := by
    split
    · exact h0
    · exact seq_ok h0 (enterRot_ok cfg _)
  generalize (if cfg.aeroAngle = 0 then H else seq H (enterRot cfg (some cfg.aeroAngle))) = H1 at h1
  obtain ⟨r1, r2, r3, r4⟩ := hbody H1.2
  generalize body H1.2 = r at r1 r2 r3 r4
  have hx : OutOK r.cs (if cfg.aeroAngle = 0 then (([] : List Stmt), r.cs)
      else seq (exitRot cfg r.cs) fun cs => (emit [.blank], cs)) := by
    split
    · exact OutOK.nil _
    · exact seq_ok (exitRot_ok cfg _) (fun c => pure_ok c [.blank] (by simp [Instr.isDelim]) (by simp [instrDwell]))
  generalize (if cfg.aeroAngle = 0 then (([] : List Stmt), r.cs)
      else seq (exitRot cfg r.cs) fun cs => (emit [.blank], cs)) = X at hx
  have hg : OutOK X.2 (if cfg.home = true then
      ((moveTo cfg (some (-2)) (some 0) (some 0) none X.2).1.1, (moveTo cfg (some (-2)) (some 0) (some 0) none X.2).1.2)
      else ([], X.2)) := by
    split
    · exact moveTo_ok cfg _ _ _ _ X.2
    · exact OutOK.nil _
  generalize (if cfg.home = true then
      ((moveTo cfg (some (-2)) (some 0) (some 0) none X.2).1.1, (moveTo cfg (some (-2)) (some 0) (some 0) none X.2).1.2)
      else ([], X.2)) = Gm at hg
  obtain ⟨a1, a2⟩ := h1
  obtain ⟨x1, x2⟩ := hx
  obtain ⟨g1, g2⟩ := hg
  refine ⟨?_, ?_⟩
  · simp [cleanList_append, a1, r1, r2, x1, g1]
  · simp only [dwellOfList_append, a2, r3, r4, x2, g2]
    ring

theorem instrR_ok (is : List Instr) (h1 : ∀ i ∈ is, i.isDelim = false) (h2 : ∀ i ∈ is, instrDwell i = 0) (cs : CS) :
    ResOK cs (instrR is cs) := ResOK.ofOut (pure_ok cs is h1 h2)

theorem uMove_ok (cfg : Cfg) (u : Option Rat) (pause : Bool) (cs : CS) : ResOK cs (uMove cfg u pause cs) := by
  unfold uMove
  cases u with
  | none => exact ResOK.stop cs none
  | some v =>
    have hg : ∀ c, ResOK c (instrR [g1U v] c) := fun c =>
      instrR_ok _ (by intro i hi; simp at hi; subst hi; rfl) (by intro i hi; simp at hi; subst hi; rfl) c
    cases pause
    · exact hg cs
    · exact andThen_ok (hg cs) (fun c => ResOK.ofOut (dwell_ok cfg.longPause c))


theorem wallLoop_ok (cfg : Cfg) (c : Col) (i : Nat) (cs : CS) : ResOK cs (wallLoop cfg c i cs) := by
  unfold wallLoop
  generalize fmt 6 (c.deltaz / cfg.neff) = q
  by_cases hn : c.nRep ≤ 0
  · simp only [hn, if_true]; exact ResOK.stop cs _
  · simp only [hn, if_false]
    have hb : ResOK cs ((farcallOp cfg (c.wall i) cs).andThen (instrR [.incVar "zcurr" q, .g1 { zvar := some "ZCURR" }])) :=
      andThen_ok (farcallOp_ok cfg _ cs) (fun c' => instrR_ok _ (by intro j hj; simp at hj; rcases hj with rfl | rfl <;> rfl)
        (by intro j hj; simp at hj; rcases hj with rfl | rfl <;> rfl) c')
    generalize ((farcallOp cfg (c.wall i) cs).andThen (instrR [.incVar "zcurr" q, .g1 { zvar := some "ZCURR" }])) = r at hb ⊢
    obtain ⟨h1, h2, h3, h4⟩ := hb
    refine ⟨?_, h2, ?_, h4⟩
    · simp [cleanList, Stmt.clean, h1, Instr.isDelim]
    · simp only [dwellOfList, dwellOf]
      have := loop_dwell c.nRep (by omega) cs.dwellTotal r.cs.dwellTotal _ h3
      simpa using this

theorem trenchBlock_ok (cfg : Cfg) (c : Col) (nbox i : Nat) (xy : Rat × Rat) (cs : CS) : ResOK cs (trenchBlock cfg c nbox i xy cs) := by
  unfold trenchBlock
  have msg : ∀ c', ResOK c' (instrR [.msg] c') := fun c' =>
    instrR_ok _ (by intro j hj; simp at hj; subst hj; rfl) (by intro j hj; simp at hj; subst hj; rfl) c'
  have sh : ∀ on c', ResOK c' (shutterR cfg on c') := fun on c' => ResOK.ofOut (shutter_ok cfg on c')
  refine andThen_ok (andThen_ok (andThen_ok (andThen_ok (andThen_ok (andThen_ok (andThen_ok (andThen_ok (andThen_ok (andThen_ok
    (andThen_ok (andThen_ok (andThen_ok (andThen_ok (andThen_ok (andThen_ok (ResOK.ofOut (comment_ok true cs))
    (loadOp_ok _ 2)) msg) (sh false)) (uMove_ok cfg _ true)) (fun c' => moveRes_ok cfg _ _ _ _ c'))
    (fun c' => instrR_ok _ (by intro j hj; simp at hj; subst hj; rfl) (by intro j hj; simp at hj; subst hj; rfl) c')) (sh true))
    (wallLoop_ok cfg c i)) (removeOp_ok _ 2)) (sh false)) (loadOp_ok _ 2)) msg) (uMove_ok cfg _ true)) (sh true)) (farcallOp_ok cfg _))
    (fun c' => andThen_ok (andThen_ok (sh false c') (uMove_ok cfg _ false)) (removeOp_ok _ 2))

theorem bedBlock_ok (cfg : Cfg) (c : Col) (k : Nat) (xy : Rat × Rat) (cs : CS) : ResOK cs (bedBlock cfg c k xy cs) := by
  unfold bedBlock
  have msg : ∀ c', ResOK c' (instrR [.msg] c') := fun c' =>
    instrR_ok _ (by intro j hj; simp at hj; subst hj; rfl) (by intro j hj; simp at hj; subst hj; rfl) c'
  have sh : ∀ on c', ResOK c' (shutterR cfg on c') := fun on c' => ResOK.ofOut (shutter_ok cfg on c')
  exact andThen_ok (andThen_ok (andThen_ok (andThen_ok (andThen_ok (andThen_ok (andThen_ok (andThen_ok (andThen_ok (andThen_ok
    (ResOK.ofOut (comment_ok true cs)) (sh false)) (loadOp_ok _ 2)) msg) (uMove_ok cfg _ true)) (fun c' => moveRes_ok cfg _ _ _ _ c'))
    (sh true)) (farcallOp_ok cfg _)) (sh false)) (uMove_ok cfg _ false)) (removeOp_ok _ 2)

theorem blocksFrom_ok (cfg : Cfg) (c : Col) (l : List (Nat × Nat × (Rat × Rat))) : ∀ cs, ResOK cs (blocksFrom cfg c l cs) := by
  induction l with
  | nil => intro cs; exact ResOK.stop cs none
  | cons b l ih => obtain ⟨nbox, i, xy⟩ := b; intro cs; exact andThen_ok (trenchBlock_ok cfg c nbox i xy cs) ih

theorem bedsFrom_ok (cfg : Cfg) (c : Col) (l : List (Nat × (Rat × Rat))) : ∀ cs, ResOK cs (bedsFrom cfg c l cs) := by
  induction l with
  | nil => intro cs; exact ResOK.stop cs none
  | cons b l ih => obtain ⟨k, xy⟩ := b; intro cs; exact andThen_ok (bedBlock_ok cfg c k xy cs) ih

theorem farcallBody_ok (cfg : Cfg) (c : Col) (cs : CS) : ResOK cs (farcallBody cfg c cs) := by
  unfold farcallBody
  have hd : ResOK cs ({ pre := emit [.dvar ["zcurr"], .blank], cs := { cs with dvars := cs.dvars ++ ["zcurr"] } } : Res) := by
    refine ⟨by simp [cleanList], ?_, by simp [dwellOfList], ?_⟩
    · exact cleanList_emit _ (by intro i hi; simp at hi; rcases hi with rfl | rfl <;> rfl)
    · simp [dwellOfList_emit, instrDwell]
  exact andThen_ok (andThen_ok (andThen_ok hd (blocksFrom_ok cfg c _)) (bedsFrom_ok cfg c _))
    (fun c' => instrR_ok _ (by intro j hj; simp at hj; subst hj; rfl) (by intro j hj; simp at hj; subst hj; rfl) c')

/-- **C03 / C12 for the trench call files.** For every column and configuration with a clean header the call file the model compiles
has balanced, properly nested loops (it is read back by the controller's parser as exactly the statement tree that was emitted) and
the dwell time the compiler reports for it is the dwell time the controller executes — `REPEAT` bodies counted once per turn —
also when the compilation stops with an error half way. -/
theorem farcallFile_ok (cfg : Cfg) (c : Col) (hh : headerClean cfg.header = true) :
    structure? (flattenStmts (farcallFile cfg c).1) = some (farcallFile cfg c).1 ∧
      dwellOfList (farcallFile cfg c).1 = (farcallFile cfg c).2.dwellTotal := by
  obtain ⟨h1, h2⟩ := sessionWith_ok cfg (farcallBody cfg c) (farcallBody_ok cfg c) hh
  exact ⟨structure?_flattenStmts _ h1, h2⟩

/-! ### from the compiler to the depth of every wall pass: the block of the model file run by the tree controller -/

theorem execStmtsG_append (h : Handler) (a b : List Stmt) (σ : St) :
    (execStmtsG h (a ++ b) σ).1 = (execStmtsG h b (execStmtsG h a σ).1).1 := by
  induction a generalizing σ with
  | nil => simp [execStmtsG]
  | cons s a ih => simp only [List.cons_append, execStmtsG, ih]

/-- the exported tree holds, under the path the call file loads, an x / y-only leaf program of the name the call file calls -/
def InTree (t : Tree) (path name : String) : Prop :=
  progKey path = progKey name ∧
    ∃ id body, resolve t path = some id ∧ t.find id = some body ∧ progKey id = progKey name ∧ isLeafXY body = true

/-- controller-side invariant while a block of the call file runs: absolute mode, `$ZCURR` declared, (once loaded) the wall
program loaded and bound to its leaf file, the depth of the stage and the value of `$ZCURR` as far as they are known -/
structure Inv (t : Tree) (p : String) (ld : Bool) (zp zv : Option Rat) (σ : St) : Prop where
  abs : σ.absMode = true
  decl : σ.declared.contains "zcurr" = true
  ldd : ld = true → σ.loaded.contains (progKey p) = true ∧
    ∃ id body, lookupBound σ.bound (progKey p) = some id ∧ t.find id = some body ∧ progKey id = progKey p ∧ isLeafXY body = true
  posz : ∀ z, zp = some z → σ.pos.z = some z
  val : ∀ z, zv = some z → lookupVar σ.vals "zcurr" = some z

/-- a compile step whose output, run by the tree controller, takes `P`-states to `Q`-states whenever the step succeeds -/
def Sem (t : Tree) (fuel : Nat) (P Q : St → Prop) (f : CS → Res) : Prop :=
  ∀ cs, (f cs).err = none → ∀ σ, P σ → Q (execStmtsG (stepT t fuel) (f cs).out σ).1

theorem Sem.andThen {t : Tree} {fuel : Nat} {P Q R : St → Prop} {f g : CS → Res} (hf : Sem t fuel P Q f) (hg : Sem t fuel Q R g) :
    Sem t fuel P R (fun cs => (f cs).andThen g) := by
  intro cs herr σ hP
  simp only [Res.andThen] at herr ⊢
  cases he : (f cs).err with
  | some e => rw [he] at herr; simp only at herr; rw [he] at herr; cases herr
  | none =>
    rw [he] at herr
    simp only at herr ⊢
    rw [execStmtsG_append]
    exact hg (f cs).cs herr _ (hf cs he σ hP)

/-- instructions that leave the invariant alone: no x / y / z word, no variable, no program management -/
def calm : Instr → Bool
  | .blank | .comment _ | .msg | .pso _ _ | .dwell _ => true
  | .g1 w => w.x.isNone && w.y.isNone && w.z.isNone && w.zvar.isNone
  | _ => false

theorem calm_step (t : Tree) (fuel : Nat) (p : String) (ld : Bool) (zp zv : Option Rat) (σ : St) (i : Instr) (hc : calm i = true)
    (h : Inv t p ld zp zv σ) : Inv t p ld zp zv (stepT t fuel σ i).1 := by
  rw [stepT_flat t fuel σ i (by intro q hq; subst hq; simp [calm] at hc) (by intro k q hq; subst hq; simp [calm] at hc)]
  cases i with
  | g1 w =>
    simp only [calm, Bool.and_eq_true, Option.isNone_iff_eq_none] at hc
    obtain ⟨⟨⟨hx, hy⟩, hz⟩, hzv⟩ := hc
    refine ⟨h.abs, h.decl, h.ldd, ?_, h.val⟩
    intro z hz'
    simp only [stepFlat, step, zTarget, hzv, hz, hx, hy, axisTarget_none]
    exact h.posz z hz'
  | blank => exact ⟨h.abs, h.decl, h.ldd, h.posz, h.val⟩
  | comment _ => exact ⟨h.abs, h.decl, h.ldd, h.posz, h.val⟩
  | msg => exact ⟨h.abs, h.decl, h.ldd, h.posz, h.val⟩
  | pso _ _ => exact ⟨h.abs, h.decl, h.ldd, h.posz, h.val⟩
  | dwell _ => exact ⟨h.abs, h.decl, h.ldd, h.posz, h.val⟩
  | _ => simp [calm] at hc

theorem calm_emit (t : Tree) (fuel : Nat) (p : String) (ld : Bool) (zp zv : Option Rat) (is : List Instr)
    (hc : ∀ i ∈ is, calm i = true) : ∀ σ, Inv t p ld zp zv σ → Inv t p ld zp zv (execStmtsG (stepT t fuel) (emit is) σ).1 := by
  induction is with
  | nil => intro σ h; simpa [emit, execStmtsG] using h
  | cons i is ih =>
    intro σ h
    simp only [emit, List.map_cons, execStmtsG, execStmtG]
    exact ih (fun j hj => hc j (by simp [hj])) _ (calm_step t fuel p ld zp zv σ i (hc i (by simp)) h)


theorem sem_calm {t : Tree} {fuel : Nat} {p : String} {ld : Bool} {zp zv : Option Rat} (f : CS → Res)
    (h : ∀ cs, ∃ is, (f cs).out = emit is ∧ ∀ i ∈ is, calm i = true) :
    Sem t fuel (Inv t p ld zp zv) (Inv t p ld zp zv) f := by
  intro cs _ σ hP
  obtain ⟨is, he, hc⟩ := h cs
  rw [he]
  exact calm_emit t fuel p ld zp zv is hc σ hP

theorem sem_comment {t : Tree} {fuel : Nat} {p : String} {ld : Bool} {zp zv : Option Rat} (b : Bool) :
    Sem t fuel (Inv t p ld zp zv) (Inv t p ld zp zv) (fun cs => Res.ofOut (comment b cs)) :=
  sem_calm _ (fun cs => by
    unfold comment; cases b
    · exact ⟨[.blank], rfl, by intro i hi; simp at hi; subst hi; rfl⟩
    · exact ⟨[.blank, .comment "; user comment"], rfl, by intro i hi; simp at hi; rcases hi with rfl | rfl <;> rfl⟩)

theorem sem_msg {t : Tree} {fuel : Nat} {p : String} {ld : Bool} {zp zv : Option Rat} :
    Sem t fuel (Inv t p ld zp zv) (Inv t p ld zp zv) (instrR [.msg]) :=
  sem_calm _ (fun cs => ⟨[.msg], rfl, by intro i hi; simp at hi; subst hi; rfl⟩)

theorem sem_shutter {t : Tree} {fuel : Nat} {p : String} {ld : Bool} {zp zv : Option Rat} (cfg : Cfg) (on : Bool) :
    Sem t fuel (Inv t p ld zp zv) (Inv t p ld zp zv) (shutterR cfg on) :=
  sem_calm _ (fun cs => by
    unfold shutterR shutter
    split
    · exact ⟨[.pso cfg.psoAxis true], rfl, by intro i hi; simp at hi; subst hi; rfl⟩
    · split
      · exact ⟨[.pso cfg.psoAxis false], rfl, by intro i hi; simp at hi; subst hi; rfl⟩
      · exact ⟨[], rfl, by intro i hi; simp at hi⟩)

theorem sem_dwell {t : Tree} {fuel : Nat} {p : String} {ld : Bool} {zp zv : Option Rat} (q : Option Rat) :
    Sem t fuel (Inv t p ld zp zv) (Inv t p ld zp zv) (dwellR q) :=
  sem_calm _ (fun cs => by
    unfold dwellR dwell
    cases q with
    | none => exact ⟨[], rfl, by intro i hi; simp at hi⟩
    | some v =>
      by_cases h0 : v = 0
      · simp only [h0, if_true]; exact ⟨[], rfl, by intro i hi; simp at hi⟩
      · simp only [h0, if_false]; exact ⟨[.dwell (rabs v)], rfl, by intro i hi; simp at hi; subst hi; rfl⟩)

theorem sem_uMove {t : Tree} {fuel : Nat} {p : String} {ld : Bool} {zp zv : Option Rat} (cfg : Cfg) (u : Option Rat) (pause : Bool) :
    Sem t fuel (Inv t p ld zp zv) (Inv t p ld zp zv) (uMove cfg u pause) := by
  unfold uMove
  cases u with
  | none => intro cs _ σ hP; simpa [execStmtsG] using hP
  | some v =>
    have hg : Sem t fuel (Inv t p ld zp zv) (Inv t p ld zp zv) (instrR [g1U v]) :=
      sem_calm _ (fun cs => ⟨[g1U v], rfl, by intro i hi; simp at hi; subst hi; simp [g1U, calm]⟩)
    cases pause
    · simpa using hg
    · simpa using Sem.andThen hg (sem_dwell cfg.longPause)

/-- `PROGRAM LOAD`: the tree controller binds the program to its file -/
theorem sem_load {t : Tree} {f : Nat} {p path : String} {zp zv : Option Rat} (hin : InTree t path p) :
    Sem t (f + 1) (Inv t p false zp zv) (Inv t p true zp zv) (loadOp path 2) := by
  intro cs herr σ hP
  unfold loadOp at herr ⊢
  split
  · rename_i h; simp [h] at herr
  · obtain ⟨hk, id, body, hres, hfind, hkey, hleaf⟩ := hin
    simp only [emit, List.map_cons, List.map_nil, execStmtsG, execStmtG, stepT, stepFlat, step, hres, hk]
    refine ⟨hP.abs, hP.decl, ?_, hP.posz, hP.val⟩
    intro _
    refine ⟨?_, id, body, ?_, hfind, hkey, hleaf⟩
    · split <;> simp_all
    · simp [lookupBound]

/-- `move_to` with a Z word: the stage stands at the printed depth -/
theorem sem_moveTo {t : Tree} {fuel : Nat} {p : String} {ld : Bool} {zp zv : Option Rat} (cfg : Cfg) (x y : Option Rat) (z : Rat)
    (sp : Option Rat) :
    Sem t fuel (Inv t p ld zp zv) (Inv t p ld (some (fmt cfg.digits z)) zv) (moveToR cfg x y (some z) sp) := by
  intro cs herr σ hP
  unfold moveToR moveTo at herr ⊢
  cases hf : formatArgs cfg.digits x y (some z) (some (sp.getD cfg.speedPos)) with
  | error e => rw [hf] at herr; simp at herr
  | ok w =>
    simp only [seq]
    have hwz : w.z = some (fmt cfg.digits z) ∧ w.zvar = none := by
      unfold formatArgs at hf
      simp only at hf
      split at hf
      · cases hf
      · injection hf with hf; subst hf; exact ⟨rfl, rfl⟩
    -- closing part: calm
    have h1 : Inv t p ld zp zv (execStmtsG (stepT t fuel) (closeIfOpen cfg cs).1 σ).1 := by
      have := sem_shutter (t := t) (fuel := fuel) (p := p) (ld := ld) (zp := zp) (zv := zv) cfg false cs rfl σ hP
      unfold closeIfOpen
      split
      · simpa [shutterR, Res.ofOut] using this
      · simpa [execStmtsG] using hP
    rw [execStmtsG_append, execStmtsG_append, execStmtsG_append]
    set σ1 := (execStmtsG (stepT t fuel) (closeIfOpen cfg cs).1 σ).1
    -- the G1
    have h2 : Inv t p ld (some (fmt cfg.digits z)) zv (execStmtsG (stepT t fuel) (emit [Instr.g1 w]) σ1).1 := by
      simp only [emit, List.map_cons, List.map_nil, execStmtsG, execStmtG]
      rw [stepT_flat t fuel σ1 _ (by intro q hq; cases hq) (by intro k q hq; cases hq)]
      refine ⟨h1.abs, h1.decl, h1.ldd, ?_, h1.val⟩
      intro z' hz'
      injection hz' with hz'
      simp only [stepFlat, step, zTarget, hwz.2, hwz.1, axisTarget, h1.abs, if_true, hz']
    have h3 := sem_dwell (t := t) (fuel := fuel) (p := p) (ld := ld) (zp := some (fmt cfg.digits z)) (zv := zv) cfg.longPause
      (closeIfOpen cfg cs).2 rfl _ h2
    simp only [dwellR, Res.ofOut] at h3
    exact calm_emit t fuel p ld _ zv [.blank] (by intro i hi; simp at hi; subst hi; rfl) _ h3

theorem sem_setVar {t : Tree} {fuel : Nat} {p : String} {ld : Bool} {zp zv : Option Rat} (q : Rat) :
    Sem t fuel (Inv t p ld zp zv) (Inv t p ld zp (some q)) (instrR [.setVar "zcurr" q]) := by
  intro cs _ σ hP
  simp only [instrR, Res.ofOut, emit, List.map_cons, List.map_nil, execStmtsG, execStmtG]
  rw [stepT_flat t fuel σ _ (by intro q hq; cases hq) (by intro k q hq; cases hq)]
  simp only [stepFlat, step, hP.decl, if_true]
  refine ⟨hP.abs, hP.decl, hP.ldd, hP.posz, ?_⟩
  intro z hz; injection hz with hz; subst hz
  exact lookup_setVal _ _ _


/-- what a successful wall loop emits: one `REPEAT n_repeat` over the wall-loop body of *this* trench, and a blank line -/
theorem wallLoop_out (cfg : Cfg) (c : Col) (i : Nat) (cs : CS) (herr : (wallLoop cfg c i cs).err = none) :
    (wallLoop cfg c i cs).out = [Stmt.rep c.nRep.toNat (wallLoopBody (c.wall i) (fmt 6 (c.deltaz / cfg.neff))), Stmt.atom .blank] ∨
    ∃ d, (wallLoop cfg c i cs).out =
      [Stmt.rep c.nRep.toNat (wallLoopBodyD d (c.wall i) (fmt 6 (c.deltaz / cfg.neff))), Stmt.atom .blank] := by
  unfold wallLoop at herr ⊢
  generalize fmt 6 (c.deltaz / cfg.neff) = q at herr ⊢
  by_cases hn : c.nRep ≤ 0
  · simp [hn] at herr
  · simp only [hn, if_false] at herr ⊢
    simp only [Res.andThen] at herr ⊢
    cases he : (farcallOp cfg (c.wall i) cs).err with
    | some e => rw [he] at herr; simp only at herr; rw [he] at herr; cases herr
    | none =>
      simp only [instrR, Res.ofOut, emit, List.map_cons, List.map_nil]
      unfold farcallOp at he ⊢
      split at he
      · simp at he
      · split at he
        · simp at he
        · rename_i h1 h2
          simp only [h1, h2, if_false, Res.ofOut, seq, dwell]
          cases cfg.shortPause with
          | none => left; simp [emit, wallLoopBody]
          | some t =>
            by_cases h0 : t = 0
            · left; simp [h0, emit, wallLoopBody]
            · right; exact ⟨rabs t, by simp [h0, emit, wallLoopBodyD, wallLoopBody]⟩

theorem ready_of_inv {t : Tree} {p : String} {z : Rat} {σ : St} (h : Inv t p true (some z) (some z) σ) : Ready t p z σ :=
  ⟨h.abs, (h.ldd rfl).1, (h.ldd rfl).2, h.val z rfl, h.posz z rfl⟩

theorem ready_blank (t : Tree) (f : Nat) (p : String) (z : Rat) (σ : St) (h : Ready t p z σ) :
    Ready t p z (stepT t (f + 1) σ .blank).1 := by
  rw [stepT_flat t (f + 1) σ _ (by intro p hp; cases hp) (by intro k p hp; cases hp)]
  exact ⟨h.abs, h.loaded, h.bound, h.val, h.posz⟩

/-- **the wall loop of the model file, run by the tree controller**: entered with the wall program loaded and bound, the stage
and `$ZCURR` at depth `z`, its `k`-th turn (for every `k` up to `n_repeat`) leaves the controller ready at `z + k · q`,
`q = fmt₆(deltaz / neff)` — the wall pass `k` is traced exactly there -/
theorem sem_wallLoop {t : Tree} {f : Nat} (cfg : Cfg) (c : Col) (i : Nat) (z : Rat) :
    Sem t (f + 1) (Inv t (c.wall i) true (some z) (some z))
      (Ready t (c.wall i) (z + c.nRep.toNat * fmt 6 (c.deltaz / cfg.neff))) (wallLoop cfg c i) := by
  intro cs herr σ hP
  have hr := ready_of_inv hP
  rcases wallLoop_out cfg c i cs herr with ho | ⟨d, ho⟩
  · rw [ho]
    simp only [execStmtsG, execStmtG]
    exact ready_blank t f _ _ _ (execRepG_wall t f _ _ _ z σ hr)
  · rw [ho]
    simp only [execStmtsG, execStmtG]
    exact ready_blank t f _ _ _ (execRepG_wallD t f d _ _ _ z σ hr)

/-- the part of a block up to the opening of the shutter before the wall loop -/
def wallPrefix (cfg : Cfg) (c : Col) (nbox i : Nat) (xy : Rat × Rat) (cs : CS) : Res :=
  let p := transform cfg xy.1 xy.2 ((nbox : Rat) * c.hBox + c.zOff)
  (((((((Res.ofOut (comment true cs)).andThen
    (loadOp (inCol c (c.wall i)) 2)).andThen
    (instrR [.msg])).andThen
    (shutterR cfg false)).andThen
    (uMove cfg (c.u.map (·.1)) true)).andThen
    (moveToR cfg (some p.1) (some p.2.1) (some p.2.2) (some c.speedClosed))).andThen
    (instrR [.setVar "zcurr" (fmt 6 p.2.2)])).andThen
    (shutterR cfg true)

/-- a block of the call file **is** its prefix, the wall loop, and the rest (the floor part), in this order -/
theorem trenchBlock_split (cfg : Cfg) (c : Col) (nbox i : Nat) (xy : Rat × Rat) (cs : CS) :
    trenchBlock cfg c nbox i xy cs =
      ((((((((((wallPrefix cfg c nbox i xy cs).andThen (wallLoop cfg c i)).andThen (removeOp (c.wall i) 2)).andThen
        (shutterR cfg false)).andThen (loadOp (inCol c (c.floor i)) 2)).andThen (instrR [.msg])).andThen
        (uMove cfg (c.u.map (·.2)) true)).andThen (shutterR cfg true)).andThen (farcallOp cfg (c.floor i))).andThen fun cs =>
        (((shutterR cfg false cs).andThen (uMove cfg (c.u.map (·.1)) false)).andThen (removeOp (c.floor i) 2))) := rfl

/-- **from the compiler to the depth of every wall pass.** Take any configuration printing six decimals, any column, level `L`
and trench `i`, any exported tree that holds — under the path the call file loads — an x / y-only leaf program for the wall of
that trench. Whenever the block prefix compiles, the tree controller, started in absolute mode with `$ZCURR` declared (the
`DVAR` the file begins with), reaches the wall loop *ready* at `z₀ = fmt₆(transform(…, L·h_box + z_off).z)`: wall program
loaded and bound to its leaf file, stage at `z₀`, `$ZCURR = z₀`. -/
theorem wallPrefix_inv {t : Tree} {f : Nat} (cfg : Cfg) (c : Col) (nbox i : Nat) (xy : Rat × Rat) (hd : cfg.digits = 6)
    (hin : InTree t (inCol c (c.wall i)) (c.wall i)) :
    Sem t (f + 1) (Inv t (c.wall i) false none none)
      (Inv t (c.wall i) true (some (fmt 6 (transform cfg xy.1 xy.2 ((nbox : Rat) * c.hBox + c.zOff)).2.2))
        (some (fmt 6 (transform cfg xy.1 xy.2 ((nbox : Rat) * c.hBox + c.zOff)).2.2)))
      (wallPrefix cfg c nbox i xy) := by
  unfold wallPrefix
  have hm := sem_moveTo (t := t) (fuel := f + 1) (p := c.wall i) (ld := true) (zp := none) (zv := none) cfg
    (some (transform cfg xy.1 xy.2 ((nbox : Rat) * c.hBox + c.zOff)).1) (some (transform cfg xy.1 xy.2 ((nbox : Rat) * c.hBox + c.zOff)).2.1)
    (transform cfg xy.1 xy.2 ((nbox : Rat) * c.hBox + c.zOff)).2.2 (some c.speedClosed)
  rw [hd] at hm
  have h := Sem.andThen (Sem.andThen (Sem.andThen (Sem.andThen (Sem.andThen (Sem.andThen (Sem.andThen
    (sem_comment (t := t) (fuel := f + 1) (p := c.wall i) (ld := false) (zp := none) (zv := none) true)
    (sem_load (f := f) hin)) sem_msg) (sem_shutter cfg false)) (sem_uMove cfg (c.u.map (·.1)) true)) hm)
    (sem_setVar (fmt 6 (transform cfg xy.1 xy.2 ((nbox : Rat) * c.hBox + c.zOff)).2.2))) (sem_shutter cfg true)
  exact h

theorem wallPrefix_ready {t : Tree} {f : Nat} (cfg : Cfg) (c : Col) (nbox i : Nat) (xy : Rat × Rat) (hd : cfg.digits = 6)
    (hin : InTree t (inCol c (c.wall i)) (c.wall i)) :
    Sem t (f + 1) (Inv t (c.wall i) false none none)
      (Ready t (c.wall i) (fmt 6 (transform cfg xy.1 xy.2 ((nbox : Rat) * c.hBox + c.zOff)).2.2))
      (wallPrefix cfg c nbox i xy) :=
  fun cs herr σ hP => ready_of_inv (wallPrefix_inv cfg c nbox i xy hd hin cs herr σ hP)

/-- the block up to and including the wall loop: after the loop the controller is ready at `z₀ + n_repeat · q` -/
theorem wallPart_depth {t : Tree} {f : Nat} (cfg : Cfg) (c : Col) (nbox i : Nat) (xy : Rat × Rat) (hd : cfg.digits = 6)
    (hin : InTree t (inCol c (c.wall i)) (c.wall i)) :
    Sem t (f + 1) (Inv t (c.wall i) false none none)
      (Ready t (c.wall i) (fmt 6 (transform cfg xy.1 xy.2 ((nbox : Rat) * c.hBox + c.zOff)).2.2 +
        c.nRep.toNat * fmt 6 (c.deltaz / cfg.neff)))
      (fun cs => (wallPrefix cfg c nbox i xy cs).andThen (wallLoop cfg c i)) := by
  exact Sem.andThen (wallPrefix_inv (t := t) (f := f) cfg c nbox i xy hd hin) (sem_wallLoop cfg c i _)


/-- the z the compiler prints for a level is the glass depth divided by the index ratio -/
theorem transform_z (cfg : Cfg) (x y z : Rat) : (transform cfg x y z).2.2 = z / cfg.neff := by
  simp [transform, transformK]; ring

/-- printing the start and the increment with six decimals moves pass `k` by at most `(k + 1)` half-units of the sixth decimal -/
theorem depth_rounding (a b : Rat) (k : Nat) : |fmt 6 a + k * fmt 6 b - (a + k * b)| ≤ (k + 1) / (2 * pow10 6) := by
  have h1 := fmt_error 6 a
  have h2 := fmt_error 6 b
  have e : fmt 6 a + k * fmt 6 b - (a + k * b) = (fmt 6 a - a) + k * (fmt 6 b - b) := by ring
  rw [e]
  calc |(fmt 6 a - a) + (k : Rat) * (fmt 6 b - b)| ≤ |fmt 6 a - a| + |(k : Rat) * (fmt 6 b - b)| := abs_add_le _ _
    _ = |fmt 6 a - a| + (k : Rat) * |fmt 6 b - b| := by rw [abs_mul, abs_of_nonneg (Nat.cast_nonneg k : (0 : Rat) ≤ (k : Rat))]
    _ ≤ 1 / (2 * pow10 6) + (k : Rat) * (1 / (2 * pow10 6)) := by
        have hk : (0 : Rat) ≤ k := Nat.cast_nonneg k
        nlinarith
    _ = (k + 1) / (2 * pow10 6) := by ring

/-- **pass `k` of level `L` is traced within `(k + 1) · 5·10⁻⁷` mm (stage units) of the schedule depth `passZ L k / neff`** — the
depth the controller is ready at after `k` turns of the model file's wall loop (`wallPrefix_inv` + `execRepG_wall`) against the
exact schedule of `pass_first` / `pass_step` / `pass_last` -/
theorem pass_depth_error (cfg : Cfg) (c : Col) (L k : Nat) (x y : Rat) :
    |fmt 6 (transform cfg x y ((L : Rat) * c.hBox + c.zOff)).2.2 + k * fmt 6 (c.deltaz / cfg.neff)
        - passZ c.hBox c.zOff c.deltaz L k / cfg.neff| ≤ (k + 1) / (2 * pow10 6) := by
  rw [transform_z]
  have e : passZ c.hBox c.zOff c.deltaz L k / cfg.neff = ((L : Rat) * c.hBox + c.zOff) / cfg.neff + k * (c.deltaz / cfg.neff) := by
    unfold passZ; ring
  rw [e]
  exact depth_rounding _ _ k


/-! non-vacuity: a tree with the wall file of trench 1 of column 1 under `trenchCol001/`, a column with base folder `lab`; the
hypothesis `InTree` of `wallPrefix_inv` holds, and the initial controller state after the `DVAR` line satisfies the invariant -/
private def demoCol : Col := { index := 0, nboxz := 2, nRep := 5, baseFolder := "lab", inits := [(1, 2)], hBox := 3/40, zOff := -1/50,
                               deltaz := 3/2000, speedClosed := 5, u := none }
private def demoTree : Tree := [("trenchCol001/trench001_WALL.pgm", emit [.g1 { x := some 1, y := some 2, f := some 4 }, .g1 { x := some 1, y := some 3 }])]

example : InTree demoTree (inCol demoCol (demoCol.wall 0)) (demoCol.wall 0) :=
  ⟨by decide +kernel, "trenchCol001/trench001_WALL.pgm",
    emit [.g1 { x := some 1, y := some 2, f := some 4 }, .g1 { x := some 1, y := some 3 }],
    by decide +kernel, rfl, by decide +kernel, by decide +kernel⟩

example : Inv demoTree (demoCol.wall 0) false none none ({ declared := ["zcurr"] } : St) :=
  { abs := rfl, decl := (by decide), ldd := fun h => (by cases h), posz := fun z h => (by cases h), val := fun z h => (by cases h) }

/-! ### the floor part of a block: the floor is cut where the wall loop ends -/

/-- invariant for the floor part of a block: absolute mode, (once loaded) the floor program loaded and bound to its x / y-only
leaf file, the stage at depth `z` -/
structure InvF (t : Tree) (p : String) (ld : Bool) (z : Rat) (σ : St) : Prop where
  abs : σ.absMode = true
  ldd : ld = true → σ.loaded.contains (progKey p) = true ∧
    ∃ id body, lookupBound σ.bound (progKey p) = some id ∧ t.find id = some body ∧ progKey id = progKey p ∧ isLeafXY body = true
  posz : σ.pos.z = some z

theorem invF_of_ready {t : Tree} {pw pf : String} {z : Rat} {σ : St} (h : Ready t pw z σ) : InvF t pf false z σ :=
  ⟨h.abs, fun h' => (by cases h'), h.posz⟩

theorem calmF_step (t : Tree) (fuel : Nat) (p : String) (ld : Bool) (z : Rat) (σ : St) (i : Instr) (hc : calm i = true)
    (h : InvF t p ld z σ) : InvF t p ld z (stepT t fuel σ i).1 := by
  rw [stepT_flat t fuel σ i (by intro q hq; subst hq; simp [calm] at hc) (by intro k q hq; subst hq; simp [calm] at hc)]
  cases i with
  | g1 w =>
    simp only [calm, Bool.and_eq_true, Option.isNone_iff_eq_none] at hc
    obtain ⟨⟨⟨hx, hy⟩, hz⟩, hzv⟩ := hc
    refine ⟨h.abs, h.ldd, ?_⟩
    simp only [stepFlat, step, zTarget, hzv, hz, hx, hy, axisTarget_none]
    exact h.posz
  | blank => exact ⟨h.abs, h.ldd, h.posz⟩
  | comment _ => exact ⟨h.abs, h.ldd, h.posz⟩
  | msg => exact ⟨h.abs, h.ldd, h.posz⟩
  | pso _ _ => exact ⟨h.abs, h.ldd, h.posz⟩
  | dwell _ => exact ⟨h.abs, h.ldd, h.posz⟩
  | _ => simp [calm] at hc

theorem calmF_emit (t : Tree) (fuel : Nat) (p : String) (ld : Bool) (z : Rat) (is : List Instr)
    (hc : ∀ i ∈ is, calm i = true) : ∀ σ, InvF t p ld z σ → InvF t p ld z (execStmtsG (stepT t fuel) (emit is) σ).1 := by
  induction is with
  | nil => intro σ h; simpa [emit, execStmtsG] using h
  | cons i is ih =>
    intro σ h
    simp only [emit, List.map_cons, execStmtsG, execStmtG]
    exact ih (fun j hj => hc j (by simp [hj])) _ (calmF_step t fuel p ld z σ i (hc i (by simp)) h)

theorem semF_calm {t : Tree} {fuel : Nat} {p : String} {ld : Bool} {z : Rat} (f : CS → Res)
    (h : ∀ cs, ∃ is, (f cs).out = emit is ∧ ∀ i ∈ is, calm i = true) :
    Sem t fuel (InvF t p ld z) (InvF t p ld z) f := by
  intro cs _ σ hP
  obtain ⟨is, he, hc⟩ := h cs
  rw [he]
  exact calmF_emit t fuel p ld z is hc σ hP

theorem semF_msg {t : Tree} {fuel : Nat} {p : String} {ld : Bool} {z : Rat} :
    Sem t fuel (InvF t p ld z) (InvF t p ld z) (instrR [.msg]) :=
  semF_calm _ (fun cs => ⟨[.msg], rfl, by intro i hi; simp at hi; subst hi; rfl⟩)

theorem semF_shutter {t : Tree} {fuel : Nat} {p : String} {ld : Bool} {z : Rat} (cfg : Cfg) (on : Bool) :
    Sem t fuel (InvF t p ld z) (InvF t p ld z) (shutterR cfg on) :=
  semF_calm _ (fun cs => by
    unfold shutterR shutter
    split
    · exact ⟨[.pso cfg.psoAxis true], rfl, by intro i hi; simp at hi; subst hi; rfl⟩
    · split
      · exact ⟨[.pso cfg.psoAxis false], rfl, by intro i hi; simp at hi; subst hi; rfl⟩
      · exact ⟨[], rfl, by intro i hi; simp at hi⟩)

theorem semF_dwell {t : Tree} {fuel : Nat} {p : String} {ld : Bool} {z : Rat} (q : Option Rat) :
    Sem t fuel (InvF t p ld z) (InvF t p ld z) (dwellR q) :=
  semF_calm _ (fun cs => by
    unfold dwellR dwell
    cases q with
    | none => exact ⟨[], rfl, by intro i hi; simp at hi⟩
    | some v =>
      by_cases h0 : v = 0
      · simp only [h0, if_true]; exact ⟨[], rfl, by intro i hi; simp at hi⟩
      · simp only [h0, if_false]; exact ⟨[.dwell (rabs v)], rfl, by intro i hi; simp at hi; subst hi; rfl⟩)

theorem semF_uMove {t : Tree} {fuel : Nat} {p : String} {ld : Bool} {z : Rat} (cfg : Cfg) (u : Option Rat) (pause : Bool) :
    Sem t fuel (InvF t p ld z) (InvF t p ld z) (uMove cfg u pause) := by
  unfold uMove
  cases u with
  | none => intro cs _ σ hP; simpa [execStmtsG] using hP
  | some v =>
    have hg : Sem t fuel (InvF t p ld z) (InvF t p ld z) (instrR [g1U v]) :=
      semF_calm _ (fun cs => ⟨[g1U v], rfl, by intro i hi; simp at hi; subst hi; simp [g1U, calm]⟩)
    cases pause
    · simpa using hg
    · simpa using Sem.andThen hg (semF_dwell cfg.longPause)

/-- `REMOVEPROGRAM` (with the `PROGRAM STOP` / `WAIT` lines before it) does not move the stage -/
theorem semF_remove {t : Tree} {fuel : Nat} {p : String} {ld : Bool} {z : Rat} (name : String) (task : Nat) :
    Sem t fuel (InvF t p ld z) (InvF t p false z) (removeOp name task) := by
  intro cs herr σ hP
  have hdrop : InvF t p false z σ := ⟨hP.abs, fun h' => (by cases h'), hP.posz⟩
  unfold removeOp at herr ⊢
  split
  · simpa [execStmtsG] using hdrop
  · split
    · simpa [execStmtsG] using hdrop
    · simp only [emit, List.map_cons, List.map_nil, execStmtsG, execStmtG]
      rw [stepT_flat t fuel σ _ (by intro q hq; cases hq) (by intro k q hq; cases hq)]
      rw [stepT_flat t fuel _ _ (by intro q hq; cases hq) (by intro k q hq; cases hq)]
      rw [stepT_flat t fuel _ _ (by intro q hq; cases hq) (by intro k q hq; cases hq)]
      simp only [stepFlat, step]
      by_cases hc : σ.loaded.contains (progKey (posixName name)) = true
      · simp only [hc, if_true]; exact ⟨hP.abs, fun h' => (by cases h'), hP.posz⟩
      · simp only [hc]; exact ⟨hP.abs, fun h' => (by cases h'), hP.posz⟩

theorem semF_load {t : Tree} {f : Nat} {p path : String} {z : Rat} (hin : InTree t path p) :
    Sem t (f + 1) (InvF t p false z) (InvF t p true z) (loadOp path 2) := by
  intro cs herr σ hP
  unfold loadOp at herr ⊢
  split
  · rename_i h; simp [h] at herr
  · obtain ⟨hk, id, body, hres, hfind, hkey, hleaf⟩ := hin
    simp only [emit, List.map_cons, List.map_nil, execStmtsG, execStmtG, stepT, stepFlat, step, hres, hk]
    refine ⟨hP.abs, ?_, hP.posz⟩
    intro _
    refine ⟨?_, id, body, ?_, hfind, hkey, hleaf⟩
    · split <;> simp_all
    · simp [lookupBound]

/-- the call of a loaded, bound x / y-only program leaves mode, bindings and depth alone: the floor is cut at the depth the stage
has when it is called -/
theorem semF_farcall {t : Tree} {f : Nat} {p : String} {z : Rat} (cfg : Cfg) :
    Sem t (f + 1) (InvF t p true z) (InvF t p true z) (farcallOp cfg p) := by
  intro cs herr σ hP
  unfold farcallOp at herr ⊢
  split
  · rename_i h; simp [h] at herr
  · split
    · simpa [execStmtsG] using hP
    · simp only [Res.ofOut, seq]
      rw [execStmtsG_append]
      have h1 := semF_dwell (t := t) (fuel := f + 1) (p := p) (ld := true) (z := z) cfg.shortPause cs rfl σ hP
      simp only [dwellR, Res.ofOut] at h1
      set σ1 := (execStmtsG (stepT t (f + 1)) (dwell cfg.shortPause cs).1 σ).1
      obtain ⟨hl, id, body, hb, hfind, hkey, hleaf⟩ := h1.ldd rfl
      simp only [emit, List.map_cons, List.map_nil, execStmtsG, execStmtG, stepT, hl, if_true, hb, hfind, Option.bind_some,
        Option.map_some, hkey]
      have hfr := leafXY_frame (stepT t f) (fun σ w => stepT_flat t f σ _ (by intro q hq; cases hq) (by intro k q hq; cases hq))
        (fun σ => stepT_flat t f σ _ (by intro q hq; cases hq) (by intro k q hq; cases hq)) body hleaf σ1
      have e1 : (execStmtsG (stepT t f) body σ1).1.absMode = σ1.absMode := congrArg Frame.absMode hfr
      have e2 : (execStmtsG (stepT t f) body σ1).1.loaded = σ1.loaded := congrArg Frame.loaded hfr
      have e3 : (execStmtsG (stepT t f) body σ1).1.bound = σ1.bound := congrArg Frame.bound hfr
      have e4 : (execStmtsG (stepT t f) body σ1).1.pos.z = σ1.pos.z := congrArg Frame.z hfr
      exact ⟨by rw [e1]; exact h1.abs, fun _ => ⟨by rw [e2]; exact hl, id, body, by rw [e3]; exact hb, hfind, hkey, hleaf⟩,
        by rw [e4]; exact h1.posz⟩


/-- from the end of the wall loop to the floor call -/
def floorPrefix (cfg : Cfg) (c : Col) (i : Nat) (cs : CS) : Res :=
  (((((removeOp (c.wall i) 2 cs).andThen (shutterR cfg false)).andThen (loadOp (inCol c (c.floor i)) 2)).andThen
    (instrR [.msg])).andThen (uMove cfg (c.u.map (·.2)) true)).andThen (shutterR cfg true)

/-- **the floor is cut at the depth the wall loop ends at**: from the ready state after the wall loop (depth `z`) the floor
prefix — unload the wall program, close, load the floor program, message, `G1 U`, open — brings the controller, without any
change of depth, to the state in which the floor program is loaded and bound to its x / y-only leaf file -/
theorem floorPrefix_at_depth {t : Tree} {f : Nat} (cfg : Cfg) (c : Col) (i : Nat) (z : Rat)
    (hin : InTree t (inCol c (c.floor i)) (c.floor i)) :
    Sem t (f + 1) (Ready t (c.wall i) z) (InvF t (c.floor i) true z) (floorPrefix cfg c i) := by
  have h := Sem.andThen (Sem.andThen (Sem.andThen (Sem.andThen (Sem.andThen
    (semF_remove (t := t) (fuel := f + 1) (p := c.floor i) (ld := false) (z := z) (c.wall i) 2)
    (semF_shutter cfg false)) (semF_load (f := f) hin)) semF_msg) (semF_uMove cfg (c.u.map (·.2)) true)) (semF_shutter cfg true)
  intro cs herr σ hP
  exact h cs herr σ (invF_of_ready hP)

/-- **a whole block, compiled and run.** For six-digit output, any column, level, trench and any tree holding x / y-only leaves for
the wall and the floor of that trench under the loaded paths: whenever the block compiles, the tree controller started in absolute
mode with `$ZCURR` declared traces the wall from `z₀` upwards in steps of `q` (`wallPart_depth`), calls the floor program at
`z₀ + n_repeat · q` and ends the block at that depth with both programs unloaded-or-not-needed — no instruction of the block moves
the stage in z except the `move_to` to `z₀` and the `G1 Z$ZCURR` of the wall loop. -/
theorem trenchBlock_depths {t : Tree} {f : Nat} (cfg : Cfg) (c : Col) (nbox i : Nat) (xy : Rat × Rat) (hd : cfg.digits = 6)
    (hw : InTree t (inCol c (c.wall i)) (c.wall i)) (hf : InTree t (inCol c (c.floor i)) (c.floor i)) :
    Sem t (f + 1) (Inv t (c.wall i) false none none)
      (InvF t (c.floor i) false (fmt 6 (transform cfg xy.1 xy.2 ((nbox : Rat) * c.hBox + c.zOff)).2.2 +
        c.nRep.toNat * fmt 6 (c.deltaz / cfg.neff)))
      (trenchBlock cfg c nbox i xy) := by
  set zN := fmt 6 (transform cfg xy.1 xy.2 ((nbox : Rat) * c.hBox + c.zOff)).2.2 + c.nRep.toNat * fmt 6 (c.deltaz / cfg.neff) with hz
  have h1 := wallPart_depth (t := t) (f := f) cfg c nbox i xy hd hw
  rw [← hz] at h1
  have hr : Sem t (f + 1) (Ready t (c.wall i) zN) (InvF t (c.floor i) false zN) (removeOp (c.wall i) 2) :=
    fun cs herr σ hP => semF_remove (t := t) (fuel := f + 1) (p := c.floor i) (ld := false) (z := zN) (c.wall i) 2 cs herr σ (invF_of_ready hP)
  have h := Sem.andThen (Sem.andThen (Sem.andThen (Sem.andThen (Sem.andThen (Sem.andThen (Sem.andThen (Sem.andThen h1 hr)
    (semF_shutter cfg false)) (semF_load (f := f) hf)) semF_msg) (semF_uMove cfg (c.u.map (·.2)) true)) (semF_shutter cfg true))
    (semF_farcall (f := f) cfg))
    (Sem.andThen (Sem.andThen (semF_shutter (t := t) (fuel := f + 1) (p := c.floor i) (ld := true) (z := zN) cfg false)
      (semF_uMove cfg (c.u.map (·.1)) false)) (semF_remove (c.floor i) 2))
  intro cs herr σ hP
  rw [trenchBlock_split] at herr ⊢
  exact h cs herr σ hP

/-- `move_to([x, y, None])`: the stage keeps its depth -/
theorem semF_moveToXY {t : Tree} {fuel : Nat} {p : String} {ld : Bool} {z : Rat} (cfg : Cfg) (x y sp : Option Rat) :
    Sem t fuel (InvF t p ld z) (InvF t p ld z) (moveToR cfg x y none sp) := by
  intro cs herr σ hP
  unfold moveToR moveTo at herr ⊢
  cases hf : formatArgs cfg.digits x y none (some (sp.getD cfg.speedPos)) with
  | error e => rw [hf] at herr; simp at herr
  | ok w =>
    simp only [seq]
    have hwz : w.z = none ∧ w.zvar = none := by
      unfold formatArgs at hf
      simp only at hf
      split at hf
      · cases hf
      · injection hf with hf; subst hf; exact ⟨rfl, rfl⟩
    have h1 : InvF t p ld z (execStmtsG (stepT t fuel) (closeIfOpen cfg cs).1 σ).1 := by
      have := semF_shutter (t := t) (fuel := fuel) (p := p) (ld := ld) (z := z) cfg false cs rfl σ hP
      unfold closeIfOpen
      split
      · simpa [shutterR, Res.ofOut] using this
      · simpa [execStmtsG] using hP
    rw [execStmtsG_append, execStmtsG_append, execStmtsG_append]
    set σ1 := (execStmtsG (stepT t fuel) (closeIfOpen cfg cs).1 σ).1
    have h2 : InvF t p ld z (execStmtsG (stepT t fuel) (emit [Instr.g1 w]) σ1).1 := by
      simp only [emit, List.map_cons, List.map_nil, execStmtsG, execStmtG]
      rw [stepT_flat t fuel σ1 _ (by intro q hq; cases hq) (by intro k q hq; cases hq)]
      refine ⟨h1.abs, h1.ldd, ?_⟩
      simp only [stepFlat, step, zTarget, hwz.2, hwz.1, axisTarget_none]
      exact h1.posz
    have h3 := semF_dwell (t := t) (fuel := fuel) (p := p) (ld := ld) (z := z) cfg.longPause (closeIfOpen cfg cs).2 rfl _ h2
    simp only [dwellR, Res.ofOut] at h3
    exact calmF_emit t fuel p ld z [.blank] (by intro i hi; simp at hi; subst hi; rfl) _ h3

theorem semF_comment {t : Tree} {fuel : Nat} {p : String} {ld : Bool} {z : Rat} (b : Bool) :
    Sem t fuel (InvF t p ld z) (InvF t p ld z) (fun cs => Res.ofOut (comment b cs)) :=
  semF_calm _ (fun cs => by
    unfold comment; cases b
    · exact ⟨[.blank], rfl, by intro i hi; simp at hi; subst hi; rfl⟩
    · exact ⟨[.blank, .comment "; user comment"], rfl, by intro i hi; simp at hi; rcases hi with rfl | rfl <;> rfl⟩)

/-- **a bed block of a U-trench call file keeps the depth**: positioned in x / y only, its bed program — loaded and bound to an
x / y-only leaf — is called at the depth the stage already has (the depth at which the last floor was cut), and the block ends there -/
theorem bedBlock_keeps_depth {t : Tree} {f : Nat} (cfg : Cfg) (c : Col) (k : Nat) (xy : Rat × Rat) (z : Rat)
    (hin : InTree t (inCol c (bedName k)) (bedName k)) :
    Sem t (f + 1) (InvF t (bedName k) false z) (InvF t (bedName k) false z) (bedBlock cfg c k xy) := by
  unfold bedBlock
  exact Sem.andThen (Sem.andThen (Sem.andThen (Sem.andThen (Sem.andThen (Sem.andThen (Sem.andThen (Sem.andThen (Sem.andThen (Sem.andThen
    (semF_comment (t := t) (fuel := f + 1) (p := bedName k) (ld := false) (z := z) true)
    (semF_shutter cfg false)) (semF_load (f := f) hin)) semF_msg) (semF_uMove cfg (c.u.map (·.2)) true))
    (semF_moveToXY cfg _ _ _)) (semF_shutter cfg true)) (semF_farcall (f := f) cfg)) (semF_shutter cfg false))
    (semF_uMove cfg (c.u.map (·.1)) false)) (semF_remove (bedName k) 2)

private def dCol : Col := { index := 0, nboxz := 2, nRep := 5, baseFolder := "lab", inits := [(1, 2)], hBox := 3/40, zOff := -1/50,
                            deltaz := 3/2000, speedClosed := 5, u := none, upper := true, beds := [(1, 2)] }
private def dLeaf : List Stmt := emit [.g1 { x := some 1, y := some 2, f := some 4 }, .g1 { x := some 1, y := some 3 }]
private def dTree : Tree := [("trenchCol001/trench001_WALL.pgm", dLeaf), ("trenchCol001/trench001_FLOOR.pgm", dLeaf),
                             ("trenchCol001/trench_BED_001.pgm", dLeaf)]

/-- non-vacuity of `trenchBlock_depths` / `bedBlock_keeps_depth`: a U-trench column whose wall, floor and bed files are in the tree -/
example : InTree dTree (inCol dCol (dCol.wall 0)) (dCol.wall 0) ∧ InTree dTree (inCol dCol (dCol.floor 0)) (dCol.floor 0) ∧
    InTree dTree (inCol dCol (bedName 0)) (bedName 0) :=
  ⟨⟨by decide +kernel, "trenchCol001/trench001_WALL.pgm", dLeaf, by decide +kernel, rfl, by decide +kernel, by decide +kernel⟩,
   ⟨by decide +kernel, "trenchCol001/trench001_FLOOR.pgm", dLeaf, by decide +kernel, rfl, by decide +kernel, by decide +kernel⟩,
   ⟨by decide +kernel, "trenchCol001/trench_BED_001.pgm", dLeaf, by decide +kernel, rfl, by decide +kernel, by decide +kernel⟩⟩

/-! ### the leaf files (`export_array2d`) -/

theorem leafLine_xy (cfg : Cfg) (xy : Rat × Rat) (f : Option Rat) (g9 : Bool) (i : Instr) (h : leafLine cfg xy f g9 = .ok i) :
    ∃ w : G1W, i = .g1 w ∧ w.z = none ∧ w.zvar = none ∧ w.u = none ∧ w.x.isSome = true ∧ w.y.isSome = true := by
  unfold leafLine formatArgs at h
  cases f with
  | none => simp only [Except.map] at h; injection h with h; exact ⟨_, h.symm, rfl, rfl, rfl, rfl, rfl⟩
  | some fv =>
    simp only at h
    split at h
    · simp [Except.map] at h
    · simp only [Except.map] at h; injection h with h; exact ⟨_, h.symm, rfl, rfl, rfl, rfl, rfl⟩

/-- **what `export_array2d` writes is an x / y-only leaf program**: every line is a `G1` with an X and a Y word and no Z, `$`-variable
or U word — for every point list, speed, flag list and configuration; so the wall, floor and bed files are leaves of the exported
tree in the sense of `tree_discipline` (`isLeafBody`) and of `wall_loop_depths` (`isLeafXY`: a wall pass never changes the depth) -/
theorem leafFile_isLeafXY (cfg : Cfg) (pts : List (Rat × Rat)) (speed : Rat) (decel : List Bool) (is : List Instr)
    (h : leafFile cfg pts speed decel = .ok is) : isLeafXY (emit is) = true ∧ isLeafBody (emit is) = true ∧ is.length = pts.length := by
  unfold leafFile at h
  generalize 0 = k at h
  induction pts generalizing k is with
  | nil => simp only [leafLines] at h; injection h with h; subst h; simp [isLeafXY, isLeafBody, emit]
  | cons xy rest ih =>
    simp only [leafLines] at h
    cases hl : leafLine cfg xy (if k = 0 then some speed else none) (decel.getD k false) with
    | error e => rw [hl] at h; cases h
    | ok i =>
      rw [hl] at h
      cases hr : leafLines cfg speed decel (k + 1) rest with
      | error e => rw [hr] at h; cases h
      | ok is' =>
        rw [hr] at h
        simp only at h
        injection h with h; subst h
        obtain ⟨w, rfl, hz, hzv, hu, _, _⟩ := leafLine_xy cfg xy _ _ i hl
        obtain ⟨i1, i2, i3⟩ := ih is' (k + 1) hr
        simp only [isLeafXY, isLeafBody, emit, List.map_cons, List.all_cons, hz, hzv, hu, Option.isNone_none, Bool.and_self,
          Bool.true_and, List.length_cons] at i1 i2 ⊢
        exact ⟨i1, i2, by omega⟩

/-- the shipped headers are disciplined from a closed shutter, whatever the tree's leaves are (regenerated data, every run) -/
theorem shipped_headers_disciplined : ∀ h ∈ Femto.Gen.headers, ∀ b : Bool,
    discStmts (fun _ => b) false (emit h.2.2) = some false := by decide

/-- non-vacuity: a column with two levels, two trenches and a `u` list under a mirrored configuration compiles without error
into a disciplined file (evaluated by the kernel on the model) -/
example : (let cfg : Cfg := { header := Femto.Gen.header_uwe, flipX := true, neff := 3/2, shortPause := some (1/20) }
    let c : Col := { index := 0, nboxz := 2, nRep := 5, baseFolder := "lab", inits := [(1, 2), (1, 3)], hBox := 3/40, zOff := -1/50,
                     deltaz := 3/2000, speedClosed := 5, u := some (28, 59/2) }
    let cu : Col := { c with upper := true, beds := [(1, 2), (1, 5/2)] }
    (farcallBody cfg c {}).err.isNone && disciplined (fun _ => true) (farcallFile cfg c).1 &&
      (farcallBody cfg cu {}).err.isNone && disciplined (fun _ => true) (farcallFile cfg cu).1) = true := by decide +kernel

/-- non-vacuity: the default column (h_box 0.075, z_off -0.020, deltaz 0.0015) needs 64 passes per box -/
example : nRepeat (75/1000) (-20/1000) (15/10000) = 64 := by decide +kernel

end Femto.C06

/-
C06 — trench programs fire only inside trench footprints and cut the full depth.
PARTIAL.  Proved: (1) soundness of the static shutter discipline for the reference controller with FARCALL inlining —
a tree whose calling files pass the check never moves in x / y with the shutter open outside the leaf sub-programs
(wall / floor / bed), for every loop count and call depth; the check itself is run on the real exported files on every run
(translation validation).  (2) the depth schedule: passes `deltaz` apart from the starting offset through the full height of
every stacked box, floor after the wall at or above the top of the box.  Sampled: that the leaf sub-programs stay inside the
transformed block footprints (shapely).
-/
import FemtoVerif.Proofs.TreeLemmas
import FemtoVerif.Model.TrenchProg
import Mathlib.Tactic.Linarith
import Mathlib.Tactic.Ring
import Mathlib.Tactic.FieldSimp
import Mathlib.Algebra.Order.Field.Rat

set_option linter.unusedSimpArgs false
set_option linter.unusedVariables false

namespace Femto.C06
open Femto.Ctl Femto.TP

/-! ### shutter discipline -/

theorem treeOK_of_disciplined (t : Tree) (h : treeDisciplined t = true) : TreeOK (treeLeaf t) t := by
  intro id body hfind
  unfold Tree.find at hfind
  cases hf : t.find? (·.1 == id) with
  | none => simp [hf] at hfind
  | some e =>
    simp only [hf, Option.map_some, Option.some.injEq] at hfind
    have hmem : e ∈ t := List.mem_of_find?_eq_some hf
    have hid : e.1 = id := by simpa using List.find?_some hf
    have := (List.all_eq_true.mp h) e hmem
    rw [hfind, hid] at this
    simp only [Bool.or_eq_true, Bool.and_eq_true, Bool.not_eq_eq_eq_not, Bool.not_true] at this
    rcases this with ⟨h1, h2⟩ | ⟨⟨h1, h2⟩, h3⟩
    · exact ⟨by rw [h1, h2], Or.inl h1⟩
    · exact ⟨by rw [h1, h2], Or.inr h3⟩

/-- **the shutter is never open while travelling**: in a tree that passes the static check, running any calling file from a
closed shutter (any call depth `fuel`, any loop counts) gives a trace in which every shutter-open move made by a calling file
keeps x and y (it is a pure z step), every other calling file is entered with the shutter closed and satisfies the same, and
the file ends with the shutter closed.  Shutter-open x/y motion therefore happens only inside leaf sub-programs. -/
theorem tree_discipline (t : Tree) (h : treeDisciplined t = true) (fuel : Nat) (main : String) (body : List Stmt)
    (hm : t.find main = some body) (hnl : isLeafBody body = false) (σ : St) (hσ : σ.shutter = false) :
    (execStmtsG (stepT t fuel) body σ).1.shutter = false ∧ Good (treeLeaf t) (execStmtsG (stepT t fuel) body σ).2 := by
  have hok := treeOK_of_disciplined t h
  obtain ⟨_, hd⟩ := hok main body hm
  have hdisc : disciplined (treeLeaf t) body = true := by
    rcases hd with hl | hd
    · rw [hnl] at hl; simp at hl
    · exact hd
  have hd2 : discStmts (treeLeaf t) σ.shutter body = some false := by
    rw [hσ]; simpa [disciplined] using hdisc
  exact execStmtsG_sound (stepT_ok (treeLeaf t) t hok fuel) body σ false hd2

/-- the same for the whole run of the main file -/
theorem run_discipline (t : Tree) (h : treeDisciplined t = true) (fuel : Nat) (main : String) (body : List Stmt)
    (hm : t.find main = some body) (hnl : isLeafBody body = false) :
    ∃ r, runTree t fuel main = some r ∧ r.1.shutter = false ∧ Good (treeLeaf t) r.2 := by
  exact ⟨execStmtsG (stepT t fuel) body {}, by simp [runTree, hm], tree_discipline t h fuel main body hm hnl {} rfl⟩

/-- a leaf sub-program leaves the shutter as it found it (it contains no shutter command) -/
theorem leaf_call_keeps_shutter (t : Tree) (fuel : Nat) (body : List Stmt) (hl : isLeafBody body = true) (σ : St) :
    (execStmtsG (stepT t fuel) body σ).1.shutter = σ.shutter :=
  leaf_keeps_shutter _ (fun σ w => stepT_flat t fuel σ _ (by intro p hp; cases hp) (by intro k p hp; cases hp))
    (fun σ => stepT_flat t fuel σ _ (by intro p hp; cases hp) (by intro k p hp; cases hp)) body hl σ

/-- the tree controller is a conservative extension of the single-file reference controller of C01 / C03 / C12: with calls
recorded instead of executed it produces exactly that controller's state and events -/
theorem single_file_view (ss : List Stmt) (σ : St) :
    execStmtsG stepFlat ss σ = ((execStmts ss σ).1, (execStmts ss σ).2.map .ev) := execStmtsG_flat ss σ

theorem flatten_own_events (l : List Ev) : flattenT (l.map .ev) = l := by
  induction l with
  | nil => simp [flattenT]
  | cons e r ih => simp [flattenT, ih]

/-- non-vacuity: a calling file of the shape the trench writer emits passes the check, a positioning move under an open
shutter does not -/
example : disciplined (fun k => k == "w") [.atom (.load 2 "d/w.pgm"), .atom (.g1 { x := some 1, y := some 2, z := some 0, f := some 5 }),
    .atom (.pso "X" true), .rep 3 [.atom (.farcall "w.pgm"), .atom (.g1 { zvar := some "ZCURR" })], .atom (.pso "X" false),
    .atom (.g1 { x := some 3 })] = true := by decide
example : disciplined (fun k => k == "w") [.atom (.pso "X" true), .atom (.g1 { x := some 3 }), .atom (.pso "X" false)] = false := by decide
example : disciplined (fun k => k == "w") [.rep 2 [.atom (.pso "X" true)], .atom (.pso "X" false)] = false := by decide

/-! ### depth schedule -/

theorem nRepeat_bounds (h zoff dz : ℚ) (hdz : 0 < dz) (hpos : 0 < h - zoff) :
    1 ≤ nRepeat h zoff dz ∧ ((nRepeat h zoff dz : ℚ) - 1) * dz < h - zoff ∧ h - zoff ≤ (nRepeat h zoff dz : ℚ) * dz := by
  have hq : 0 < (h - zoff) / dz := div_pos hpos hdz
  have hc0 : 0 < ((h - zoff) / dz).ceil := by
    have := (Rat.lt_ceil_iff (x := (h - zoff) / dz) (y := 0)).mpr (by simpa using hq)
    simpa using this
  have hcast : ((nRepeat h zoff dz : ℕ) : ℤ) = ((h - zoff) / dz).ceil := by
    unfold nRepeat
    exact Int.natAbs_of_nonneg hc0.le
  have hcastq : (nRepeat h zoff dz : ℚ) = (((h - zoff) / dz).ceil : ℚ) := by
    have : ((nRepeat h zoff dz : ℤ) : ℚ) = (((h - zoff) / dz).ceil : ℚ) := by rw [hcast]
    simpa using this
  refine ⟨?_, ?_, ?_⟩
  · have : (1 : ℤ) ≤ (nRepeat h zoff dz : ℤ) := by rw [hcast]; omega
    exact_mod_cast this
  · have hlt : ((((h - zoff) / dz).ceil - 1 : ℤ) : ℚ) < (h - zoff) / dz :=
      (Rat.lt_ceil_iff (x := (h - zoff) / dz) (y := ((h - zoff) / dz).ceil - 1)).mp (by omega)
    rw [hcastq]
    have : ((((h - zoff) / dz).ceil : ℚ) - 1) < (h - zoff) / dz := by push_cast at hlt; exact hlt
    calc ((((h - zoff) / dz).ceil : ℚ) - 1) * dz < (h - zoff) / dz * dz := mul_lt_mul_of_pos_right this hdz
      _ = h - zoff := by field_simp
  · have hle : (h - zoff) / dz ≤ (((h - zoff) / dz).ceil : ℚ) := Rat.le_ceil
    rw [hcastq]
    calc h - zoff = (h - zoff) / dz * dz := by field_simp
      _ ≤ (((h - zoff) / dz).ceil : ℚ) * dz := mul_le_mul_of_nonneg_right hle hdz.le

/-- **from the starting offset, consecutive passes `deltaz` apart** -/
theorem pass_first (h zoff dz : ℚ) (L : ℕ) : passZ h zoff dz L 0 = L * h + zoff := by simp [passZ]

theorem pass_step (h zoff dz : ℚ) (L k : ℕ) : passZ h zoff dz L (k + 1) - passZ h zoff dz L k = dz := by
  simp [passZ]; ring

/-- **through the full height of every box**: the last pass of level `L` is within `deltaz` of the top of box `L` (and below
it), and the floor, cut after the wall, lies at or above the top of the box -/
theorem pass_last (h zoff dz : ℚ) (hdz : 0 < dz) (hpos : 0 < h - zoff) (L : ℕ) :
    ((L : ℚ) + 1) * h - dz ≤ passZ h zoff dz L (nRepeat h zoff dz - 1) ∧
    passZ h zoff dz L (nRepeat h zoff dz - 1) < ((L : ℚ) + 1) * h ∧
    ((L : ℚ) + 1) * h ≤ floorZ h zoff dz L := by
  obtain ⟨h1, h2, h3⟩ := nRepeat_bounds h zoff dz hdz hpos
  have hc : ((nRepeat h zoff dz - 1 : ℕ) : ℚ) = (nRepeat h zoff dz : ℚ) - 1 := by
    rw [Nat.cast_sub h1]; simp
  simp only [passZ, floorZ, hc]
  refine ⟨by nlinarith, by nlinarith, by nlinarith⟩

/-- **also across a level boundary**: the first pass of the next level is at most `deltaz` above the last pass of this one
(it may lie below it: the boxes overlap by the starting offset `z_off ≤ 0`) -/
theorem pass_across (h zoff dz : ℚ) (hdz : 0 < dz) (hpos : 0 < h - zoff) (hz : zoff ≤ 0) (L : ℕ) :
    passZ h zoff dz (L + 1) 0 - passZ h zoff dz L (nRepeat h zoff dz - 1) ≤ dz ∧
    zoff < passZ h zoff dz (L + 1) 0 - passZ h zoff dz L (nRepeat h zoff dz - 1) := by
  obtain ⟨h1, h2, h3⟩ := nRepeat_bounds h zoff dz hdz hpos
  have hc : ((nRepeat h zoff dz - 1 : ℕ) : ℚ) = (nRepeat h zoff dz : ℚ) - 1 := by
    rw [Nat.cast_sub h1]; simp
  simp only [passZ, hc]
  push_cast
  constructor <;> nlinarith

/-- **the wall loop of the call file realises the schedule**: entered ready at the starting depth of level `L`
(`(L h + z_off) / neff` in controller coordinates, `$ZCURR` set to it, the wall program loaded and bound to an x/y-only file),
`k` turns of `REPEAT { [DWELL] FARCALL wall; $ZCURR = $ZCURR + deltaz/neff; G1 Z$ZCURR }` leave the controller ready at glass
depth `passZ L k` — so pass number `k` (counted from 0) is traced at exactly that depth, for every `k`, call depth and
pause setting.  The harness checks on every run that every `REPEAT` of every real call file has this shape. -/
theorem wall_loop_depths (t : Tree) (f : ℕ) (p : String) (h zoff dz neff : ℚ) (hneff : neff ≠ 0) (L k : ℕ) (σ : St)
    (hr : Ready t p ((L * h + zoff) / neff) σ) :
    Ready t p (passZ h zoff dz L k / neff) (execRepG (stepT t (f + 1)) k (wallLoopBody p (dz / neff)) σ).1 ∧
    ∀ q, Ready t p (passZ h zoff dz L k / neff) (execRepG (stepT t (f + 1)) k (wallLoopBodyD q p (dz / neff)) σ).1 := by
  have e : (L * h + zoff) / neff + (k : ℚ) * (dz / neff) = passZ h zoff dz L k / neff := by
    unfold passZ; field_simp
  refine ⟨?_, fun q => ?_⟩
  · have := execRepG_wall t f p (dz / neff) k _ σ hr
    rwa [e] at this
  · have := execRepG_wallD t f q p (dz / neff) k _ σ hr
    rwa [e] at this

/-- the whole column: `nboxz * n_repeat` passes -/
theorem schedule_length (h zoff dz : ℚ) (nboxz : ℕ) : (schedule h zoff dz nboxz).length = nboxz * nRepeat h zoff dz := by
  unfold schedule
  induction nboxz with
  | zero => simp
  | succ n ih => simp [List.range_succ, List.flatMap_append, ih]; ring

/-- non-vacuity: the default column (h_box 0.075, z_off -0.020, deltaz 0.0015) needs 64 passes per box -/
example : nRepeat (75/1000) (-20/1000) (15/10000) = 64 := by decide +kernel

end Femto.C06

/-
C03 — every emitted program is well-formed and shutter-safe, even after errors.
-/
import FemtoVerif.Proofs.Session
import FemtoVerif.Proofs.Good
import FemtoVerif.Proofs.WriteLemmas
import FemtoVerif.Proofs.Rot
import FemtoVerif.Proofs.Vars
import FemtoVerif.Proofs.Loaded
import FemtoVerif.Spec.WF
import FemtoVerif.Gen.Data

set_option linter.unusedSimpArgs false
set_option linter.unusedVariables false

namespace Femto.C03
open Femto.Ctl Femto.Gc

/-- **Balanced and properly nested, whatever happens.** For every configuration and every finite sequence of compiler
operations — any nesting of REPEAT / FOR / axis-rotation blocks, rejected operations, and a user exception raised at
any position — the text written by the context manager parses on the reference controller's loop stack, and its
loop structure is exactly the one the operations built (crash included: every open block is closed by its `finally`). -/
theorem session_balanced (cfg : Cfg) (ops : List Op) (hh : headerClean cfg.header = true) :
    structure? (flattenStmts (session cfg ops).1) = some (session cfg ops).1 :=
  structure?_flattenStmts _ (session_ok cfg ops hh).1

/-- header lines are known instructions with positive feeds -/
def headerGood (h : List Instr) : Bool := h.all goodInstr

/-- **Every instruction is known, every feed positive, every loop count positive** — in the whole file, also after a
crash.  (`goodList` also demands that no atom is a stray loop delimiter.) -/
theorem session_atoms_good (cfg : Cfg) (ops : List Op) (hh : headerGood cfg.header = true) (hsp : speedOK cfg) :
    goodList (session cfg ops).1 = true := by
  have hhd : ∀ i ∈ cfg.header ++ [Instr.blank], goodInstr i = true := by
    intro i hi
    rcases List.mem_append.mp hi with h | h
    · exact (List.all_eq_true.mp hh) i h
    · simp at h; subst h; rfl
  have h0 : goodList (seq (seq (emit (cfg.header ++ [.blank]), ({} : CS)) (dwell (some 1))) fun cs => (emit [.blank], cs)).1 = true :=
    seq_good (seq_good (goodList_emit _ hhd) (dwell_good _)) (fun c => by simp [goodList, emit, goodStmt, goodInstr])
  simp only [session]
  generalize (seq (seq (emit (cfg.header ++ [.blank]), ({} : CS)) (dwell (some 1))) fun cs => (emit [.blank], cs)) = H at h0
  have h1 : goodList (if cfg.aeroAngle = 0 then H else seq H (enterRot cfg (some cfg.aeroAngle))).1 = true := by
    split
    · exact h0
    · exact seq_good h0 (enterRot_good cfg hsp _)
  generalize (if cfg.aeroAngle = 0 then H else seq H (enterRot cfg (some cfg.aeroAngle))) = H1 at h1
  obtain ⟨r1, r2⟩ := execOps_good cfg hsp ops H1.2
  generalize execOps cfg ops H1.2 = r at r1 r2
  have hx : goodList (if cfg.aeroAngle = 0 then (([] : List Stmt), r.cs)
      else seq (exitRot cfg r.cs) fun cs => (emit [.blank], cs)).1 = true := by
    split
    · simp [goodList]
    · exact seq_good (exitRot_good cfg hsp _) (fun c => by simp [goodList, emit, goodStmt, goodInstr])
  generalize (if cfg.aeroAngle = 0 then (([] : List Stmt), r.cs)
      else seq (exitRot cfg r.cs) fun cs => (emit [.blank], cs)) = X at hx
  have hg : goodList (if cfg.home = true then
      ((moveTo cfg (some (-2)) (some 0) (some 0) none X.2).1.1, (moveTo cfg (some (-2)) (some 0) (some 0) none X.2).1.2)
      else ([], X.2)).1 = true := by
    split
    · exact moveTo_good cfg _ _ _ _ X.2
    · simp [goodList]
  generalize (if cfg.home = true then
      ((moveTo cfg (some (-2)) (some 0) (some 0) none X.2).1.1, (moveTo cfg (some (-2)) (some 0) (some 0) none X.2).1.2)
      else ([], X.2)) = Gm at hg
  simp [goodList_append, h1, r1, r2, hx, hg]

/-! ### positioning moves are made with the shutter closed -/

private theorem step_g1_shutter (σ : St) (w : G1W) :
    (∀ m ∈ movesOf (step σ (.g1 w)).2, m.shutter = σ.shutter) ∧ (step σ (.g1 w)).1.shutter = σ.shutter := by
  refine ⟨?_, by simp [step]⟩
  intro m hm
  simp only [step, movesOf_append] at hm
  have hz : movesOf (zTarget σ w).2 = [] := by
    unfold zTarget
    cases w.zvar with
    | none => simp [movesOf]
    | some v =>
      simp only
      cases hl : lookupVar σ.vals (lower v) <;> simp [movesOf]
  have hu : movesOf (uEvents σ w) = [] := by
    unfold uEvents; cases w.u <;> simp [movesOf]
  rw [hz, hu] at hm
  simp only [List.nil_append, moveEvents] at hm
  split at hm
  · simp [movesOf] at hm
  · simp [movesOf] at hm; rw [hm]

/-- **`move_to` never moves with the shutter open.**  From every controller state whose shutter agrees with the
compiler's belief (open or closed!), every motion caused by the instructions `move_to` emits — also when it then
rejects the speed — happens with the shutter closed. -/
theorem moveTo_closed (cfg : Cfg) (x y z sp : Option Rat) (cs : CS) (σ : St) (hsh : σ.shutter = cs.shutterOn) :
    ∀ m ∈ movesOf (execFlat (flattenStmts (moveTo cfg x y z sp cs).1.1) σ).2, m.shutter = false := by
  -- the closing part
  have hc : (execFlat (flattenStmts (closeIfOpen cfg cs).1) σ).1.shutter = false ∧
      movesOf (execFlat (flattenStmts (closeIfOpen cfg cs).1) σ).2 = [] := by
    unfold closeIfOpen
    cases hon : cs.shutterOn
    · simp [flattenStmts, execFlat, movesOf, hsh, hon]
    · simp only [if_true]
      have : shutter cfg false cs = (emit [.pso cfg.psoAxis false], { cs with shutterOn := false }) := by
        unfold shutter; simp [hon]
      rw [this]
      simp [flattenStmts_emit, execFlat, step, movesOf]
  unfold moveTo
  cases hf : formatArgs cfg.digits x y z (some (sp.getD cfg.speedPos)) with
  | error e =>
    intro m hm
    simp only at hm
    rw [hc.2] at hm; simp at hm
  | ok w =>
    intro m hm
    simp only [seq, flattenStmts_append, flattenStmts_emit, execFlat_append, movesOf_append] at hm
    set σ1 := (execFlat (flattenStmts (closeIfOpen cfg cs).1) σ).1 with hσ1
    obtain ⟨g1, g2⟩ := step_g1_shutter σ1 w
    obtain ⟨q1, _⟩ := dwell_quiet cfg.longPause (closeIfOpen cfg cs).2
    rw [hc.2] at hm
    simp only [List.nil_append, List.mem_append] at hm
    rcases hm with hm | hm
    · have : execFlat [Instr.g1 w] σ1 = ((step σ1 (.g1 w)).1, (step σ1 (.g1 w)).2) := by simp [execFlat]
      rw [this] at hm
      rw [g1 m hm, hc.1]
    · exfalso
      rcases hm with hm | hm
      · have := (execFlat_quiet _ q1 (execFlat [Instr.g1 w] σ1).1).2.2.2
        rw [this] at hm; simp at hm
      · have := (execFlat_quiet [Instr.blank] (by simp [quiet])
          (execFlat (flattenStmts (dwell cfg.longPause (closeIfOpen cfg cs).2).1) (execFlat [Instr.g1 w] σ1).1).1).2.2.2
        rw [this] at hm; simp at hm

/-! ### the shutter is closed when the program ends -/

/-- a matrix is a closed path: shutter values 0/1 only, and the last one is 0 -/
def closedMatrix (m : List Pt) : Bool :=
  m.all (fun p => decide (p.s = 0) || decide (p.s = 1)) && (match m.getLast? with | some p => decide (p.s = 0) | none => true)

mutual
  def closedOp : Op → Bool
    | .write m => closedMatrix m
    | .rep _ body => closedOps body
    | .forr _ _ body => closedOps body
    | .axisRot _ body => closedOps body
    | .attempt body => closedOps body
    | _ => true
  def closedOps : List Op → Bool
    | [] => true
    | op :: ops => closedOp op && closedOps ops
end

private theorem dwell_sh (p : Option Rat) (cs : CS) : (dwell p cs).2.shutterOn = cs.shutterOn := (dwell_quiet p cs).2

private theorem toggle_sh (cfg : Cfg) (on : Bool) (cs : CS) (h : cs.shutterOn = !on) : (toggle cfg on cs).2.shutterOn = on :=
  (toggle_shape cfg on cs h).choose_spec.choose_spec.2.2.2

private theorem toggleStep_sh (cfg : Cfg) (s : Rat) (cs : CS) (hs : s = 0 ∨ s = 1) :
    (toggleStep cfg s cs).1.2.shutterOn = decide (s = 1) := by
  rcases hs with rfl | rfl
  · cases hc : cs.shutterOn
    · simp [toggleStep, hc]
    · have e0 : toggleStep cfg 0 cs = (toggle cfg false cs, true) := by simp [toggleStep, hc]
      rw [e0]; simpa using toggle_sh cfg false cs (by simp [hc])
  · cases hc : cs.shutterOn
    · have e0 : toggleStep cfg 1 cs = (toggle cfg true cs, true) := by simp [toggleStep, hc]
      rw [e0]; simpa using toggle_sh cfg true cs (by simp [hc])
    · simp [toggleStep, hc]

private theorem writeLoop_sh (cfg : Cfg) (prev : Option G1W) (ws : List (G1W × Rat)) (cs : CS)
    (hs : ∀ p ∈ ws, p.2 = 0 ∨ p.2 = 1) :
    (writeLoop cfg prev ws cs).2.shutterOn = (match ws.getLast? with | some p => decide (p.2 = 1) | none => cs.shutterOn) := by
  induction ws generalizing prev cs with
  | nil => simp [writeLoop]
  | cons hd rest ih =>
    obtain ⟨w, s⟩ := hd
    simp only [writeLoop]
    rw [ih _ _ (fun p hp => hs p (by simp [hp]))]
    cases rest with
    | nil => simpa using toggleStep_sh cfg s cs (hs (w, s) (by simp))
    | cons a t =>
      rw [List.getLast?_cons_cons]
      cases hl : (a :: t).getLast? with
      | none => simp at hl
      | some l => rfl

private theorem write_sh (cfg : Cfg) (m : List Pt) (cs : CS) (o : Out) (h : write cfg m cs = .ok o)
    (hc : closedMatrix m = true) (h0 : cs.shutterOn = false) : o.2.shutterOn = false := by
  have hws := h
  unfold write at h
  cases hm : m.mapM (formatPt cfg) with
  | error e => rw [hm] at h; simp [Except.map] at h
  | ok ws =>
    rw [hm] at h
    simp only [Except.map] at h
    injection h with h; subst h
    simp only [seq, dwell_sh]
    have hsnd : ws.map Prod.snd = m.map (·.s) := by
      clear hws
      induction m generalizing ws with
      | nil => simp [List.mapM_nil, pure, Except.pure] at hm; subst hm; simp
      | cons p m ih =>
        rw [List.mapM_cons] at hm
        cases hp : formatPt cfg p with
        | error e => rw [hp] at hm; simp [bind, Except.bind] at hm
        | ok a =>
          rw [hp] at hm
          cases hm' : m.mapM (formatPt cfg) with
          | error e => rw [hm'] at hm; simp [bind, Except.bind] at hm
          | ok as =>
            rw [hm'] at hm
            simp only [bind, Except.bind, pure, Except.pure] at hm
            injection hm with hm; subst hm
            have : closedMatrix m = true ∨ True := Or.inr trivial
            simp only [formatPt] at hp
            cases hf : formatArgs cfg.digits (some (transform cfg p.x p.y p.z).1) (some (transform cfg p.x p.y p.z).2.1)
                (some (transform cfg p.x p.y p.z).2.2) (some p.f) with
            | error e => rw [hf] at hp; simp [Except.map] at hp
            | ok w =>
              rw [hf] at hp; simp only [Except.map] at hp
              injection hp with hp; subst hp
              have : closedMatrix m = true ∨ True := Or.inr trivial
              simp only [List.map_cons, List.cons.injEq, true_and]
              -- the tail does not need the closedness hypothesis
              exact (by
                have key : ∀ (m : List Pt) (as : List (G1W × Rat)), m.mapM (formatPt cfg) = .ok as →
                    as.map Prod.snd = m.map (·.s) := by
                  intro m
                  induction m with
                  | nil => intro as h; simp [List.mapM_nil, pure, Except.pure] at h; subst h; simp
                  | cons p m ihm =>
                    intro as h
                    rw [List.mapM_cons] at h
                    cases hp : formatPt cfg p with
                    | error e => rw [hp] at h; simp [bind, Except.bind] at h
                    | ok a =>
                      rw [hp] at h
                      cases hm'' : m.mapM (formatPt cfg) with
                      | error e => rw [hm''] at h; simp [bind, Except.bind] at h
                      | ok as' =>
                        rw [hm''] at h
                        simp only [bind, Except.bind, pure, Except.pure] at h
                        injection h with h; subst h
                        simp only [formatPt] at hp
                        cases hf : formatArgs cfg.digits (some (transform cfg p.x p.y p.z).1)
                            (some (transform cfg p.x p.y p.z).2.1) (some (transform cfg p.x p.y p.z).2.2) (some p.f) with
                        | error e => rw [hf] at hp; simp [Except.map] at hp
                        | ok w =>
                          rw [hf] at hp; simp only [Except.map] at hp
                          injection hp with hp; subst hp
                          simp [ihm as' hm'']
                exact key m as hm')
    simp only [closedMatrix, Bool.and_eq_true, List.all_eq_true, Bool.or_eq_true, decide_eq_true_eq] at hc
    have hs : ∀ p ∈ ws, p.2 = 0 ∨ p.2 = 1 := by
      intro p hp
      have : p.2 ∈ ws.map Prod.snd := List.mem_map_of_mem hp
      rw [hsnd] at this
      obtain ⟨pt, hpt, he⟩ := List.mem_map.mp this
      rw [← he]; exact hc.1 pt hpt
    rw [writeLoop_sh cfg none ws cs hs]
    have hl : ws.getLast?.map Prod.snd = m.getLast?.map (·.s) := by
      rw [← List.getLast?_map, ← List.getLast?_map, hsnd]
    cases hw : ws.getLast? with
    | none => exact h0
    | some p =>
      rw [hw] at hl
      cases hm2 : m.getLast? with
      | none => rw [hm2] at hl; simp at hl
      | some pt =>
        rw [hm2] at hl hc
        simp at hl
        have : pt.s = 0 := by simpa using hc.2
        simp [hl, this]

private theorem closeIfOpen_sh (cfg : Cfg) (cs : CS) : (closeIfOpen cfg cs).2.shutterOn = false := by
  unfold closeIfOpen
  cases hon : cs.shutterOn
  · simp [hon]
  · simp only [if_true]; unfold shutter; simp [hon]

private theorem moveTo_sh (cfg : Cfg) (x y z sp : Option Rat) (cs : CS) : (moveTo cfg x y z sp cs).1.2.shutterOn = false := by
  unfold moveTo
  cases formatArgs cfg.digits x y z (some (sp.getD cfg.speedPos)) with
  | error e => exact closeIfOpen_sh cfg cs
  | ok w => simp only [seq, dwell_sh]; exact closeIfOpen_sh cfg cs

private theorem comment_sh (b : Bool) (cs : CS) : (comment b cs).2.shutterOn = cs.shutterOn := by
  unfold comment; split <;> rfl

private theorem enterRot_sh (cfg : Cfg) (a : Option Rat) (cs : CS) : (enterRot cfg a cs).2.shutterOn = cs.shutterOn := by
  unfold enterRot; split <;> simp [seq, dwell_sh, comment_sh]

private theorem exitRot_sh (cfg : Cfg) (cs : CS) : (exitRot cfg cs).2.shutterOn = cs.shutterOn := by
  unfold exitRot; simp [seq, dwell_sh, comment_sh]

private theorem andThen_sh {a : Res} {f : CS → Res} (ha : a.cs.shutterOn = false) (hf : ∀ c, c.shutterOn = false → (f c).cs.shutterOn = false) :
    (a.andThen f).cs.shutterOn = false := by
  unfold Res.andThen
  cases a.err with
  | some e => exact ha
  | none => exact hf a.cs ha

private theorem loadOp_sh (p : String) (t : Nat) (cs : CS) : (loadOp p t cs).cs.shutterOn = cs.shutterOn := by
  unfold loadOp; split <;> rfl
private theorem removeOp_sh (p : String) (t : Nat) (cs : CS) : (removeOp p t cs).cs.shutterOn = cs.shutterOn := by
  unfold removeOp; split
  · rfl
  · split <;> rfl
private theorem farcallOp_sh (cfg : Cfg) (p : String) (cs : CS) : (farcallOp cfg p cs).cs.shutterOn = cs.shutterOn := by
  unfold farcallOp; split
  · rfl
  · split
    · rfl
    · simp [Res.ofOut, seq, dwell_sh]
private theorem bufferedOp_sh (cfg : Cfg) (p : String) (t : Nat) (cs : CS) : (bufferedOp cfg p t cs).cs.shutterOn = cs.shutterOn := by
  unfold bufferedOp; split
  · rfl
  · split
    · rfl
    · simp [Res.ofOut, seq, dwell_sh]

private theorem farcallListOp_sh (cfg : Cfg) (items : List (String × Nat)) (cs : CS) (h : cs.shutterOn = false) :
    (farcallListOp cfg items cs).cs.shutterOn = false := by
  induction items generalizing cs with
  | nil => simpa [farcallListOp] using h
  | cons hd rest ih =>
    obtain ⟨p, t⟩ := hd
    simp only [farcallListOp]
    refine andThen_sh (andThen_sh (andThen_sh (andThen_sh (by rw [loadOp_sh]; exact h)
      (fun c hc => by rw [farcallOp_sh]; exact hc)) (fun c hc => by simp [Res.ofOut, dwell_sh, hc]))
      (fun c hc => by rw [removeOp_sh]; exact hc)) ?_
    intro c hc
    exact andThen_sh (by simp [Res.ofOut, seq, dwell_sh, hc]) (fun c' hc' => ih c' hc')

mutual
  private theorem execOp_sh (cfg : Cfg) (op : Op) (cs : CS) (hc : closedOp op = true) (h : cs.shutterOn = false) :
      (execOp cfg op cs).cs.shutterOn = false := by
    match op with
    | .write m =>
      simp only [execOp]
      cases hw : write cfg m cs with
      | ok o => simpa [Res.ofOut] using write_sh cfg m cs o hw (by simpa [closedOp] using hc) h
      | error e => exact h
    | .moveTo x y z sp => simp only [execOp]; exact moveTo_sh cfg x y z sp cs
    | .goOrigin =>
      simp only [execOp]
      exact andThen_sh (by simp [Res.ofOut, comment_sh, h]) (fun c _ => moveTo_sh cfg _ _ _ _ c)
    | .goInit => simp only [execOp]; exact moveTo_sh cfg _ _ _ _ cs
    | .dwell p => simp [execOp, Res.ofOut, dwell_sh, h]
    | .comment b => simp [execOp, Res.ofOut, comment_sh, h]
    | .setHome x y z => simp only [execOp]; split <;> exact h
    | .rep n body =>
      simp only [execOp]
      split
      · exact h
      · exact execOps_sh cfg body cs (by simpa [closedOp] using hc) h
    | .forr v n body =>
      simp only [execOp]
      split
      · exact h
      · split
        · exact h
        · exact execOps_sh cfg body cs (by simpa [closedOp] using hc) h
    | .axisRot a body =>
      simp only [execOp, exitRot_sh]
      exact execOps_sh cfg body _ (by simpa [closedOp] using hc) (by rw [enterRot_sh]; exact h)
    | .dvar vs => simp [execOp, h]
    | .load p t => simp only [execOp, loadOp_sh]; exact h
    | .farcall p => simp only [execOp, farcallOp_sh]; exact h
    | .buffered p t => simp only [execOp, bufferedOp_sh]; exact h
    | .remove p t => simp only [execOp, removeOp_sh]; exact h
    | .farcallList items => simp only [execOp]; exact farcallListOp_sh cfg items cs h
    | .raise => simp [execOp, h]
    | .attempt body =>
      simp only [execOp]
      exact execOps_sh cfg body cs (by simpa [closedOp] using hc) h
    | .loadBad p => simp [execOp, h]
  private theorem execOps_sh (cfg : Cfg) (ops : List Op) (cs : CS) (hc : closedOps ops = true) (h : cs.shutterOn = false) :
      (execOps cfg ops cs).cs.shutterOn = false := by
    match ops with
    | [] => simpa [execOps] using h
    | op :: ops =>
      have hc' : closedOp op = true ∧ closedOps ops = true := by simpa [closedOps] using hc
      simp only [execOps]
      have ha := execOp_sh cfg op cs hc'.1 h
      cases he : (execOp cfg op cs).err with
      | some e => simpa [he] using ha
      | none => simp only [he]; exact execOps_sh cfg ops _ hc'.2 ha
end

/-- **Shutter closed when the program ends.**  If every written path is closed, then after the whole session — however
it ended: normally, by a rejected operation or by a user exception anywhere — the compiler believes the shutter closed;
by `C01.write_replays` and `moveTo_closed` that belief is the controller's shutter state. -/
theorem session_shutter_closed (cfg : Cfg) (ops : List Op) (hc : closedOps ops = true) :
    (session cfg ops).2.shutterOn = false := by
  simp only [session]
  have h0 : (seq (seq (emit (cfg.header ++ [.blank]), ({} : CS)) (dwell (some 1))) fun cs => (emit [.blank], cs)).2.shutterOn = false := by
    simp [seq, dwell_sh]
  generalize (seq (seq (emit (cfg.header ++ [.blank]), ({} : CS)) (dwell (some 1))) fun cs => (emit [.blank], cs)) = H at h0
  have h1 : (if cfg.aeroAngle = 0 then H else seq H (enterRot cfg (some cfg.aeroAngle))).2.shutterOn = false := by
    split
    · exact h0
    · simp [seq, enterRot_sh, h0]
  generalize (if cfg.aeroAngle = 0 then H else seq H (enterRot cfg (some cfg.aeroAngle))) = H1 at h1
  have h2 := execOps_sh cfg ops H1.2 hc h1
  generalize execOps cfg ops H1.2 = r at h2
  have hx : (if cfg.aeroAngle = 0 then (([] : List Stmt), r.cs)
      else seq (exitRot cfg r.cs) fun cs => (emit [.blank], cs)).2.shutterOn = false := by
    split
    · exact h2
    · simp [seq, exitRot_sh, h2]
  generalize (if cfg.aeroAngle = 0 then (([] : List Stmt), r.cs)
      else seq (exitRot cfg r.cs) fun cs => (emit [.blank], cs)) = X at hx
  split
  · exact moveTo_sh cfg _ _ _ _ X.2
  · exact hx

/-! ### sub-programs -/

private theorem posixName_idem (p : String) : posixName (posixName p) = posixName p := by
  unfold posixName
  simp only [String.toList_ofList, List.reverse_reverse]
  congr 2
  have key : ∀ (l : List Char), List.takeWhile (fun x => x != '/') (List.takeWhile (fun x => x != '/') l)
      = List.takeWhile (fun x => x != '/') l := by
    intro l
    induction l with
    | nil => rfl
    | cons a t ih =>
      by_cases h : (a != '/') = true
      · simp [List.takeWhile_cons, h, ih]
      · simp [List.takeWhile_cons, h]
  exact key _

private theorem dwell_loaded (q : Option Rat) (c : CS) : (dwell q c).2.loaded = c.loaded := by
  unfold dwell
  cases q with
  | none => rfl
  | some t => by_cases h : t = 0 <;> simp [h]

/-- one item of `farcall_list`: load, call, pause, remove -/
private def itemRes (cfg : Cfg) (p : String) (t : Nat) (cs : CS) : Res :=
  (((loadOp p t cs).andThen (farcallOp cfg (posixName p))).andThen fun cs => Res.ofOut (dwell cfg.shortPause cs)).andThen
    (removeOp (posixName p) t)

private theorem itemRes_loaded (cfg : Cfg) (p : String) (t : Nat) (cs : CS) (hp : stemOf p ∉ cs.loaded) :
    (itemRes cfg p t cs).cs.loaded = cs.loaded := by
  unfold itemRes
  by_cases hext : isPgm p = true
  · have hs : stemOf (posixName p) = stemOf p := by unfold stemOf; rw [posixName_idem]
    have hx : isPgm (posixName p) = true := by unfold isPgm; rw [posixName_idem]; exact hext
    have hcont : cs.loaded.contains (stemOf p) = false := by simpa using hp
    have e1 : (cs.loaded ++ [stemOf p]).erase (stemOf p) = cs.loaded := by
      rw [List.erase_append_right _ hp]; simp
    have hl : loadOp p t cs = { out := emit [.load t p], cs := { cs with loaded := cs.loaded ++ [stemOf p] } } := by
      simp [loadOp, hext, hcont, hp]
    rw [hl]
    simp only [Res.andThen]
    have hf : (farcallOp cfg (posixName p) { cs with loaded := cs.loaded ++ [stemOf p] }).err = none ∧
        (farcallOp cfg (posixName p) { cs with loaded := cs.loaded ++ [stemOf p] }).cs.loaded = cs.loaded ++ [stemOf p] := by
      simp [farcallOp, hx, hs, Res.ofOut, seq, dwell_loaded]
    simp only [hf.1, hf.2]
    simp only [Res.ofOut]
    have hr : ∀ c : CS, c.loaded = cs.loaded ++ [stemOf p] → (removeOp (posixName p) t c).cs.loaded = cs.loaded := by
      intro c hc
      simp [removeOp, hx, hs, hc, e1]
    exact hr _ (by simp [dwell_loaded, hf.2])
  · simp [loadOp, hext, Res.andThen]

private theorem farcallListOp_unfold (cfg : Cfg) (p : String) (t : Nat) (rest : List (String × Nat)) (cs : CS) :
    farcallListOp cfg ((p, t) :: rest) cs = (itemRes cfg p t cs).andThen fun cs =>
      (Res.ofOut (seq (dwell cfg.shortPause cs) fun cs => (emit [.blank, .blank], cs))).andThen (farcallListOp cfg rest) := by
  simp [farcallListOp, itemRes]

/-- **`farcall_list` is balanced**: when none of the listed programs is loaded beforehand, the list of loaded programs
afterwards is what it was before — also when the call fails at the k-th file (wrong extension) -/
theorem farcallList_balanced (cfg : Cfg) (items : List (String × Nat)) (cs : CS)
    (hnew : ∀ it ∈ items, stemOf it.1 ∉ cs.loaded) :
    (farcallListOp cfg items cs).cs.loaded = cs.loaded := by
  induction items generalizing cs with
  | nil => simp [farcallListOp]
  | cons hd rest ih =>
    obtain ⟨p, t⟩ := hd
    rw [farcallListOp_unfold]
    have h1 := itemRes_loaded cfg p t cs (hnew (p, t) (by simp))
    generalize itemRes cfg p t cs = R at h1
    unfold Res.andThen
    cases R.err with
    | some e => exact h1
    | none =>
      simp only [Res.ofOut]
      have h2 : (seq (dwell cfg.shortPause R.cs) fun cs => (emit [Instr.blank, Instr.blank], cs)).2.loaded = cs.loaded := by
        simp [seq, dwell_loaded, h1]
      generalize (seq (dwell cfg.shortPause R.cs) fun cs => (emit [Instr.blank, Instr.blank], cs)) = S at h2
      rw [ih S.2 (fun it hit => by rw [h2]; exact hnew it (by simp [hit])), h2]

/-! ### axis rotation -/

/-- **An activated axis rotation is deactivated.**  In program order the G84 state after the written file is "off" — for every
configuration (session-wide Aerotech angle or not), every sequence of operations with any nesting of axis-rotation blocks
inside loops and inside each other, and wherever an operation was rejected or the user's code raised: `G84` lines come only
from entering and leaving a rotation, and every rotation block (and the session-wide one) is closed by the leaving sequence,
which ends with `G84 X Y`. -/
theorem session_rotation_off (cfg : Cfg) (ops : List Op) (hh : scanRot cfg.header false = false) :
    scanRot (flattenStmts (session cfg ops).1) false = false :=
  session_rot_off cfg ops hh

/-- the leaving sequence switches the rotation off from any state -/
theorem exit_rotation_off (cfg : Cfg) (cs : CS) (r : Bool) : scanRot (flattenStmts (exitRot cfg cs).1) r = false :=
  exitRot_off cfg cs r

/-- the shipped headers leave the rotation off (hypothesis of `session_rotation_off`) -/
theorem shipped_headers_rotation_off : ∀ h ∈ Femto.Gen.headers, scanRot h.2.2 false = false := by decide

/-- non-vacuity: a rotation block whose body raises inside a loop, under a session-wide rotation -/
example : scanRot (flattenStmts (session { header := Femto.Gen.header_uwe, aeroAngle := 30 }
    [.axisRot (some 12) [.rep 3 [.dwell (some 1), .raise]], .goOrigin]).1) false = false :=
  session_rotation_off _ _ (by decide)

/-! ### loop variables -/

/-- **Loop variables are declared.**  In program order every FOR variable of the written file has been declared by a DVAR
line earlier in the text — for every configuration and every sequence of operations, with declarations made anywhere
(they are hoisted to the top of the file), any nesting, and wherever an operation was rejected or the user's code raised:
`for_loop` refuses a variable that has not been declared, and nothing else the compiler emits declares, assigns or loops
over a variable. -/
theorem session_vars_declared (cfg : Cfg) (ops : List Op) (hh : headerVarFree cfg.header = true) :
    scanVars (flattenStmts (session cfg ops).1) [] = true :=
  session_vars cfg ops hh

/-- the shipped headers neither declare nor use variables (hypothesis of `session_vars_declared`) -/
theorem shipped_headers_var_free : ∀ h ∈ Femto.Gen.headers, headerVarFree h.2.2 = true := by decide

/-- non-vacuity: a FOR over a declared variable inside a REPEAT, an undeclared one refused (nothing emitted for it) -/
example : scanVars (flattenStmts (session { header := Femto.Gen.header_uwe }
    [.dvar ["K"], .rep 2 [.forr "k" 3 [.dwell (some 1)]], .forr "j" 2 [.dwell (some 1)]]).1) [] = true :=
  session_vars_declared _ _ (by decide)

/-! ### sub-programs: every call is preceded by a load -/

/-- **Every called sub-program was loaded before (calls to unloaded programs are refused).**  In program order every
`FARCALL`, `PROGRAM n BUFFEREDRUN` and `REMOVEPROGRAM` of the written file names a program that an earlier `PROGRAM n LOAD`
brought in and that no `REMOVEPROGRAM` in between took out (the scan `scanLoaded` behind `WF.callsLoaded` succeeds) — for every
configuration and every sequence of operations (loads, calls, buffered calls, removes, `farcall_list`, at any nesting inside
loops, rotation blocks and the user's own try / except), wherever an operation was rejected or the user's code raised.
Hypothesis `KeysAgree`: the compiler's bookkeeping (case-sensitive stem of the file name) and the controller's (lower-cased
base name without the last extension) tell the file names used in the session apart in the same way; without it the
statement is false (`calls_loaded_needs_keys_agree` below). -/
theorem session_calls_loaded (cfg : Cfg) (ops : List Op) (hh : ∀ i ∈ cfg.header, noLdInstr i = true)
    (hU : KeysAgree (pathsOps ops)) : (scanLoaded (flattenStmts (session cfg ops).1) []).isSome = true := by
  obtain ⟨L, h⟩ := session_calls_loaded_aux cfg ops hh hU
  simp only [ldEnd] at h
  simp [h]

/-- the shipped headers load, call and remove nothing (hypothesis of `session_calls_loaded`) -/
theorem shipped_headers_load_free : ∀ h ∈ Femto.Gen.headers, ∀ i ∈ h.2.2, noLdInstr i = true := by decide

/-- **the hypothesis cannot be dropped**: two file names that differ only in case are two programs for the compiler and one
for the controller; after `load A, load a, remove A` the compiler still accepts a call of `a`, which the controller no
longer has.  (The generator of the check does not produce such names; recorded in DESIGN.md 11.5.) -/
theorem calls_loaded_needs_keys_agree :
    (scanLoaded (flattenStmts (session { header := Femto.Gen.header_uwe }
      [.load "A.pgm" 2, .load "a.pgm" 2, .remove "A.pgm" 2, .farcall "a.pgm"]).1) []).isSome = false := by
  decide +kernel

/-- non-vacuity: names in different folders, with and without directory, a rejected call, a call inside a loop inside the
user's try / except, a `farcall_list`; the hypothesis holds and the scan succeeds -/
example : (scanLoaded (flattenStmts (session { header := Femto.Gen.header_uwe }
      [.load "sub/a.pgm" 2, .farcall "b.pgm", .attempt [.rep 3 [.farcall "a.pgm", .raise]], .farcallList [("c.pgm", 2), ("d.pgm", 3)],
       .buffered "a.pgm" 2, .remove "other/a.pgm" 2, .load "b.pgm" 3]).1) []).isSome = true :=
  session_calls_loaded _ _ (by decide) (by decide +kernel)

/-! ### the shipped headers -/

/-- the four header files satisfy the header hypotheses of the theorems above, contain no DWELL, leave the shutter
closed, and use the PSO axis the compiler uses for that laser (re-checked on the regenerated data on every run) -/
theorem shipped_headers_ok : ∀ h ∈ Femto.Gen.headers,
    headerClean h.2.2 = true ∧ headerGood h.2.2 = true ∧ scanShutter h.2.2 true = false ∧
      h.2.2.all (fun i => match i with | .pso a _ => a == h.2.1 | _ => true) = true := by decide

/-! ### non-vacuity: FOR inside REPEAT inside an axis rotation, exception in the innermost body -/

example : structure? (flattenStmts (session { header := Femto.Gen.header_uwe, aeroAngle := 30 }
      [.dvar ["k"], .axisRot (some 12) [.rep 3 [.forr "K" 2 [.dwell (some 1), .raise, .goInit]]], .goOrigin]).1)
    = some (session { header := Femto.Gen.header_uwe, aeroAngle := 30 }
      [.dvar ["k"], .axisRot (some 12) [.rep 3 [.forr "K" 2 [.dwell (some 1), .raise, .goInit]]], .goOrigin]).1 :=
  session_balanced _ _ (by decide)

/-- non-vacuity with the user's own try / except: a loop whose body raises, swallowed, and the program goes on -/
example : structure? (flattenStmts (session { header := Femto.Gen.header_uwe }
      [.attempt [.rep 3 [.dwell (some 1), .raise]], .loadBad "a.pgm", .goOrigin]).1)
    = some (session { header := Femto.Gen.header_uwe }
      [.attempt [.rep 3 [.dwell (some 1), .raise]], .loadBad "a.pgm", .goOrigin]).1 :=
  session_balanced _ _ (by decide)

end Femto.C03

/-
C18 — the fabrication spreadsheet lists every structure once with true values.
The table logic is proved; the xlsx file format (xlsxwriter / openpyxl round trip) is sampled by the correspondence run.
-/
import FemtoVerif.Model.Sheet
import Mathlib.Data.List.Sort
import Mathlib.Data.Rat.Defs
import Mathlib.Order.Defs.LinearOrder
import Mathlib.Tactic.NormNum

set_option linter.unusedSimpArgs false
set_option linter.unusedVariables false

namespace Femto.C18
open Femto.Sh

section rows
variable {α : Type}

private theorem le_props : (∀ a b c : Rat × α, decide (a.1 ≤ b.1) = true → decide (b.1 ≤ c.1) = true → decide (a.1 ≤ c.1) = true) ∧
    (∀ a b : Rat × α, (decide (a.1 ≤ b.1) || decide (b.1 ≤ a.1)) = true) := by
  refine ⟨?_, ?_⟩
  · intro a b c h1 h2; simp at h1 h2 ⊢; exact Rat.le_trans h1 h2
  · intro a b; simp; exact Rat.le_total

/-- **one row per structure**: the rows are a permutation of the waveguides followed by the markers -/
theorem rows_perm (wgs : List (Rat × α)) (mks : List α) : (rows wgs mks).Perm (wgs.map (·.2) ++ mks) := by
  unfold rows
  exact ((List.mergeSort_perm wgs _).map _).append_right mks

/-- **waveguides first, ordered by their input y**, markers after them in their own order -/
theorem rows_sorted (wgs : List (Rat × α)) (mks : List α) :
    ∃ sorted : List (Rat × α), sorted.Perm wgs ∧ sorted.Pairwise (fun a b => a.1 ≤ b.1) ∧
      rows wgs mks = sorted.map (·.2) ++ mks := by
  refine ⟨wgs.mergeSort fun a b => decide (a.1 ≤ b.1), List.mergeSort_perm wgs _, ?_, rfl⟩
  have := List.pairwise_mergeSort (le := fun a b : Rat × α => decide (a.1 ≤ b.1)) le_props.1 le_props.2 wgs
  exact this.imp (by intro a b h; simpa using h)

/-- the sort is stable: two waveguides with `yin₁ ≤ yin₂` given in that order keep their order (ties keep insertion order) -/
theorem rows_stable (wgs : List (Rat × α)) (a b : Rat × α) (hab : a.1 ≤ b.1) (h : [a, b].Sublist wgs) :
    [a, b].Sublist (wgs.mergeSort fun a b => decide (a.1 ≤ b.1)) :=
  List.pair_sublist_mergeSort le_props.1 le_props.2 (by simpa using hab) h

theorem rows_length (wgs : List (Rat × α)) (mks : List α) : (rows wgs mks).length = wgs.length + mks.length := by
  simp [rows, List.length_mergeSort]

end rows

/-- **a cell shows the attribute, blank iff it is missing** (for numeric values below the `1e5` placeholder and
non-empty text — the two representable limits of the placeholder scheme) -/
theorem cell_spec (numeric : Bool) (c : Cell) :
    (c = .missing → written (tableVal numeric c) = .missing) ∧
    (∀ q, c = .num q → q < 100000 → written (tableVal numeric c) = .num q) ∧
    (∀ s, c = .txt s → s ≠ "" → written (tableVal numeric c) = .txt s) := by
  refine ⟨?_, ?_, ?_⟩
  · rintro rfl; cases numeric <;> simp [tableVal, written] <;> norm_num
  · rintro q rfl hq; simp [tableVal, written, hq]
  · rintro s rfl hs; simp [tableVal, written, hs]

/-- **a selected column is omitted only when it is undefined for all structures or constant with suppression on**;
`name` is never omitted -/
theorem column_kept_iff (suppr : Bool) (c : Col) (v0 : Cell) (rest : List Cell) :
    decideCol suppr c (v0 :: rest) = .keep ↔
      c.tag = "name" ∨
      (¬ (c.numeric = true ∧ ∀ v ∈ v0 :: rest, isLarge v = true) ∧
       ¬ ((∀ v ∈ v0 :: rest, v = v0) ∧ suppr = true ∧ v0 ≠ .txt "")) := by
  unfold decideCol
  by_cases hn : c.tag = "name"
  · rw [if_pos hn]; simp [hn]
  · rw [if_neg hn]
    have hU : ((c.numeric && (v0 :: rest).all isLarge) = true) ↔ (c.numeric = true ∧ ∀ v ∈ v0 :: rest, isLarge v = true) := by
      simp only [Bool.and_eq_true, List.all_eq_true]
    have hC : (((v0 :: rest).all (· == v0) && suppr && v0 != Cell.txt "") = true) ↔
        ((∀ v ∈ v0 :: rest, v = v0) ∧ suppr = true ∧ v0 ≠ .txt "") := by
      simp only [Bool.and_eq_true, List.all_eq_true, beq_iff_eq, bne_iff_ne, ne_eq, and_assoc]
    by_cases hu : (c.numeric && (v0 :: rest).all isLarge) = true
    · rw [if_pos hu]
      constructor
      · intro h; cases h
      · rintro (h | h)
        · exact absurd h hn
        · exact absurd (hU.mp hu) h.1
    · rw [if_neg hu]
      simp only
      by_cases hc : ((v0 :: rest).all (· == v0) && suppr && v0 != Cell.txt "") = true
      · rw [if_pos hc]
        constructor
        · intro h; cases h
        · rintro (h | h)
          · exact absurd h hn
          · exact absurd (hC.mp hc) h.2
      · rw [if_neg hc]
        simp only [true_iff]
        right
        exact ⟨fun h => hu (hU.mpr h), fun h => hc (hC.mpr h)⟩

/-- **an omitted constant is shown in the preamble when the preamble has that field** -/
theorem preamble_gets_constant (suppr static : Bool) (c : Col) (vals : List Cell) (v : Cell)
    (h : decideCol suppr c vals = .omitConstant v) (hp : c.inPreamble = true) (hn : c.tag ≠ "name") :
    preambleOf suppr static c vals = .value v := by
  simp [preambleOf, hn, h, hp]

/-- the value handed over is the common value of the column -/
theorem omitted_constant_is_common (suppr : Bool) (c : Col) (vals : List Cell) (v : Cell)
    (h : decideCol suppr c vals = .omitConstant v) : ∀ x ∈ vals, x = v := by
  unfold decideCol at h
  split at h
  · cases h
  · split at h
    · cases h
    · cases vals with
      | nil => simp at h
      | cons v0 rest =>
        simp only at h
        split at h
        · rename_i hc
          injection h with h; subst h
          simp only [Bool.and_eq_true, List.all_eq_true, beq_iff_eq] at hc
          exact hc.1.1
        · cases h

/-! non-vacuity -/
example : decideCol true ⟨"speed", true, true⟩ [.num 20, .num 20] = .omitConstant (.num 20) := by decide +kernel
example : decideCol true ⟨"power", true, true⟩ [.num 110000, .num 110000] = .omitUndefined := by decide +kernel
example : decideCol false ⟨"speed", true, true⟩ [.num 20, .num 20] = .keep := by decide +kernel

end Femto.C18

/-
C17 — warp compensation follows the measured surface and only changes z.
The composition (where the surface value enters the transformation) is proved for the same `transformK` the driver
executes; the interpolation itself (SciPy's RBF solve, smoothness between samples) is sampled — partial claim.
-/
import FemtoVerif.Model.Transform
import FemtoVerif.Props.C02
import Mathlib.Tactic.Ring
import Mathlib.Tactic.FieldSimp
import Mathlib.Algebra.BigOperators.Group.Finset.Basic

set_option linter.unusedSimpArgs false
set_option linter.unusedVariables false

namespace Femto.C17
open Femto Femto.C02

section field
variable {K : Type} [Field K]

/-- **x and y are unaffected by the compensation**: whatever surface value is added, the transformed x and y are those
obtained without compensation -/
theorem warp_only_z (sx sy : K) (fx fy : Bool) (c s neff wz x y z : K) :
    (transformK sx sy fx fy c s neff wz x y z).1 = (transformK sx sy fx fy c s neff 0 x y z).1 ∧
    (transformK sx sy fx fy c s neff wz x y z).2.1 = (transformK sx sy fx fy c s neff 0 x y z).2.1 := by
  simp only [transformK]
  constructor <;> ring

/-- **the written z is `(z + s(x, y)) / (n_glass / n_environment)`**, with the surface value `wz = s(x, y)` taken at the
point **as given** (before the origin shift, the flips and the rotation — it enters the model as a value attached to the
untransformed point) -/
theorem warp_z (sx sy : K) (fx fy : Bool) (c s neff wz x y z : K) :
    (transformK sx sy fx fy c s neff wz x y z).2.2 = (z + wz) / neff := by
  simp only [transformK]
  ring

/-- with compensation disabled (`wz = 0`) z is only rescaled, and the whole map is the rigid map of C02 -/
theorem warp_off (sx sy : K) (fx fy : Bool) (c s neff x y z : K) :
    (transformK sx sy fx fy c s neff 0 x y z).2.2 = z / neff ∧
    transformK sx sy fx fy c s neff 0 x y z = rigid sx sy fx fy c s neff x y z :=
  ⟨by simp only [transformK]; ring, transform_eq_rigid sx sy fx fy c s neff x y z⟩

/-- the compensated map is the rigid map of C02 applied to the point lifted by the surface value -/
theorem warp_is_rigid_of_lifted (sx sy : K) (fx fy : Bool) (c s neff wz x y z : K) :
    transformK sx sy fx fy c s neff wz x y z = rigid sx sy fx fy c s neff x y (z + wz) := by
  rw [← transform_eq_rigid]
  simp only [transformK]
  refine Prod.ext ?_ (Prod.ext ?_ ?_) <;> simp <;> ring

/-- **an interpolant that satisfies the collocation equations reproduces every sample**: if the coefficients `w` (kernel
part) and `d` (polynomial part) solve `Σ_j w_j φ(i, j) + Σ_k d_k p(i, k) = z_i`, then evaluating
`s = Σ_j w_j φ(·, x_j) + Σ_k d_k p_k(·)` at sample `i` gives `z_i` (the solve is SciPy's) -/
theorem interp_reproduces {n m : Nat} (φ : Fin n → Fin n → K) (p : Fin n → Fin m → K) (w : Fin n → K) (d : Fin m → K)
    (z : Fin n → K) (hcol : ∀ i, (Finset.univ.sum fun j => w j * φ i j) + (Finset.univ.sum fun k => d k * p i k) = z i)
    (eval : Fin n → K) (heval : ∀ i, eval i = (Finset.univ.sum fun j => w j * φ i j) + (Finset.univ.sum fun k => d k * p i k)) :
    ∀ i, eval i = z i := fun i => (heval i).trans (hcol i)

end field

/-- non-vacuity: shift, flip and a surface value of 1/4 at the given point -/
example : transformK (1 : ℚ) 0 true false 1 0 2 (1/4) 3 5 1 = (-2, 5, 5/8) := by
  simp [transformK, flipSign]; norm_num

end Femto.C17

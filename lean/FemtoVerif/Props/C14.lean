/-
C14 — marker primitives draw exactly the documented figure.
`strokes` = maximal runs of shutter-open rows with consecutive repeats removed (Model/Raster.lean).
-/
import FemtoVerif.Proofs.PathLemmas
import Mathlib.Tactic.Ring
import Mathlib.Tactic.Linarith
import Mathlib.Tactic.FieldSimp
import Mathlib.Data.Rat.Defs

set_option linter.unusedSimpArgs false
set_option linter.unusedVariables false

namespace Femto.C14
open Femto Femto.Pth Femto.Mk Femto.Ras

/-! ### cross -/

/-- the recorded trajectory of a cross, row by row -/
def crossTraj (a : Attrs) (x y z lx ly : Rat) : Traj :=
  [⟨x - lx / 2, y, z, a.speedPos, 0⟩, ⟨x - lx / 2, y, z, a.speedPos, 1⟩,
   ⟨x + lx / 2, y, z, a.speed, 1⟩, ⟨x + lx / 2, y, z, a.speed, 0⟩,
   ⟨x, y - ly / 2, z, a.speed, 0⟩, ⟨x, y - ly / 2, z, a.speed, 1⟩,
   ⟨x, y + ly / 2, z, a.speed, 1⟩, ⟨x, y + ly / 2, z, a.speed, 0⟩,
   ⟨x, y, z, a.speed, 0⟩]

theorem cross_traj (a : Attrs) (x y z lx ly : Rat) : cross a x y z lx ly = .ok (crossTraj a x y z lx ly) := by
  simp only [cross, start, linear, bind, Except.bind, crossTraj, List.isEmpty_nil, Bool.not_true, Bool.false_eq_true,
    if_false, Option.getD_none, Option.getD_some, List.getLast?_cons_cons, List.getLast?_singleton, List.cons_append,
    List.nil_append, List.getLast?_append, Option.some_or]
  congr 1
  simp only [List.cons.injEq, Row.mk.injEq, and_true, true_and]
  refine ⟨?_, ?_, ?_, ?_, ?_, ?_⟩ <;> (try constructor) <;> (try constructor) <;> ring_nf <;> trivial

/-- **cross**: exactly two open-shutter strokes, of lengths `lx` and `ly`, centred on the requested position, the
first parallel to x and the second parallel to y; everything else, and the end of the figure, is shutter-closed -/
theorem cross_strokes (a : Attrs) (x y z lx ly : Rat) :
    ∃ t, cross a x y z lx ly = .ok t ∧
      strokes t = [dedup [(x - lx / 2, y, z), (x + lx / 2, y, z)], dedup [(x, y - ly / 2, z), (x, y + ly / 2, z)]] ∧
      t.getLast?.map (·.s) = some 0 := by
  refine ⟨_, cross_traj a x y z lx ly, ?_, by simp [crossTraj]⟩
  simp [strokes_def, flagged, crossTraj, p3, C15.tr_false, C15.tr_tt, C15.tr_tf, consRun, trueRuns]

/-! ### ruler -/

/-- the four rows of one tick: go to its start closed, open, draw to `xt`, close -/
def tickRows (a : Attrs) (xi d : Rat) (tk : Rat × Rat) : Traj :=
  [⟨xi, tk.2, d, a.speed, 0⟩, ⟨xi, tk.2, d, a.speed, 1⟩, ⟨tk.1, tk.2, d, a.speed, 1⟩, ⟨tk.1, tk.2, d, a.speed, 0⟩]

theorem rulerTicks_eq (a : Attrs) (xi d : Rat) (ticks : List (Rat × Rat)) (t : Traj) (l : Row Rat) :
    rulerTicks a xi d ticks (t ++ [l]) = .ok (t ++ [l] ++ ticks.flatMap (tickRows a xi d)) := by
  induction ticks generalizing t l with
  | nil => simp [rulerTicks]
  | cons tk rest ih =>
    obtain ⟨xt, yt⟩ := tk
    simp only [rulerTicks, bind, Except.bind, linear_snoc]
    rw [ih]
    simp [tickRows, nextRow, List.append_assoc]

private theorem strokes_tick (a : Attrs) (xi d : Rat) (tk : Rat × Rat) (rest : Traj) :
    strokes (tickRows a xi d tk ++ rest) = dedup [(xi, tk.2, d), (tk.1, tk.2, d)] :: strokes rest := by
  have h1 : tickRows a xi d tk ++ rest
      = [⟨xi, tk.2, d, a.speed, 0⟩, ⟨xi, tk.2, d, a.speed, 1⟩, ⟨tk.1, tk.2, d, a.speed, 1⟩] ++ ⟨tk.1, tk.2, d, a.speed, 0⟩ :: rest := by
    simp [tickRows]
  rw [h1, strokes_append_closed _ _ _ rfl]
  simp [strokes_def, flagged, p3, C15.tr_false, C15.tr_tt, C15.tr_single, consRun]

private theorem strokes_ticks (a : Attrs) (xi d : Rat) (ticks : List (Rat × Rat)) (rest : Traj) :
    strokes (ticks.flatMap (tickRows a xi d) ++ rest)
      = ticks.map (fun tk => dedup [(xi, tk.2, d), (tk.1, tk.2, d)]) ++ strokes rest := by
  induction ticks with
  | nil => simp
  | cons tk ts ih => simp only [List.flatMap_cons, List.append_assoc, strokes_tick, ih, List.map_cons, List.cons_append]

/-- **ruler**: for the sorted distinct tick positions `y0 :: rest` there is one stroke per tick, every one starting at the
initial x, in the order of the list, the first reaching `lx` and the others `lx2`.  (`start` leaves one isolated
open-shutter point at the beginning of the first tick: the one-point stroke at the head of the list.) -/
theorem ruler_strokes (a : Attrs) (d xi lx lx2 y0 : Rat) (rest : List Rat) :
    ∃ t, ruler a d xi lx lx2 (y0 :: rest) = .ok t ∧
      strokes t = [(xi, y0, d)] :: ((lx, y0) :: rest.map fun y => (lx2, y)).map (fun tk => dedup [(xi, tk.2, d), (tk.1, tk.2, d)]) ∧
      t.getLast?.map (·.s) = some 0 := by
  set ticks := (lx, y0) :: rest.map fun y => (lx2, y) with hticks
  have hs : start a xi y0 d none [] = .ok ([⟨xi, y0, d, a.speedPos, 0⟩] ++ [⟨xi, y0, d, a.speedPos, 1⟩]) := by simp [start]
  -- the last row before `finish`
  obtain ⟨body, lastr, hbody, hlast⟩ : ∃ body lastr, ticks.flatMap (tickRows a xi d) = body ++ [lastr] ∧ lastr.s = 0 := by
    have hne : ticks ≠ [] := by simp [hticks]
    obtain ⟨init, tk, hi⟩ : ∃ init tk, ticks = init ++ [tk] := ⟨ticks.dropLast, ticks.getLast hne, (List.dropLast_append_getLast hne).symm⟩
    refine ⟨init.flatMap (tickRows a xi d) ++ [⟨xi, tk.2, d, a.speed, 0⟩, ⟨xi, tk.2, d, a.speed, 1⟩, ⟨tk.1, tk.2, d, a.speed, 1⟩],
      ⟨tk.1, tk.2, d, a.speed, 0⟩, ?_, rfl⟩
    rw [hi]; simp [tickRows]
  refine ⟨(⟨xi, y0, d, a.speedPos, 0⟩ : Row Rat) :: ((⟨xi, y0, d, a.speedPos, 1⟩ :: body) ++ [lastr]) ++
        [⟨lastr.x, lastr.y, lastr.z, lastr.f, 0⟩, ⟨xi, y0, d, a.speedClosed, 0⟩], ?_, ?_, ?_⟩
  · simp only [ruler, bind, Except.bind, hs]
    rw [rulerTicks_eq, hbody]
    have e : [⟨xi, y0, d, a.speedPos, 0⟩] ++ [⟨xi, y0, d, a.speedPos, 1⟩] ++ (body ++ [lastr])
        = (⟨xi, y0, d, a.speedPos, 0⟩ : Row Rat) :: ((⟨xi, y0, d, a.speedPos, 1⟩ :: body) ++ [lastr]) := by simp
    rw [e]
    exact finish_snoc a _ _ _
  · have e2 : (⟨xi, y0, d, a.speedPos, 0⟩ : Row Rat) :: ((⟨xi, y0, d, a.speedPos, 1⟩ :: body) ++ [lastr]) ++
        [⟨lastr.x, lastr.y, lastr.z, lastr.f, 0⟩, ⟨xi, y0, d, a.speedClosed, 0⟩]
        = ⟨xi, y0, d, a.speedPos, 0⟩ :: ([⟨xi, y0, d, a.speedPos, 1⟩] ++ (ticks.flatMap (tickRows a xi d) ++
            [⟨lastr.x, lastr.y, lastr.z, lastr.f, 0⟩, ⟨xi, y0, d, a.speedClosed, 0⟩])) := by
      rw [hbody]; simp
    rw [e2, strokes_cons_closed _ _ rfl]
    -- the first tick row is closed: it separates the isolated start point
    have hft : ticks.flatMap (tickRows a xi d) = (⟨xi, y0, d, a.speed, 0⟩ : Row Rat) ::
        ([⟨xi, y0, d, a.speed, 1⟩, ⟨lx, y0, d, a.speed, 1⟩, ⟨lx, y0, d, a.speed, 0⟩] ++ (rest.map fun y => (lx2, y)).flatMap (tickRows a xi d)) := by
      simp [hticks, tickRows]
    have hall : strokes (ticks.flatMap (tickRows a xi d) ++ [⟨lastr.x, lastr.y, lastr.z, lastr.f, 0⟩, ⟨xi, y0, d, a.speedClosed, 0⟩])
        = ticks.map (fun tk => dedup [(xi, tk.2, d), (tk.1, tk.2, d)]) := by
      rw [strokes_ticks]
      simp [strokes_def, flagged, C15.tr_false, trueRuns]
    have hsplit : strokes ([⟨xi, y0, d, a.speedPos, 1⟩] ++ (ticks.flatMap (tickRows a xi d) ++
          [⟨lastr.x, lastr.y, lastr.z, lastr.f, 0⟩, ⟨xi, y0, d, a.speedClosed, 0⟩]))
        = strokes [(⟨xi, y0, d, a.speedPos, 1⟩ : Row Rat)] ++ strokes (ticks.flatMap (tickRows a xi d) ++
          [⟨lastr.x, lastr.y, lastr.z, lastr.f, 0⟩, ⟨xi, y0, d, a.speedClosed, 0⟩]) := by
      rw [hft]
      generalize ([⟨xi, y0, d, a.speed, 1⟩, ⟨lx, y0, d, a.speed, 1⟩, ⟨lx, y0, d, a.speed, 0⟩] ++
        (rest.map fun y => (lx2, y)).flatMap (tickRows a xi d) : Traj) = R
      have h1 := strokes_append_closed [(⟨xi, y0, d, a.speedPos, 1⟩ : Row Rat)]
        (R ++ [⟨lastr.x, lastr.y, lastr.z, lastr.f, 0⟩, ⟨xi, y0, d, a.speedClosed, 0⟩]) ⟨xi, y0, d, a.speed, 0⟩ rfl
      have h2 := strokes_cons_closed (⟨xi, y0, d, a.speed, 0⟩ : Row Rat)
        (R ++ [⟨lastr.x, lastr.y, lastr.z, lastr.f, 0⟩, ⟨xi, y0, d, a.speedClosed, 0⟩]) rfl
      simp only [List.cons_append, List.nil_append] at h1 h2 ⊢
      rw [h1, h2]
    rw [hsplit, hall]
    simp [strokes_def, flagged, p3, C15.tr_single, dedup]
  · have : ∀ (u : Traj) (r : Row Rat), (u ++ [r]).getLast?.map (·.s) = some r.s := by
      intro u r; rw [List.getLast?_append]; simp
    have e3 : (⟨xi, y0, d, a.speedPos, 0⟩ : Row Rat) :: ((⟨xi, y0, d, a.speedPos, 1⟩ :: body) ++ [lastr]) ++
        [⟨lastr.x, lastr.y, lastr.z, lastr.f, 0⟩, ⟨xi, y0, d, a.speedClosed, 0⟩]
        = ((⟨xi, y0, d, a.speedPos, 0⟩ : Row Rat) :: ((⟨xi, y0, d, a.speedPos, 1⟩ :: body) ++ [lastr]) ++
        [⟨lastr.x, lastr.y, lastr.z, lastr.f, 0⟩]) ++ [⟨xi, y0, d, a.speedClosed, 0⟩] := by simp
    rw [e3, this]

/-- `np.unique`: the tick list is strictly increasing (so the strokes come in increasing y order, one per distinct tick) -/
theorem uniqueSorted_sorted (l : List Rat) : (uniqueSorted l).Pairwise (· < ·) := by
  have hins : ∀ (a : Rat) (s : List Rat), s.Pairwise (· < ·) →
      (insertU a s).Pairwise (· < ·) ∧ ∀ x ∈ insertU a s, x = a ∨ x ∈ s := by
    intro a s
    induction s with
    | nil => intro _; simp [insertU]
    | cons b t ih =>
      intro hs
      have hs' := List.pairwise_cons.mp hs
      simp only [insertU]
      split
      · rename_i hab
        refine ⟨List.pairwise_cons.mpr ⟨?_, hs⟩, by intro x hx; simpa using hx⟩
        intro y hy
        rcases List.mem_cons.mp hy with rfl | hy
        · exact hab
        · exact lt_trans hab (hs'.1 y hy)
      · split
        · exact ⟨hs, fun x hx => Or.inr hx⟩
        · rename_i h1 h2
          obtain ⟨ih1, ih2⟩ := ih hs'.2
          refine ⟨List.pairwise_cons.mpr ⟨?_, ih1⟩, ?_⟩
          · intro y hy
            rcases ih2 y hy with rfl | hy
            · exact lt_of_le_of_ne (not_lt.mp h1) (fun e => h2 e.symm)
            · exact hs'.1 y hy
          · intro x hx
            rcases List.mem_cons.mp hx with rfl | hx
            · exact Or.inr (by simp)
            · rcases ih2 x hx with rfl | hx
              · exact Or.inl rfl
              · exact Or.inr (by simp [hx])
  unfold uniqueSorted
  induction l with
  | nil => simp
  | cons a t ih => simp only [List.foldr_cons]; exact (hins a _ ih).1

/-- and it has exactly the elements of the input -/
theorem uniqueSorted_mem (l : List Rat) (x : Rat) : x ∈ uniqueSorted l ↔ x ∈ l := by
  have hins : ∀ (a : Rat) (s : List Rat) (x : Rat), x ∈ insertU a s ↔ x = a ∨ x ∈ s := by
    intro a s
    induction s with
    | nil => intro x; simp [insertU]
    | cons b t ih =>
      intro x
      simp only [insertU]
      split
      · simp
      · split
        · rename_i h; subst h; simp
        · simp only [List.mem_cons, ih]; tauto
  unfold uniqueSorted
  induction l with
  | nil => simp
  | cons a t ih => simp only [List.foldr_cons, hins, ih, List.mem_cons]

/-! ### meander -/

def lineRow (a : Attrs) (alongX : Bool) (len : Rat) (l : Row Rat) : Row Rat :=
  if alongX then nextRow a l (some len) (some 0) (some 0) false 1 none else nextRow a l (some 0) (some len) (some 0) false 1 none

def stepRow (a : Attrs) (alongX : Bool) (d : Rat) (l : Row Rat) : Row Rat :=
  if alongX then nextRow a l (some 0) (some d) (some 0) false 1 none else nextRow a l (some d) (some 0) (some 0) false 1 none

/-- the rows the meander loop appends after a last row `l` -/
def meanderRows (a : Attrs) (alongX : Bool) (w d : Rat) : Nat → Rat → Row Rat → List (Row Rat)
  | 0, sg, l => [lineRow a alongX (sg * w) l]
  | n + 1, sg, l =>
    lineRow a alongX (sg * w) l :: stepRow a alongX d (lineRow a alongX (sg * w) l) ::
      meanderRows a alongX w d n (-sg) (stepRow a alongX d (lineRow a alongX (sg * w) l))

theorem meanderLines_eq (a : Attrs) (alongX : Bool) (w d : Rat) (n : Nat) (sg : Rat) (t : Traj) (l : Row Rat) :
    meanderLines a alongX w d n sg (t ++ [l]) = .ok (t ++ [l] ++ meanderRows a alongX w d n sg l) := by
  induction n generalizing sg t l with
  | zero => cases alongX <;> simp [meanderLines, meanderLine, meanderRows, lineRow, linear_snoc]
  | succ n ih =>
    cases alongX <;>
    · simp only [meanderLines, meanderLine, meanderStep, bind, Except.bind, linear_snoc, if_true, if_false,
        Bool.false_eq_true]
      rw [ih]
      simp [meanderRows, lineRow, stepRow, List.append_assoc]

theorem meanderRows_open (a : Attrs) (alongX : Bool) (w d : Rat) (n : Nat) (sg : Rat) (l : Row Rat) :
    ∀ r ∈ meanderRows a alongX w d n sg l, r.s = 1 := by
  induction n generalizing sg l with
  | zero => intro r hr; cases alongX <;> simp_all [meanderRows, lineRow, nextRow]
  | succ n ih =>
    intro r hr
    simp only [meanderRows, List.mem_cons] at hr
    rcases hr with rfl | rfl | hr
    · cases alongX <;> simp [lineRow, nextRow]
    · cases alongX <;> simp [stepRow, nextRow]
    · exact ih _ _ r hr

/-- `floor(extent / spacing) + 1` lines joined by `floor(extent / spacing)` steps -/
theorem meanderRows_length (a : Attrs) (alongX : Bool) (w d : Rat) (n : Nat) (sg : Rat) (l : Row Rat) :
    (meanderRows a alongX w d n sg l).length = 2 * n + 1 := by
  induction n generalizing sg l with
  | zero => simp [meanderRows]
  | succ n ih => simp only [meanderRows, List.length_cons, ih]; omega

/-- along the stepping axis the `k`-th line of an x-oriented meander lies at `y + k·d` (`d` = signed spacing, towards
the final position); lines are the rows of even index, steps those of odd index -/
theorem meanderRows_step_axis (a : Attrs) (w d : Rat) (n : Nat) (sg : Rat) (l : Row Rat) (i : Nat)
    (hi : i < 2 * n + 1) :
    ((meanderRows a true w d n sg l)[i]?.map (·.y)) = some (l.y + ((i + 1) / 2 : Nat) * d) := by
  induction n generalizing sg l i with
  | zero =>
    have : i = 0 := by omega
    subst this; simp [meanderRows, lineRow, nextRow]
  | succ n ih =>
    match i with
    | 0 => simp [meanderRows, lineRow, nextRow]
    | 1 => simp [meanderRows, lineRow, stepRow, nextRow]
    | i + 2 =>
      simp only [meanderRows, List.getElem?_cons_succ]
      rw [ih _ _ i (by omega)]
      have e : (i + 2 + 1) / 2 = (i + 1) / 2 + 1 := by omega
      rw [e]
      simp [stepRow, lineRow, nextRow]; push_cast; ring

/-- **meander**: one continuous open-shutter stroke through `2·n + 2` vertices (`n + 1` lines of the given width joined
by `n` steps of the spacing, `n = floor(|extent| / spacing)`), everything else and the end shutter-closed -/
theorem meander_one_stroke (a : Attrs) (xi yi zi xf yf w delta : Rat) (alongX : Bool) :
    ∃ t rows, meander a xi yi zi xf yf w delta alongX = .ok t ∧
      rows = meanderRows a alongX w (sgn (if alongX then yf - yi else xf - xi) * delta)
        (meanderPasses (if alongX then yf - yi else xf - xi) delta) 1 ⟨xi, yi, zi, a.speedPos, 1⟩ ∧
      strokes t = [dedup ((xi, yi, zi) :: rows.map p3)] ∧
      rows.length = 2 * meanderPasses (if alongX then yf - yi else xf - xi) delta + 1 ∧
      t.getLast?.map (·.s) = some 0 := by
  set ext := (if alongX then yf - yi else xf - xi) with hext
  set rows := meanderRows a alongX w (sgn ext * delta) (meanderPasses ext delta) 1 ⟨xi, yi, zi, a.speedPos, 1⟩ with hrows
  have hlen := meanderRows_length a alongX w (sgn ext * delta) (meanderPasses ext delta) 1 ⟨xi, yi, zi, a.speedPos, 1⟩
  have hopen := meanderRows_open a alongX w (sgn ext * delta) (meanderPasses ext delta) 1 ⟨xi, yi, zi, a.speedPos, 1⟩
  rw [← hrows] at hlen hopen
  obtain ⟨body, lastr, hb⟩ : ∃ body lastr, rows = body ++ [lastr] := by
    have hne : rows ≠ [] := by intro h; rw [h] at hlen; simp at hlen
    exact ⟨rows.dropLast, rows.getLast hne, (List.dropLast_append_getLast hne).symm⟩
  have hs : start a xi yi zi none [] = .ok ([⟨xi, yi, zi, a.speedPos, 0⟩] ++ [⟨xi, yi, zi, a.speedPos, 1⟩]) := by simp [start]
  refine ⟨(⟨xi, yi, zi, a.speedPos, 0⟩ : Row Rat) :: ((⟨xi, yi, zi, a.speedPos, 1⟩ :: body) ++ [lastr]) ++
      [⟨lastr.x, lastr.y, lastr.z, lastr.f, 0⟩, ⟨xi, yi, zi, a.speedClosed, 0⟩], rows, ?_, rfl, ?_, hlen, ?_⟩
  · simp only [meander, bind, Except.bind, hs, ← hext]
    rw [meanderLines_eq, ← hrows, hb]
    have e : [⟨xi, yi, zi, a.speedPos, 0⟩] ++ [⟨xi, yi, zi, a.speedPos, 1⟩] ++ (body ++ [lastr])
        = (⟨xi, yi, zi, a.speedPos, 0⟩ : Row Rat) :: ((⟨xi, yi, zi, a.speedPos, 1⟩ :: body) ++ [lastr]) := by simp
    rw [e]
    exact finish_snoc a _ _ _
  · have e2 : (⟨xi, yi, zi, a.speedPos, 0⟩ : Row Rat) :: ((⟨xi, yi, zi, a.speedPos, 1⟩ :: body) ++ [lastr]) ++
        [⟨lastr.x, lastr.y, lastr.z, lastr.f, 0⟩, ⟨xi, yi, zi, a.speedClosed, 0⟩]
        = ⟨xi, yi, zi, a.speedPos, 0⟩ :: ((⟨xi, yi, zi, a.speedPos, 1⟩ :: rows) ++
            ⟨lastr.x, lastr.y, lastr.z, lastr.f, 0⟩ :: [⟨xi, yi, zi, a.speedClosed, 0⟩]) := by
      rw [hb]; simp
    rw [e2, strokes_cons_closed _ _ rfl, strokes_append_closed _ _ _ rfl,
      strokes_all_open _ (by simp) (by
        intro r hr
        rcases List.mem_cons.mp hr with rfl | hr
        · simp
        · rw [hopen r hr]; norm_num)]
    simp [strokes_def, flagged, C15.tr_false, trueRuns, p3]
  · have : ∀ (u : Traj) (r : Row Rat), (u ++ [r]).getLast?.map (·.s) = some r.s := by
      intro u r; rw [List.getLast?_append]; simp
    have e3 : (⟨xi, yi, zi, a.speedPos, 0⟩ : Row Rat) :: ((⟨xi, yi, zi, a.speedPos, 1⟩ :: body) ++ [lastr]) ++
        [⟨lastr.x, lastr.y, lastr.z, lastr.f, 0⟩, ⟨xi, yi, zi, a.speedClosed, 0⟩]
        = ((⟨xi, yi, zi, a.speedPos, 0⟩ : Row Rat) :: ((⟨xi, yi, zi, a.speedPos, 1⟩ :: body) ++ [lastr]) ++
        [⟨lastr.x, lastr.y, lastr.z, lastr.f, 0⟩]) ++ [⟨xi, yi, zi, a.speedClosed, 0⟩] := by simp
    rw [e3, this]

/-! ### ablation and box -/

theorem linear_abs_full (a : Attrs) (t : Traj) (ht : t ≠ []) (x y z s : Rat) :
    linear a (some x) (some y) (some z) true s none t = .ok (t ++ [⟨x, y, z, a.speed, s⟩]) := by
  unfold linear
  cases h : t.getLast? with
  | none => simp at h; exact absurd h ht
  | some l => simp

theorem finish_of (a : Attrs) (t : Traj) (h l : Row Rat) (hh : t.head? = some h) (hl : t.getLast? = some l) :
    finish a t = .ok (t ++ [⟨l.x, l.y, l.z, l.f, 0⟩, ⟨h.x, h.y, h.z, a.speedClosed, 0⟩]) := by
  simp [finish, hh, hl]

theorem strokes_drop_closed_tail (t : Traj) (r1 r2 : Row Rat) (h1 : r1.s = 0) (h2 : r2.s = 0) :
    strokes (t ++ [r1, r2]) = strokes t := by
  rw [strokes_append_closed t [r2] r1 h1, strokes_cons_closed r2 [] h2, strokes_nil, List.append_nil]

def openRows (a : Attrs) (pts : List P3) : Traj := pts.map fun p => ⟨p.1, p.2.1, p.2.2, a.speed, 1⟩

theorem chain_eq (a : Attrs) (pts : List P3) (t : Traj) (ht : t ≠ []) : chain a pts t = .ok (t ++ openRows a pts) := by
  induction pts generalizing t with
  | nil => simp [chain, openRows]
  | cons p rest ih =>
    simp only [chain, bind, Except.bind, linear_abs_full a t ht]
    rw [ih _ (by simp)]
    simp [openRows, List.append_assoc]

/-- the rows of one (shifted) copy: go to its first vertex closed, open, the vertices, the last vertex again open, closed -/
def copyRows (a : Attrs) (c : List P3) : Traj :=
  match c.head?, c.getLast? with
  | some c0, some cl =>
    [⟨c0.1, c0.2.1, c0.2.2, a.speed, 0⟩, ⟨c0.1, c0.2.1, c0.2.2, a.speed, 1⟩] ++ openRows a c ++
      [⟨cl.1, cl.2.1, cl.2.2, a.speed, 1⟩, ⟨cl.1, cl.2.1, cl.2.2, a.speed, 0⟩]
  | _, _ => []

theorem ablationCopy_eq (a : Attrs) (c : List P3) (t : Traj) (ht : t ≠ []) :
    ablationCopy a c t = .ok (t ++ copyRows a c) := by
  unfold ablationCopy copyRows
  cases h0 : c.head? with
  | none => simp
  | some c0 =>
    cases hl : c.getLast? with
    | none => simp
    | some cl =>
      have e1 := linear_abs_full a t ht c0.1 c0.2.1 c0.2.2 0
      have e2 := linear_abs_full a (t ++ [⟨c0.1, c0.2.1, c0.2.2, a.speed, 0⟩]) (by simp) c0.1 c0.2.1 c0.2.2 1
      have e3 := chain_eq a c (t ++ [⟨c0.1, c0.2.1, c0.2.2, a.speed, 0⟩] ++ [⟨c0.1, c0.2.1, c0.2.2, a.speed, 1⟩]) (by simp)
      have e4 := linear_abs_full a (t ++ [⟨c0.1, c0.2.1, c0.2.2, a.speed, 0⟩] ++ [⟨c0.1, c0.2.1, c0.2.2, a.speed, 1⟩] ++ openRows a c)
        (by simp) cl.1 cl.2.1 cl.2.2 1
      have e5 := linear_abs_full a (t ++ [⟨c0.1, c0.2.1, c0.2.2, a.speed, 0⟩] ++ [⟨c0.1, c0.2.1, c0.2.2, a.speed, 1⟩] ++ openRows a c ++
        [⟨cl.1, cl.2.1, cl.2.2, a.speed, 1⟩]) (by simp) cl.1 cl.2.1 cl.2.2 0
      simp only [bind, Except.bind, e1, e2, e3, e4, e5]
      simp [List.append_assoc]

theorem ablationCopies_eq (a : Attrs) (cs : List (List P3)) (t : Traj) (ht : t ≠ []) :
    ablationCopies a cs t = .ok (t ++ cs.flatMap (copyRows a)) := by
  induction cs generalizing t with
  | nil => simp [ablationCopies]
  | cons c rest ih =>
    simp only [ablationCopies, bind, Except.bind, ablationCopy_eq a c t ht]
    rw [ih _ (by simp [ht])]
    simp [List.append_assoc]

theorem dedup_cons_cons_self (p : P3) (t : List P3) : dedup (p :: p :: t) = dedup (p :: t) := by simp [dedup]

theorem dedup_head_dup (c : List P3) (c0 : P3) (h0 : c.head? = some c0) : dedup (c0 :: c) = dedup c := by
  cases c with
  | nil => simp at h0
  | cons p t => simp at h0; subst h0; exact dedup_cons_cons_self _ _

theorem dedup_last_dup (c : List P3) (cl : P3) (hl : c.getLast? = some cl) : dedup (c ++ [cl]) = dedup c := by
  induction c with
  | nil => simp at hl
  | cons p t ih =>
    cases t with
    | nil => simp at hl; subst hl; simp [dedup]
    | cons q t' =>
      have hl' : (q :: t').getLast? = some cl := by simpa [List.getLast?_cons_cons] using hl
      have := ih hl'
      simp only [List.cons_append] at this ⊢
      by_cases hpq : p = q
      · subst hpq; simp only [dedup, if_true]; exact this
      · simp only [dedup, hpq, if_false]; rw [this]

/-- an all-open block `pre :: rows(c) ++ [post]` followed by a closed row is one stroke -/
private theorem strokes_open_block (a : Attrs) (c : List P3) (pre post r : Row Rat) (rest : Traj)
    (hpre : pre.s = 1) (hpost : post.s = 1) (hr : r.s = 0) :
    strokes ((pre :: (openRows a c ++ [post])) ++ r :: rest) = dedup (p3 pre :: (c ++ [p3 post])) :: strokes rest := by
  rw [strokes_append_closed _ _ _ hr, strokes_all_open _ (by simp) (by
    intro x hx
    simp only [List.mem_cons, List.mem_append, List.not_mem_nil, or_false] at hx
    rcases hx with rfl | hx | rfl
    · rw [hpre]; norm_num
    · simp only [openRows, List.mem_map] at hx
      obtain ⟨p, _, rfl⟩ := hx; simp
    · rw [hpost]; norm_num)]
  simp [openRows, p3, List.map_map, Function.comp_def]

private theorem strokes_copy (a : Attrs) (c : List P3) (hc : c ≠ []) (rest : Traj) :
    strokes (copyRows a c ++ rest) = dedup c :: strokes rest := by
  obtain ⟨c0, h0⟩ : ∃ c0, c.head? = some c0 := by cases c with
    | nil => exact absurd rfl hc
    | cons p t => exact ⟨p, rfl⟩
  obtain ⟨cl, hl⟩ : ∃ cl, c.getLast? = some cl := by
    cases h : c.getLast? with
    | none => simp at h; exact absurd h hc
    | some b => exact ⟨b, rfl⟩
  have e : copyRows a c ++ rest
      = (⟨c0.1, c0.2.1, c0.2.2, a.speed, 0⟩ : Row Rat) ::
        (((⟨c0.1, c0.2.1, c0.2.2, a.speed, 1⟩ : Row Rat) :: (openRows a c ++ [⟨cl.1, cl.2.1, cl.2.2, a.speed, 1⟩])) ++
          (⟨cl.1, cl.2.1, cl.2.2, a.speed, 0⟩ : Row Rat) :: rest) := by
    simp [copyRows, h0, hl]
  rw [e, strokes_cons_closed _ _ rfl, strokes_open_block a c _ _ _ rest rfl rfl rfl]
  simp only [p3]
  have h1 : dedup (c0 :: (c ++ [cl])) = dedup (c ++ [cl]) := by
    have : (c ++ [cl]).head? = some c0 := by cases c with
      | nil => simp at h0
      | cons p t => simpa using h0
    exact dedup_head_dup (c ++ [cl]) c0 this
  rw [show ((c0.1, c0.2.1, c0.2.2) : P3) = c0 from rfl, show ((cl.1, cl.2.1, cl.2.2) : P3) = cl from rfl, h1,
    dedup_last_dup c cl hl]

private theorem strokes_copies (a : Attrs) (cs : List (List P3)) (hne : ∀ c ∈ cs, c ≠ []) (rest : Traj) :
    strokes (cs.flatMap (copyRows a) ++ rest) = cs.map dedup ++ strokes rest := by
  induction cs with
  | nil => simp
  | cons c t ih =>
    simp only [List.flatMap_cons, List.append_assoc, List.map_cons, List.cons_append]
    rw [strokes_copy a c (hne c (by simp)), ih (fun c' hc' => hne c' (by simp [hc']))]

/-- **ablation**: the open-shutter strokes are the vertex chain in order and, when a shift is given, four copies displaced
by `+shift`, `-shift` along x and `+shift`, `-shift` along y, in that order; all travel between them and the end of the
figure are shutter-closed -/
theorem ablation_strokes (a : Attrs) (pts : List P3) (shift : Option Rat) (hne : pts ≠ []) :
    ∃ t, ablation a pts shift = .ok t ∧
      strokes t = dedup pts :: (ablationShifts pts shift).map dedup ∧
      t.getLast?.map (·.s) = some 0 := by
  obtain ⟨p0, h0⟩ : ∃ p0, pts.head? = some p0 := by cases pts with
    | nil => exact absurd rfl hne
    | cons p t => exact ⟨p, rfl⟩
  obtain ⟨pl, hl⟩ : ∃ pl, pts.getLast? = some pl := by
    cases h : pts.getLast? with
    | none => simp at h; exact absurd h hne
    | some b => exact ⟨b, rfl⟩
  set copies : List (List P3) := ablationShifts pts shift with hcopies
  have hcne : ∀ c ∈ copies, c ≠ [] := by
    intro c hc
    cases shift with
    | none => simp [hcopies, ablationShifts] at hc
    | some s =>
      simp only [hcopies, ablationShifts, List.mem_cons, List.not_mem_nil, or_false] at hc
      rcases hc with rfl | rfl | rfl | rfl <;> simpa [shiftBy] using hne
  set c0r : Row Rat := ⟨p0.1, p0.2.1, p0.2.2, a.speedPos, 0⟩ with hc0r
  set o0r : Row Rat := ⟨p0.1, p0.2.1, p0.2.2, a.speedPos, 1⟩ with ho0r
  set olr : Row Rat := ⟨pl.1, pl.2.1, pl.2.2, a.speed, 1⟩ with holr
  set clr : Row Rat := ⟨pl.1, pl.2.1, pl.2.2, a.speed, 0⟩ with hclr
  set main : Traj := c0r :: ((o0r :: (openRows a pts ++ [olr])) ++ clr :: copies.flatMap (copyRows a)) with hmain
  -- the last row before `finish` is closed
  obtain ⟨lastr, hlast, hlastc⟩ : ∃ lastr, main.getLast? = some lastr ∧ lastr.s = 0 := by
    by_cases hc : copies = []
    · refine ⟨clr, ?_, rfl⟩
      rw [hmain, hc]
      simp only [List.flatMap_nil]
      rw [show c0r :: ((o0r :: (openRows a pts ++ [olr])) ++ [clr]) = (c0r :: (o0r :: (openRows a pts ++ [olr]))) ++ [clr] by simp,
        List.getLast?_append]; simp
    · obtain ⟨ci, cc, hcc⟩ : ∃ ci cc, copies = ci ++ [cc] :=
        ⟨copies.dropLast, copies.getLast hc, (List.dropLast_append_getLast hc).symm⟩
      have hccne : cc ≠ [] := hcne cc (by rw [hcc]; simp)
      obtain ⟨q0, hq0⟩ : ∃ q0, cc.head? = some q0 := by cases cc with
        | nil => exact absurd rfl hccne
        | cons p t => exact ⟨p, rfl⟩
      obtain ⟨ql, hql⟩ : ∃ ql, cc.getLast? = some ql := by
        cases h : cc.getLast? with
        | none => simp at h; exact absurd h hccne
        | some b => exact ⟨b, rfl⟩
      refine ⟨⟨ql.1, ql.2.1, ql.2.2, a.speed, 0⟩, ?_, rfl⟩
      have : copies.flatMap (copyRows a) = (ci.flatMap (copyRows a) ++ ([⟨q0.1, q0.2.1, q0.2.2, a.speed, 0⟩,
          ⟨q0.1, q0.2.1, q0.2.2, a.speed, 1⟩] ++ openRows a cc ++ [⟨ql.1, ql.2.1, ql.2.2, a.speed, 1⟩])) ++ [⟨ql.1, ql.2.1, ql.2.2, a.speed, 0⟩] := by
        rw [hcc]; simp [copyRows, hq0, hql, List.append_assoc]
      rw [hmain, this]
      have e : c0r :: ((o0r :: (openRows a pts ++ [olr])) ++ clr :: ((ci.flatMap (copyRows a) ++ ([⟨q0.1, q0.2.1, q0.2.2, a.speed, 0⟩,
          ⟨q0.1, q0.2.1, q0.2.2, a.speed, 1⟩] ++ openRows a cc ++ [⟨ql.1, ql.2.1, ql.2.2, a.speed, 1⟩])) ++ [⟨ql.1, ql.2.1, ql.2.2, a.speed, 0⟩]))
          = (c0r :: ((o0r :: (openRows a pts ++ [olr])) ++ clr :: (ci.flatMap (copyRows a) ++ ([⟨q0.1, q0.2.1, q0.2.2, a.speed, 0⟩,
          ⟨q0.1, q0.2.1, q0.2.2, a.speed, 1⟩] ++ openRows a cc ++ [⟨ql.1, ql.2.1, ql.2.2, a.speed, 1⟩])))) ++ [⟨ql.1, ql.2.1, ql.2.2, a.speed, 0⟩] := by
        simp [List.append_assoc]
      rw [e, List.getLast?_append]; simp
  have hhead : main.head? = some c0r := by simp [hmain]
  refine ⟨main ++ [⟨lastr.x, lastr.y, lastr.z, lastr.f, 0⟩, ⟨c0r.x, c0r.y, c0r.z, a.speedClosed, 0⟩], ?_, ?_, ?_⟩
  · have hs : start a p0.1 p0.2.1 p0.2.2 none [] = .ok [c0r, o0r] := by simp [start, hc0r, ho0r]
    have e1 := chain_eq a pts [c0r, o0r] (by simp)
    have e2 := linear_abs_full a ([c0r, o0r] ++ openRows a pts) (by simp) pl.1 pl.2.1 pl.2.2 1
    have e3 := linear_abs_full a ([c0r, o0r] ++ openRows a pts ++ [⟨pl.1, pl.2.1, pl.2.2, a.speed, 1⟩]) (by simp) pl.1 pl.2.1 pl.2.2 0
    have e4 := ablationCopies_eq a copies ([c0r, o0r] ++ openRows a pts ++ [⟨pl.1, pl.2.1, pl.2.2, a.speed, 1⟩] ++
      [⟨pl.1, pl.2.1, pl.2.2, a.speed, 0⟩]) (by simp)
    simp only [ablation, h0, hl, bind, Except.bind, hs, e1, e2, e3, ← hcopies, e4]
    have e : [c0r, o0r] ++ openRows a pts ++ [⟨pl.1, pl.2.1, pl.2.2, a.speed, 1⟩] ++ [⟨pl.1, pl.2.1, pl.2.2, a.speed, 0⟩] ++
        copies.flatMap (copyRows a) = main := by
      simp [hmain, holr, hclr, List.append_assoc]
    rw [e]
    exact finish_of a main c0r lastr hhead hlast
  · rw [strokes_drop_closed_tail _ _ _ rfl rfl, hmain, strokes_cons_closed _ _ rfl,
      strokes_open_block a pts o0r olr clr _ rfl rfl rfl]
    have hcs := strokes_copies a copies hcne []
    rw [List.append_nil, strokes_nil, List.append_nil] at hcs
    rw [hcs]
    simp only [p3, ho0r, holr]
    have h1 : dedup (p0 :: (pts ++ [pl])) = dedup (pts ++ [pl]) := by
      have : (pts ++ [pl]).head? = some p0 := by cases pts with
        | nil => simp at h0
        | cons p t => simpa using h0
      exact dedup_head_dup (pts ++ [pl]) p0 this
    rw [show ((p0.1, p0.2.1, p0.2.2) : P3) = p0 from rfl, show ((pl.1, pl.2.1, pl.2.2) : P3) = pl from rfl, h1,
      dedup_last_dup pts pl hl]
  · rw [show main ++ [⟨lastr.x, lastr.y, lastr.z, lastr.f, 0⟩, ⟨c0r.x, c0r.y, c0r.z, a.speedClosed, 0⟩]
        = (main ++ [⟨lastr.x, lastr.y, lastr.z, lastr.f, 0⟩]) ++ [⟨c0r.x, c0r.y, c0r.z, a.speedClosed, 0⟩] by simp,
      List.getLast?_append]; simp

/-- **box**: one closed stroke around the rectangle with the given lower-left corner, `|width|` and `|height|` -/
theorem box_strokes (a : Attrs) (x y z w h : Rat) :
    ∃ t, box a x y z w h = .ok t ∧
      strokes t = [dedup [(x, y, z), (x + Mk.rabs w, y, z), (x + Mk.rabs w, y + Mk.rabs h, z), (x, y + Mk.rabs h, z), (x, y, z)]] ∧
      t.getLast?.map (·.s) = some 0 := by
  obtain ⟨t, h1, h2, h3⟩ := ablation_strokes a
    [(x, y, z), (x + Mk.rabs w, y, z), (x + Mk.rabs w, y + Mk.rabs h, z), (x, y + Mk.rabs h, z), (x, y, z)] none (by simp)
  exact ⟨t, by simpa [box] using h1, by simpa [ablationShifts] using h2, h3⟩

/-- every figure ends with the shutter closed (collected from the theorems above) -/
theorem figures_end_closed (a : Attrs) :
    (∀ x y z lx ly, ∃ t, cross a x y z lx ly = .ok t ∧ t.getLast?.map (·.s) = some 0) ∧
    (∀ d xi lx lx2 y0 rest, ∃ t, ruler a d xi lx lx2 (y0 :: rest) = .ok t ∧ t.getLast?.map (·.s) = some 0) ∧
    (∀ xi yi zi xf yf w dl ax, ∃ t, meander a xi yi zi xf yf w dl ax = .ok t ∧ t.getLast?.map (·.s) = some 0) ∧
    (∀ pts sh, pts ≠ [] → ∃ t, ablation a pts sh = .ok t ∧ t.getLast?.map (·.s) = some 0) := by
  refine ⟨?_, ?_, ?_, ?_⟩
  · intro x y z lx ly; obtain ⟨t, h1, _, h3⟩ := cross_strokes a x y z lx ly; exact ⟨t, h1, h3⟩
  · intro d xi lx lx2 y0 rest; obtain ⟨t, h1, _, h3⟩ := ruler_strokes a d xi lx lx2 y0 rest; exact ⟨t, h1, h3⟩
  · intro xi yi zi xf yf w dl ax
    obtain ⟨t, _, h1, _, _, _, h3⟩ := meander_one_stroke a xi yi zi xf yf w dl ax; exact ⟨t, h1, h3⟩
  · intro pts sh hne; obtain ⟨t, h1, _, h3⟩ := ablation_strokes a pts sh hne; exact ⟨t, h1, h3⟩

/-! non-vacuity -/
example : (match cross {} 1 2 0 4 2 with | .ok t => strokes t | .error _ => []) = [[(-1, 2, 0), (3, 2, 0)], [(1, 1, 0), (1, 3, 0)]] := by
  decide +kernel
example : (match meander {} 0 0 0 0 (-7/10) 1 (1/4) true with | .ok t => (strokes t).map List.length | .error _ => []) = [6] := by
  decide +kernel

end Femto.C14

/-
C11 — the reported point matrix is the trajectory minus exact consecutive repeats.
Property theorems only (helper lemmas are `private`/local to the proofs they serve).
-/
import FemtoVerif.Model.Filter
import Mathlib.Data.List.Destutter

namespace Femto.C11
open Femto List

variable {α : Type} [DecidableEq α]

/-- the model's two-pass definition (mask against the raw predecessor, then select) written as one pass -/
private def uf' (p : α) : List α → List α
  | [] => []
  | y :: ys => if y ≠ p then y :: uf' y ys else uf' y ys

private theorem applyMask_go (p : α) (l : List α) : applyMask l (diffMask.go p l) = uf' p l := by
  induction l generalizing p with
  | nil => simp [diffMask.go, applyMask, uf']
  | cons y ys ih =>
    by_cases h : y = p <;> simp [diffMask.go, applyMask, uf', h, ih]

private theorem cons_uf' (p : α) (l : List α) : p :: uf' p l = l.destutter' (· ≠ ·) p := by
  induction l generalizing p with
  | nil => simp [uf']
  | cons y ys ih =>
    by_cases h : y = p
    · subst h; simp [uf', destutter'_cons, ih]
    · have h' : p ≠ y := fun e => h e.symm
      simp [uf', destutter'_cons, h, h', ih]

/-- **Spec equality.** `unique_filter` is exactly "greedily remove consecutive duplicates". -/
theorem uf_eq_destutter (l : List α) : uniqueFilter l = l.destutter (· ≠ ·) := by
  cases l with
  | nil => simp [uniqueFilter, diffMask, applyMask]
  | cons x xs =>
    simp only [uniqueFilter, diffMask, applyMask, if_true, destutter_cons']
    rw [applyMask_go, cons_uf']

/-- order is preserved: the output is a sublist of the recorded trajectory -/
theorem uf_sublist (l : List α) : uniqueFilter l <+ l := by
  rw [uf_eq_destutter]; exact destutter_sublist _ l

/-- two equal consecutive points never both appear -/
theorem uf_no_adjacent_equal (l : List α) : (uniqueFilter l).IsChain (· ≠ ·) := by
  rw [uf_eq_destutter]; exact isChain_destutter _ l

/-- pointwise description of the mask: row `i` is kept iff it is the first row or differs from row `i-1`
of the **recorded** trajectory (so a row that differs from its predecessor in any field is kept). -/
theorem mask_spec (l : List α) (i : Nat) (h : i < l.length) :
    (diffMask l)[i]? = some (decide (i = 0 ∨ l[i]? ≠ l[i-1]?)) := by
  cases l with
  | nil => simp at h
  | cons x xs =>
    cases i with
    | zero => simp [diffMask]
    | succ i =>
      simp only [diffMask, List.getElem?_cons_succ, Nat.add_sub_cancel]
      have : ∀ (p : α) (l : List α) (i : Nat), i < l.length →
          (diffMask.go p l)[i]? = some (decide (l[i]? ≠ (p :: l)[i]?)) := by
        intro p l
        induction l generalizing p with
        | nil => intro i hi; simp at hi
        | cons y ys ih =>
          intro i hi
          cases i with
          | zero => simp [diffMask.go]
          | succ i =>
            simp only [diffMask.go, List.getElem?_cons_succ]
            exact ih y i (by simpa using hi)
      rw [this x xs i (by simpa using h)]
      simp

/-- nothing but repeats is removed: no sublist of the trajectory without adjacent repeats is longer -/
theorem uf_longest (l m : List α) (hm : m <+ l) (hc : m.IsChain (· ≠ ·)) :
    m.length ≤ (uniqueFilter l).length := by
  rw [uf_eq_destutter]; exact hc.length_le_length_destutter_ne hm

theorem uf_idempotent (l : List α) : uniqueFilter (uniqueFilter l) = uniqueFilter l := by
  simp only [uf_eq_destutter]; exact destutter_idem l _

theorem uf_nil : uniqueFilter ([] : List α) = [] := rfl
theorem uf_single (a : α) : uniqueFilter [a] = [a] := by simp [uf_eq_destutter]

/-- the filter never loses the last recorded row -/
theorem uf_getLast? (l : List α) : (uniqueFilter l).getLast? = l.getLast? := by
  cases l with
  | nil => rfl
  | cons x xs =>
    simp only [uniqueFilter, diffMask, applyMask, if_true]
    rw [applyMask_go]
    induction xs generalizing x with
    | nil => simp [uf']
    | cons y ys ih =>
      by_cases h : y = x
      · subst h; simp only [uf', ne_eq, not_true_eq_false, if_false]
        rw [ih]; simp [List.getLast?_cons_cons]
      · simp only [uf', ne_eq, h, not_false_eq_true, if_true, List.getLast?_cons_cons]
        exact ih y

/-! ### views -/
section views
variable {K : Type} [DecidableEq K]

/-- `lastpt` (read from the raw arrays) is the last **reported** point -/
theorem lastpt_eq_last_reported (raw : List (Row K)) :
    lastpt raw = (points raw).getLast?.map fun r => (r.x, r.y, r.z) := by
  simp [lastpt, points, uf_getLast?]

/-- `lastx/lasty/lastz` are the components of `lastpt` -/
theorem last_xyz_eq_lastpt (raw : List (Row K)) :
    (lastx raw, lasty raw, lastz raw)
      = ((lastpt raw).map (·.1), (lastpt raw).map (·.2.1), (lastpt raw).map (·.2.2)) := by
  simp [lastx, lasty, lastz, xs, ys, zs, lastpt_eq_last_reported, List.getLast?_map, Option.map_map,
    Function.comp_def]

private theorem destutter'_head (s : α) (l : List α) :
    l.destutter' (· ≠ ·) s = s :: (l.destutter' (· ≠ ·) s).tail := by
  induction l with
  | nil => simp
  | cons w ws ih =>
    by_cases h : s = w
    · subst h; simpa [destutter'_cons] using ih
    · simp [destutter'_cons, h]

private theorem destutter'_map_destutter' {β : Type} [DecidableEq β] (f : α → β) (p : α) (l : List α) :
    (map f (l.destutter' (· ≠ ·) p).tail).destutter' (· ≠ ·) (f p)
      = (map f l).destutter' (· ≠ ·) (f p) := by
  induction l generalizing p with
  | nil => simp
  | cons y ys ih =>
    by_cases h : p = y
    · subst h
      have h0 : (p :: ys).destutter' (· ≠ ·) p = ys.destutter' (· ≠ ·) p :=
        destutter'_cons_neg _ (by simp)
      rw [h0, ih p, List.map_cons, destutter'_cons_neg _ (by simp)]
    · have h1 : (y :: ys).destutter' (· ≠ ·) p = p :: ys.destutter' (· ≠ ·) y :=
        destutter'_cons_pos _ h
      rw [h1, List.tail_cons, destutter'_head y ys, List.map_cons, List.map_cons]
      by_cases hf : f p = f y
      · rw [destutter'_cons_neg _ (by simp [hf]), destutter'_cons_neg _ (by simp [hf]), hf]
        exact ih y
      · rw [destutter'_cons_pos _ hf, destutter'_cons_pos _ hf, ih y]

private theorem destutter_map_destutter {β : Type} [DecidableEq β] (f : α → β) (l : List α) :
    (map f (l.destutter (· ≠ ·))).destutter (· ≠ ·) = (map f l).destutter (· ≠ ·) := by
  cases l with
  | nil => simp
  | cons x xs =>
    simp only [destutter_cons', List.map_cons]
    rw [destutter'_head x xs]
    simp only [List.map_cons, destutter_cons']
    exact destutter'_map_destutter' f x xs

/-- the open-shutter path is a function of the **reported** matrix: computing it from the reported rows
gives the same result as computing it from the recorded trajectory -/
theorem path3d_of_points [OfNat K 0] (raw : List (Row K)) : path3d (points raw) = path3d raw := by
  simp only [path3d, points, uf_eq_destutter]
  rw [destutter_map_destutter]

/-- and it only contains rows whose shutter value is non-zero, in trajectory order -/
theorem path3d_open [OfNat K 0] (raw : List (Row K)) :
    ∃ sel : List (K × K × K × K), sel <+ raw.map proj4 ∧ (∀ r ∈ sel, r.2.2.2 ≠ 0) ∧
      path3d raw = sel.map fun r => (r.1, r.2.1, r.2.2.1) := by
  refine ⟨(uniqueFilter (raw.map proj4)).filter (fun r => decide (r.2.2.2 ≠ 0)), ?_, ?_, rfl⟩
  · exact (List.filter_sublist).trans (uf_sublist _)
  · intro r hr; simpa using (List.mem_filter.mp hr).2

end views

/-! ### split_mask -/
section split
variable {β : Type}

/-- the pieces, re-tagged, concatenate to the input (nothing lost, nothing reordered) -/
theorem pieces_flatten (l : List (β × Bool)) :
    (pieces l).flatMap (fun p => p.2.map (fun a => (a, p.1))) = l := by
  induction l with
  | nil => simp [pieces]
  | cons hd t ih =>
    obtain ⟨a, b⟩ := hd
    simp only [pieces]
    cases hp : pieces t with
    | nil => rw [hp] at ih; simp at ih; simp [ih]
    | cons q rest =>
      obtain ⟨b', run⟩ := q
      rw [hp] at ih
      by_cases hb : b = b'
      · subst hb; simp only [if_true]; simp at ih ⊢; exact ih
      · simp only [hb, if_false]; simp at ih ⊢; exact ih

theorem pieces_nonempty (l : List (β × Bool)) : ∀ p ∈ pieces l, p.2 ≠ [] := by
  induction l with
  | nil => simp [pieces]
  | cons hd t ih =>
    obtain ⟨a, b⟩ := hd
    simp only [pieces]
    cases hp : pieces t with
    | nil => simp
    | cons q rest =>
      obtain ⟨b', run⟩ := q
      rw [hp] at ih
      by_cases hb : b = b'
      · subst hb; simp only [if_true]; intro p hpm
        rcases List.mem_cons.mp hpm with rfl | h
        · simp
        · exact ih p (List.mem_cons_of_mem _ h)
      · simp only [hb, if_false]; intro p hpm
        rcases List.mem_cons.mp hpm with rfl | h
        · simp
        · exact ih p h

/-- adjacent pieces carry different flags: every piece is a **maximal** run -/
theorem pieces_alternate (l : List (β × Bool)) : (pieces l).IsChain (fun p q => p.1 ≠ q.1) := by
  induction l with
  | nil => simp [pieces]
  | cons hd t ih =>
    obtain ⟨a, b⟩ := hd
    simp only [pieces]
    cases hp : pieces t with
    | nil => simp
    | cons q rest =>
      obtain ⟨b', run⟩ := q
      rw [hp] at ih
      by_cases hb : b = b'
      · subst hb; simp only [if_true]
        cases rest with
        | nil => simp
        | cons r rs =>
          rw [List.isChain_cons_cons] at ih ⊢
          exact ih
      · simp only [hb, if_false]
        rw [List.isChain_cons_cons]
        exact ⟨hb, ih⟩

private theorem everyOther_alt : ∀ (n : Nat) (ps : List (Bool × List β)), ps.length ≤ n →
    ps.IsChain (fun p q => p.1 ≠ q.1) →
    (∀ p, ps.head? = some p → p.1 = true) →
    everyOther (ps.map (·.2)) = (ps.filter (·.1)).map (·.2) := by
  intro n
  induction n with
  | zero => intro ps h _ _; cases ps <;> simp_all [everyOther]
  | succ n ih =>
    intro ps hlen hch hhd
    match ps, hlen, hch, hhd with
    | [], _, _, _ => simp [everyOther]
    | [p], _, _, hhd => have := hhd p rfl; simp [everyOther, this]
    | p :: q :: t, hlen, hch, hhd =>
      have hp := hhd p rfl
      rw [List.isChain_cons_cons] at hch
      have hq : q.1 = false := by
        have := hch.1; rw [hp] at this; cases hq : q.1 <;> simp_all
      simp only [List.map_cons, everyOther, List.filter_cons, hp, hq, if_true]
      simp only [Bool.false_eq_true, if_false, List.map_cons, List.cons.injEq, true_and]
      apply ih t (by simp at hlen; omega)
      · exact hch.2.tail
      · intro r hr
        cases t with
        | nil => simp at hr
        | cons r' rs =>
          simp at hr; subst hr
          have := hch.2; rw [List.isChain_cons_cons] at this
          have := this.1; rw [hq] at this; cases hr : r'.1 <;> simp_all

private theorem pieces_head (l : List (β × Bool)) :
    ∀ p, (pieces l).head? = some p → ∃ a t, l = (a, p.1) :: t := by
  cases l with
  | nil => simp [pieces]
  | cons hd t =>
    obtain ⟨a, b⟩ := hd
    intro p hp
    simp only [pieces] at hp
    cases hq : pieces t with
    | nil => rw [hq] at hp; simp at hp; subst hp; exact ⟨a, t, rfl⟩
    | cons q rest =>
      rw [hq] at hp
      obtain ⟨b', run⟩ := q
      by_cases hb : b = b'
      · subst hb; simp at hp; subst hp; exact ⟨a, t, rfl⟩
      · simp [hb] at hp; subst hp; exact ⟨a, t, rfl⟩

/-- **split_mask returns exactly the maximal runs of selected elements, in order.**
(`pieces` is characterised by `pieces_flatten`, `pieces_nonempty`, `pieces_alternate`.) -/
theorem splitMask_eq_true_pieces (arr : List β) (m0 : Bool) (mask : List Bool) :
    splitMask arr (m0 :: mask)
      = some (((pieces (arr.zip (m0 :: mask))).filter (·.1)).map (·.2)) := by
  simp only [splitMask]
  congr 1
  set ps := pieces (arr.zip (m0 :: mask)) with hps
  have hch := pieces_alternate (arr.zip (m0 :: mask))
  rw [← hps] at hch
  have hhead : ∀ p, ps.head? = some p → p.1 = m0 := by
    intro p hp
    obtain ⟨a, t, h⟩ := pieces_head _ p hp
    cases arr with
    | nil => simp at h
    | cons x xs => simp at h; exact h.1.2.symm
  cases m0 with
  | true =>
    simp only [if_true]
    exact everyOther_alt ps.length ps (le_refl _) hch hhead
  | false =>
    simp only [Bool.false_eq_true, if_false]
    cases hpp : ps with
    | nil => simp [everyOther]
    | cons p t =>
      rw [hpp] at hch hhead
      have hp : p.1 = false := hhead p rfl
      simp only [List.map_cons, List.tail_cons, List.filter_cons, hp, Bool.false_eq_true, if_false]
      apply everyOther_alt t.length t (le_refl _)
      · cases t with
        | nil => simp
        | cons q r => rw [List.isChain_cons_cons] at hch; exact hch.2
      · intro r hr
        cases t with
        | nil => simp at hr
        | cons q rs =>
          simp at hr; subst hr
          rw [List.isChain_cons_cons] at hch
          have := hch.1; rw [hp] at this; cases hq : q.1 <;> simp_all

/-- the runs concatenate to the selected subsequence (nothing selected is dropped, nothing else included) -/
theorem splitMask_flatten (arr : List β) (m0 : Bool) (mask : List Bool) (res : List (List β))
    (h : splitMask arr (m0 :: mask) = some res) :
    res.flatten = ((arr.zip (m0 :: mask)).filter (·.2)).map (·.1) := by
  rw [splitMask_eq_true_pieces] at h
  injection h with h; subst h
  generalize hl : arr.zip (m0 :: mask) = l
  have key : ∀ ps : List (Bool × List β),
      ((ps.filter (·.1)).map (·.2)).flatten
        = ((ps.flatMap (fun p => p.2.map (fun a => (a, p.1)))).filter (·.2)).map (·.1) := by
    intro ps
    induction ps with
    | nil => simp
    | cons p t ih =>
      obtain ⟨b, run⟩ := p
      cases b <;> simp [List.filter_cons, ih, List.filter_map, Function.comp_def]
  rw [key, pieces_flatten]

/-- no run is empty -/
theorem splitMask_nonempty (arr : List β) (m0 : Bool) (mask : List Bool) (res : List (List β))
    (h : splitMask arr (m0 :: mask) = some res) : ∀ r ∈ res, r ≠ [] := by
  rw [splitMask_eq_true_pieces] at h
  injection h with h; subst h
  intro r hr
  obtain ⟨p, hp, rfl⟩ := List.mem_map.mp hr
  exact pieces_nonempty _ p (List.mem_filter.mp hp).1

/-- an empty mask is rejected (Python: `IndexError` on `mask[0]`) -/
theorem splitMask_empty (arr : List β) : splitMask arr [] = none := rfl

end split

/-! ### non-vacuity: concrete trajectories exercising the statements -/

example : uniqueFilter [1, 1, 2, 2, 2, 3, 1, 1] = [1, 2, 3, 1] := by decide
-- cancelling deltas: (+1, -1) in two columns sums to zero but the row differs, so it is kept
example : uniqueFilter [((0:Int), (0:Int)), (1, -1), (1, -1), (0, 0)] = [(0, 0), (1, -1), (0, 0)] := by decide
example : splitMask [10, 11, 12, 13, 14, 15] [false, true, true, false, true, false]
    = some [[11, 12], [14]] := by decide
example : splitMask [10, 11, 12] [true, true, true] = some [[10, 11, 12]] := by decide
example : splitMask [10, 11, 12] [false, false, false] = some [] := by decide

end Femto.C11

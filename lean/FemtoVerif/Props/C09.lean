/-
C09 — exporting is pure and repeatable.
The compiler model (`Gc.write`, `Gc.session`) and the tool-path / writer models are pure functions, so "the same call
gives the same result" holds in them by construction; what made the implementation impure was aliasing and accumulating
fields. Those mechanisms are modelled explicitly here (array cells with dtypes, estimates) and the frame / idempotence
statements are proved for the repaired operations and refuted, on concrete witnesses, for the former ones.
-/
import FemtoVerif.Model.Purity
import FemtoVerif.Model.Gcode
import FemtoVerif.Props.C16
import Mathlib.Tactic.Ring
import Mathlib.Data.Rat.Defs

set_option linter.unusedSimpArgs false
set_option linter.unusedVariables false

namespace Femto.C09
open Femto.Pur

theorem cell_append_lt (h : AHeap) (x : Arr) (l : Nat) (hl : l < h.length) : AHeap.cell (h ++ [x]) l = h.cell l := by
  simp [AHeap.cell, List.getD, List.getElem?_append_left hl]

theorem cell_append_self (h : AHeap) (x : Arr) : AHeap.cell (h ++ [x]) h.length = x := by
  simp [AHeap.cell, List.getD]

/-- **`transform_points` does not modify the arrays it is given** — whatever their dtype, i.e. also when
`np.asarray(..., float32)` returns the caller's own array: every existing cell is unchanged -/
theorem transform_frame (h : AHeap) (l : Nat) (s : Rat) (ℓ : Nat) (hℓ : ℓ < h.length) :
    (shiftNew h l s).1.cell ℓ = h.cell ℓ := by
  unfold shiftNew asF32 subNew
  split
  · exact cell_append_lt _ _ _ hℓ
  · simp only
    rw [cell_append_lt _ _ _ (by simp; omega), cell_append_lt _ _ _ hℓ]

/-- the result is the translated data, in a fresh cell -/
theorem transform_result (h : AHeap) (l : Nat) (s : Rat) (hl : l < h.length) :
    ((shiftNew h l s).1.cell (shiftNew h l s).2).data = (h.cell l).data.map (· - s) ∧ h.length ≤ (shiftNew h l s).2 := by
  unfold shiftNew asF32 subNew
  split
  · simp only; rw [cell_append_self]; exact ⟨rfl, le_refl _⟩
  · simp only
    rw [cell_append_self, cell_append_self]
    exact ⟨rfl, by simp⟩

/-- **repeating the transformation repeats its result** (the second call reads the same, unchanged input) -/
theorem transform_twice (h : AHeap) (l : Nat) (s : Rat) (hl : l < h.length) :
    let h1 := (shiftNew h l s).1
    ((shiftNew h1 l s).1.cell (shiftNew h1 l s).2).data = ((shiftNew h l s).1.cell (shiftNew h l s).2).data := by
  intro h1
  have hl1 : l < h1.length := by
    show l < (shiftNew h l s).1.length
    unfold shiftNew asF32 subNew; split <;> simp <;> omega
  rw [(transform_result h1 l s hl1).1, (transform_result h l s hl).1]
  show ((shiftNew h l s).1.cell l).data.map _ = _
  rw [transform_frame h l s l hl]

/-- the former in-place translation did modify a caller's float32 array (witness), and a second call gave another result -/
theorem transform_old_mutates :
    (shiftOld [⟨.f32, [1, 2]⟩] 0 (1/2)).1.cell 0 ≠ AHeap.cell [⟨.f32, [1, 2]⟩] 0 ∧
    (shiftOld (shiftOld [⟨.f32, [1, 2]⟩] 0 (1/2)).1 0 (1/2)).1.cell 0 ≠ (shiftOld [⟨.f32, [1, 2]⟩] 0 (1/2)).1.cell 0 ∧
    (shiftOld [⟨.f64, [1, 2]⟩] 0 (1/2)).1.cell 0 = AHeap.cell [⟨.f64, [1, 2]⟩] 0 := by decide +kernel

/-- **estimates do not depend on how often they were computed**: a recomputed estimate (floor length reset at the start of
`toolpath()`, device time reset at the start of `pgm()`) has the same value after any number `n ≥ 1` of repetitions -/
theorem estimates_history_independent (parts : List Rat) (old : Rat) (n : Nat) :
    iter (fun v => recompute v parts) (n + 1) old = recompute old parts := by
  induction n generalizing old with
  | zero => rfl
  | succ n ih => rw [iter, ih]; rfl

/-- the former accumulation grows with every repetition (witness: one part of length 1, two traversals) -/
theorem accumulate_grows : iter (fun v => accumulate v [1]) 2 0 ≠ iter (fun v => accumulate v [1]) 1 0 := by decide +kernel

/-- **writing the same matrix twice emits the same instructions twice**: in the compiler model `write` is a function of
the configuration, the matrix and the shutter belief; after a closed path the belief is what it was, so the second block
equals the first -/
theorem write_twice (cfg : Gc.Cfg) (m : List Gc.Pt) (cs : Gc.CS) (o : Gc.Out) (h : Gc.write cfg m cs = .ok o)
    (hsame : o.2.shutterOn = cs.shutterOn) :
    ∃ o', Gc.write cfg m o.2 = .ok o' ∧ o'.1 = o.1 := by
  unfold Gc.write at h ⊢
  cases hm : m.mapM (Gc.formatPt cfg) with
  | error e => rw [hm] at h; simp [Except.map] at h
  | ok ws =>
    rw [hm] at h
    simp only [Except.map] at h ⊢
    injection h with h
    refine ⟨_, rfl, ?_⟩
    subst h
    -- the emitted statements depend on the state only through `shutterOn`
    have key : ∀ (ws : List (Ctl.G1W × Rat)) (prev : Option Ctl.G1W) (c1 c2 : Gc.CS), c1.shutterOn = c2.shutterOn →
        (Gc.writeLoop cfg prev ws c1).1 = (Gc.writeLoop cfg prev ws c2).1 ∧
        (Gc.writeLoop cfg prev ws c1).2.shutterOn = (Gc.writeLoop cfg prev ws c2).2.shutterOn := by
      intro ws
      induction ws with
      | nil => intro prev c1 c2 hc; simp [Gc.writeLoop, hc]
      | cons p rest ih =>
        intro prev c1 c2 hc
        obtain ⟨w, s⟩ := p
        have hd : ∀ (pz : Option Rat) (a b : Gc.CS), a.shutterOn = b.shutterOn →
            (Gc.dwell pz a).1 = (Gc.dwell pz b).1 ∧ (Gc.dwell pz a).2.shutterOn = (Gc.dwell pz b).2.shutterOn := by
          intro pz a b hab
          unfold Gc.dwell
          cases pz with
          | none => simp [hab]
          | some t => by_cases ht : t = 0 <;> simp [ht, hab]
        have hsh : ∀ (on : Bool) (a b : Gc.CS), a.shutterOn = b.shutterOn →
            (Gc.shutter cfg on a).1 = (Gc.shutter cfg on b).1 ∧ (Gc.shutter cfg on a).2.shutterOn = (Gc.shutter cfg on b).2.shutterOn := by
          intro on a b hab
          unfold Gc.shutter
          rw [hab]
          split
          · simp
          · split <;> simp [hab]
        have htg : ∀ (on : Bool) (a b : Gc.CS), a.shutterOn = b.shutterOn →
            (Gc.toggle cfg on a).1 = (Gc.toggle cfg on b).1 ∧ (Gc.toggle cfg on a).2.shutterOn = (Gc.toggle cfg on b).2.shutterOn := by
          intro on a b hab
          unfold Gc.toggle
          simp only [Gc.seq]
          obtain ⟨d1, d2⟩ := hd cfg.shortPause a b hab
          obtain ⟨s1, s2⟩ := hsh on _ _ d2
          obtain ⟨e1, e2⟩ := hd cfg.longPause _ _ s2
          exact ⟨by rw [d1, s1, e1], e2⟩
        have hts : (Gc.toggleStep cfg s c1).1.1 = (Gc.toggleStep cfg s c2).1.1 ∧
            (Gc.toggleStep cfg s c1).1.2.shutterOn = (Gc.toggleStep cfg s c2).1.2.shutterOn ∧
            (Gc.toggleStep cfg s c1).2 = (Gc.toggleStep cfg s c2).2 := by
          unfold Gc.toggleStep
          rw [hc]
          split
          · obtain ⟨t1, t2⟩ := htg false c1 c2 hc; exact ⟨t1, t2, rfl⟩
          · split
            · obtain ⟨t1, t2⟩ := htg true c1 c2 hc; exact ⟨t1, t2, rfl⟩
            · exact ⟨rfl, hc, rfl⟩
        obtain ⟨t1, t2, t3⟩ := hts
        obtain ⟨r1, r2⟩ := ih (some w) _ _ t2
        simp only [Gc.writeLoop]
        exact ⟨by rw [t1, t3, r1], r2⟩
    simp only [Gc.seq] at hsame ⊢
    obtain ⟨k1, k2⟩ := key ws none (Gc.dwell cfg.longPause (Gc.writeLoop cfg none ws cs).2).2 cs hsame
    rw [k1]
    have hd2 : ∀ (a b : Gc.CS), a.shutterOn = b.shutterOn → (Gc.dwell cfg.longPause a).1 = (Gc.dwell cfg.longPause b).1 := by
      intro a b hab
      unfold Gc.dwell
      cases cfg.longPause with
      | none => rfl
      | some t => by_cases ht : t = 0 <;> simp [ht]
    rw [hd2 _ _ k2]

/-- the caller's lists: `flatten` and `extend` frame conditions are those of C16 -/
theorem args_frame (h : Cont.Heap) (l ℓ : Nat) (hℓ : ℓ < h.length) : (Cont.hFlatten h l).1.cell ℓ = h.cell ℓ :=
  (C16.flatten_frame h l ℓ hℓ).1

end Femto.C09

/-
C19 — saved objects and parameter files round-trip to where the caller said.
Path and dictionary logic is proved; `dill`, `yaml` and `pathlib` themselves are contracts sampled by the correspondence
run (the model's path functions are compared with real `pathlib` on every generated name).
-/
import FemtoVerif.Model.Files
import Mathlib.Data.List.Basic

set_option linter.unusedSimpArgs false
set_option linter.unusedVariables false

namespace Femto.C19
open Femto.Fl

/-- **the pickle goes where the caller said**: the path as given, with `.pkl` appended exactly when the name does not end
in `.pkl` / `.pickle` — nothing in front of the name is touched, so the directory is kept -/
theorem export_target (p : String) :
    (exportTarget p = p ∧ (Gc.suffixOf (Gc.posixName p) = ".pkl" ∨ Gc.suffixOf (Gc.posixName p) = ".pickle")) ∨
    (exportTarget p = p ++ ".pkl" ∧ Gc.suffixOf (Gc.posixName p) ≠ ".pkl" ∧ Gc.suffixOf (Gc.posixName p) ≠ ".pickle") := by
  unfold exportTarget
  simp only
  by_cases h1 : Gc.suffixOf (Gc.posixName p) = ".pickle"
  · left; simp [h1]
  · by_cases h2 : Gc.suffixOf (Gc.posixName p) = ".pkl"
    · left; simp [h2]
    · right; simp [h1, h2]

section dicts
variable {V : Type}

theorem lookup_append (k : String) (a b : List (String × V)) :
    lookup k (a ++ b) = (lookup k a).orElse fun _ => lookup k b := by
  induction a with
  | nil => simp [lookup]
  | cons e t ih =>
    obtain ⟨k', v⟩ := e
    simp only [List.cons_append, lookup]
    split
    · simp
    · exact ih

theorem lookup_filter_none (k : String) (d s : List (String × V)) (h : (lookup k s).isSome) :
    lookup k (d.filter fun e => (lookup e.1 s).isNone) = none := by
  induction d with
  | nil => simp [lookup]
  | cons e t ih =>
    obtain ⟨k', v⟩ := e
    simp only [List.filter_cons]
    split
    · rename_i hn
      simp only [lookup]
      split
      · rename_i hk; subst hk
        simp at hn; rw [hn] at h; simp at h
      · exact ih
    · exact ih

theorem lookup_filter_keep (k : String) (d s : List (String × V)) (h : lookup k s = none) :
    lookup k (d.filter fun e => (lookup e.1 s).isNone) = lookup k d := by
  induction d with
  | nil => simp [lookup]
  | cons e t ih =>
    obtain ⟨k', v⟩ := e
    simp only [List.filter_cons]
    by_cases hk : k' = k
    · subst hk; simp [h, lookup]
    · split
      · simp [lookup, hk, ih]
      · simp [lookup, hk, ih]

/-- **DEFAULT merge**: every key the section defines keeps the section's value (also a `null` or a falsy one); every
DEFAULT key it does not define is inherited; no other key appears -/
theorem merge_spec (d s : List (String × V)) (k : String) :
    lookup k (mergeDict d s) = match lookup k s with | some v => some v | none => lookup k d := by
  unfold mergeDict
  rw [lookup_append]
  cases hs : lookup k s with
  | some v => rw [lookup_filter_none k d s (by simp [hs])]; simp
  | none => rw [lookup_filter_keep k d s hs]; cases lookup k d <;> simp

/-- without a DEFAULT section every section is returned unchanged, in file order; an empty document gives `[]` -/
theorem no_default (doc : List (String × List (String × V))) (h : ∀ s ∈ doc, s.1 ≠ "DEFAULT") :
    loadParams doc = doc.map (·.2) := by
  have hl : lookup "DEFAULT" doc = none := by
    induction doc with
    | nil => rfl
    | cons s t ih =>
      obtain ⟨k, v⟩ := s
      have := h (k, v) (by simp)
      simp only [lookup]
      rw [if_neg this]
      exact ih (fun s hs => h s (by simp [hs]))
  have hf : doc.filter (fun s => s.1 != "DEFAULT") = doc := by
    rw [List.filter_eq_self]; intro s hs; simpa using h s hs
  simp [loadParams, hl, hf, mergeDict]

theorem empty_doc : loadParams ([] : List (String × List (String × V))) = [] := rfl

/-- the DEFAULT section itself is never returned, and the other sections keep their order -/
theorem loadParams_length (doc : List (String × List (String × V))) :
    (loadParams doc).length = (doc.filter (fun s => s.1 != "DEFAULT")).length := by simp [loadParams]

/-- **`from_dict` uses exactly the constructor parameters**: a key survives iff it is a parameter name, with its value -/
theorem from_dict_exact_keys (names : List String) (param : List (String × V)) (e : String × V) :
    e ∈ filterKeys names param ↔ e ∈ param ∧ e.1 ∈ names := by
  simp [filterKeys, List.mem_filter]

end dicts

/-- compiled programs go to `export_dir/<name>.pgm` (no directory prefix without an export directory) -/
theorem pgm_target (dir f : String) :
    pgmTarget dir f = (if dir = "" then "" else dir ++ "/") ++ (dirOf f ++ Gc.stemOf f ++ ".pgm") := rfl

/-! non-vacuity -/
example : exportTarget "out/run.1/wg" = "out/run.1/wg.pkl" := by decide +kernel
example : exportTarget "out/wg.pkl" = "out/wg.pkl" := by decide +kernel
example : paramsTarget "conf/run1.yaml" = "conf/run1.yaml" := by decide +kernel
example : pgmTarget "a/b" "chip_v1.2.txt" = "a/b/chip_v1.2.pgm" := by decide +kernel
example : loadParams [("DEFAULT", [("speed", 1), ("scan", 6)]), ("wg", [("speed", 20)]), ("mk", [("z", 0)])]
    = [[("scan", 6), ("speed", 20)], [("speed", 1), ("scan", 6), ("z", 0)]] := by decide +kernel

end Femto.C19

/-
C16 — devices and writers keep exactly what they were given, routed by type.
-/
import FemtoVerif.Model.Containers
import Mathlib.Tactic.Ring
import Mathlib.Data.List.Basic

set_option linter.unusedSimpArgs false
set_option linter.unusedVariables false

namespace Femto.C16
open Femto.Cont

/-- all objects of a list of values (groups opened) have exactly type `k` -/
def pureList (k : Ty) (l : List Item) : Prop := ∀ o ∈ flatList l, o.2 = k

/-- **routing invariant**: every collection holds objects of its own exact type only -/
def Inv (d : Dev) : Prop := ∀ k, pureList k (d.get k)

theorem flatList_append (a b : List Item) : flatList (a ++ b) = flatList a ++ flatList b := by
  induction a with
  | nil => simp [flatList]
  | cons x t ih => simp [flatList, ih, List.append_assoc]

theorem pureList_append {k : Ty} {a b : List Item} (ha : pureList k a) (hb : pureList k b) : pureList k (a ++ b) := by
  intro o ho
  rw [flatList_append] at ho
  rcases List.mem_append.mp ho with h | h
  · exact ha o h
  · exact hb o h

theorem get_set_same (d : Dev) (k : Ty) (l : List Item) (hk : ∀ n, k ≠ .foreign n) : (d.set k l).get k = l := by
  cases k <;> simp [Dev.set, Dev.get] at hk ⊢

theorem get_set_other (d : Dev) (k k' : Ty) (l : List Item) (h : k ≠ k') : (d.set k l).get k' = d.get k' := by
  cases k <;> cases k' <;> simp_all [Dev.set, Dev.get]

/-- what is filed under a key has that exact type -/
theorem keyOf_pure (v : Item) (k : Ty) (h : keyOf v = .ok k) : pureList k [v] := by
  intro o ho
  simp only [flatList, List.append_nil] at ho
  match v, h with
  | .obj i t, h =>
    simp only [keyOf] at h; injection h with h; subst h
    simp [flatItem] at ho; rw [ho]
  | .grp (.obj i t :: rest), h =>
    simp only [keyOf] at h
    split at h
    · rename_i hall
      injection h with h; subst h
      simp only [flatItem, flatList, List.mem_append, List.mem_singleton] at ho
      rcases ho with rfl | ho
      · rfl
      · have := List.all_eq_true.mp hall o ho
        simpa using this
    · cases h

private def dictPure (d : List (Ty × List Item)) : Prop := ∀ p ∈ d, pureList p.1 p.2

private theorem dictAdd_pure (d : List (Ty × List Item)) (k : Ty) (v : Item) (hd : dictPure d) (hv : pureList k [v]) :
    dictPure (dictAdd d k v) := by
  induction d with
  | nil =>
    intro p hp
    simp [dictAdd] at hp; subst hp; exact hv
  | cons hd' t ih =>
    obtain ⟨k', l⟩ := hd'
    simp only [dictAdd]
    split
    · rename_i heq
      subst heq
      intro p hp
      rcases List.mem_cons.mp hp with rfl | hp
      · exact pureList_append (hd (k', l) (by simp)) hv
      · exact hd p (by simp [hp])
    · intro p hp
      rcases List.mem_cons.mp hp with rfl | hp
      · exact hd (k', l) (by simp)
      · exact ih (fun q hq => hd q (by simp [hq])) p hp

private theorem groupByKey_pure (items : List Item) (d0 d : List (Ty × List Item)) (h0 : dictPure d0)
    (h : groupByKey items d0 = .ok d) : dictPure d := by
  induction items generalizing d0 with
  | nil => simp [groupByKey] at h; subst h; exact h0
  | cons v rest ih =>
    simp only [groupByKey] at h
    cases hk : keyOf v with
    | error e => rw [hk] at h; cases h
    | ok k =>
      rw [hk] at h
      exact ih _ (dictAdd_pure d0 k v h0 (keyOf_pure v k hk)) h

private theorem appendLoop_pure (k : Ty) (w : List Item) (os : List (Nat × Ty)) (hw : pureList k w) (ho : ∀ o ∈ os, o.2 = k) :
    pureList k (appendLoop k w os).1 := by
  induction os generalizing w with
  | nil => simpa [appendLoop] using hw
  | cons o rest ih =>
    obtain ⟨i, t⟩ := o
    simp only [appendLoop]
    split
    · apply ih
      · apply pureList_append hw
        intro o' ho'
        simp [flatList, flatItem] at ho'
        rw [ho']; exact ho (i, t) (by simp)
      · intro o' ho'; exact ho o' (by simp [ho'])
    · exact hw

theorem writerExtend_pure (k : Ty) (w e : List Item) (hw : pureList k w) (he : pureList k e) :
    pureList k (writerExtend k w e).1 := by
  cases k with
  | wg =>
    simp only [writerExtend]
    split
    · exact hw
    · split
      · exact pureList_append hw he
      · exact hw
  | nasu =>
    simp only [writerExtend]
    split
    · exact pureList_append hw he
    · exact hw
  | tc => exact appendLoop_pure _ w _ hw he
  | utc => exact appendLoop_pure _ w _ hw he
  | mk => exact appendLoop_pure _ w _ hw he
  | foreign n => simpa [writerExtend] using hw

private theorem applyGroups_inv (dev : Dev) (d : List (Ty × List Item)) (hi : Inv dev) (hd : dictPure d) :
    Inv (applyGroups dev d).1 := by
  induction d generalizing dev with
  | nil => simpa [applyGroups] using hi
  | cons p rest ih =>
    obtain ⟨k, e⟩ := p
    have hke : pureList k e := hd (k, e) (by simp)
    have hrest : dictPure rest := fun q hq => hd q (by simp [hq])
    have hset : ∀ (hk : ∀ n, k ≠ .foreign n), Inv (dev.set k (writerExtend k (dev.get k) e).1) := by
      intro hk k'
      by_cases hkk : k = k'
      · subst hkk; rw [get_set_same _ _ _ hk]; exact writerExtend_pure k _ _ (hi k) hke
      · rw [get_set_other _ _ _ _ hkk]; exact hi k'
    cases k with
    | foreign n => simpa [applyGroups] using hi
    | wg => simp only [applyGroups]; split
            · exact hset (by simp)
            · exact ih _ (hset (by simp)) hrest
    | nasu => simp only [applyGroups]; split
              · exact hset (by simp)
              · exact ih _ (hset (by simp)) hrest
    | tc => simp only [applyGroups]; split
            · exact hset (by simp)
            · exact ih _ (hset (by simp)) hrest
    | utc => simp only [applyGroups]; split
             · exact hset (by simp)
             · exact ih _ (hset (by simp)) hrest
    | mk => simp only [applyGroups]; split
            · exact hset (by simp)
            · exact ih _ (hset (by simp)) hrest

/-- **Routed by type.** Whatever list is given to `extend` — groups, mixtures, unsupported values, accepted or rejected —
afterwards every collection still holds objects of its own exact type only -/
theorem routed_by_type (dev : Dev) (items : List Item) (hi : Inv dev) : Inv (devExtend dev items).1 := by
  unfold devExtend
  cases hg : groupByKey items [] with
  | error e => simpa using hi
  | ok d =>
    simp only
    exact applyGroups_inv dev d hi (groupByKey_pure items [] d (by intro p hp; simp at hp) hg)

theorem routed_by_type_append (dev : Dev) (v : Item) (hi : Inv dev) : Inv (devAppend dev v).1 :=
  routed_by_type dev _ hi

/-- **… for every history** of append / extend calls starting from an empty device -/
theorem history_routed (calls : List Call) : Inv (runCalls {} calls) := by
  have h0 : Inv ({} : Dev) := by intro k o ho; cases k <;> simp [Dev.get, flatList] at ho
  have : ∀ (dev : Dev), Inv dev → Inv (runCalls dev calls) := by
    induction calls with
    | nil => intro dev h; simpa [runCalls] using h
    | cons c rest ih =>
      intro dev h
      simp only [runCalls]
      apply ih
      cases c with
      | append v => exact routed_by_type_append dev v h
      | extend l => exact routed_by_type dev l h
  exact this {} h0

/-! ### an accepted call stores exactly what it was given -/

private theorem applyGroups_unsupported (dev : Dev) (d : List (Ty × List Item)) (n : Nat) (e : List Item)
    (h : (Ty.foreign n, e) ∈ d) : (applyGroups dev d).2 ≠ none := by
  induction d generalizing dev with
  | nil => simp at h
  | cons p rest ih =>
    obtain ⟨k, e'⟩ := p
    rcases List.mem_cons.mp h with heq | hm
    · injection heq with h1 h2; subst h1
      simp [applyGroups]
    · cases k with
      | foreign m => simp [applyGroups]
      | wg => simp only [applyGroups]; split
              · rename_i err hq; simp [hq]
              · exact ih _ hm
      | nasu => simp only [applyGroups]; split
                · rename_i err hq; simp [hq]
                · exact ih _ hm
      | tc => simp only [applyGroups]; split
              · rename_i err hq; simp [hq]
              · exact ih _ hm
      | utc => simp only [applyGroups]; split
               · rename_i err hq; simp [hq]
               · exact ih _ hm
      | mk => simp only [applyGroups]; split
              · rename_i err hq; simp [hq]
              · exact ih _ hm

private theorem dictAdd_has_key (d : List (Ty × List Item)) (k : Ty) (v : Item) : ∃ e, (k, e) ∈ dictAdd d k v := by
  induction d with
  | nil => exact ⟨[v], by simp [dictAdd]⟩
  | cons p t ih =>
    obtain ⟨k', l⟩ := p
    simp only [dictAdd]
    split
    · rename_i h; subst h; exact ⟨l ++ [v], by simp⟩
    · obtain ⟨e, he⟩ := ih; exact ⟨e, by simp [he]⟩

private theorem dictAdd_keeps_key (d : List (Ty × List Item)) (k k0 : Ty) (v : Item) (e : List Item) (h : (k0, e) ∈ d) :
    ∃ e', (k0, e') ∈ dictAdd d k v := by
  induction d with
  | nil => simp at h
  | cons p t ih =>
    obtain ⟨k', l⟩ := p
    simp only [dictAdd]
    rcases List.mem_cons.mp h with heq | hm
    · injection heq with h1 h2; subst h1; subst h2
      split
      · exact ⟨e ++ [v], by simp⟩
      · exact ⟨e, by simp⟩
    · split
      · exact ⟨e, by simp [hm]⟩
      · obtain ⟨e', he'⟩ := ih hm; exact ⟨e', by simp [he']⟩

private theorem groupByKey_keeps_key (items : List Item) (d0 d : List (Ty × List Item)) (k0 : Ty) (e : List Item)
    (h0 : (k0, e) ∈ d0) (h : groupByKey items d0 = .ok d) : ∃ e', (k0, e') ∈ d := by
  induction items generalizing d0 e with
  | nil => simp [groupByKey] at h; subst h; exact ⟨e, h0⟩
  | cons v rest ih =>
    simp only [groupByKey] at h
    cases hk : keyOf v with
    | error er => rw [hk] at h; cases h
    | ok k =>
      rw [hk] at h
      obtain ⟨e', he'⟩ := dictAdd_keeps_key d0 k k0 v e h0
      exact ih _ _ he' h

/-- the values of a list that `parse_objects` files under key `k`, in order -/
def filed (k : Ty) (items : List Item) : List Item := items.filter fun v => decide (keyOf v = .ok k)

/-- what a collection looks like after an accepted `extend`: groups kept for waveguides and Nasu waveguides, objects one
by one for trench columns, U-trench columns and markers -/
def stored (k : Ty) (w e : List Item) : List Item :=
  match k with
  | .wg | .nasu => w ++ e
  | _ => w ++ (flatList e).map fun o => .obj o.1 o.2

private def dlookup (d : List (Ty × List Item)) (k : Ty) : List Item :=
  match d with
  | [] => []
  | (k', l) :: rest => if k' = k then l else dlookup rest k

private theorem dlookup_dictAdd (d : List (Ty × List Item)) (k k0 : Ty) (v : Item) :
    dlookup (dictAdd d k v) k0 = if k = k0 then dlookup d k0 ++ [v] else dlookup d k0 := by
  induction d with
  | nil => by_cases h : k = k0 <;> simp [dictAdd, dlookup, h]
  | cons p t ih =>
    obtain ⟨k', l⟩ := p
    simp only [dictAdd]
    by_cases h1 : k' = k
    · subst h1
      by_cases h2 : k' = k0
      · subst h2; simp [dlookup]
      · simp [dlookup, h2]
    · simp only [h1, if_false, dlookup]
      by_cases h2 : k' = k0
      · subst h2; simp [h1, Ne.symm h1]
      · simp [h2, ih]

private theorem dlookup_groupByKey (items : List Item) (d0 d : List (Ty × List Item)) (k0 : Ty)
    (h : groupByKey items d0 = .ok d) : dlookup d k0 = dlookup d0 k0 ++ filed k0 items := by
  induction items generalizing d0 with
  | nil => simp [groupByKey] at h; subst h; simp [filed]
  | cons v rest ih =>
    simp only [groupByKey] at h
    cases hk : keyOf v with
    | error e => rw [hk] at h; cases h
    | ok k =>
      rw [hk] at h
      rw [ih _ h, dlookup_dictAdd]
      by_cases hkk : k = k0
      · subst hkk; simp [filed, hk, List.append_assoc]
      · have : ¬ (Except.ok k : Except CErr Ty) = .ok k0 := by intro he; injection he with he; exact hkk he
        simp [filed, hk, hkk, this]

private def keysNodup (d : List (Ty × List Item)) : Prop := (d.map (·.1)).Nodup

private theorem dictAdd_keys (d : List (Ty × List Item)) (k : Ty) (v : Item) :
    (dictAdd d k v).map (·.1) = if k ∈ d.map (·.1) then d.map (·.1) else d.map (·.1) ++ [k] := by
  induction d with
  | nil => simp [dictAdd]
  | cons p t ih =>
    obtain ⟨k', l⟩ := p
    simp only [dictAdd]
    by_cases h1 : k' = k
    · subst h1; simp
    · simp only [h1, if_false, List.map_cons, ih]
      by_cases h2 : k ∈ t.map (·.1)
      · simp [h2]
      · have : ¬ (k = k' ∨ k ∈ List.map (fun x => x.1) t) := by
          rintro (h | h)
          · exact h1 h.symm
          · exact h2 h
        simp [h2, this, Ne.symm h1]

private theorem groupByKey_nodup (items : List Item) (d0 d : List (Ty × List Item)) (h0 : keysNodup d0)
    (h : groupByKey items d0 = .ok d) : keysNodup d := by
  induction items generalizing d0 with
  | nil => simp [groupByKey] at h; subst h; exact h0
  | cons v rest ih =>
    simp only [groupByKey] at h
    cases hk : keyOf v with
    | error e => rw [hk] at h; cases h
    | ok k =>
      rw [hk] at h
      apply ih _ _ h
      unfold keysNodup at h0 ⊢
      rw [dictAdd_keys]
      split
      · exact h0
      · rename_i hn
        exact List.nodup_append.mpr ⟨h0, by simp, by intro a ha b hb; simp at hb; subst hb; intro e; subst e; exact hn ha⟩

private theorem appendLoop_ok (k : Ty) (w : List Item) (os : List (Nat × Ty)) (h : (appendLoop k w os).2 = none) :
    (appendLoop k w os).1 = w ++ os.map fun o => .obj o.1 o.2 := by
  induction os generalizing w with
  | nil => simp [appendLoop]
  | cons o rest ih =>
    obtain ⟨i, t⟩ := o
    simp only [appendLoop] at h ⊢
    split at h
    · rename_i hi
      simp only [hi, if_true]
      rw [ih _ h]; simp
    · simp at h

theorem writerExtend_ok (k : Ty) (w e : List Item) (hk : ∀ n, k ≠ .foreign n) (h : (writerExtend k w e).2 = none) :
    (writerExtend k w e).1 = stored k w e := by
  cases k with
  | wg =>
    simp only [writerExtend] at h ⊢
    split at h
    · simp at h
    · split at h
      · rename_i h1 h2; simp [h1, h2, stored]
      · simp at h
  | nasu =>
    simp only [writerExtend] at h ⊢
    split at h
    · rename_i h1; simp [h1, stored]
    · simp at h
  | tc => exact appendLoop_ok _ _ _ h
  | utc => exact appendLoop_ok _ _ _ h
  | mk => exact appendLoop_ok _ _ _ h
  | foreign n => exact absurd rfl (hk n)

private theorem stored_nil (k : Ty) (w : List Item) : stored k w [] = w := by
  cases k <;> simp [stored, flatList]

private theorem dlookup_absent (rest : List (Ty × List Item)) (k1 : Ty) (hk1 : k1 ∉ rest.map (·.1)) : dlookup rest k1 = [] := by
  induction rest with
  | nil => rfl
  | cons q t iht =>
    obtain ⟨kq, lq⟩ := q
    simp only [List.map_cons, List.mem_cons, not_or] at hk1
    simp [dlookup, Ne.symm hk1.1, iht hk1.2]

private theorem applyGroups_ok (dev : Dev) (d : List (Ty × List Item)) (hnd : keysNodup d)
    (h : (applyGroups dev d).2 = none) (k0 : Ty) (hk0 : ∀ n, k0 ≠ .foreign n) :
    (applyGroups dev d).1.get k0 = stored k0 (dev.get k0) (dlookup d k0) := by
  induction d generalizing dev with
  | nil => simp [applyGroups, dlookup, stored_nil]
  | cons p rest ih =>
    obtain ⟨k, e⟩ := p
    have hnd' : keysNodup rest := by unfold keysNodup at hnd ⊢; exact (List.nodup_cons.mp hnd).2
    have hknot : k ∉ rest.map (·.1) := by unfold keysNodup at hnd; exact (List.nodup_cons.mp hnd).1
    have hlk : ∀ k1, k1 ∉ rest.map (·.1) → dlookup rest k1 = [] := fun k1 hk1 => dlookup_absent rest k1 hk1
    have step : ∀ (hk : ∀ n, k ≠ .foreign n),
        (match (writerExtend k (dev.get k) e).2 with
          | some err => (dev.set k (writerExtend k (dev.get k) e).1, some err)
          | none => applyGroups (dev.set k (writerExtend k (dev.get k) e).1) rest).2 = none →
        (match (writerExtend k (dev.get k) e).2 with
          | some err => (dev.set k (writerExtend k (dev.get k) e).1, some err)
          | none => applyGroups (dev.set k (writerExtend k (dev.get k) e).1) rest).1.get k0
          = stored k0 (dev.get k0) (dlookup ((k, e) :: rest) k0) := by
      intro hk hh
      cases hw : (writerExtend k (dev.get k) e).2 with
      | some err => rw [hw] at hh; simp at hh
      | none =>
        rw [hw] at hh
        simp only
        rw [ih _ hnd' hh]
        by_cases hkk : k = k0
        · subst hkk
          rw [get_set_same _ _ _ hk, hlk k hknot, stored_nil, writerExtend_ok k _ _ hk hw]
          simp [dlookup]
        · rw [get_set_other _ _ _ _ hkk]
          simp [dlookup, hkk]
    cases k with
    | foreign n => simp [applyGroups] at h
    | wg => simp only [applyGroups] at h ⊢; exact step (by simp) h
    | nasu => simp only [applyGroups] at h ⊢; exact step (by simp) h
    | tc => simp only [applyGroups] at h ⊢; exact step (by simp) h
    | utc => simp only [applyGroups] at h ⊢; exact step (by simp) h
    | mk => simp only [applyGroups] at h ⊢; exact step (by simp) h

/-- **An accepted `extend` stores exactly what it was given**: every collection grows by the values filed under its own
type, in the order given — groups of waveguides / Nasu waveguides intact, trench columns and markers one by one — and
nothing else changes -/
theorem holds_accepted (dev : Dev) (items : List Item) (h : (devExtend dev items).2 = none) (k : Ty) (hk : ∀ n, k ≠ .foreign n) :
    (devExtend dev items).1.get k = stored k (dev.get k) (filed k items) := by
  unfold devExtend at h ⊢
  cases hg : groupByKey items [] with
  | error e => rw [hg] at h; simp at h
  | ok d =>
    rw [hg] at h
    simp only at h ⊢
    rw [applyGroups_ok dev d (groupByKey_nodup items [] d (by simp [keysNodup]) hg) h k hk,
      dlookup_groupByKey items [] d k hg]
    simp [dlookup]

/-- **Unsupported values are rejected**: a list that contains, at top level, an object of an unsupported type or a group
starting with one makes `extend` raise (`TypeError` from the dispatch unless a writer rejected an earlier key first) -/
theorem foreign_rejected (dev : Dev) (items : List Item) (v : Item) (n : Nat) (hv : v ∈ items)
    (hk : keyOf v = .ok (.foreign n) ∨ ∃ e, keyOf v = .error e) : (devExtend dev items).2 ≠ none := by
  unfold devExtend
  cases hg : groupByKey items [] with
  | error e => simp
  | ok d =>
    simp only
    rcases hk with hk | ⟨e, hk⟩
    · -- the key `foreign n` is in the dictionary
      have : ∃ e, (Ty.foreign n, e) ∈ d := by
        have key : ∀ (items : List Item) (d0 d : List (Ty × List Item)), v ∈ items → groupByKey items d0 = .ok d →
            ∃ e, (Ty.foreign n, e) ∈ d := by
          intro items
          induction items with
          | nil => intro _ _ h; simp at h
          | cons a rest ih =>
            intro d0 d hmem hg
            simp only [groupByKey] at hg
            cases hka : keyOf a with
            | error er => rw [hka] at hg; cases hg
            | ok ka =>
              rw [hka] at hg
              rcases List.mem_cons.mp hmem with rfl | hm
              · rw [hk] at hka; injection hka with hka; subst hka
                obtain ⟨e, he⟩ := dictAdd_has_key d0 (.foreign n) v
                exact groupByKey_keeps_key rest _ d _ e he hg
              · exact ih _ _ hm hg
        exact key items [] d hv hg
      obtain ⟨e, he⟩ := this
      exact applyGroups_unsupported dev d n e he
    · -- grouping itself fails
      exfalso
      have key : ∀ (items : List Item) (d0 d : List (Ty × List Item)), v ∈ items → groupByKey items d0 = .ok d → False := by
        intro items
        induction items with
        | nil => intro _ _ h; simp at h
        | cons a rest ih =>
          intro d0 d hmem hg
          simp only [groupByKey] at hg
          cases hka : keyOf a with
          | error er => rw [hka] at hg; cases hg
          | ok ka =>
            rw [hka] at hg
            rcases List.mem_cons.mp hmem with rfl | hm
            · rw [hk] at hka; cases hka
            · exact ih _ _ hm hg
      exact key items [] d hv hg

/-- an object of an unsupported type inside a group of supported ones fails the homogeneity check: `TypeError` -/
theorem mixed_group_rejected (i : Nat) (t : Ty) (rest : List Item) (o : Nat × Ty) (ho : o ∈ flatList rest) (hne : o.2 ≠ t) :
    keyOf (.grp (.obj i t :: rest)) = .error .typeError := by
  simp only [keyOf]
  rw [if_neg]
  intro hall
  have := List.all_eq_true.mp hall o ho
  simp at this; exact hne this

/-! ### the caller's lists (heap model) -/

theorem cell_append_lt (h : Heap) (x : List Ref) (l : Nat) (hl : l < h.length) : Heap.cell (h ++ [x]) l = h.cell l := by
  simp [Heap.cell, List.getD, List.getElem?_append_left hl]

theorem cell_set_ne (h : Heap) (w l : Nat) (x : List Ref) (hne : l ≠ w) : Heap.cell (h.set w x) l = h.cell l := by
  simp [Heap.cell, List.getD, List.getElem?_set_ne (Ne.symm hne)]

/-- **`flatten` leaves every existing list cell as it was** (it writes a fresh cell only) -/
theorem flatten_frame (h : Heap) (l : Nat) (ℓ : Nat) (hℓ : ℓ < h.length) :
    (hFlatten h l).1.cell ℓ = h.cell ℓ ∧ (hFlatten h l).2 = h.length := by
  simp only [hFlatten, hCopy]
  refine ⟨?_, trivial⟩
  rw [cell_set_ne _ _ _ _ (Nat.ne_of_lt hℓ), cell_append_lt _ _ _ hℓ]

/-- **`extend` writes the writer's own cell only** -/
theorem extend_frame (h : Heap) (w l ℓ : Nat) (hne : ℓ ≠ w) : (hExtend h w l).cell ℓ = h.cell ℓ :=
  cell_set_ne _ _ _ _ hne

/-- the former in-place `flatten` does change the caller's cell (so the frame theorem is not vacuous): the caller's list
`[a, [b, c]]` at address 0 becomes `[a, b, c]` -/
theorem flatten_in_place_mutates :
    (hFlattenInPlace [[.obj 1, .lst 1], [.obj 2, .obj 3]] 0).1.cell 0 ≠ Heap.cell [[.obj 1, .lst 1], [.obj 2, .obj 3]] 0 ∧
    (hFlatten [[.obj 1, .lst 1], [.obj 2, .obj 3]] 0).1.cell 0 = Heap.cell [[.obj 1, .lst 1], [.obj 2, .obj 3]] 0 ∧
    (hFlatten [[.obj 1, .lst 1], [.obj 2, .obj 3]] 0).1.cell 2 = [.obj 1, .obj 2, .obj 3] := by decide

/-! non-vacuity: a history with a group, a rejected mixed group and an unsupported value -/
example : flatList (runCalls {} [.extend [.obj 1 .wg, .grp [.obj 2 .wg, .obj 3 .wg], .obj 4 .mk],
    .extend [.grp [.obj 5 .wg, .obj 6 .nasu]], .append (.obj 7 .nasu), .extend [.obj 8 .tc, .obj 9 (.foreign 0), .obj 10 .wg]]).wg
    = [(1, .wg), (2, .wg), (3, .wg)] := by decide +kernel

end Femto.C16

/-
C13 — curves are sampled between one and two command-rate steps.
-/
import FemtoVerif.Model.Sampling
import Mathlib.Tactic.Ring
import Mathlib.Tactic.Linarith
import Mathlib.Tactic.FieldSimp
import Mathlib.Tactic.Positivity
import Mathlib.Tactic.NormNum
import Mathlib.Data.Rat.Defs
import Mathlib.Algebra.Order.Field.Basic
import Mathlib.Algebra.Order.AbsoluteValue.Basic

set_option linter.unusedSimpArgs false
set_option linter.unusedVariables false

namespace Femto.C13
open Femto.Smp

/-- **Spacing.** With `dl = f / rate` (one command-rate step) and a segment of length `L`:
either the segment is not longer than one step and the three-point fallback is used, or it is longer, at least two
points are used and the `n - 1` equal intervals are **longer than `dl` and at most `2·dl`**. -/
theorem spacing_bounds (f rate L : Rat) (n : Nat) (hrate : 0 < rate) (h : numSubdivisions f rate L = .ok n) :
    (L ≤ f / rate ∧ n = 3) ∨
    (f / rate < L ∧ 2 ≤ n ∧ f / rate < L / ((n : Rat) - 1) ∧ L / ((n : Rat) - 1) ≤ 2 * (f / rate)) := by
  unfold numSubdivisions at h
  split at h
  · cases h
  · rename_i hf
    have hfpos : 0 < f := by
      have : (1 : Rat) / 1000000 ≤ f := not_lt.mp hf
      linarith [show (0 : Rat) < 1 / 1000000 by norm_num]
    have hdl : 0 < f / rate := div_pos hfpos hrate
    simp only at h
    split at h
    · rename_i hle
      injection h with h
      left
      refine ⟨?_, h.symm⟩
      have : L / (f / rate) ≤ ((1 : Int) : Rat) := (Rat.ceil_le_iff).mp hle
      have : L / (f / rate) ≤ 1 := by simpa using this
      calc L = L / (f / rate) * (f / rate) := by field_simp
        _ ≤ 1 * (f / rate) := mul_le_mul_of_nonneg_right this hdl.le
        _ = f / rate := one_mul _
    · rename_i hgt
      injection h with h
      right
      have hc : 2 ≤ (L / (f / rate)).ceil := by omega
      have hn : ((n : Nat) : Int) = (L / (f / rate)).ceil := by rw [← h]; exact Int.toNat_of_nonneg (by omega)
      have hnr : (n : Rat) = ((L / (f / rate)).ceil : Rat) := by exact_mod_cast congrArg (fun z : Int => (z : Rat)) hn
      have h1 : L / (f / rate) ≤ (n : Rat) := by rw [hnr]; exact Rat.le_ceil
      have h2 : (n : Rat) < L / (f / rate) + 1 := by rw [hnr]; exact Rat.ceil_lt
      have hn2 : (2 : Rat) ≤ n := by rw [hnr]; exact_mod_cast hc
      have hn1 : (0 : Rat) < (n : Rat) - 1 := by linarith
      have hq : (n : Rat) - 1 < L / (f / rate) := by linarith
      have hLpos : 0 < L / (f / rate) := by linarith
      refine ⟨?_, by exact_mod_cast hn2, ?_, ?_⟩
      · -- dl < L  since  1 ≤ n - 1 < L/dl
        have : 1 < L / (f / rate) := by linarith
        calc f / rate = 1 * (f / rate) := (one_mul _).symm
          _ < L / (f / rate) * (f / rate) := mul_lt_mul_of_pos_right this hdl
          _ = L := by field_simp
      · rw [lt_div_iff₀ hn1]
        calc f / rate * ((n : Rat) - 1) < f / rate * (L / (f / rate)) := mul_lt_mul_of_pos_left hq hdl
          _ = L := by field_simp
      · rw [div_le_iff₀ hn1]
        have : L / (f / rate) ≤ 2 * ((n : Rat) - 1) := by linarith
        calc L = L / (f / rate) * (f / rate) := by field_simp
          _ ≤ 2 * ((n : Rat) - 1) * (f / rate) := mul_le_mul_of_nonneg_right this hdl.le
          _ = 2 * (f / rate) * ((n : Rat) - 1) := by ring

/-- **Only segments not longer than one step use the fallback**: a segment longer than one step never gets fewer
points than `⌈L / dl⌉ ≥ 2`, and a segment of at most one step always gets exactly three -/
theorem fallback_iff (f rate L : Rat) (n : Nat) (hrate : 0 < rate) (h : numSubdivisions f rate L = .ok n) :
    (L ≤ f / rate → n = 3) ∧ (f / rate < L → ((n : Int) = (L / (f / rate)).ceil ∧ 2 ≤ n)) := by
  rcases spacing_bounds f rate L n hrate h with ⟨h1, h2⟩ | ⟨h1, h2, _, _⟩
  · exact ⟨fun _ => h2, fun hc => absurd h1 (not_le.mpr hc)⟩
  · refine ⟨fun hc => absurd h1 (not_lt.mpr hc), fun _ => ⟨?_, h2⟩⟩
    unfold numSubdivisions at h
    split at h
    · cases h
    · simp only at h
      split at h
      · rename_i hf hle
        exfalso
        have hfpos : 0 < f := by
          have : (1 : Rat) / 1000000 ≤ f := not_lt.mp hf
          linarith [show (0 : Rat) < 1 / 1000000 by norm_num]
        have hdl : 0 < f / rate := div_pos hfpos hrate
        have : L / (f / rate) ≤ ((1 : Int) : Rat) := (Rat.ceil_le_iff).mp hle
        have h3 : L / (f / rate) ≤ 1 := by simpa using this
        have : L ≤ f / rate := by
          calc L = L / (f / rate) * (f / rate) := by field_simp
            _ ≤ 1 * (f / rate) := mul_le_mul_of_nonneg_right h3 hdl.le
            _ = f / rate := one_mul _
        linarith
      · injection h with h
        rw [← h]; exact Int.toNat_of_nonneg (by omega)

/-- a speed below 1e-6 is rejected -/
theorem speed_guard (f rate L : Rat) (hf : f < 1 / 1000000) : numSubdivisions f rate L = .error () := by
  unfold numSubdivisions; rw [if_pos hf]

/-- the controller is never asked for `cmd_rate_max` points per second or more on a sampled curve longer than a step -/
theorem rate_bound (f rate L : Rat) (n : Nat) (hrate : 0 < rate) (h : numSubdivisions f rate L = .ok n)
    (hlong : f / rate < L) : f / (L / ((n : Rat) - 1)) < rate := by
  rcases spacing_bounds f rate L n hrate h with ⟨h1, _⟩ | ⟨_, _, h3, _⟩
  · linarith
  · have hfpos : 0 < f := by
      unfold numSubdivisions at h
      split at h
      · cases h
      · rename_i hf
        have : (1 : Rat) / 1000000 ≤ f := not_lt.mp hf
        linarith [show (0 : Rat) < 1 / 1000000 by norm_num]
    have hs : 0 < L / ((n : Rat) - 1) := lt_trans (div_pos hfpos hrate) h3
    rw [div_lt_iff₀ hs]
    calc f = f / rate * rate := by field_simp
      _ < L / ((n : Rat) - 1) * rate := mul_lt_mul_of_pos_right h3 hrate
      _ = rate * (L / ((n : Rat) - 1)) := by ring

/-! ### uniform parameter sampling -/

theorem linspace_length (a b : Rat) (n : Nat) : (linspace a b n).length = n := by simp [linspace]

theorem linspace_get (a b : Rat) (n i : Nat) (h : i < n) :
    (linspace a b n)[i]? = some (a + (i : Rat) * ((b - a) / ((n : Rat) - 1))) := by
  simp [linspace, h]

/-- consecutive samples differ by exactly `(b - a) / (n - 1)`: uniform in the parameter (angle for arcs, x for
sinusoidal and spline curves) -/
theorem linspace_uniform (a b : Rat) (n i : Nat) (h : i + 1 < n) :
    ∃ p q, (linspace a b n)[i]? = some p ∧ (linspace a b n)[i + 1]? = some q ∧ q - p = (b - a) / ((n : Rat) - 1) := by
  refine ⟨_, _, linspace_get a b n i (by omega), linspace_get a b n (i + 1) h, ?_⟩
  push_cast; ring

/-- the samples start at `a` and (for `n ≥ 2`) end exactly at `b` -/
theorem linspace_ends (a b : Rat) (n : Nat) (h : 2 ≤ n) :
    (linspace a b n)[0]? = some a ∧ (linspace a b n)[n - 1]? = some b := by
  constructor
  · rw [linspace_get a b n 0 (by omega)]; simp
  · rw [linspace_get a b n (n - 1) (by omega)]
    have hn : ((n - 1 : Nat) : Rat) = (n : Rat) - 1 := by
      have : 1 ≤ n := by omega
      push_cast [Nat.cast_sub this]; ring
    have hne : (n : Rat) - 1 ≠ 0 := by
      have : (2 : Rat) ≤ n := by exact_mod_cast h
      linarith
    rw [hn]; congr 1; field_simp; ring

/-- arcs: `circ` samples the angle uniformly, so consecutive points are `r·|Δθ| / (n - 1)` apart **in arc length**,
which is `L / (n - 1)` for the length `L = |Δθ · r|` handed to `num_subdivisions` -/
theorem circ_arc_spacing (r a0 a1 : Rat) (n i : Nat) (hr : 0 ≤ r) (h : i + 1 < n) :
    ∃ p q, (linspace a0 a1 n)[i]? = some p ∧ (linspace a0 a1 n)[i + 1]? = some q ∧
      r * |q - p| = |(a1 - a0) * r| / |(n : Rat) - 1| := by
  obtain ⟨p, q, hp, hq, hd⟩ := linspace_uniform a0 a1 n i h
  refine ⟨p, q, hp, hq, ?_⟩
  rw [hd, abs_div, abs_mul, abs_of_nonneg hr]; ring

/-- the per-call speed overrides the attribute -/
theorem speed_source (attr s : Rat) : callSpeed (some s) attr = s ∧ callSpeed none attr = attr := ⟨rfl, rfl⟩

/-! non-vacuity -/
example : numSubdivisions 20 1200 (3 / 100) = .ok 2 := by decide +kernel
example : numSubdivisions 20 1200 (1 / 100) = .ok 3 := by decide +kernel
example : numSubdivisions 20 1200 2 = .ok 120 := by decide +kernel

end Femto.C13

/-
C10 — no NaN or infinity ever reaches a path or a program.
The guards are modelled and proved; the floating-point arithmetic inside the builders (what produces a NaN in the first
place) is runtime behaviour and is tied by the degenerate-argument grid of the correspondence run (partial claim).
-/
import FemtoVerif.Model.Finite
import FemtoVerif.Props.C04
import FemtoVerif.Proofs.Fmt

set_option linter.unusedSimpArgs false
set_option linter.unusedVariables false

namespace Femto.C10
open Femto Femto.Fin

private theorem mapM_some_mem {α β : Type} (f : α → Option β) (l : List α) (rs : List β) (h : l.mapM f = some rs) :
    ∀ r ∈ rs, ∃ a ∈ l, f a = some r := by
  induction l generalizing rs with
  | nil => simp [List.mapM_nil] at h; subst h; simp
  | cons a t ih =>
    rw [List.mapM_cons] at h
    cases ha : f a with
    | none => rw [ha] at h; simp at h
    | some b =>
      rw [ha] at h
      cases ht : t.mapM f with
      | none => rw [ht] at h; simp at h
      | some bs =>
        rw [ht] at h; simp at h; subst h
        intro r hr
        rcases List.mem_cons.mp hr with rfl | hr
        · exact ⟨a, by simp, ha⟩
        · obtain ⟨a', ha', hf⟩ := ih bs ht r hr
          exact ⟨a', by simp [ha'], hf⟩

/-- **What `add_path` accepts is finite and has positive feeds.**  (Finiteness is the type `Row Rat` of what is stored;
the statement says every stored row comes from a row all of whose entries are finite after the single-precision cast,
and that its feed is positive.) -/
theorem guard_sound (t : List (Row Rat)) (rows : List ERow) (t' : List (Row Rat)) (h : addPath t rows = .ok t') :
    ∃ rs, t' = t ++ rs ∧ (∀ r ∈ rs, 0 < r.f) ∧ (∀ r ∈ rs, ∃ e ∈ rows, castRow e = some r) := by
  unfold addPath at h
  cases hm : rows.mapM castRow with
  | none => rw [hm] at h; simp at h
  | some rs =>
    rw [hm] at h
    simp only at h
    split at h
    · rename_i hall
      injection h with h
      refine ⟨rs, h.symm, ?_, mapM_some_mem _ _ _ hm⟩
      intro r hr
      have := List.all_eq_true.mp hall r hr
      simpa using this
    · cases h

/-- **… and it rejects nothing else**: rows that are finite after the cast with positive feeds are appended unchanged -/
theorem guard_complete (t : List (Row Rat)) (rows : List ERow) (rs : List (Row Rat))
    (hm : rows.mapM castRow = some rs) (hf : ∀ r ∈ rs, 0 < r.f) : addPath t rows = .ok (t ++ rs) := by
  unfold addPath
  rw [hm]
  have : rs.all (fun r => decide (0 < r.f)) = true := by
    rw [List.all_eq_true]; intro r hr; simpa using hf r hr
  simp [this]

/-- a row with a NaN, an infinity or a coordinate beyond the single-precision range is rejected, wherever it stands -/
theorem guard_rejects_nonfinite (t : List (Row Rat)) (rows : List ERow) (e : ERow) (he : e ∈ rows) (hc : castRow e = none) :
    addPath t rows = .error .nonFinite := by
  unfold addPath
  have : rows.mapM castRow = none := by
    induction rows with
    | nil => simp at he
    | cons a rest ih =>
      rw [List.mapM_cons]
      rcases List.mem_cons.mp he with rfl | h
      · rw [hc]; rfl
      · cases castRow a with
        | none => rfl
        | some b => rw [ih h]; rfl
  rw [this]

/-- **Invariant over every history**: whatever sequence of `add_path` calls is made — accepted or rejected, in any
order — every feed of the recorded trajectory is positive (and every value finite, by type) -/
theorem path_invariant (t : List (Row Rat)) (calls : List (List ERow)) (h0 : ∀ r ∈ t, 0 < r.f) :
    ∀ r ∈ history t calls, 0 < r.f := by
  induction calls generalizing t with
  | nil => simpa [history] using h0
  | cons rows rest ih =>
    simp only [history]
    cases hq : addPath t rows with
    | error e => exact ih t h0
    | ok t' =>
      obtain ⟨rs, rfl, hpos, _⟩ := guard_sound t rows t' hq
      apply ih
      intro r hr
      rcases List.mem_append.mp hr with h | h
      · exact h0 r h
      · exact hpos r h

/-- values beyond the single-precision range become infinite in the cast (and are then rejected) -/
theorem cast32_overflow (q : Rat) (h : f32Overflow ≤ rabs q) : (cast32 (.fin q)).toRat? = none := by
  simp only [cast32]
  rw [if_neg (not_lt.mpr h)]
  split <;> rfl

/-- **printing**: a non-finite argument makes `_format_args` raise; finite arguments go through the feed guard and the
formatting of the compiler model unchanged (whose printed feed is positive, `fmt_pos`) -/
theorem format_guard (d : Nat) (x y z f : Option Ext) :
    (∀ o ∈ [x, y, z, f], o = none ∨ ∃ q, o = some (.fin q)) →
      formatArgsExt d x y z f = Gc.formatArgs d (x.bind Ext.toRat?) (y.bind Ext.toRat?) (z.bind Ext.toRat?) (f.bind Ext.toRat?) := by
  intro h
  have hx := h x (by simp); have hy := h y (by simp); have hz := h z (by simp); have hf := h f (by simp)
  unfold formatArgsExt
  rcases hx with rfl | ⟨qx, rfl⟩ <;> rcases hy with rfl | ⟨qy, rfl⟩ <;> rcases hz with rfl | ⟨qz, rfl⟩ <;>
    rcases hf with rfl | ⟨qf, rfl⟩ <;> simp

theorem format_guard_rejects (d : Nat) (x y z f : Option Ext) (e : Ext) (he : some e ∈ [x, y, z, f]) (hn : e.toRat? = none) :
    ∃ err, formatArgsExt d x y z f = .error err := by
  unfold formatArgsExt
  have hne : ∀ q, e ≠ .fin q := by intro q hq; rw [hq] at hn; simp [Ext.toRat?] at hn
  simp only [List.mem_cons, List.not_mem_nil, or_false] at he
  rcases he with rfl | rfl | rfl | rfl <;>
  · cases e with
    | fin q => exact absurd rfl (hne q)
    | pinf => simp
    | ninf => simp
    | nan => simp

/-! ### degenerate requests behave like their limit case -/

open Real Femto.C04 Femto.Wg in
/-- a circular S-bend with zero lateral offset has zero length: three coincident points, the path does not move -/
theorem arc_bend_zero (p : P ℝ) (r : ℝ) (hr : 0 < r) : arcBendEnd RT p 0 r false = p := by
  rw [arc_bend_lands p 0 r false hr (by simp; positivity) (by simp) (by simp)]
  have : sbendLength RT 0 r = 0 := by simp [sbendLength, sbendAngle]
  rw [this]; apply P_ext <;> simp

section degenerate
open Real Femto.C04 Femto.Wg

/-- a sinusoidal segment with zero lateral and zero vertical offset is the straight line at the entry height and depth, at
every abscissa and for every curvature factor and frequency -/
theorem sin_flat (p : P ℝ) (dx fp wy wz x : ℝ) : sinAt RT p dx 0 0 fp wy wz x = ⟨x, p.y, p.z⟩ := by
  simp [sinAt]

/-- an arc of zero sweep does not move -/
theorem circ_zero_sweep (p : P ℝ) (r a : ℝ) : circEnd RT p r a a = p := by
  apply P_ext <;> simp [circEnd, circAt]

/-- every sample of an arc of zero sweep is the start point (the three coincident points the fallback count produces) -/
theorem circ_zero_sweep_samples (p : P ℝ) (r a : ℝ) (n : Nat) : ∀ q ∈ circSamples RT p r a a n, q = p := by
  intro q hq
  simp only [circSamples, linspaceK, List.mem_map, List.mem_range] at hq
  obtain ⟨t, ⟨i, _, rfl⟩, rfl⟩ := hq
  apply P_ext <;> simp [circAt]

/-- a coupler with zero lateral offset and zero interaction length does not move; neither does such an interferometer -/
theorem arc_coupler_zero (p : P ℝ) (r : ℝ) (hr : 0 < r) : arcCouplerEnd RT p 0 r 0 false false = p := by
  have hadv : ∀ q : P ℝ, advance q (RT.abs 0) = q := by intro q; apply P_ext <;> simp [advance, RT]
  simp only [arcCouplerEnd, neg_zero, arc_bend_zero _ r hr, hadv]

theorem arc_mzi_zero (p : P ℝ) (r : ℝ) (hr : 0 < r) : arcMziEnd RT p 0 r 0 0 false false = p := by
  have hadv : ∀ q : P ℝ, advance q (RT.abs 0) = q := by intro q; apply P_ext <;> simp [advance, RT]
  simp only [arcMziEnd, arc_coupler_zero _ r hr, hadv]

end degenerate

/-- non-vacuity: an accepted call, a rejected NaN, a rejected overflow, a rejected zero feed -/
example : addPath [] [⟨.fin 1, .fin 2, .fin 0, .fin 5, .fin 0⟩] = .ok [⟨1, 2, 0, 5, 0⟩] := by decide +kernel
example : addPath [] [⟨.fin 1, .nan, .fin 0, .fin 5, .fin 0⟩] = .error .nonFinite := by decide +kernel
example : addPath [] [⟨.fin (10 ^ 39), .fin 2, .fin 0, .fin 5, .fin 0⟩] = .error .nonFinite := by decide +kernel
example : addPath [] [⟨.fin 1, .fin 2, .fin 0, .fin 0, .fin 0⟩] = .error .badFeed := by decide +kernel

end Femto.C10

/-
C02 — coordinates are mapped by the documented rigid transformation.
All algebraic statements hold over an arbitrary field (so for the exact rationals the driver computes with and for the
reals with the true cosine and sine); the angle statements are over `ℝ`.
-/
import FemtoVerif.Model.Transform
import Mathlib.Tactic.Ring
import Mathlib.Tactic.FieldSimp
import Mathlib.Tactic.Linarith
import Mathlib.Tactic.NormNum
import Mathlib.Analysis.SpecialFunctions.Trigonometric.Basic
import Mathlib.Algebra.Order.Floor.Ring

set_option linter.unusedSimpArgs false
set_option linter.unusedVariables false

namespace Femto.C02
open Femto

section field
variable {K : Type} [Field K]

/-- mirror factor of an axis -/
def mirror (flip : Bool) : K := if flip then -1 else 1

/-- **the documented map**: translate so that the chosen origin becomes (0,0), mirror x and/or y, rotate the xy-plane
counter-clockwise (`c = cos θ`, `s = sin θ`), divide z by `n_glass / n_environment` -/
def rigid (sx sy : K) (fx fy : Bool) (c s neff : K) (x y z : K) : K × K × K :=
  let X := mirror fx * (x - sx)
  let Y := mirror fy * (y - sy)
  (c * X - s * Y, s * X + c * Y, z / neff)

theorem flipSign_eq (f : Bool) : (-(flipSign f : K)) = mirror f := by
  cases f <;> simp [flipSign, mirror] <;> ring

/-- the code's sequence of array operations is the documented map (compensation off) -/
theorem transform_eq_rigid (sx sy : K) (fx fy : Bool) (c s neff x y z : K) :
    transformK sx sy fx fy c s neff 0 x y z = rigid sx sy fx fy c s neff x y z := by
  simp only [transformK, rigid, flipSign_eq]
  refine Prod.ext ?_ (Prod.ext ?_ ?_) <;> simp <;> ring

/-- xy distances are preserved -/
theorem rigid_isometry_xy (sx sy : K) (fx fy : Bool) (c s neff : K) (hcs : c ^ 2 + s ^ 2 = 1) (x₁ y₁ z₁ x₂ y₂ z₂ : K) :
    ((rigid sx sy fx fy c s neff x₁ y₁ z₁).1 - (rigid sx sy fx fy c s neff x₂ y₂ z₂).1) ^ 2 +
      ((rigid sx sy fx fy c s neff x₁ y₁ z₁).2.1 - (rigid sx sy fx fy c s neff x₂ y₂ z₂).2.1) ^ 2
      = (x₁ - x₂) ^ 2 + (y₁ - y₂) ^ 2 := by
  have hm : ∀ f : Bool, (mirror f : K) ^ 2 = 1 := by intro f; cases f <;> simp [mirror]
  simp only [rigid]
  have e : ∀ (a b : K), (c * a - s * b) ^ 2 + (s * a + c * b) ^ 2 = (c ^ 2 + s ^ 2) * (a ^ 2 + b ^ 2) := by
    intro a b; ring
  have : (c * (mirror fx * (x₁ - sx)) - s * (mirror fy * (y₁ - sy)) - (c * (mirror fx * (x₂ - sx)) - s * (mirror fy * (y₂ - sy)))) ^ 2 +
      (s * (mirror fx * (x₁ - sx)) + c * (mirror fy * (y₁ - sy)) - (s * (mirror fx * (x₂ - sx)) + c * (mirror fy * (y₂ - sy)))) ^ 2
      = (c * (mirror fx * (x₁ - x₂)) - s * (mirror fy * (y₁ - y₂))) ^ 2 + (s * (mirror fx * (x₁ - x₂)) + c * (mirror fy * (y₁ - y₂))) ^ 2 := by
    ring
  rw [this, e, hcs, one_mul, mul_pow, mul_pow, hm, hm]; ring

/-- z distances scale by `n_environment / n_glass` (= `1 / neff`) -/
theorem rigid_z_scale (sx sy : K) (fx fy : Bool) (c s neff : K) (x₁ y₁ z₁ x₂ y₂ z₂ : K) :
    (rigid sx sy fx fy c s neff x₁ y₁ z₁).2.2 - (rigid sx sy fx fy c s neff x₂ y₂ z₂).2.2 = (z₁ - z₂) / neff := by
  simp only [rigid]; ring

/-- orientation: the determinant of the xy linear part is `-1` exactly when one flip is set, `+1` otherwise -/
theorem rigid_orientation (fx fy : Bool) (c s : K) (hcs : c ^ 2 + s ^ 2 = 1) :
    (c * mirror fx) * (c * mirror fy) - (-(s * mirror fy)) * (s * mirror fx) = (if fx = fy then (1 : K) else -1) := by
  have : (c * mirror fx) * (c * mirror fy) - (-(s * mirror fy)) * (s * mirror fx) = (c ^ 2 + s ^ 2) * (mirror fx * mirror fy) := by ring
  rw [this, hcs, one_mul]
  cases fx <;> cases fy <;> simp [mirror]

/-- the entries used in `rigid_orientation` are the partial derivatives of the map -/
theorem rigid_linear_part (sx sy : K) (fx fy : Bool) (c s neff x y z dx dy : K) :
    (rigid sx sy fx fy c s neff (x + dx) (y + dy) z).1 - (rigid sx sy fx fy c s neff x y z).1
        = (c * mirror fx) * dx + (-(s * mirror fy)) * dy ∧
    (rigid sx sy fx fy c s neff (x + dx) (y + dy) z).2.1 - (rigid sx sy fx fy c s neff x y z).2.1
        = (s * mirror fx) * dx + (c * mirror fy) * dy := by
  simp only [rigid]; constructor <;> ring

/-- neutral settings give the identity -/
theorem rigid_neutral (x y z : K) : rigid 0 0 false false 1 0 1 x y z = (x, y, z) := by
  simp [rigid, mirror]

/-- the chosen origin becomes (0, 0) -/
theorem origin_to_zero (sx sy : K) (fx fy : Bool) (c s neff z : K) :
    (rigid sx sy fx fy c s neff sx sy z).1 = 0 ∧ (rigid sx sy fx fy c s neff sx sy z).2.1 = 0 := by
  simp [rigid]

end field

/-! ### the order of the steps matters (so a re-ordering is a real change) -/

/-- flipping before translating is a different map as soon as a flipped axis has a non-zero shift -/
theorem shift_then_flip_witness :
    rigid (1 : ℚ) 0 true false 1 0 1 0 0 0 ≠ (let p := rigid (0 : ℚ) 0 true false 1 0 1 0 0 0; (p.1 - 1, p.2.1, p.2.2)) := by
  simp [rigid, mirror]; norm_num

/-- rotating before flipping is a different map for a generic angle -/
theorem flip_then_rotate_witness :
    rigid (0 : ℚ) 0 true false (3/5) (4/5) 1 1 0 0
      ≠ (let p := rigid (0 : ℚ) 0 false false (3/5) (4/5) 1 1 0 0; (-p.1, p.2.1, p.2.2)) := by
  simp [rigid, mirror]; norm_num

/-! ### angles (over the reals) -/

open Real

/-- Python's `math.radians(angle % 360)` for a real `angle` in degrees -/
noncomputable def normRadians (a : ℝ) : ℝ := (a - 360 * (⌊a / 360⌋ : ℝ)) * π / 180

/-- **any sign or magnitude**: the normalised angle has the cosine and sine of `a` degrees -/
theorem angle_normalised (a : ℝ) :
    cos (normRadians a) = cos (a * π / 180) ∧ sin (normRadians a) = sin (a * π / 180) := by
  have e : normRadians a = a * π / 180 - (⌊a / 360⌋ : ℝ) * (2 * π) := by unfold normRadians; ring
  rw [e]
  exact ⟨Real.cos_sub_int_mul_two_pi _ _, Real.sin_sub_int_mul_two_pi _ _⟩

/-- the normalised angle lies in `[0°, 360°)` -/
theorem normRadians_range (a : ℝ) : 0 ≤ normRadians a ∧ normRadians a < 2 * π := by
  unfold normRadians
  have h1 := Int.floor_le (a / 360)
  have h2 := Int.lt_floor_add_one (a / 360)
  have hpi := Real.pi_pos
  constructor
  · apply div_nonneg _ (by norm_num)
    apply mul_nonneg _ hpi.le
    linarith
  · have : a - 360 * (⌊a / 360⌋ : ℝ) < 360 := by linarith
    calc (a - 360 * (⌊a / 360⌋ : ℝ)) * π / 180 < 360 * π / 180 := by
          apply div_lt_div_of_pos_right _ (by norm_num)
          exact mul_lt_mul_of_pos_right this hpi
      _ = 2 * π := by ring

/-- with the true cosine and sine the map is an isometry of the xy-plane for **every** angle -/
theorem real_rotation_isometry (a sx sy : ℝ) (fx fy : Bool) (neff x₁ y₁ z₁ x₂ y₂ z₂ : ℝ) :
    ((rigid sx sy fx fy (cos (normRadians a)) (sin (normRadians a)) neff x₁ y₁ z₁).1 -
        (rigid sx sy fx fy (cos (normRadians a)) (sin (normRadians a)) neff x₂ y₂ z₂).1) ^ 2 +
      ((rigid sx sy fx fy (cos (normRadians a)) (sin (normRadians a)) neff x₁ y₁ z₁).2.1 -
        (rigid sx sy fx fy (cos (normRadians a)) (sin (normRadians a)) neff x₂ y₂ z₂).2.1) ^ 2
      = (x₁ - x₂) ^ 2 + (y₁ - y₂) ^ 2 :=
  rigid_isometry_xy _ _ _ _ _ _ _ (Real.cos_sq_add_sin_sq _) _ _ _ _ _ _

/-- and it rotates counter-clockwise by `a` degrees: the unit x vector goes to `(cos a°, sin a°)` -/
theorem real_rotation_ccw (a : ℝ) :
    (rigid 0 0 false false (cos (normRadians a)) (sin (normRadians a)) 1 1 0 0 : ℝ × ℝ × ℝ)
      = (cos (a * π / 180), sin (a * π / 180), 0) := by
  obtain ⟨hc, hs⟩ := angle_normalised a
  simp [rigid, mirror, hc, hs]

end Femto.C02

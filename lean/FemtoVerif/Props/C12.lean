/-
C12 — reported dwell and fabrication times agree with the program.
-/
import FemtoVerif.Proofs.Session
import FemtoVerif.Gen.Data
import Mathlib.Algebra.BigOperators.Group.List.Basic

set_option linter.unusedSimpArgs false
set_option linter.unusedVariables false

namespace Femto.C12
open Femto.Ctl Femto.Gc

/-- **Dwell accounting.** For every configuration and every finite sequence of compiler operations — arbitrarily
nested REPEAT / FOR blocks, zero, negative and `None` pauses, and an exception raised at any position — the total the
compiler reports equals the dwell content of the emitted program text with loop bodies counted once per iteration
(and the text is balanced, otherwise `totalDwell` would be `none`). -/
theorem dwell_accounting (cfg : Cfg) (ops : List Op) (hh : headerClean cfg.header = true) :
    totalDwell (flattenStmts (session cfg ops).1) = some (session cfg ops).2.dwellTotal := by
  obtain ⟨h1, h2⟩ := session_ok cfg ops hh
  simp [totalDwell, structure?_flattenStmts _ h1, h2]

/-- the same total is what the reference controller accumulates when it **executes** the program, from any state -/
theorem executed_dwell (cfg : Cfg) (ops : List Op) (hh : headerClean cfg.header = true) (σ : St) :
    (execStmts (session cfg ops).1 σ).1.dwell = σ.dwell + (session cfg ops).2.dwellTotal := by
  rw [execStmts_dwell, (session_ok cfg ops hh).2]

/-- the four header files shipped with the library satisfy the header hypothesis (re-checked on the regenerated data) -/
theorem shipped_headers_clean : ∀ h ∈ Femto.Gen.headers, headerClean h.2.2 = true := by decide

/-! ### fabrication time of a closed path

`LaserPath.fabrication_time` tiles the recorded arrays `scan` times and sums distance over the arriving feed.
`dist` is a parameter with the single law `dist p p = 0` (no square root is needed for the statement). -/

section fab
variable {P : Type}

/-- Σ over consecutive pairs of `dist p_{i-1} p_i / f_i` -/
def segTimes (dist : P → P → Rat) : List (P × Rat) → Rat
  | [] => 0
  | [_] => 0
  | a :: b :: t => dist a.1 b.1 / b.2 + segTimes dist (b :: t)

/-- `np.tile(arr, scan)` -/
def tile (scan : Nat) (l : List (P × Rat)) : List (P × Rat) := (List.replicate scan l).flatten

/-- `LaserPath.fabrication_time` -/
def fabTime (dist : P → P → Rat) (scan : Nat) (l : List (P × Rat)) : Rat := segTimes dist (tile scan l)

theorem segTimes_append (dist : P → P → Rat) (a : List (P × Rat)) (x y : P × Rat) (b : List (P × Rat)) :
    segTimes dist (a ++ x :: y :: b) = segTimes dist (a ++ [x]) + dist x.1 y.1 / y.2 + segTimes dist (y :: b) := by
  induction a with
  | nil => simp [segTimes]
  | cons h t ih =>
    cases t with
    | nil => simp [segTimes]; ring
    | cons h2 t2 =>
      simp only [List.cons_append, segTimes] at ih ⊢
      rw [ih]; ring

/-- **Closed path.** When the path ends where it starts, the estimate is `scan` times the travel time of one pass. -/
theorem fabtime_closed_path (dist : P → P → Rat) (hd : ∀ p, dist p p = 0) (scan : Nat) (l : List (P × Rat))
    (hclosed : l.head?.map Prod.fst = l.getLast?.map Prod.fst) :
    fabTime dist scan l = scan * segTimes dist l := by
  unfold fabTime tile
  induction scan with
  | zero => simp [segTimes]
  | succ n ih =>
    rw [List.replicate_succ, List.flatten_cons]
    cases l with
    | nil => simp [segTimes]
    | cons x t =>
      -- l = x :: t, rest = tile n l which is either [] or starts with x
      cases n with
      | zero => simp [segTimes]
      | succ m =>
        rw [List.replicate_succ, List.flatten_cons] at ih ⊢
        -- (x :: t) ++ (x :: t) ++ R
        obtain ⟨init, lst, hl⟩ : ∃ init lst, x :: t = init ++ [lst] := by
          exact ⟨(x :: t).dropLast, (x :: t).getLast (by simp), (List.dropLast_append_getLast (by simp)).symm⟩
        have hlast : lst.1 = x.1 := by
          have : (x :: t).getLast? = some lst := by rw [hl]; simp
          rw [this] at hclosed; simp at hclosed; exact hclosed.symm
        set R := (List.replicate m (x :: t)).flatten with hR
        have e1 : (x :: t) ++ ((x :: t) ++ R) = init ++ lst :: x :: (t ++ R) := by
          have : (x :: t) ++ ((x :: t) ++ R) = (init ++ [lst]) ++ ((x :: t) ++ R) := by rw [← hl]
          rw [this]; simp
        have e2 : x :: (t ++ R) = x :: t ++ R := rfl
        rw [e1, segTimes_append, ← hl, hlast, hd, e2, ih]
        push_cast; ring

end fab

/-! non-vacuity -/
example : totalDwell (flattenStmts (session { header := Femto.Gen.header_pharos }
    [.rep 3 [.dwell (some 1), .forr "i" 2 [.dwell (some (1/4)), .raise, .dwell (some 5)]], .dvar ["i"]]).1)
    = some (session { header := Femto.Gen.header_pharos }
    [.rep 3 [.dwell (some 1), .forr "i" 2 [.dwell (some (1/4)), .raise, .dwell (some 5)]], .dvar ["i"]]).2.dwellTotal :=
  dwell_accounting _ _ (by decide)

end Femto.C12

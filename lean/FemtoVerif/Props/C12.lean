/-
C12 — reported dwell and fabrication times agree with the program.
-/
import FemtoVerif.Proofs.Session
import FemtoVerif.Gen.Data
import FemtoVerif.Props.C01
import Mathlib.Algebra.BigOperators.Group.List.Basic

set_option linter.unusedSimpArgs false
set_option linter.unusedVariables false

namespace Femto.C12
open Femto.Ctl Femto.Gc

/-- **Dwell accounting.** For every configuration and every finite sequence of compiler operations — arbitrarily
nested REPEAT / FOR blocks, zero, negative and `None` pauses, and an exception raised at any position — the total the
compiler reports equals the dwell content of the emitted program text with loop bodies counted once per iteration
(and the text is balanced, otherwise `totalDwell` would be `none`). -/
theorem dwell_accounting (cfg : Cfg) (ops : List Op) (hh : headerClean cfg.header = true) :
    totalDwell (flattenStmts (session cfg ops).1) = some (session cfg ops).2.dwellTotal := by
  obtain ⟨h1, h2⟩ := session_ok cfg ops hh
  simp [totalDwell, structure?_flattenStmts _ h1, h2]

/-- the same total is what the reference controller accumulates when it **executes** the program, from any state -/
theorem executed_dwell (cfg : Cfg) (ops : List Op) (hh : headerClean cfg.header = true) (σ : St) :
    (execStmts (session cfg ops).1 σ).1.dwell = σ.dwell + (session cfg ops).2.dwellTotal := by
  rw [execStmts_dwell, (session_ok cfg ops hh).2]

/-- the four header files shipped with the library satisfy the header hypothesis (re-checked on the regenerated data) -/
theorem shipped_headers_clean : ∀ h ∈ Femto.Gen.headers, headerClean h.2.2 = true := by decide

/-! ### fabrication time of a closed path

`LaserPath.fabrication_time` tiles the recorded arrays `scan` times and sums distance over the arriving feed.
`dist` is a parameter with the single law `dist p p = 0` (no square root is needed for the statement). -/

section fab
variable {P : Type}

/-- Σ over consecutive pairs of `dist p_{i-1} p_i / f_i` -/
def segTimes (dist : P → P → Rat) : List (P × Rat) → Rat
  | [] => 0
  | [_] => 0
  | a :: b :: t => dist a.1 b.1 / b.2 + segTimes dist (b :: t)

/-- `np.tile(arr, scan)` -/
def tile (scan : Nat) (l : List (P × Rat)) : List (P × Rat) := (List.replicate scan l).flatten

/-- `LaserPath.fabrication_time` -/
def fabTime (dist : P → P → Rat) (scan : Nat) (l : List (P × Rat)) : Rat := segTimes dist (tile scan l)

theorem segTimes_append (dist : P → P → Rat) (a : List (P × Rat)) (x y : P × Rat) (b : List (P × Rat)) :
    segTimes dist (a ++ x :: y :: b) = segTimes dist (a ++ [x]) + dist x.1 y.1 / y.2 + segTimes dist (y :: b) := by
  induction a with
  | nil => simp [segTimes]
  | cons h t ih =>
    cases t with
    | nil => simp [segTimes]; ring
    | cons h2 t2 =>
      simp only [List.cons_append, segTimes] at ih ⊢
      rw [ih]; ring

/-- **Closed path.** When the path ends where it starts, the estimate is `scan` times the travel time of one pass. -/
theorem fabtime_closed_path (dist : P → P → Rat) (hd : ∀ p, dist p p = 0) (scan : Nat) (l : List (P × Rat))
    (hclosed : l.head?.map Prod.fst = l.getLast?.map Prod.fst) :
    fabTime dist scan l = scan * segTimes dist l := by
  unfold fabTime tile
  induction scan with
  | zero => simp [segTimes]
  | succ n ih =>
    rw [List.replicate_succ, List.flatten_cons]
    cases l with
    | nil => simp [segTimes]
    | cons x t =>
      -- l = x :: t, rest = tile n l which is either [] or starts with x
      cases n with
      | zero => simp [segTimes]
      | succ m =>
        rw [List.replicate_succ, List.flatten_cons] at ih ⊢
        -- (x :: t) ++ (x :: t) ++ R
        obtain ⟨init, lst, hl⟩ : ∃ init lst, x :: t = init ++ [lst] := by
          exact ⟨(x :: t).dropLast, (x :: t).getLast (by simp), (List.dropLast_append_getLast (by simp)).symm⟩
        have hlast : lst.1 = x.1 := by
          have : (x :: t).getLast? = some lst := by rw [hl]; simp
          rw [this] at hclosed; simp at hclosed; exact hclosed.symm
        set R := (List.replicate m (x :: t)).flatten with hR
        have e1 : (x :: t) ++ ((x :: t) ++ R) = init ++ lst :: x :: (t ++ R) := by
          have : (x :: t) ++ ((x :: t) ++ R) = (init ++ [lst]) ++ ((x :: t) ++ R) := by rw [← hl]
          rw [this]; simp
        have e2 : x :: (t ++ R) = x :: t ++ R := rfl
        rw [e1, segTimes_append, ← hl, hlast, hd, e2, ih]
        push_cast; ring

end fab

/-! ### one pass of the compiled program

The estimate of `fabtime_closed_path` is stated over the recorded points; this section ties it to **the compiled program**:
the travel time of the moves the reference controller makes when it runs what `write` emitted (C01, `write_replays`) is
the same sum over the printed points — a point that repeats its predecessor makes no move and contributes `dist p p / f = 0`. -/

section pass
variable (dist : Pos → Pos → Rat)

/-- travel time of executed moves: distance over the programmed feed -/
def travel (ms : List Move) : Rat :=
  (ms.map fun m => match m.feed with | some f => dist m.src m.dst / f | none => 0).sum

/-- printed position and feed of every point -/
def stations (ws : List (G1W × Rat)) : List (Pos × Rat) := ws.map fun w => (posOf w.1, w.1.f.getD 0)

theorem travel_append (a b : List Move) : travel dist (a ++ b) = travel dist a + travel dist b := by
  simp [travel, List.map_append, List.sum_append]

theorem travel_expected (hd : ∀ p, dist p p = 0) (prev : Pos) (f0 : Rat) (ws : List (G1W × Rat))
    (hf : ∀ w ∈ ws, w.1.f.isSome = true) :
    travel dist (expectedFrom prev ws) = segTimes dist ((prev, f0) :: stations ws) := by
  induction ws generalizing prev f0 with
  | nil => simp [expectedFrom, travel, stations, segTimes]
  | cons hd' rest ih =>
    obtain ⟨w, s⟩ := hd'
    obtain ⟨f, hfw⟩ := Option.isSome_iff_exists.mp (hf (w, s) (by simp))
    have hfw' : w.f = some f := hfw
    have ih' := ih (posOf w) f (fun w' hw' => hf w' (by simp [hw']))
    simp only [expectedFrom, travel_append, ih']
    simp only [stations, List.map_cons, segTimes, hfw', Option.getD_some]
    by_cases hpos : posOf w = prev
    · simp [hpos, travel, hd]
    · simp [hpos, travel, hfw']

/-- **One pass of the compiled program.** Interpreting what `write` emitted for a point matrix takes, in travel, exactly the
sum over consecutive printed points of distance over the arriving feed, starting from where the machine stands. -/
theorem compiled_pass_travel (hd : ∀ p, dist p p = 0) (cfg : Cfg) (m : List Pt) (cs : CS) (o : Out) (σ : St)
    (ws : List (G1W × Rat)) (hw : write cfg m cs = .ok o) (hp : printed cfg m = .ok ws) (hs : ∀ p ∈ m, p.s = 0 ∨ p.s = 1)
    (habs : σ.absMode = true) (hsh : σ.shutter = cs.shutterOn) :
    travel dist (movesOf (execFlat (flattenStmts o.1) σ).2) = segTimes dist ((σ.pos, 0) :: stations ws) := by
  rw [(Femto.C01.write_replays cfg m cs o σ ws hw hp hs habs hsh).1]
  refine travel_expected dist hd σ.pos 0 ws ?_
  intro w hw'
  have := ((Femto.C01.printed_full cfg m ws hp).1 w hw').1
  simp only [fullW, Bool.and_eq_true] at this
  exact this.1.1.1.2

/-- **The estimate is `scan` passes of the compiled program.** For a closed path whose recorded points `l` are printed as
`ws`, if the compilation preserves the distances between consecutive points (`hiso`: rotation, flips and shift are isometries;
index ratio 1; the coordinates are printed exactly) then the estimate `fabTime` over the recorded points is the number of
scans times the travel time of the moves of the compiled program, run from its first point. -/
theorem fabtime_is_scan_passes {P : Type} (dist0 : P → P → Rat) (hd0 : ∀ p, dist0 p p = 0) (hd : ∀ p, dist p p = 0)
    (scan : Nat) (l : List (P × Rat)) (hclosed : l.head?.map Prod.fst = l.getLast?.map Prod.fst)
    (cfg : Cfg) (m : List Pt) (cs : CS) (o : Out) (σ : St) (ws : List (G1W × Rat))
    (hw : write cfg m cs = .ok o) (hp : printed cfg m = .ok ws) (hs : ∀ p ∈ m, p.s = 0 ∨ p.s = 1)
    (habs : σ.absMode = true) (hsh : σ.shutter = cs.shutterOn)
    (hstart : ∀ w, ws.head? = some w → σ.pos = posOf w.1)
    (hiso : segTimes dist (stations ws) = segTimes dist0 l) :
    fabTime dist0 scan l = scan * travel dist (movesOf (execFlat (flattenStmts o.1) σ).2) := by
  rw [fabtime_closed_path dist0 hd0 scan l hclosed, compiled_pass_travel dist hd cfg m cs o σ ws hw hp hs habs hsh, ← hiso]
  congr 1
  cases ws with
  | nil => simp [stations, segTimes]
  | cons w rest =>
    have := hstart w rfl
    simp only [stations, List.map_cons, segTimes, this, hd, zero_div, zero_add]

end pass

/-! non-vacuity -/
example : totalDwell (flattenStmts (session { header := Femto.Gen.header_pharos }
    [.rep 3 [.dwell (some 1), .forr "i" 2 [.dwell (some (1/4)), .raise, .dwell (some 5)]], .dvar ["i"]]).1)
    = some (session { header := Femto.Gen.header_pharos }
    [.rep 3 [.dwell (some 1), .forr "i" 2 [.dwell (some (1/4)), .raise, .dwell (some 5)]], .dvar ["i"]]).2.dwellTotal :=
  dwell_accounting _ _ (by decide)

/-! non-vacuity of `fabtime_is_scan_passes`: a closed path compiled with an origin shift and a y flip — `write` accepts it,
the printed points are at the same (Manhattan, to stay in ℚ) distances as the recorded ones, the path is closed -/
section nonvacuity
private def oabs (a b : Option Rat) : Rat := match a, b with | some p, some q => rabs (p - q) | _, _ => 0
private def manh (p q : Pos) : Rat := oabs p.x q.x + oabs p.y q.y + oabs p.z q.z
private def manh0 (p q : Rat × Rat × Rat) : Rat := rabs (p.1 - q.1) + rabs (p.2.1 - q.2.1) + rabs (p.2.2 - q.2.2)
private def cfgE : Cfg := { header := Femto.Gen.header_uwe, shiftX := 1/2, flipY := true }
private def mE : List Pt := [⟨0, 0, 0, 5, 0⟩, ⟨0, 0, 0, 5, 1⟩, ⟨1, 0, 0, 2, 1⟩, ⟨1, 1/4, 0, 2, 1⟩, ⟨0, 0, 0, 4, 1⟩, ⟨0, 0, 0, 4, 0⟩]
private def lE : List ((Rat × Rat × Rat) × Rat) := mE.map fun p => ((p.x, p.y, p.z), p.f)

example : (match write cfgE mE {}, printed cfgE mE with
    | .ok _, .ok ws => decide (segTimes manh (stations ws) = segTimes manh0 lE) && decide (ws.length = 6) &&
        decide (lE.head?.map Prod.fst = lE.getLast?.map Prod.fst)
    | _, _ => false) = true := by decide +kernel
end nonvacuity


end Femto.C12

/-
C07 — trench floor tool-paths terminate, stay inside the block and cover it.
PARTIAL: proved are the queue logic (termination without popping an empty list, contours first / hatching last, every
yield is an inset of the block, the frontier property that makes the yields cover every inset) and the metric facts that
turn "insets at spacing δ + hatching at spacing δ" into "no point farther than δ from the path".  That GEOS insets are
metric erosions (up to the 1e-5 simplification) is sampled.
-/
import FemtoVerif.Model.Floor
import Mathlib.Topology.MetricSpace.HausdorffDistance
import Mathlib.Topology.Order.IntermediateValue
import Mathlib.Analysis.Normed.Affine.AddTorsor
import Mathlib.Topology.Algebra.Affine
import Mathlib.Algebra.Order.Floor.Ring
import Mathlib.Tactic.Linarith
import Mathlib.Tactic.Ring
import Mathlib.Tactic.FieldSimp
import Mathlib.Tactic.Positivity

set_option linter.unusedSimpArgs false
set_option linter.unusedVariables false

namespace Femto.C07
open Femto.Floor

/-! ### queue logic -/

/-- `Reach s x`: `x` is a non-empty polygon obtained from `s` by repeated insetting through non-empty polygons -/
inductive Reach : Shape → Shape → Prop
  | self {s : Shape} (h : s.empty = false) : Reach s s
  | kid {s k x : Shape} (h : s.empty = false) (hk : k ∈ s.kids) (r : Reach k x) : Reach s x

theorem Reach.nonempty_left {s x : Shape} (r : Reach s x) : s.empty = false := by cases r <;> assumption

theorem Reach.nonempty_right {s x : Shape} (r : Reach s x) : x.empty = false := by
  induction r with
  | self h => exact h
  | kid _ _ _ ih => exact ih

theorem Reach.trans {a b c : Shape} (r₁ : Reach a b) (r₂ : Reach b c) : Reach a c := by
  induction r₁ with
  | self _ => exact r₂
  | kid h hk _ ih => exact Reach.kid h hk (ih r₂)

/-- the invariant of the loop: every polygon reachable from the block is either already a contour, or has an
ancestor-or-self waiting in the queue; everything yielded or queued comes from the block -/
structure Inv (b : Shape) (st : St) : Prop where
  frontier : ∀ x, Reach b x → Yield.contour x ∈ st.out ∨ ∃ a ∈ st.queue, Reach a x
  outs : ∀ y ∈ st.out, ∃ x, y = .contour x ∧ Reach b x
  queued : ∀ a ∈ st.queue, a = b ∨ ∃ p, Reach b p ∧ a ∈ p.kids

theorem inv_init (b : Shape) : Inv b { queue := [b], out := [] } where
  frontier x r := Or.inr ⟨b, by simp, r⟩
  outs y hy := by simp at hy
  queued a ha := by simp at ha; exact Or.inl ha

theorem inv_step (b : Shape) (st : St) (hb : b.empty = false) (h : Inv b st) : Inv b (popStep st) := by
  unfold popStep
  split
  · exact h
  · rename_i c q hq
    have hcq : ∀ a, a ∈ st.queue ↔ a = c ∨ a ∈ q := by intro a; rw [hq]; simp
    split
    · rename_i hce
      refine ⟨?_, h.outs, ?_⟩
      · intro x r
        rcases h.frontier x r with ho | ⟨a, ha, ra⟩
        · exact Or.inl ho
        · rcases (hcq a).mp ha with rfl | haq
          · have := ra.nonempty_left; simp [hce] at this
          · exact Or.inr ⟨a, haq, ra⟩
      · intro a ha
        exact h.queued a ((hcq a).mpr (Or.inr ha))
    · rename_i hce
      have hce' : c.empty = false := by simpa using hce
      have hcreach : Reach b c := by
        rcases h.queued c ((hcq c).mpr (Or.inl rfl)) with rfl | ⟨p, rp, hcp⟩
        · exact Reach.self hb
        · exact rp.trans (Reach.kid rp.nonempty_right hcp (Reach.self hce'))
      refine ⟨?_, ?_, ?_⟩
      · intro x r
        rcases h.frontier x r with ho | ⟨a, ha, ra⟩
        · exact Or.inl (by simp [ho])
        · rcases (hcq a).mp ha with rfl | haq
          · cases ra with
            | self _ => exact Or.inl (by simp)
            | kid _ hk rk => exact Or.inr ⟨_, by simp [hk], rk⟩
          · exact Or.inr ⟨a, by simp [haq], ra⟩
      · intro y hy
        simp only [List.mem_append, List.mem_singleton] at hy
        rcases hy with hy | rfl
        · exact h.outs y hy
        · exact ⟨c, rfl, hcreach⟩
      · intro a ha
        simp only [List.mem_append] at ha
        rcases ha with ha | ha
        · exact h.queued a ((hcq a).mpr (Or.inr ha))
        · exact Or.inr ⟨c, hcreach, ha⟩

theorem inv_loop (b : Shape) (hb : b.empty = false) (n : Nat) (st : St) (h : Inv b st) : Inv b (loop n st) := by
  induction n generalizing st with
  | zero => exact h
  | succ n ih => exact ih _ (inv_step b st hb h)

/-- **inset contours first, hatching last** -/
theorem contours_first (drawn : Shape → Bool) (n : Nat) (b : Shape) (hb : b.empty = false) :
    ∃ cs hs, toolpath drawn n b = cs ++ hs ∧ (∀ y ∈ cs, ∃ x, y = .contour x) ∧ (∀ y ∈ hs, ∃ x, y = .hatch x) := by
  have h := inv_loop b hb n _ (inv_init b)
  refine ⟨_, _, rfl, ?_, ?_⟩
  · intro y hy
    obtain ⟨x, hx, _⟩ := h.outs y hy
    exact ⟨x, hx⟩
  · intro y hy
    simp only [hatchAll, List.mem_map] at hy
    obtain ⟨x, _, rfl⟩ := hy
    exact ⟨x, rfl⟩

/-- **every polyline comes from an inset of the block**: a contour is the ring of a polygon reachable from the block; a
hatched polygon is non-empty and is the block itself or a part of the inset of a reachable polygon -/
theorem yields_from_block (drawn : Shape → Bool) (n : Nat) (b : Shape) (hb : b.empty = false) :
    ∀ y ∈ toolpath drawn n b,
      (∃ x, y = .contour x ∧ Reach b x) ∨
      (∃ a, y = .hatch a ∧ a.empty = false ∧ (a = b ∨ ∃ p, Reach b p ∧ a ∈ p.kids)) := by
  have h := inv_loop b hb n _ (inv_init b)
  intro y hy
  simp only [toolpath, List.mem_append] at hy
  rcases hy with hy | hy
  · exact Or.inl (h.outs y hy)
  · simp only [hatchAll, List.mem_map, List.mem_filter, Bool.and_eq_true, Bool.not_eq_eq_eq_not, Bool.not_true] at hy
    obtain ⟨a, ⟨haq, hae, _⟩, rfl⟩ := hy
    exact Or.inr ⟨a, rfl, hae, h.queued a haq⟩

/-- **the yields cover every inset** (frontier property): each polygon reachable from the block is itself a contour, or it
or one of its ancestors is handed to the hatching — whatever the number of turns and however the insets split -/
theorem frontier (drawn : Shape → Bool) (n : Nat) (b : Shape) (hb : b.empty = false) (x : Shape) (r : Reach b x) :
    Yield.contour x ∈ toolpath drawn n b ∨
    ∃ a, Reach a x ∧ (drawn a = true → Yield.hatch a ∈ toolpath drawn n b) ∧ (a = b ∨ ∃ p, Reach b p ∧ a ∈ p.kids) := by
  have h := inv_loop b hb n _ (inv_init b)
  rcases h.frontier x r with ho | ⟨a, ha, ra⟩
  · exact Or.inl (by simp [toolpath, ho])
  · refine Or.inr ⟨a, ra, ?_, h.queued a ha⟩
    intro hd
    simp only [toolpath, List.mem_append, hatchAll, List.mem_map, List.mem_filter]
    exact Or.inr ⟨a, ⟨ha, by simp [ra.nonempty_left, hd]⟩, rfl⟩

/-- with at least one turn the block's own outline is the first polyline -/
theorem block_is_first_contour (drawn : Shape → Bool) (n : Nat) (b : Shape) (hb : b.empty = false) :
    ∃ rest, toolpath drawn (n + 1) b = Yield.contour b :: rest := by
  have step : ∀ st : St, ∃ zs, (popStep st).out = st.out ++ zs := by
    intro st
    unfold popStep
    split
    · exact ⟨[], by simp⟩
    · split
      · exact ⟨[], by simp⟩
      · exact ⟨_, rfl⟩
  have mono : ∀ (m : Nat) (st : St), ∃ zs, (loop m st).out = st.out ++ zs := by
    intro m
    induction m with
    | zero => intro st; exact ⟨[], by simp [loop]⟩
    | succ m ih =>
      intro st
      obtain ⟨z1, h1⟩ := step st
      obtain ⟨z2, h2⟩ := ih (popStep st)
      exact ⟨z1 ++ z2, by simp [loop, h2, h1]⟩
  have e : popStep { queue := [b], out := [] } = { queue := b.kids, out := [.contour b] } := by
    simp [popStep, hb]
  obtain ⟨zs, hz⟩ := mono n { queue := b.kids, out := [.contour b] }
  refine ⟨zs ++ hatchAll drawn (loop n { queue := b.kids, out := [.contour b] }).queue, ?_⟩
  simp only [toolpath, loop, e, hz]
  simp

/-- the unrepaired loop raised `IndexError` on blocks that vanish before all the turns are done: a block whose first inset
is already empty, asked for three turns -/
example : loopOld 3 { queue := [.mk 0 false [.mk 1 true []]], out := [] } = none := by decide
/-- the repaired loop on the same input yields the outline and stops -/
example : (toolpath (fun _ => true) 3 (.mk 0 false [.mk 1 true []])).length = 1 := by decide
/-- a block that splits when inset: both parts are served (non-vacuity of `frontier`) -/
example : (toolpath (fun _ => true) 2 (.mk 0 false [.mk 1 false [.mk 3 true []], .mk 2 false [.mk 4 false []]])).length = 3 := by decide

/-! ### metric facts: inside and coverage -/
section metric
variable {E : Type} [PseudoMetricSpace E]

/-- the inset (erosion) of `P` by `a`: points whose open `a`-ball stays in `P` -/
def erode (P : Set E) (a : ℝ) : Set E := {p | Metric.ball p a ⊆ P}
/-- `buffer(b)` as a point set -/
def dilate (A : Set E) (b : ℝ) : Set E := {p | ∃ x ∈ A, dist p x ≤ b}

/-- insets are nested, and all lie in the block -/
theorem erode_mono (P : Set E) {a a' : ℝ} (h : a ≤ a') : erode P a' ⊆ erode P a := by
  intro p hp q hq
  exact hp (Metric.ball_subset_ball h hq)

theorem erode_subset (P : Set E) {a : ℝ} (ha : 0 < a) : erode P a ⊆ P := by
  intro p hp
  exact hp (Metric.mem_ball_self ha)

/-- **the hatching region lies inside the block**: the `k`-th inset grown by `1.05 δ` is inside the inset of depth
`(k − 1.05) δ`, hence inside the block as soon as `k ≥ 2` -/
theorem dilate_erode_subset (P : Set E) {a b : ℝ} : dilate (erode P a) b ⊆ erode P (a - b) := by
  rintro p ⟨x, hx, hpx⟩ q hq
  apply hx
  rw [Metric.mem_ball] at hq ⊢
  have := dist_triangle q p x
  linarith

theorem hatch_region_inside (P : Set E) {δ : ℝ} (hδ : 0 < δ) (k : ℕ) (hk : 2 ≤ k) :
    dilate (erode P (k * δ)) (1.05 * δ) ⊆ P := by
  refine (dilate_erode_subset P).trans (erode_subset P ?_)
  have : (2 : ℝ) ≤ k := by exact_mod_cast hk
  nlinarith

end metric

/-! ### coverage: contours at spacing δ and hatching at spacing δ leave no point farther than δ from the path -/
section cover
variable {E : Type} [NormedAddCommGroup E] [NormedSpace ℝ E]
open Metric

/-- **walking from a point towards the nearest outside point one meets every smaller depth on the way** (intermediate value
theorem along the segment): for `0 ≤ t ≤ depth p` there is a point of depth exactly `t` within `depth p − t + ε` of `p`.
Here `depth q = infDist q S`, `S` the complement of the block. -/
theorem level_within (S : Set E) (hS : S.Nonempty) (p : E) (t ε : ℝ) (ht0 : 0 ≤ t) (ht : t ≤ infDist p S) (hε : 0 < ε) :
    ∃ q, infDist q S = t ∧ dist p q ≤ infDist p S - t + ε := by
  obtain ⟨b, hb, hpb⟩ := (infDist_lt_iff hS).mp (show infDist p S < infDist p S + ε by linarith)
  let γ : ℝ → E := fun s => AffineMap.lineMap p b s
  have hγ : Continuous γ := AffineMap.lineMap_continuous
  have hcont : Continuous fun s => infDist (γ s) S := (continuous_infDist_pt S).comp hγ
  have h0 : infDist (γ 0) S = infDist p S := by simp [γ]
  have h1 : infDist (γ 1) S = 0 := by simp [γ, infDist_zero_of_mem hb]
  have hmem : t ∈ Set.Icc (infDist (γ 1) S) (infDist (γ 0) S) := ⟨by rw [h1]; exact ht0, by rw [h0]; exact ht⟩
  obtain ⟨s, ⟨hs0, hs1⟩, hst⟩ := intermediate_value_Icc' (zero_le_one) hcont.continuousOn hmem
  refine ⟨γ s, hst, ?_⟩
  have d1 : dist p (γ s) = s * dist p b := by
    show dist p (AffineMap.lineMap p b s) = _
    rw [dist_left_lineMap, Real.norm_eq_abs, abs_of_nonneg hs0]
  have d2 : dist (γ s) b = (1 - s) * dist p b := by
    show dist (AffineMap.lineMap p b s) b = _
    rw [dist_lineMap_right, Real.norm_eq_abs, abs_of_nonneg (sub_nonneg.mpr hs1)]
  have h3 : t ≤ (1 - s) * dist p b := by
    rw [← d2]
    have : infDist (γ s) S ≤ dist (γ s) b := infDist_le_dist_of_mem hb
    simpa [hst] using this
  have h4 : s * dist p b = dist p b - (1 - s) * dist p b := by ring
  rw [d1, h4]; linarith

/-- **every abscissa of the block's bounding box is within δ/2 of one of the `2 + ⌊w/δ⌋` hatch lines** `x0 + i δ` -/
theorem hatch_line_within (x0 w δ x : ℝ) (hδ : 0 < δ) (hx0 : x0 ≤ x) (hx1 : x ≤ x0 + w) :
    ∃ i : ℕ, i < 2 + ⌊w / δ⌋₊ ∧ |x - (x0 + i * δ)| ≤ δ / 2 := by
  have hu0 : 0 ≤ (x - x0) / δ := div_nonneg (by linarith) hδ.le
  have hw0 : 0 ≤ w / δ := div_nonneg (by linarith) hδ.le
  refine ⟨⌊(x - x0) / δ + 1 / 2⌋₊, ?_, ?_⟩
  · have huw : (x - x0) / δ ≤ w / δ := div_le_div_of_nonneg_right (by linarith) hδ.le
    have h1 : ⌊(x - x0) / δ + 1 / 2⌋₊ ≤ ⌊w / δ + 1⌋₊ := Nat.floor_mono (by linarith)
    have h2 : ⌊w / δ + 1⌋₊ = ⌊w / δ⌋₊ + 1 := Nat.floor_add_one hw0
    omega
  · have hl := Nat.floor_le (show 0 ≤ (x - x0) / δ + 1 / 2 by linarith)
    have hr := Nat.lt_floor_add_one ((x - x0) / δ + 1 / 2)
    set i : ℕ := ⌊(x - x0) / δ + 1 / 2⌋₊ with hi
    have hx : x - (x0 + (i : ℝ) * δ) = ((x - x0) / δ - i) * δ := by field_simp; ring
    rw [hx, abs_mul, abs_of_pos hδ]
    have : |(x - x0) / δ - (i : ℝ)| ≤ 1 / 2 := abs_le.mpr ⟨by linarith, by linarith⟩
    nlinarith

/-- **coverage**: let `path` contain (i) the outline, met by every segment from a block point to an outside point,
(ii) for `1 ≤ k < n` the points of depth exactly `k δ` (the `k`-th inset contours), and (iii) within `δ/2` of every point of
depth `≥ n δ` a hatch point.  Then every point of the block is within `δ` (+ any `ε`) of the path. -/
theorem coverage {P : Set E} (hP : Pᶜ.Nonempty) (δ : ℝ) (hδ : 0 < δ) (n : ℕ) (path : Set E)
    (houtline : ∀ p ∈ P, ∀ b, b ∉ P → ∃ q ∈ path, dist p q ≤ dist p b)
    (hcont : ∀ k : ℕ, 1 ≤ k → k < n → ∀ q, infDist q Pᶜ = k * δ → q ∈ path)
    (hhatch : ∀ p, n * δ ≤ infDist p Pᶜ → ∃ q ∈ path, dist p q ≤ δ / 2) :
    ∀ p ∈ P, ∀ ε > 0, ∃ q ∈ path, dist p q ≤ δ + ε := by
  intro p hp ε hε
  by_cases hdeep : n * δ ≤ infDist p Pᶜ
  · obtain ⟨q, hq, h⟩ := hhatch p hdeep
    exact ⟨q, hq, by linarith⟩
  · have hd0 : 0 ≤ infDist p Pᶜ := infDist_nonneg
    have hu0 : 0 ≤ infDist p Pᶜ / δ := div_nonneg hd0 hδ.le
    set k : ℕ := ⌊infDist p Pᶜ / δ⌋₊ with hk
    have hkl : (k : ℝ) * δ ≤ infDist p Pᶜ := by
      have := Nat.floor_le hu0
      calc (k : ℝ) * δ ≤ infDist p Pᶜ / δ * δ := by exact mul_le_mul_of_nonneg_right this hδ.le
        _ = infDist p Pᶜ := by field_simp
    have hkr : infDist p Pᶜ < (k + 1 : ℝ) * δ := by
      have := Nat.lt_floor_add_one (infDist p Pᶜ / δ)
      calc infDist p Pᶜ = infDist p Pᶜ / δ * δ := by field_simp
        _ < (k + 1 : ℝ) * δ := by exact mul_lt_mul_of_pos_right this hδ
    have hkn : k < n := by
      by_contra hcon
      have hnk : (n : ℝ) ≤ k := by exact_mod_cast not_lt.mp hcon
      exact hdeep (le_trans (mul_le_mul_of_nonneg_right hnk hδ.le) hkl)
    by_cases hk0 : k = 0
    · -- shallower than one spacing: the outline is that close
      have hlt : infDist p Pᶜ < δ := by simpa [hk0] using hkr
      obtain ⟨b, hb, hpb⟩ := (infDist_lt_iff hP).mp (show infDist p Pᶜ < infDist p Pᶜ + ε by linarith)
      obtain ⟨q, hq, h⟩ := houtline p hp b hb
      exact ⟨q, hq, by linarith⟩
    · obtain ⟨q, hq, h⟩ := level_within Pᶜ hP p (k * δ) ε (by positivity) hkl hε
      refine ⟨q, hcont k (Nat.one_le_iff_ne_zero.mpr hk0) hkn q hq, ?_⟩
      have : infDist p Pᶜ - k * δ < δ := by linarith
      linarith

end cover

section outline
open Metric
variable {E : Type} [NormedAddCommGroup E] [NormedSpace ℝ E]

/-- **the outline is met on the way out**: on the segment from a point of the block to a point outside it there is a point
of the block's frontier (intermediate value theorem for the signed distance), no farther from the start than the end -/
theorem outline_met (P : Set E) (p b : E) (hp : p ∈ P) (hb : b ∉ P) :
    ∃ q ∈ _root_.frontier P, dist p q ≤ dist p b := by
  have hPne : P.Nonempty := ⟨p, hp⟩
  have hCne : Pᶜ.Nonempty := ⟨b, hb⟩
  let γ : ℝ → E := fun s => AffineMap.lineMap p b s
  have hγ : Continuous γ := AffineMap.lineMap_continuous
  let g : ℝ → ℝ := fun s => infDist (γ s) P - infDist (γ s) Pᶜ
  have hg : Continuous g := ((continuous_infDist_pt P).comp hγ).sub ((continuous_infDist_pt Pᶜ).comp hγ)
  have g0 : g 0 ≤ 0 := by
    simp only [g, γ, AffineMap.lineMap_apply_zero, infDist_zero_of_mem hp, zero_sub, neg_nonpos]
    exact infDist_nonneg
  have g1 : 0 ≤ g 1 := by
    simp only [g, γ, AffineMap.lineMap_apply_one, infDist_zero_of_mem (show b ∈ Pᶜ from hb), sub_zero]
    exact infDist_nonneg
  obtain ⟨s, ⟨hs0, hs1⟩, hs⟩ := intermediate_value_Icc (zero_le_one) hg.continuousOn ⟨g0, g1⟩
  have heq : infDist (γ s) P = infDist (γ s) Pᶜ := by
    have : g s = 0 := hs
    simp only [g] at this
    linarith
  have hzero : infDist (γ s) P = 0 ∧ infDist (γ s) Pᶜ = 0 := by
    by_cases hmem : γ s ∈ P
    · have := infDist_zero_of_mem hmem
      exact ⟨this, by rw [← heq, this]⟩
    · have := infDist_zero_of_mem (show γ s ∈ Pᶜ from hmem)
      exact ⟨by rw [heq, this], this⟩
  refine ⟨γ s, ?_, ?_⟩
  · rw [frontier_eq_closure_inter_closure]
    exact ⟨(mem_closure_iff_infDist_zero hPne).mpr hzero.1, (mem_closure_iff_infDist_zero hCne).mpr hzero.2⟩
  · show dist p (AffineMap.lineMap p b s) ≤ dist p b
    rw [dist_left_lineMap, Real.norm_eq_abs, abs_of_nonneg hs0]
    have := dist_nonneg (x := p) (y := b)
    nlinarith

/-- **coverage, with the outline hypothesis discharged**: if the path contains the block's frontier (the first polyline is
the outline), the level sets of depth `k δ` for `1 ≤ k < n`, and a hatch point within `δ/2` of every point of depth `≥ n δ`,
then every point of the block is within `δ` (+ any `ε`) of the path -/
theorem coverage_of_outline {P : Set E} (hP : Pᶜ.Nonempty) (δ : ℝ) (hδ : 0 < δ) (n : ℕ) (path : Set E)
    (hout : _root_.frontier P ⊆ path)
    (hcont : ∀ k : ℕ, 1 ≤ k → k < n → ∀ q, infDist q Pᶜ = k * δ → q ∈ path)
    (hhatch : ∀ p, n * δ ≤ infDist p Pᶜ → ∃ q ∈ path, dist p q ≤ δ / 2) :
    ∀ p ∈ P, ∀ ε > 0, ∃ q ∈ path, dist p q ≤ δ + ε :=
  coverage hP δ hδ n path
    (fun p hp b hb => by
      obtain ⟨q, hq, hd⟩ := outline_met P p b hp hb
      exact ⟨q, hout hq, hd⟩)
    hcont hhatch

end outline

end Femto.C07

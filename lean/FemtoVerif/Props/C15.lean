/-
C15 — raster paths expose exactly the black pixels.
-/
import FemtoVerif.Model.Raster
import FemtoVerif.Props.C11

set_option linter.unusedSimpArgs false
set_option linter.unusedVariables false

namespace Femto.C15
open Femto Femto.Ras

variable {α : Type}

private theorem pieces_head_flag (l : List (α × Bool)) (a : α) (b : Bool) :
    ∃ run rest, pieces ((a, b) :: l) = (b, a :: run) :: rest := by
  simp only [pieces]
  cases hq : pieces l with
  | nil => exact ⟨[], [], rfl⟩
  | cons q rest =>
    obtain ⟨b', run⟩ := q
    by_cases hb : b = b'
    · subst hb; exact ⟨run, rest, by simp⟩
    · exact ⟨[], (b', run) :: rest, by simp [hb]⟩

theorem tr_false (a : α) (t : List (α × Bool)) : trueRuns ((a, false) :: t) = trueRuns t := by simp [trueRuns]
theorem tr_single (a : α) : trueRuns [(a, true)] = [[a]] := by simp [trueRuns]
theorem tr_tf (a b : α) (t : List (α × Bool)) : trueRuns ((a, true) :: (b, false) :: t) = [a] :: trueRuns t := by
  simp [trueRuns]
theorem tr_tt (a b : α) (t : List (α × Bool)) :
    trueRuns ((a, true) :: (b, true) :: t) = consRun a (trueRuns ((b, true) :: t)) := by simp [trueRuns]

/-- `trueRuns` is the list of `true` pieces of the run decomposition characterised in C11 -/
theorem trueRuns_eq_pieces (l : List (α × Bool)) : trueRuns l = ((pieces l).filter (·.1)).map (·.2) := by
  induction l with
  | nil => simp [trueRuns, pieces]
  | cons hd t ih =>
    obtain ⟨a, b⟩ := hd
    cases b with
    | false =>
      rw [tr_false, ih]
      simp only [pieces]
      cases hq : pieces t with
      | nil => simp
      | cons q rest =>
        obtain ⟨b', run⟩ := q
        cases b' <;> simp
    | true =>
      cases t with
      | nil => simp [trueRuns, pieces]
      | cons x t' =>
        obtain ⟨c, d⟩ := x
        obtain ⟨run, rest, hp⟩ := pieces_head_flag t' c d
        have hl : pieces ((a, true) :: (c, d) :: t')
            = if true = d then (true, a :: c :: run) :: rest else (true, [a]) :: (d, c :: run) :: rest := by
          rw [show pieces ((a, true) :: (c, d) :: t') = (match pieces ((c, d) :: t') with
            | (b', run) :: rest => if true = b' then (true, a :: run) :: rest else (true, [a]) :: (b', run) :: rest
            | [] => [(true, [a])]) from rfl, hp]
        cases d with
        | false =>
          rw [tr_tf, hl]
          rw [tr_false] at ih
          rw [ih, hp]; simp
        | true =>
          rw [tr_tt, ih, hl, hp]; simp [consRun]

private theorem trueRuns_true_ne_nil (a : α) (t : List (α × Bool)) : trueRuns ((a, true) :: t) ≠ [] := by
  rw [trueRuns_eq_pieces]
  obtain ⟨run, rest, hp⟩ := pieces_head_flag t a true
  rw [hp]; simp

/-- a non-selected element separates runs: nothing merges across it -/
theorem trueRuns_append_false (l₁ l₂ : List (α × Bool)) (x : α) :
    trueRuns (l₁ ++ (x, false) :: l₂) = trueRuns l₁ ++ trueRuns l₂ := by
  induction l₁ with
  | nil => simp [tr_false, trueRuns]
  | cons hd t ih =>
    obtain ⟨a, b⟩ := hd
    cases b with
    | false => simpa [tr_false] using ih
    | true =>
      cases t with
      | nil => simp [tr_tf, tr_single]
      | cons y t' =>
        obtain ⟨c, d⟩ := y
        cases d with
        | false =>
          simp only [List.cons_append, tr_tf, tr_false] at ih ⊢
          rw [ih]
        | true =>
          have hne := trueRuns_true_ne_nil c t'
          simp only [List.cons_append, tr_tt] at ih ⊢
          rw [ih]
          cases hq : trueRuns ((c, true) :: t') with
          | nil => exact absurd hq hne
          | cons r rs => simp [consRun]

/-! ### strokes of the raster path -/

private theorem strokes_block (xa xb y z sp sc : Rat) (rest : List (Row Rat)) :
    strokes (block xa xb y z sp sc ++ rest) = dedup [(xa, y, z), (xb, y, z)] :: strokes rest := by
  simp [strokes, block, tr_false, tr_tt, tr_tf, consRun, p3]

private theorem strokes_runBlocks (y z sp sc : Rat) (runs : List (List Rat)) (hne : ∀ r ∈ runs, r ≠ []) (rest : List (Row Rat)) :
    strokes (runs.flatMap (runBlock y z sp sc) ++ rest)
      = (runs.map fun run => match run.head?, run.getLast? with
          | some a, some b => dedup [(a, y, z), (b, y, z)]
          | _, _ => []) ++ strokes rest := by
  induction runs with
  | nil => simp
  | cons r rs ih =>
    have hr : r ≠ [] := hne r (by simp)
    obtain ⟨a, ha⟩ : ∃ a, r.head? = some a := by
      cases r with
      | nil => exact absurd rfl hr
      | cons a t => exact ⟨a, rfl⟩
    obtain ⟨b, hb⟩ : ∃ b, r.getLast? = some b := by
      cases hl : r.getLast? with
      | none => simp at hl; exact absurd hl hr
      | some b => exact ⟨b, rfl⟩
    simp only [List.flatMap_cons, List.map_cons, List.append_assoc, runBlock, ha, hb]
    rw [strokes_block, ih (fun q hq => hne q (by simp [hq]))]
    simp

private theorem rowBlocks_eq (xs : List Rat) (black : List Bool) (y z sp sc : Rat) :
    rowBlocks xs black y z sp sc = (trueRuns (xs.zip black)).flatMap (runBlock y z sp sc) := by
  unfold rowBlocks
  cases black with
  | nil => simp [splitMask, trueRuns]
  | cons m0 mask =>
    rw [C11.splitMask_eq_true_pieces, ← trueRuns_eq_pieces]

private theorem trueRuns_nonempty (l : List (α × Bool)) : ∀ r ∈ trueRuns l, r ≠ [] := by
  rw [trueRuns_eq_pieces]
  intro r hr
  obtain ⟨p, hp, rfl⟩ := List.mem_map.mp hr
  exact C11.pieces_nonempty _ p (List.mem_filter.mp hp).1

/-- **C15, main theorem.** For every image (any size, any pixel pattern) and every scale, depth and pair of speeds,
the open-shutter strokes of the raster path are exactly: rows in image order, in each row one stroke per maximal run of
black pixels, from the first to the last pixel of the run at that row's height (a single-pixel run gives a one-point
stroke). Everything else in the path is shutter-closed by the definition of a stroke. -/
theorem raster_strokes (img : List (List Bool)) (px z sp sc : Rat) :
    strokes (imagePath img px z sp sc) = expectedStrokes img px z := by
  unfold imagePath expectedStrokes
  simp only
  generalize scan ((img.head?.map List.length).getD 0) px = xs
  generalize img.zip (scan img.length px) = rows
  induction rows with
  | nil => simp [strokes, trueRuns]
  | cons ry rest ih =>
    simp only [List.flatMap_cons]
    rw [rowBlocks_eq, strokes_runBlocks _ _ _ _ _ (trueRuns_nonempty _), ih]
    rfl

/-- **white pixels are never exposed**: the x positions of every stroke of a row are grid positions of black pixels
(first and last element of a run of selected columns) -/
theorem stroke_ends_black (xs : List Rat) (black : List Bool) (run : List Rat) (h : run ∈ trueRuns (xs.zip black)) :
    ∀ x ∈ run, (x, true) ∈ xs.zip black := by
  rw [trueRuns_eq_pieces] at h
  obtain ⟨p, hp, rfl⟩ := List.mem_map.mp h
  obtain ⟨hp1, hp2⟩ := List.mem_filter.mp hp
  intro x hx
  have hfl := C11.pieces_flatten (xs.zip black)
  have : (x, p.1) ∈ (pieces (xs.zip black)).flatMap (fun p => p.2.map (fun a => (a, p.1))) := by
    rw [List.mem_flatMap]; exact ⟨p, hp1, List.mem_map.mpr ⟨x, hx, rfl⟩⟩
  rw [hfl] at this
  simpa [hp2] using this

/-- the first recorded point of a non-empty raster path is shutter-closed (needed by C01) -/
theorem first_closed (img : List (List Bool)) (px z sp sc : Rat) (r : Row Rat)
    (h : (imagePath img px z sp sc).head? = some r) : r.s = 0 := by
  unfold imagePath at h
  simp only at h
  generalize scan ((img.head?.map List.length).getD 0) px = xs at h
  generalize img.zip (scan img.length px) = rows at h
  induction rows with
  | nil => simp at h
  | cons ry rest ih =>
    simp only [List.flatMap_cons] at h
    rw [rowBlocks_eq] at h
    cases hq : trueRuns (xs.zip ry.1) with
    | nil => rw [hq] at h; simp at h; exact ih h
    | cons run runs =>
      rw [hq] at h
      have hne := trueRuns_nonempty (xs.zip ry.1) run (by rw [hq]; simp)
      obtain ⟨a, ha⟩ : ∃ a, run.head? = some a := by
        cases run with
        | nil => exact absurd rfl hne
        | cons a t => exact ⟨a, rfl⟩
      obtain ⟨b, hb⟩ : ∃ b, run.getLast? = some b := by
        cases hl : run.getLast? with
        | none => simp at hl; exact absurd hl hne
        | some b => exact ⟨b, rfl⟩
      simp [runBlock, ha, hb, block] at h
      rw [← h]

/-! non-vacuity: a 5x2 image with a border run, a single pixel and an all-white row -/
example : expectedStrokes [[true, true, false, true, false], [false, false, false, false, false]] 1 0
    = [[(0, 0, 0), (5/4, 0, 0)], [(15/4, 0, 0)]] := by decide +kernel

example : strokes (imagePath [[true, true, false, true, false], [false, false, false, false, false]] 1 0 2 5)
    = [[(0, 0, 0), (5/4, 0, 0)], [(15/4, 0, 0)]] := by decide +kernel

end Femto.C15

/-
C04 — waveguide segments chain continuously and land on the documented point.
Statements about curved segments are over `ℝ` with the real cosine, sine, arccosine and square root, for the very
definitions (`Model/Waveguide.lean`) the driver executes at `Float`; straight segments and `end` are over `ℚ`
(`Model/Path.lean`).
-/
import FemtoVerif.Model.Waveguide
import FemtoVerif.Proofs.PathLemmas
import Mathlib.Analysis.SpecialFunctions.Trigonometric.Inverse
import Mathlib.Analysis.SpecialFunctions.Trigonometric.Basic
import Mathlib.Tactic.Ring
import Mathlib.Tactic.Linarith
import Mathlib.Tactic.FieldSimp
import Mathlib.Tactic.Positivity

set_option linter.unusedSimpArgs false
set_option linter.unusedVariables false

namespace Femto.C04
open Femto Femto.Wg Real

/-- the real transcendental functions -/
noncomputable def RT : Trig ℝ := ⟨Real.cos, Real.sin, Real.arccos, Real.sqrt, fun x => |x|, Real.pi⟩

@[simp] theorem RT_cos : RT.cos = Real.cos := rfl
@[simp] theorem RT_sin : RT.sin = Real.sin := rfl
@[simp] theorem RT_arccos : RT.arccos = Real.arccos := rfl
@[simp] theorem RT_sqrt : RT.sqrt = Real.sqrt := rfl
@[simp] theorem RT_abs (x : ℝ) : RT.abs x = |x| := rfl
@[simp] theorem RT_pi : RT.pi = π := rfl

theorem P_ext {p q : P ℝ} (hx : p.x = q.x) (hy : p.y = q.y) (hz : p.z = q.z) : p = q := by
  cases p; cases q; simp_all

/-! ### circular arcs -/

/-- **a circular arc starts exactly at the current end of the path** -/
theorem circ_starts_at_last (p : P ℝ) (r a0 a1 : ℝ) (n : Nat) (hn : 1 ≤ n) :
    (circSamples RT p r a0 a1 n)[0]? = some p := by
  simp only [circSamples, linspaceK, List.getElem?_map, List.getElem?_range (by omega : 0 < n), Option.map_some]
  congr 1
  apply P_ext <;> simp [circAt]

/-- … ends at `circEnd` … -/
theorem circ_ends (p : P ℝ) (r a0 a1 : ℝ) (n : Nat) (hn : 2 ≤ n) :
    (circSamples RT p r a0 a1 n)[n - 1]? = some (circEnd RT p r a0 a1) := by
  simp only [circSamples, linspaceK, List.getElem?_map, List.getElem?_range (by omega : n - 1 < n), Option.map_some, circEnd]
  congr 2
  have h1 : ((n - 1 : Nat) : ℝ) = (n : ℝ) - 1 := by push_cast [Nat.cast_sub (by omega : 1 ≤ n)]; ring
  have h2 : (n : ℝ) - 1 ≠ 0 := by
    have : (2 : ℝ) ≤ n := by exact_mod_cast hn
    linarith
  rw [h1]; field_simp; ring

/-- … and **all its points lie on a circle of radius `|r|`** (centre: the current end moved by `-|r|(cos a0, sin a0)`),
at the depth of the current end -/
theorem circ_on_circle (p : P ℝ) (r a0 a1 : ℝ) (n : Nat) (q : P ℝ) (hq : q ∈ circSamples RT p r a0 a1 n) :
    (q.x - (p.x - |r| * cos a0)) ^ 2 + (q.y - (p.y - |r| * sin a0)) ^ 2 = r ^ 2 ∧ q.z = p.z := by
  simp only [circSamples, List.mem_map] at hq
  obtain ⟨t, _, rfl⟩ := hq
  simp only [circAt, RT_cos, RT_sin, RT_abs]
  refine ⟨?_, trivial⟩
  have : (p.x + |r| * (-cos a0 + cos t) - (p.x - |r| * cos a0)) ^ 2 + (p.y + |r| * (-sin a0 + sin t) - (p.y - |r| * sin a0)) ^ 2
      = |r| ^ 2 * (cos t ^ 2 + sin t ^ 2) := by ring
  rw [this, Real.cos_sq_add_sin_sq, mul_one, sq_abs]

theorem cos_three_half_pi : cos (π * (3 / 2)) = 0 := by
  rw [show π * (3 / 2) = π / 2 + π by ring, Real.cos_add_pi, Real.cos_pi_div_two, neg_zero]

theorem sin_three_half_pi : sin (π * (3 / 2)) = -1 := by
  rw [show π * (3 / 2) = π / 2 + π by ring, Real.sin_add_pi, Real.sin_pi_div_two]

theorem cos_half_pi : cos (π * (1 / 2)) = 0 := by rw [show π * (1 / 2) = π / 2 by ring, Real.cos_pi_div_two]
theorem sin_half_pi : sin (π * (1 / 2)) = 1 := by rw [show π * (1 / 2) = π / 2 by ring, Real.sin_pi_div_two]

/-- `1 - cos(a)` for the S-bend angle: half the lateral offset over the radius -/
theorem sbend_cos (dy r : ℝ) (hr : 0 < r) (hdy : |dy| ≤ 4 * r) :
    cos (sbendAngle RT dy r) = 1 - |dy / 2| / r := by
  simp only [sbendAngle, RT_arccos, RT_abs]
  have h0 : 0 ≤ |dy / 2| / r := div_nonneg (abs_nonneg _) hr.le
  have h1 : |dy / 2| / r ≤ 2 := by
    rw [div_le_iff₀ hr, abs_div, abs_two]; linarith
  exact Real.cos_arccos (by linarith) (by linarith)

/-- **S-bend**: for any radius `r > 0` and any lateral offset with `|dy| ≤ 4r`, **both signs**, the circular S-bend
advances x by the S-bend length of `(dy, r)`, y by `dy`, and keeps the depth -/
theorem arc_bend_lands (p : P ℝ) (dy r : ℝ) (up : Bool) (hr : 0 < r) (hdy : |dy| ≤ 4 * r)
    (hup : up = true → 0 < dy) (hdown : up = false → dy ≤ 0) :
    arcBendEnd RT p dy r up = ⟨p.x + sbendLength RT dy r, p.y + dy, p.z⟩ := by
  have hc := sbend_cos dy r hr hdy
  have hrr : |r| = r := abs_of_pos hr
  set a := sbendAngle RT dy r with ha
  cases up with
  | true =>
    have hpos := hup rfl
    have habs : |dy / 2| = dy / 2 := abs_of_pos (by linarith)
    simp only [arcBendEnd, if_true, circEnd, circAt, RT_cos, RT_sin, RT_abs, RT_pi, ← ha, sbendLength]
    apply P_ext
    · simp only [hrr, Real.cos_add, cos_three_half_pi, sin_three_half_pi, cos_half_pi, sin_half_pi]; ring
    · simp only [hrr, Real.sin_add, cos_three_half_pi, sin_three_half_pi, cos_half_pi, sin_half_pi]
      have : cos a = 1 - dy / 2 / r := by rw [hc, habs]
      rw [this]; field_simp; ring
    · rfl
  | false =>
    have hneg := hdown rfl
    have habs : |dy / 2| = -(dy / 2) := abs_of_nonpos (by linarith)
    simp only [arcBendEnd, Bool.false_eq_true, if_false, circEnd, circAt, RT_cos, RT_sin, RT_abs, RT_pi, ← ha, sbendLength]
    apply P_ext
    · simp only [hrr, Real.cos_sub, cos_three_half_pi, sin_three_half_pi, cos_half_pi, sin_half_pi]; ring
    · simp only [hrr, Real.sin_sub, cos_three_half_pi, sin_three_half_pi, cos_half_pi, sin_half_pi]
      have : cos a = 1 - -(dy / 2) / r := by rw [hc, habs]
      rw [this]; field_simp; ring
    · rfl

theorem sbendLength_neg (dy r : ℝ) : sbendLength RT (-dy) r = sbendLength RT dy r := by
  simp [sbendLength, sbendAngle, neg_div, abs_neg]

/-- **coupler**: two S-bend lengths plus the interaction length further in x, back at the entry y and z -/
theorem arc_coupler_lands (p : P ℝ) (dy r il : ℝ) (up upBack : Bool) (hr : 0 < r) (hdy : |dy| ≤ 4 * r)
    (hup : up = true → 0 < dy) (hdown : up = false → dy ≤ 0)
    (hupb : upBack = true → 0 < -dy) (hdownb : upBack = false → -dy ≤ 0) :
    arcCouplerEnd RT p dy r il up upBack = ⟨p.x + 2 * sbendLength RT dy r + |il|, p.y, p.z⟩ := by
  simp only [arcCouplerEnd]
  rw [arc_bend_lands p dy r up hr hdy hup hdown]
  simp only [advance]
  rw [arc_bend_lands _ (-dy) r upBack hr (by rwa [abs_neg]) hupb hdownb, sbendLength_neg]
  apply P_ext <;> simp <;> ring

/-- **Mach–Zehnder**: four S-bend lengths, two interaction lengths and the arm length further in x, back at the entry
y and z -/
theorem arc_mzi_lands (p : P ℝ) (dy r il al : ℝ) (up upBack : Bool) (hr : 0 < r) (hdy : |dy| ≤ 4 * r)
    (hup : up = true → 0 < dy) (hdown : up = false → dy ≤ 0)
    (hupb : upBack = true → 0 < -dy) (hdownb : upBack = false → -dy ≤ 0) :
    arcMziEnd RT p dy r il al up upBack = ⟨p.x + 4 * sbendLength RT dy r + 2 * |il| + |al|, p.y, p.z⟩ := by
  simp only [arcMziEnd]
  rw [arc_coupler_lands p dy r il up upBack hr hdy hup hdown hupb hdownb]
  simp only [advance]
  rw [arc_coupler_lands _ dy r il up upBack hr hdy hup hdown hupb hdownb]
  apply P_ext <;> simp <;> ring

/-! ### sinusoidal segments -/

/-- a sinusoidal segment starts exactly at the current end of the path -/
theorem sin_starts_at_last (p : P ℝ) (dx dy dz fp wy wz : ℝ) (n : Nat) (hn : 1 ≤ n) :
    (sinSamples RT p dx dy dz fp wy wz n)[0]? = some p := by
  simp only [sinSamples, linspaceK, List.getElem?_map, List.getElem?_range (by omega : 0 < n), Option.map_some]
  congr 1
  have hq : (1 + fp * fp) / (1 + fp * fp) = 1 := by
    have : (1 + fp * fp) ≠ 0 := by nlinarith [mul_self_nonneg fp]
    exact div_self this
  apply P_ext <;> simp [sinAt, hq]

/-- … and ends at `sinEnd` -/
theorem sin_ends (p : P ℝ) (dx dy dz fp wy wz : ℝ) (n : Nat) (hn : 2 ≤ n) :
    (sinSamples RT p dx dy dz fp wy wz n)[n - 1]? = some (sinEnd RT p dx dy dz fp wy wz) := by
  simp only [sinSamples, linspaceK, List.getElem?_map, List.getElem?_range (by omega : n - 1 < n), Option.map_some, sinEnd]
  congr 2
  have h1 : ((n - 1 : Nat) : ℝ) = (n : ℝ) - 1 := by push_cast [Nat.cast_sub (by omega : 1 ≤ n)]; ring
  have h2 : (n : ℝ) - 1 ≠ 0 := by
    have : (2 : ℝ) ≤ n := by exact_mod_cast hn
    linarith
  rw [h1]; field_simp; ring

/-- **sinusoidal bridge / bend / compensation**: for natural frequencies, the segment reaches `dx` in x, `dy` in y when
the y frequency is odd (back to the entry y when it is even), `dz` in z when the z frequency is odd and **returns to
the original depth when it is even** — for any flatness of the peaks -/
theorem sin_bridge_lands (p : P ℝ) (dx dy dz fp : ℝ) (wy wz : ℕ) (hdx : dx ≠ 0) :
    sinEnd RT p dx dy dz fp wy wz =
      ⟨p.x + dx, p.y + (if wy % 2 = 1 then dy else 0), p.z + (if wz % 2 = 1 then dz else 0)⟩ := by
  have harg : ∀ w : ℕ, (w : ℝ) * π / dx * (p.x + dx - p.x) = w * π := by intro w; field_simp; ring
  have hsq : ((-1 : ℝ) ^ wy) * ((-1 : ℝ) ^ wy) = 1 := by rw [← mul_pow]; norm_num
  have hq : (1 + fp * fp) / (1 + fp * fp * (((-1 : ℝ) ^ wy) * ((-1 : ℝ) ^ wy))) = 1 := by
    have : (1 + fp * fp) ≠ 0 := by nlinarith [mul_self_nonneg fp]
    rw [hsq, mul_one]; exact div_self this
  have hpar : ∀ w : ℕ, (1 - (-1 : ℝ) ^ w) = if w % 2 = 1 then 2 else 0 := by
    intro w
    rcases Nat.even_or_odd w with he | ho
    · rw [he.neg_one_pow]; have : w % 2 ≠ 1 := by rcases he with ⟨k, rfl⟩; omega
      simp [this]
    · rw [ho.neg_one_pow]; have : w % 2 = 1 := by rcases ho with ⟨k, rfl⟩; omega
      simp [this]; norm_num
  simp only [sinEnd, sinAt, RT_cos, RT_sqrt, RT_pi, harg, Real.cos_nat_mul_pi, hq, Real.sqrt_one, one_mul]
  apply P_ext
  · rfl
  · simp only; rw [hpar wy]; split <;> ring
  · simp only; rw [hpar wz]; split <;> ring

/-- `sin_bend` (frequencies 1, 2 with `dz = 0`) reaches `dy` at the entry depth; `sin_bridge` (1, 2) reaches `dy` and
returns to the entry depth whatever `dz`; `sin_comp` (2, 2) returns to the entry y and depth -/
theorem sin_variants (p : P ℝ) (dx dy dz fp : ℝ) (hdx : dx ≠ 0) :
    sinEnd RT p dx dy 0 fp (1 : ℕ) (2 : ℕ) = ⟨p.x + dx, p.y + dy, p.z⟩ ∧
    sinEnd RT p dx dy dz fp (1 : ℕ) (2 : ℕ) = ⟨p.x + dx, p.y + dy, p.z⟩ ∧
    sinEnd RT p dx dy 0 fp (2 : ℕ) (2 : ℕ) = ⟨p.x + dx, p.y, p.z⟩ := by
  refine ⟨?_, ?_, ?_⟩ <;> rw [sin_bridge_lands _ _ _ _ _ _ _ hdx] <;> apply P_ext <;> simp

/-! ### splines (SciPy's `BPoly.from_derivatives` is a parameter with its interpolation contract) -/

/-- any interpolant with `poly x0 = y0` and `poly x1 = y1` lands on the requested displacement; `spline_bridge`
(two halves of `dy/2`, `+dz` then `-dz`) reaches `(2·dx, dy)` and returns to the original depth -/
theorem spline_lands (x0 y0 z0 dx dy dz : ℝ) (py pz : ℝ → ℝ) (hy0 : py x0 = y0) (hy1 : py (x0 + dx) = y0 + dy)
    (hz0 : pz x0 = z0) (hz1 : pz (x0 + dx) = z0 + dz) :
    (py x0, pz x0) = (y0, z0) ∧ (py (x0 + dx), pz (x0 + dx)) = (y0 + dy, z0 + dz) ∧
      (y0 + dy / 2 + dy / 2, z0 + dz + -dz) = (y0 + dy, z0) := by
  refine ⟨by simp [hy0, hz0], by simp [hy1, hz1], ?_⟩
  congr 1 <;> ring

/-! ### the two-mode coupler helper -/

/-- the two arms built by `coupler()` (entry y `y0` and `y0 + pitch`, bends of `±dy_bend`) are exactly `int_dist`
apart in the interaction region, one pitch apart before and after it, and the interaction region is centred on the sample -/
theorem coupler_helper {K : Type} [Field K] [CharZero K] (y0 pitch intDist sx dxBend il : K) :
    let dyb := dyBend pitch intDist
    let lx := (sx - (2 * dxBend + il)) / 2
    ((y0 + pitch + -dyb) - (y0 + dyb) = intDist) ∧
    ((y0 + pitch + -dyb + dyb) - (y0 + dyb + -dyb) = pitch) ∧
    ((lx + dxBend) + il / 2 = sx / 2) := by
  simp only [dyBend]
  refine ⟨by ring, by ring, by ring⟩

/-! ### straight segments and `end` (exact rationals) -/

open Femto.Pth in
/-- `linear`: ABS goes to the given coordinates keeping those given as `None`; INC adds the increments (`None` = 0);
the new point carries the per-call speed if given, else the attribute, and the requested shutter value -/
theorem linear_spec (a : Attrs) (t : Traj) (l : Row Rat) (dx dy dz : Option Rat) (abs : Bool) (s : Rat) (sp : Option Rat) :
    ∃ r, linear a dx dy dz abs s sp (t ++ [l]) = .ok (t ++ [l] ++ [r]) ∧ r.s = s ∧ r.f = sp.getD a.speed ∧
      (abs = true → (r.x, r.y, r.z) = (dx.getD l.x, dy.getD l.y, dz.getD l.z)) ∧
      (abs = false → (r.x, r.y, r.z) = (l.x + dx.getD 0, l.y + dy.getD 0, l.z + dz.getD 0)) := by
  refine ⟨nextRow a l dx dy dz abs s sp, linear_snoc a t l dx dy dz abs s sp, ?_, ?_, ?_, ?_⟩ <;>
    cases abs <;> simp [nextRow]

open Femto.Pth in
/-- **ending a path returns to its first point with the shutter closed** (at `speed_closed`), after closing the shutter
where the path stood -/
theorem end_returns (a : Attrs) (h : Row Rat) (t : Traj) (l : Row Rat) :
    ∃ r1 r2, finish a (h :: (t ++ [l])) = .ok (h :: (t ++ [l]) ++ [r1, r2]) ∧
      (r1.x, r1.y, r1.z, r1.s) = (l.x, l.y, l.z, 0) ∧ (r2.x, r2.y, r2.z, r2.f, r2.s) = (h.x, h.y, h.z, a.speedClosed, 0) :=
  ⟨_, _, finish_snoc a h t l, rfl, rfl⟩

end Femto.C04

import FemtoVerif.Driver.Json
import FemtoVerif.Model.Raster
open Lean

namespace Femto.Driver.C15
open Femto Femto.Driver Femto.Ras

def p3J (p : P3) : Json := listJ ratJ [p.1, p.2.1, p.2.2]

/-- op `c15.raster`: `{img: [[bool]], px, z, speed, speed_closed}` → the model path, its strokes, the specified strokes -/
def raster (j : Json) : Except String Json := do
  let img ← jList? (jList? jBool?) (← field j "img")
  let px ← jRat? (← field j "px")
  let z ← jRat? (← field j "z")
  let sp ← jRat? (← field j "speed")
  let sc ← jRat? (← field j "speed_closed")
  let path := imagePath img px z sp sc
  pure <| obj [("strokes", listJ (listJ p3J) (strokes path)), ("expected", listJ (listJ p3J) (expectedStrokes img px z)),
               ("path", listJ (fun (r : Row Rat) => listJ ratJ [r.x, r.y, r.z, r.f, r.s]) path)]

end Femto.Driver.C15

import FemtoVerif.Driver.Json
import FemtoVerif.Model.Sampling
open Lean

namespace Femto.Driver.C13
open Femto Femto.Driver Femto.Smp

/-- op `c13.count`: `{f, rate, L}` → number of points, the exact quotient `L / (f / rate)` and its distance to the
nearest integer (the harness skips float-boundary cases) -/
def count (j : Json) : Except String Json := do
  let f ← jRat? (← field j "f")
  let rate ← jRat? (← field j "rate")
  let L ← jRat? (← field j "L")
  let quo : Rat := if f = 0 ∨ rate = 0 then 0 else L / (f / rate)
  let frac := quo - quo.floor
  let dist := if frac < 1 - frac then frac else 1 - frac
  pure <| match numSubdivisions f rate L with
    | .error _ => obj [("error", Json.str "ValueError")]
    | .ok n => obj [("n", natJ n), ("quo", ratJ quo), ("dist_int", ratJ dist)]

end Femto.Driver.C13

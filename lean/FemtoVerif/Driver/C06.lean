import FemtoVerif.Driver.Json
import FemtoVerif.Driver.Gc
import FemtoVerif.Spec.Tree
import FemtoVerif.Model.TrenchProg
open Lean

namespace Femto.Driver.C06
open Femto Femto.Driver Femto.Ctl Femto.Driver.GcD

/-- number of moves and last position of a flattened inner trace -/
def countMoves : List TEv → Nat
  | [] => 0
  | .ev (.move _) :: r => 1 + countMoves r
  | .ev _ :: r => countMoves r
  | .sub _ _ inner :: r => countMoves inner + countMoves r

/-- nested trace; the moves of a leaf sub-program are summarised (the harness reads the leaf file itself) -/
partial def tevJ (leaf : String → Bool) : List TEv → List Json
  | [] => []
  | .ev e :: r => evJ e :: tevJ leaf r
  | .sub k s inner :: r =>
    (if leaf k then
      obj [("t", "sub"), ("k", Json.str k), ("s", Json.bool s), ("leaf", Json.bool true), ("nmoves", natJ (countMoves inner)),
           ("errs", listJ Json.str (errsOf (flattenT inner)))]
    else
      obj [("t", "sub"), ("k", Json.str k), ("s", Json.bool s), ("leaf", Json.bool false), ("inner", Json.arr (tevJ leaf inner).toArray)])
    :: tevJ leaf r

/-- every `REPEAT` / `FOR` of a structured program, with the wall-loop parameters when its body has that shape -/
partial def loopsOf : List Stmt → List Json
  | [] => []
  | .atom _ :: r => loopsOf r
  | .rep n body :: r =>
    (match matchWallLoop body with
     | some (q, p, dz) => obj [("kind", "repeat"), ("n", natJ n), ("wall_loop", Json.bool true), ("p", Json.str p), ("dz", ratJ dz),
                               ("dwell", match q with | some q => ratJ q | none => Json.null)]
     | none => obj [("kind", "repeat"), ("n", natJ n), ("wall_loop", Json.bool false)]) :: (loopsOf body ++ loopsOf r)
  | .forr _ _ _ body :: r => obj [("kind", "for"), ("wall_loop", Json.bool false)] :: (loopsOf body ++ loopsOf r)

/-- op `ctl.tree`: `{files: [[name, text]...], main, fuel}` → per-file static report, tree discipline, nested trace of `main`.
Every event carries nothing but what the controller model computed from the real bytes. -/
def tree (j : Json) : Except String Json := do
  let files ← (← jArr? (← field j "files")).mapM fun e => do
    match ← jArr? e with
    | [n, t] => pure ((← jStr? n), (← jStr? t))
    | _ => .error "file = [name, text]"
  let main ← jStr? (← field j "main")
  let fuel ← jNat? (fieldD j "fuel" (Json.num 4))
  let fileId := fun (n : String) => String.intercalate "/" (pathComps n)
  let parsed := files.map fun (n, t) => (n, parseProgram t)
  let structured := parsed.map fun (n, is) => (fileId n, structure? is)
  let t : Tree := structured.filterMap fun (k, s) => s.map fun b => (k, b)
  let leaf := treeLeaf t
  let report := parsed.map fun (n, is) =>
    let body := structure? is
    obj [("name", Json.str n), ("id", Json.str (fileId n)), ("key", Json.str (progKey n)), ("lines", natJ is.length),
         ("balanced", Json.bool body.isSome),
         ("bad", listJ Json.str (badLines is)),
         ("leaf", Json.bool (match body with | some b => isLeafBody b | none => false)),
         ("leaf_xy", Json.bool (match body with | some b => isLeafXY b | none => false)),
         ("loops", Json.arr (match body with | some b => (loopsOf b).toArray | none => #[])),
         ("disciplined", Json.bool (match body with | some b => disciplined leaf b | none => false))]
  let run := runTree t fuel (fileId main)
  pure <| obj [("files", Json.arr report.toArray), ("tree_disciplined", Json.bool (treeDisciplined t)),
    ("duplicate_ids", Json.bool ((t.map (·.1)).eraseDups.length != t.length)),
    ("trace", match run with | some r => Json.arr (tevJ leaf r.2).toArray | none => Json.null),
    ("final", match run with
      | some r => obj [("shutter", Json.bool r.1.shutter), ("loaded", listJ Json.str r.1.loaded), ("pos", posJ r.1.pos)]
      | none => Json.null)]

/-- op `c06.depth`: `{h, zoff, dz, nboxz}` → `{n, schedule, floors}` -/
def depth (j : Json) : Except String Json := do
  let h ← jRat? (← field j "h")
  let zoff ← jRat? (← field j "zoff")
  let dz ← jRat? (← field j "dz")
  let nb ← jNat? (← field j "nboxz")
  pure <| obj [("n", natJ (TP.nRepeat h zoff dz)), ("schedule", listJ ratJ (TP.schedule h zoff dz nb)),
               ("floors", listJ ratJ ((List.range nb).map (TP.floorZ h zoff dz)))]

/-- op `c06.farcall`: `{cfg, col}` → the instructions of the model's call file for that column (comments and blank lines dropped,
as `ctl.run` does for the real file) -/
def farcall (j : Json) : Except String Json := do
  let cfg ← cfgOf (← field j "cfg")
  let cj ← field j "col"
  let inits ← jList? (fun e => do match ← jList? jRat? e with | [x, y] => pure (x, y) | _ => .error "init = [x, y]") (← field cj "inits")
  let u ← match fieldD cj "u" Json.null with
    | Json.null => pure none
    | e => do match ← jList? jRat? e with | [a, b] => pure (some (a, b)) | _ => .error "u = [u0, ulast]"
  let col : Femto.TP.Col := {
    index := ← jNat? (← field cj "index"), nboxz := ← jNat? (← field cj "nboxz"), nRep := ← jInt? (← field cj "n_repeat"),
    baseFolder := ← jStr? (← field cj "base_folder"), inits := inits, hBox := ← jRat? (← field cj "h_box"),
    zOff := ← jRat? (← field cj "z_off"), deltaz := ← jRat? (← field cj "deltaz"),
    speedClosed := ← jRat? (← field cj "speed_closed"), u := u,
    upper := (fieldD cj "upper" (Json.bool false)) == Json.bool true,
    beds := ← jList? (fun e => do match ← jList? jRat? e with | [x, y] => pure (x, y) | _ => .error "bed = [x, y]") (fieldD cj "beds" (Json.arr #[])) }
  let cs0 : Femto.Gc.CS := {}
  let r := Femto.TP.farcallBody cfg col cs0
  let f := Femto.TP.farcallFile cfg col
  pure <| obj [("err", Json.bool r.err.isSome),
               ("instrs", listJ instrJ ((flattenStmts f.1).filter (fun i => !isNoise i))),
               ("reported_dwell", ratJ f.2.dwellTotal)]

/-- op `c06.leaf`: `{cfg, pts: [[x, y]...], speed, decel: [bool...]}` → the instructions of the model's leaf file -/
def leaf (j : Json) : Except String Json := do
  let cfg ← cfgOf (← field j "cfg")
  let pts ← jList? (fun e => do match ← jList? jRat? e with | [x, y] => pure (x, y) | _ => .error "pt = [x, y]") (← field j "pts")
  let speed ← jRat? (← field j "speed")
  let decel ← jList? jBool? (← field j "decel")
  match Femto.TP.leafFile cfg pts speed decel with
  | .ok is => pure <| obj [("err", Json.bool false), ("instrs", listJ instrJ is)]
  | .error _ => pure <| obj [("err", Json.bool true), ("instrs", Json.arr #[])]

end Femto.Driver.C06

import FemtoVerif.Driver.Gc
import FemtoVerif.Model.Writers
open Lean

namespace Femto.Driver.C08
open Femto Femto.Driver Femto.Ctl Femto.Gc Femto.Wr Femto.Driver.GcD

def wgOf (j : Json) : Except String WG := do
  pure { pts := ← jList? ptOf (← field j "pts"), scan := ← jInt? (← field j "scan") }

def nasuOf (j : Json) : Except String Nasu := do
  match ← jList? jRat? (← field j "shift") with
  | [dx, dy, dz] =>
    pure { pts := ← jList? ptOf (← field j "pts"), adjScan := ← jNat? (← field j "adj_scan"), dx := dx, dy := dy, dz := dz }
  | _ => .error "shift must have three entries"

/-- op `c08.writer`: `{cfg, kind: wg|nasu|mk, objs, export_dir, filename}` → model session of the writer + file name -/
def writer (j : Json) : Except String Json := do
  let cfg ← cfgOf (← field j "cfg")
  let kind ← jStr? (← field j "kind")
  let dir ← jStr? (← field j "export_dir")
  let fname ← jStr? (← field j "filename")
  let (ops, suffix, empty) ← match kind with
    | "wg" => do
      let bs ← jList? (jList? wgOf) (← field j "objs")
      pure (wgOps bs, "_WG", bs.isEmpty)
    | "nasu" => do
      let ws ← jList? nasuOf (← field j "objs")
      pure (nasuOps ws, "_NASU", ws.isEmpty)
    | "mk" => do
      let ms ← jList? wgOf (← field j "objs")
      pure (mkOps ms, "_MK", ms.isEmpty)
    | _ => .error "unknown writer kind"
  let file := outFile dir fname suffix empty
  let r := session cfg ops
  pure <| obj [("file", match file with | some f => Json.str f | none => Json.null),
               ("prog", analyse (flattenStmts r.1) false), ("reported_dwell", ratJ r.2.dwellTotal)]

/-- op `c08.adj`: `{n}` → adjacent pass order -/
def adj (j : Json) : Except String Json := do
  pure (listJ ratJ (adjScanOrder (← jNat? (← field j "n"))))

end Femto.Driver.C08

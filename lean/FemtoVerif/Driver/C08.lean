import FemtoVerif.Driver.Gc
import FemtoVerif.Model.Writers
import FemtoVerif.Spec.C08
open Lean

namespace Femto.Driver.C08
open Femto Femto.Driver Femto.Ctl Femto.Gc Femto.Wr Femto.Driver.GcD

def wgOf (j : Json) : Except String WG := do
  pure { pts := ← jList? ptOf (← field j "pts"), scan := ← jInt? (← field j "scan") }

def nasuOf (j : Json) : Except String Nasu := do
  match ← jList? jRat? (← field j "shift") with
  | [dx, dy, dz] =>
    pure { pts := ← jList? ptOf (← field j "pts"), adjScan := ← jNat? (← field j "adj_scan"), dx := dx, dy := dy, dz := dz }
  | _ => .error "shift must have three entries"

/-- the part of a session before the user's operations (as in `Gc.session`) -/
def headOf (cfg : Cfg) : Out :=
  let h := seq (seq (emit (cfg.header ++ [.blank]), ({} : CS)) (dwell (some 1))) fun cs => (emit [.blank], cs)
  if cfg.aeroAngle = 0 then h else seq h (enterRot cfg (some cfg.aeroAngle))

def printedOf (cfg : Cfg) (m : List Pt) : Option (List (G1W × Rat)) :=
  match printed cfg m with | .ok ws => some ws | .error _ => none

/-- the moves theorem `C08.wg_groups_replayed` / `nasu_passes_replayed` / `mk_scans_replayed` promises for the structures,
starting where the session head leaves the machine; `skip` = number of moves the head itself makes -/
def specMoves (cfg : Cfg) (groups : Option (List (List (List (G1W × Rat)) × Nat))) : Json :=
  match groups with
  | none => Json.null
  | some gs =>
    let r := execStmts (headOf cfg).1 {}
    obj [("skip", toJson (movesOf r.2).length), ("moves", listJ moveJ (groupsFrom r.1.pos gs))]

/-- op `c08.writer`: `{cfg, kind: wg|nasu|mk, objs, export_dir, filename}` → model session of the writer + file name -/
def writer (j : Json) : Except String Json := do
  let cfg ← cfgOf (← field j "cfg")
  let kind ← jStr? (← field j "kind")
  let dir ← jStr? (← field j "export_dir")
  let fname ← jStr? (← field j "filename")
  let (ops, suffix, empty, groups) ← match kind with
    | "wg" => do
      let bs ← jList? (jList? wgOf) (← field j "objs")
      let gs := bs.mapM fun b => do
        let wss ← b.mapM fun w => printedOf cfg w.pts
        pure (wss, (match b with | w :: _ => w.scan.toNat | [] => 0))
      pure (wgOps bs, "_WG", bs.isEmpty, gs)
    | "nasu" => do
      let ws ← jList? nasuOf (← field j "objs")
      let gs := ws.mapM fun w => do
        let wss ← (adjScanOrder w.adjScan).mapM fun k => printedOf cfg (shiftPts w.pts k w.dx w.dy w.dz)
        pure (wss, 1)
      pure (nasuOps ws, "_NASU", ws.isEmpty, gs)
    | "mk" => do
      let ms ← jList? wgOf (← field j "objs")
      let gs := ms.mapM fun m => do pure ([← printedOf cfg m.pts], m.scan.toNat)
      pure (mkOps ms, "_MK", ms.isEmpty, gs)
    | _ => .error "unknown writer kind"
  let file := outFile dir fname suffix empty
  let r := session cfg ops
  pure <| obj [("file", match file with | some f => Json.str f | none => Json.null),
               ("prog", analyse (flattenStmts r.1) false), ("reported_dwell", ratJ r.2.dwellTotal),
               ("spec", specMoves cfg groups)]

/-- op `c08.adj`: `{n}` → adjacent pass order -/
def adj (j : Json) : Except String Json := do
  pure (listJ ratJ (adjScanOrder (← jNat? (← field j "n"))))

end Femto.Driver.C08

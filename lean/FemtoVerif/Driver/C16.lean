import FemtoVerif.Driver.Json
import FemtoVerif.Model.Containers
open Lean

namespace Femto.Driver.C16
open Femto Femto.Driver Femto.Cont

def tyOf (s : String) : Ty :=
  match s with
  | "wg" => .wg | "nasu" => .nasu | "tc" => .tc | "utc" => .utc | "mk" => .mk
  | _ =>
    -- "foreign:<n>": objects of different Python types are different foreign types (the group homogeneity check sees that)
    match s.splitOn ":" with
    | [_, n] => .foreign (n.toNat?.getD 0)
    | _ => .foreign 0

partial def itemOf (j : Json) : Except String Item := do
  match j.getObjVal? "g" with
  | .ok g => pure (.grp (← jList? itemOf g))
  | .error _ => pure (.obj (← jNat? (← field j "o")) (tyOf (← jStr? (← field j "t"))))

partial def itemJ : Item → Json
  | .obj i _ => natJ i
  | .grp l => Json.arr (l.map itemJ).toArray

def devJ (d : Dev) : Json :=
  obj [("wg", listJ itemJ d.wg), ("nasu", listJ itemJ d.nasu), ("tc", listJ itemJ d.tc), ("utc", listJ itemJ d.utc), ("mk", listJ itemJ d.mkr)]

def errJ : Option CErr → Json
  | none => Json.null
  | some .typeError => Json.str "TypeError"
  | some .valueError => Json.str "ValueError"
  | some .indexError => Json.str "IndexError"

/-- op `c16.history`: `{calls}` → after every call the error (if any) and the five collections -/
def history (j : Json) : Except String Json := do
  let calls ← jArr? (← field j "calls")
  let mut dev : Dev := {}
  let mut out : Array Json := #[]
  for c in calls do
    let k ← jStr? (← field c "k")
    let r ← match k with
      | "append" => do pure (devAppend dev (← itemOf (← field c "v")))
      | "extend" => do pure (devExtend dev (← jList? itemOf (← field c "items")))
      | _ => Except.error "unknown call"
    dev := r.1
    out := out.push (obj [("err", errJ r.2), ("dev", devJ dev)])
  pure (Json.arr out)

end Femto.Driver.C16

import FemtoVerif.Driver.Json
import FemtoVerif.Model.Filter
open Lean

namespace Femto.Driver.C11
open Femto Femto.Driver

def rowOf (j : Json) : Except String (Row Rat) := do
  match ← jList? jRat? j with
  | [x, y, z, f, s] => pure ⟨x, y, z, f, s⟩
  | _ => .error "row must have 5 entries"

def rowJ (r : Row Rat) : Json := listJ ratJ [r.x, r.y, r.z, r.f, r.s]

def tripleJ (t : Rat × Rat × Rat) : Json := listJ ratJ [t.1, t.2.1, t.2.2]

/-- op `c11.views`: raw rows → every view the model defines -/
def views (j : Json) : Except String Json := do
  let raw ← jList? rowOf (← field j "rows")
  pure <| obj [
    ("points", listJ rowJ (points raw)),
    ("x", listJ ratJ (xs raw)), ("y", listJ ratJ (ys raw)), ("z", listJ ratJ (zs raw)),
    ("lastx", optRatJ (lastx raw)), ("lasty", optRatJ (lasty raw)), ("lastz", optRatJ (lastz raw)),
    ("lastpt", match lastpt raw with | none => Json.null | some t => tripleJ t),
    ("path3d", listJ tripleJ (path3d raw))]

/-- op `c11.filter`: generic rows (lists of rationals of any width) -/
def filter (j : Json) : Except String Json := do
  let rows ← jList? (jList? jRat?) (← field j "rows")
  pure <| obj [("out", listJ (listJ ratJ) (uniqueFilter rows))]

/-- op `c11.split`: `arr` (integers) and `mask` (booleans) -/
def split (j : Json) : Except String Json := do
  let arr ← jList? jInt? (← field j "arr")
  let mask ← jList? jBool? (← field j "mask")
  pure <| match splitMask arr mask with
    | none => obj [("error", Json.str "IndexError")]
    | some r => obj [("out", listJ (listJ intJ) r)]

end Femto.Driver.C11

import FemtoVerif.Driver.Json
import FemtoVerif.Model.Waveguide
open Lean

namespace Femto.Driver.C04
open Femto Femto.Driver Femto.Wg

instance : NatCast Float := ⟨Float.ofNat⟩

/-- the floating-point interpretation of the transcendental functions (used only to *run* the model) -/
def FT : Trig Float := ⟨Float.cos, Float.sin, Float.acos, Float.sqrt, Float.abs, 3.141592653589793⟩

/-- floats travel as the integer of their IEEE-754 bit pattern (exact both ways) -/
def jF (j : Json) : Except String Float :=
  match j with
  | .num n => if n.exponent == 0 && n.mantissa ≥ 0 then .ok (Float.ofBits (UInt64.ofNat n.mantissa.toNat)) else .error s!"not a bit pattern: {j}"
  | _ => .error s!"not a number: {j}"

def fJ (f : Float) : Json := Json.num (JsonNumber.fromNat f.toBits.toNat)

def pJ (p : P Float) : Json := Json.arr #[fJ p.x, fJ p.y, fJ p.z]

def fld (j : Json) (k : String) : Except String Float := do jF (← field j k)

/-- one segment operation → new end point -/
def stepOp (p : P Float) (j : Json) : Except String (P Float) := do
  let k ← jStr? (← field j "k")
  match k with
  | "circ" => pure (circEnd FT p (← fld j "r") (← fld j "a0") (← fld j "a1"))
  | "arc_bend" => do
    let dy ← fld j "dy"
    pure (arcBendEnd FT p dy (← fld j "r") (decide (dy > 0)))
  | "arc_coupler" => do
    let dy ← fld j "dy"
    pure (arcCouplerEnd FT p dy (← fld j "r") (← fld j "il") (decide (dy > 0)) (decide (-dy > 0)))
  | "arc_mzi" => do
    let dy ← fld j "dy"
    pure (arcMziEnd FT p dy (← fld j "r") (← fld j "il") (← fld j "al") (decide (dy > 0)) (decide (-dy > 0)))
  | "sin" => do
    let dy ← fld j "dy"
    let r ← fld j "r"
    let dx ← match j.getObjVal? "dx" with
      | .ok (.num n) => jF (.num n)
      | _ => pure (sbendLength FT dy r)
    pure (sinEnd FT p dx dy (← fld j "dz") (← fld j "fp") (← fld j "wy") (← fld j "wz"))
  | "sin_coupler" => do
    let dy ← fld j "dy"
    let r ← fld j "r"
    let dx := sbendLength FT dy r
    let p1 := sinEnd FT p dx dy 0 (← fld j "fp") 1 2
    let p2 := advance p1 (Float.abs (← fld j "il"))
    pure (sinEnd FT p2 (sbendLength FT (-dy) r) (-dy) 0 (← fld j "fp") 1 2)
  | "advance" => pure (advance p (← fld j "d"))
  | "set" => pure ⟨← fld j "x", ← fld j "y", ← fld j "z"⟩
  | _ => .error s!"unknown segment {k}"

/-- op `c04.chain`: `{start: [x,y,z], ops: [...]}` → end point after every operation -/
def chain (j : Json) : Except String Json := do
  let s ← jList? jF (← field j "start")
  let p0 : P Float ← match s with
    | [x, y, z] => pure ⟨x, y, z⟩
    | _ => .error "start must have three entries"
  let ops ← jArr? (← field j "ops")
  let mut p := p0
  let mut out : Array Json := #[]
  for o in ops do
    p ← stepOp p o
    out := out.push (pJ p)
  pure (Json.arr out)

/-- op `c04.sbend`: `{dy, r}` → angle and length -/
def sbend (j : Json) : Except String Json := do
  let dy ← fld j "dy"
  let r ← fld j "r"
  pure (Json.arr #[fJ (sbendAngle FT dy r), fJ (sbendLength FT dy r)])

end Femto.Driver.C04

import FemtoVerif.Driver.Json
import FemtoVerif.Model.Trench
open Lean

namespace Femto.Driver.C05
open Femto Femto.Driver Femto.Tr

/-- op `c05.dig`: `{lows: [lowest y of raw block i ...], remove: [indices], bridge, waist, rc}` →
`{order: numbering of the raw blocks, kept: surviving raw blocks in order | null (IndexError), adj}` -/
def dig (j : Json) : Except String Json := do
  let lows ← jList? jRat? (← field j "lows")
  let remove ← jList? jNat? (← field j "remove")
  let bridge ← jRat? (← field j "bridge")
  let waist ← jRat? (← field j "waist")
  let rc ← jRat? (← field j "rc")
  let raw := lows.zipIdx
  let order := (orderBlocks raw).map (·.2)
  let kept := Tr.dig raw id remove
  pure <| obj [("order", listJ natJ order),
               ("kept", match kept with | some k => listJ natJ k | none => Json.null),
               ("adj", ratJ (adjBridge bridge waist rc))]

end Femto.Driver.C05

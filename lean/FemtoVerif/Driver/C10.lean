import FemtoVerif.Driver.Json
import FemtoVerif.Model.Finite
open Lean

namespace Femto.Driver.C10
open Femto Femto.Driver Femto.Fin

def extOf (j : Json) : Except String Ext :=
  match j with
  | .str "inf" => .ok .pinf
  | .str "-inf" => .ok .ninf
  | .str "nan" => .ok .nan
  | _ => (jRat? j).map Ext.fin

def erowOf (j : Json) : Except String ERow := do
  match ← jList? extOf j with
  | [x, y, z, f, s] => pure ⟨x, y, z, f, s⟩
  | _ => .error "row must have 5 entries"

/-- op `c10.addpath`: `{rows}` → outcome of the guard on an empty path -/
def addpath (j : Json) : Except String Json := do
  let rows ← jList? erowOf (← field j "rows")
  pure <| match addPath [] rows with
    | .ok t => obj [("ok", listJ (fun (r : Row Rat) => listJ ratJ [r.x, r.y, r.z, r.f, r.s]) t)]
    | .error .nonFinite => obj [("error", Json.str "nonfinite")]
    | .error .badFeed => obj [("error", Json.str "badfeed")]

end Femto.Driver.C10

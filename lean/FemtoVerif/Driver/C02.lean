import FemtoVerif.Driver.Json
import FemtoVerif.Model.Transform
open Lean

namespace Femto.Driver.C02
open Femto Femto.Driver

/-- op `c02.transform`: `{sx, sy, fx, fy, c, s, neff, pts: [[x,y,z,wz?]...]}` → transformed points (exact) -/
def transform (j : Json) : Except String Json := do
  let sx ← jRat? (← field j "sx")
  let sy ← jRat? (← field j "sy")
  let fx ← jBool? (← field j "fx")
  let fy ← jBool? (← field j "fy")
  let c ← jRat? (← field j "c")
  let s ← jRat? (← field j "s")
  let neff ← jRat? (← field j "neff")
  let pts ← jList? (jList? jRat?) (← field j "pts")
  let out ← pts.mapM fun p =>
    match p with
    | [x, y, z] => pure (transformK sx sy fx fy c s neff 0 x y z)
    | [x, y, z, wz] => pure (transformK sx sy fx fy c s neff wz x y z)
    | _ => Except.error "point must have 3 or 4 entries"
  pure <| obj [("out", listJ (fun (t : Rat × Rat × Rat) => listJ ratJ [t.1, t.2.1, t.2.2]) out)]

end Femto.Driver.C02

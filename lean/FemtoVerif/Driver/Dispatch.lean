import FemtoVerif.Driver.C11
import FemtoVerif.Driver.Gc
import FemtoVerif.Driver.C02
import FemtoVerif.Driver.C13
import FemtoVerif.Driver.C08
import FemtoVerif.Driver.C15
import FemtoVerif.Driver.C14
import FemtoVerif.Driver.C04
import FemtoVerif.Driver.C10
import FemtoVerif.Driver.C16
import FemtoVerif.Driver.C19
import FemtoVerif.Driver.C18
import FemtoVerif.Driver.C05
import FemtoVerif.Driver.C07
import FemtoVerif.Driver.C06
open Lean

namespace Femto.Driver

def dispatch (op : String) (j : Json) : Except String Json :=
  match op with
  | "c11.views" => C11.views j
  | "c11.filter" => C11.filter j
  | "c11.split" => C11.split j
  | "ctl.run" => GcD.ctlRun j
  | "gc.session" => GcD.gcSession j
  | "gc.write" => GcD.gcWrite j
  | "gc.fmt" => GcD.gcFmt j
  | "ctl.repr" => GcD.ctlRepr j
  | "c01.check" => GcD.c01Check j
  | "c02.transform" => C02.transform j
  | "c13.count" => C13.count j
  | "c08.writer" => C08.writer j
  | "c08.adj" => C08.adj j
  | "c15.raster" => C15.raster j
  | "c14.figure" => C14.figure j
  | "c04.chain" => C04.chain j
  | "c04.sbend" => C04.sbend j
  | "c10.addpath" => C10.addpath j
  | "c16.history" => C16.history j
  | "c19.paths" => C19.paths j
  | "c19.merge" => C19.merge j
  | "c19.filter" => C19.filter j
  | "c18.table" => C18.table j
  | "c05.dig" => C05.dig j
  | "c07.toolpath" => C07.toolpath j
  | "ctl.tree" => C06.tree j
  | "c06.depth" => C06.depth j
  | "c06.farcall" => C06.farcall j
  | "c06.leaf" => C06.leaf j
  | _ => .error s!"unknown op {op}"

def handleLine (line : String) : String :=
  match Json.parse line with
  | .error e => (obj [("driver_error", Json.str s!"parse: {e}")]).compress
  | .ok j =>
    match (do let op ← jStr? (← field j "op"); dispatch op j) with
    | .ok r => r.compress
    | .error e => (obj [("driver_error", Json.str e)]).compress

end Femto.Driver

import FemtoVerif.Driver.Json
import FemtoVerif.Model.Marker
open Lean

namespace Femto.Driver.C14
open Femto Femto.Driver Femto.Pth Femto.Mk Femto.Ras

def rowJ (r : Row Rat) : Json := listJ ratJ [r.x, r.y, r.z, r.f, r.s]
def p3J (p : P3) : Json := listJ ratJ [p.1, p.2.1, p.2.2]

def attrsOf (j : Json) : Except String Attrs := do
  pure { speed := ← jRat? (← field j "speed"), speedClosed := ← jRat? (← field j "speed_closed"), speedPos := ← jRat? (← field j "speed_pos") }

def triple (j : Json) : Except String (Rat × Rat × Rat) := do
  match ← jList? jRat? j with
  | [x, y, z] => pure (x, y, z)
  | _ => .error "triple expected"

def result (r : Except PErr Traj) : Json :=
  match r with
  | .error e => obj [("error", Json.str (toString (repr e)))]
  | .ok t => obj [("raw", listJ rowJ t), ("strokes", listJ (listJ p3J) (strokes t)),
                  ("last_closed", Json.bool (match t.getLast? with | some r => r.s == 0 | none => true))]

/-- op `c14.figure` -/
def figure (j : Json) : Except String Json := do
  let a ← attrsOf (← field j "attrs")
  let fig ← jStr? (← field j "fig")
  match fig with
  | "cross" => do
    let (x, y, z) ← triple (← field j "pos")
    pure (result (cross a x y z (← jRat? (← field j "lx")) (← jRat? (← field j "ly"))))
  | "ruler" => do
    let ticks ← jList? jRat? (← field j "ticks")
    pure (result (ruler a (← jRat? (← field j "depth")) (← jRat? (← field j "x_init")) (← jRat? (← field j "lx"))
      (← jRat? (← field j "lx2")) (uniqueSorted ticks)))
  | "meander" => do
    let (xi, yi, zi) ← triple (← field j "init")
    let (xf, yf, _) ← triple (← field j "final")
    pure (result (meander a xi yi zi xf yf (← jRat? (← field j "width")) (← jRat? (← field j "delta")) (← jBool? (← field j "along_x"))))
  | "ablation" => do
    let pts ← jList? triple (← field j "pts")
    pure (result (ablation a pts (← jOptRat? (← field j "shift"))))
  | "box" => do
    let (x, y, z) ← triple (← field j "corner")
    pure (result (box a x y z (← jRat? (← field j "width")) (← jRat? (← field j "height"))))
  | _ => .error "unknown figure"

end Femto.Driver.C14

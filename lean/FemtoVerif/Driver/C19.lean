import FemtoVerif.Driver.Json
import FemtoVerif.Model.Files
open Lean

namespace Femto.Driver.C19
open Femto Femto.Driver Femto.Fl

/-- op `c19.paths`: `{p, dir}` → model path functions on a name -/
def paths (j : Json) : Except String Json := do
  let p ← jStr? (← field j "p")
  let dir ← jStr? (fieldD j "dir" (Json.str ""))
  pure <| obj [("export", Json.str (exportTarget p)), ("params", Json.str (paramsTarget p)), ("pgm", Json.str (pgmTarget dir p)),
               ("stem", Json.str (Gc.stemOf p)), ("suffix", Json.str (Gc.suffixOf (Gc.posixName p))), ("name", Json.str (Gc.posixName p))]

def dictOf (j : Json) : Except String (List (String × Json)) := do
  (← jArr? j).mapM fun e => do
    match ← jArr? e with
    | [k, v] => pure ((← jStr? k), v)
    | _ => .error "pair expected"

def dictJ (d : List (String × Json)) : Json := Json.arr (d.map fun e => Json.arr #[Json.str e.1, e.2]).toArray

/-- op `c19.merge`: `{doc: [[section, [[k, v]...]]...]}` → `load_parameters` result (sections as pair lists) -/
def merge (j : Json) : Except String Json := do
  let doc ← (← jArr? (← field j "doc")).mapM fun s => do
    match ← jArr? s with
    | [k, d] => pure ((← jStr? k), (← dictOf d))
    | _ => .error "section expected"
  pure (Json.arr ((loadParams doc).map dictJ).toArray)

/-- op `c19.filter`: `{names, param}` → `from_dict` filter -/
def filter (j : Json) : Except String Json := do
  let names ← jList? jStr? (← field j "names")
  let param ← dictOf (← field j "param")
  pure (dictJ (filterKeys names param))

end Femto.Driver.C19

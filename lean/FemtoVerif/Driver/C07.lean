import FemtoVerif.Driver.Json
import FemtoVerif.Model.Floor
open Lean

namespace Femto.Driver.C07
open Femto Femto.Driver Femto.Floor

partial def shapeOf (j : Json) : Except String Shape := do
  let i ← jNat? (← field j "id")
  let e ← jBool? (← field j "empty")
  let ks ← (← jArr? (fieldD j "kids" (Json.arr #[]))).mapM shapeOf
  pure (.mk i e ks)

/-- op `c07.toolpath`: `{tree, n, drawn: [ids], w, h, d}` → `{yields: [["c"|"h", id]...], vertical: bool, lines: nat}` -/
def toolpath (j : Json) : Except String Json := do
  let tree ← shapeOf (← field j "tree")
  let n ← jNat? (← field j "n")
  let drawn ← jList? jNat? (← field j "drawn")
  let w ← jRat? (← field j "w")
  let h ← jRat? (← field j "h")
  let d ← jRat? (← field j "d")
  let ys := Floor.toolpath (fun s => drawn.contains s.id) n tree
  let yj := ys.map fun y => match y with
    | .contour s => Json.arr #[Json.str "c", natJ s.id]
    | .hatch s => Json.arr #[Json.str "h", natJ s.id]
  pure <| obj [("yields", Json.arr yj.toArray), ("vertical", Json.bool (vertical w h)), ("lines", natJ (maskLines w d))]

end Femto.Driver.C07

/-
JSON helpers for the line protocol between the Python harness and the Lean model driver.
Exact rationals travel as `[num, den]` (or a bare integer); `null` is Python's `None`.
-/
import Lean.Data.Json
open Lean

namespace Femto.Driver

abbrev R := Rat

def jInt? (j : Json) : Except String Int :=
  match j with
  | .num n => if n.exponent == 0 then .ok n.mantissa else .error s!"not an integer: {j}"
  | _ => .error s!"not an integer: {j}"

def jNat? (j : Json) : Except String Nat := do
  let i ← jInt? j
  if i < 0 then .error s!"negative: {j}" else .ok i.toNat

def jRat? (j : Json) : Except String Rat :=
  match j with
  | .arr #[n, d] => do
    let n ← jInt? n
    let d ← jInt? d
    if d == 0 then .error "zero denominator" else .ok (mkRat n d.toNat * (if d < 0 then -1 else 1))
  | .num n => .ok (mkRat n.mantissa (10 ^ n.exponent))
  | _ => .error s!"not a rational: {j}"

def jOptRat? (j : Json) : Except String (Option Rat) :=
  match j with
  | .null => .ok none
  | _ => (jRat? j).map some

def jBool? (j : Json) : Except String Bool :=
  match j with
  | .bool b => .ok b
  | _ => .error s!"not a bool: {j}"

def jStr? (j : Json) : Except String String :=
  match j with
  | .str s => .ok s
  | _ => .error s!"not a string: {j}"

def jArr? (j : Json) : Except String (List Json) :=
  match j with
  | .arr a => .ok a.toList
  | _ => .error s!"not an array: {j}"

def jList? {α : Type} (f : Json → Except String α) (j : Json) : Except String (List α) := do
  (← jArr? j).mapM f

def field (j : Json) (k : String) : Except String Json :=
  match j.getObjVal? k with
  | .ok v => .ok v
  | .error _ => .error s!"missing field {k}"

def fieldD (j : Json) (k : String) (d : Json) : Json :=
  match j.getObjVal? k with
  | .ok v => v
  | .error _ => d

def ratJ (q : Rat) : Json := Json.arr #[Json.num (JsonNumber.fromInt q.num), Json.num (JsonNumber.fromNat q.den)]

def optRatJ : Option Rat → Json
  | none => Json.null
  | some q => ratJ q

def listJ {α : Type} (f : α → Json) (l : List α) : Json := Json.arr (l.map f).toArray

def natJ (n : Nat) : Json := Json.num (JsonNumber.fromNat n)
def intJ (n : Int) : Json := Json.num (JsonNumber.fromInt n)

def obj (kvs : List (String × Json)) : Json := Json.mkObj kvs

end Femto.Driver
